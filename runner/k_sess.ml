(* k_sess.ml — case kind SESS: one connection against a world. *)
open Model
open Util

(* content spec: segments joined by '+': hex literal | z<N> (zeros) | g<N>.<a> (pattern) | "-" empty *)
let pattern_byte a j = (a + j * 31 + (j / 2048) * 17) land 255

let content_of_spec (s : string) : z list =
  if s = "-" || s = "" then [] else
  let segs = String.split_on_char '+' s in
  let parts = List.map (fun seg ->
    if seg = "" then []
    else if seg.[0] = 'z' then
      let n = int_of_string (String.sub seg 1 (String.length seg - 1)) in
      List.init n (fun _ -> byte_tab.(0))
    else if seg.[0] = 'g' then begin
      match String.split_on_char '.' (String.sub seg 1 (String.length seg - 1)) with
      | [n; a] -> let n = int_of_string n and a = int_of_string a in
                  List.init n (fun j -> byte_tab.(pattern_byte a j))
      | _ -> failwith "bad g segment"
    end else bytes_of_hex seg) segs in
  List.concat parts

(* world: preorder tokens. D <name> <mtime> <n> ... | F <name> <mtime> <content> *)
let parse_world (toks : string list) : world =
  let inodes = ref [] and next = ref 0 in
  let rec node toks =
    match toks with
    | "D" :: name :: mt :: n :: rest ->
        let n = int_of_string n in
        let rec kids k toks acc =
          if k = 0 then (List.rev acc, toks)
          else let (nm, c, toks') = node toks in kids (k - 1) toks' ((nm, c) :: acc) in
        let (cs, rest') = kids n rest [] in
        (bytes_of_hex name, Dir (z_of_hex mt, cs), rest')
    | "F" :: name :: mt :: content :: rest ->
        let i = !next in
        incr next;
        inodes := (nat_of_int i, { idata = content_of_spec content; imtime = z_of_hex mt }) :: !inodes;
        (bytes_of_hex name, File (nat_of_int i), rest)
    | _ -> failwith "bad world" in
  let (_, t, _) = node toks in
  { tree = t; inodes = List.rev !inodes; next_ino = nat_of_int !next }

let digest_out (l : z list) : string =
  let n = List.length l in
  if n <= 48 then hex_of_bytes l
  else begin
    let b = Bytes.create n in
    List.iteri (fun i z -> Bytes.set b i (Char.chr (int_of_z z))) l;
    Printf.sprintf "%d:%s" n (Digest.to_hex (Digest.bytes b))
  end

let string_of_bytes (l : z list) : string =
  let b = Buffer.create 64 in
  List.iter (fun z -> Buffer.add_char b (Char.chr (int_of_z z))) l; Buffer.contents b

(* canonical dump of a world: sorted lines "D <pathhex> <mtime>" / "F <pathhex> <mtime> <size> <md5>" *)
let dump_world (w : world) : string =
  let lines = ref [] in
  let rec go path n =
    match n with
    | Dir (mt, cs) ->
        lines := Printf.sprintf "D %s %s" (hex_of_bytes path) (hex_of_z mt) :: !lines;
        List.iter (fun (nm, c) -> go (path @ (byte_tab.(47) :: nm)) c) cs
    | File i ->
        (match get_inode w.inodes i with
         | Some x ->
             let s = string_of_bytes x.idata in
             lines := Printf.sprintf "F %s %s %d %s" (hex_of_bytes path) (hex_of_z x.imtime)
                        (String.length s) (Digest.to_hex (Digest.string s)) :: !lines
         | None -> lines := Printf.sprintf "F %s ?" (hex_of_bytes path) :: !lines) in
  go [] w.tree;
  let sorted = List.sort compare !lines in
  Digest.to_hex (Digest.string (String.concat "\n" sorted))

let parse_cfg (s : string) : cfg =
  match String.split_on_char '|' s with
  | [rootp; plen; allow; tmut] ->
      { root = List.map bytes_of_hex (split_on '/' rootp); plen = z_of_hex plen;
        allow_write = (allow = "1"); tmut = z_of_hex tmut }
  | _ -> failwith "bad cfg"

let run_sess fields =
  match fields with
  | cfgs :: worlds :: input :: mode :: _ ->
      let c = parse_cfg cfgs in
      let w = parse_world (String.split_on_char ' ' worlds) in
      let inp = content_of_spec input in
      let (((outs, closed), w'), k') = serve_all c w inp in
      let leak = hex_of_z (Z.sub k'.opens k'.closes) in
      let steps =
        if mode = "blob" then digest_out (List.concat (List.map fst outs))
        else String.concat "," (List.map (fun (o, h) -> digest_out o ^ "/" ^ hex_of_z h) outs) in
      Printf.sprintf "%s;closed=%d;leak=%s;world=%s" steps (if closed then 1 else 0) leak (dump_world w')
  | _ -> failwith "SESS: bad fields"
