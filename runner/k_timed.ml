(* k_timed.ml — case kind TIMED: fields: T(ms) data(hex) times(ms,comma separated, one per byte) *)
open Model
open Util

let run_timed fields =
  match fields with
  | [t; data; times] ->
      let data = bytes_of_hex data in
      let times = List.map (fun s -> z_of_int (int_of_string s)) (split_on ',' times) in
      let (cs, e) = tserve (nat_of_int (List.length data / 16 + 2)) (z_of_int (int_of_string t)) Z0 data times in
      let ending = match e with
        | TCut c -> Printf.sprintf "cut@%d" (int_of_z c)
        | TWait -> "wait" | TEnd -> "end" | TDone _ -> "?" in
      Printf.sprintf "handled=%d;%s" (List.length cs) ending
  | _ -> failwith "TIMED: bad fields"
