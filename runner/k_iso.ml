(* k_iso.ml — case kind ISO: fields: tree volname(hex) ps3(0|1) gamecode(hex)
   tree: preorder tokens  D <name> <time7hex> <n> ... | F <name> <sizehex> <time7hex>
   now and rnd are all zeros (masked on the implementation side too).
   Output: ERR | md5(fsbuf);files=<path:size:lba,...>;pad=<start>:<size>;total=<total> *)
open Model
open Util

let parse_tree (toks : string list) : snode =
  let rec node toks =
    match toks with
    | "D" :: name :: tm :: n :: rest ->
        let n = int_of_string n in
        let rec kids k toks acc =
          if k = 0 then (List.rev acc, toks)
          else let (c, toks') = node toks in kids (k - 1) toks' (c :: acc) in
        let (cs, rest') = kids n rest [] in
        (SDir (bytes_of_hex name, bytes_of_hex tm, cs), rest')
    | "F" :: name :: size :: tm :: rest -> (SFile (bytes_of_hex name, z_of_hex size, bytes_of_hex tm), rest)
    | _ -> failwith "bad tree" in
  fst (node toks)

let rec zeros_list n = if n <= 0 then [] else byte_tab.(0) :: zeros_list (n - 1)

let run_iso fields =
  match fields with
  | [tree; volname; ps3; gamecode] ->
      let t = parse_tree (String.split_on_char ' ' tree) in
      let now = zeros_list 17 and rnd = zeros_list 0x1C0 in
      (match build_image t (bytes_of_hex volname) (ps3 = "1") (bytes_of_hex gamecode) now rnd with
       | Err _ -> "ERR"
       | Ok bi ->
           let files = String.concat "," (List.map (fun ((p, sz), lba) ->
             String.concat "/" (List.map hex_of_bytes p) ^ ":" ^ hex_of_z sz ^ ":" ^ hex_of_z lba) bi.bi_files) in
           let b = Bytes.create (List.length bi.bi_fsbuf) in
           List.iteri (fun i z -> Bytes.set b i (Char.chr ((int_of_z z) land 255))) bi.bi_fsbuf;
           (match Sys.getenv_opt "VERIF_ISO_DUMP" with
            | Some d -> let oc = open_out_bin (Filename.concat d (Digest.to_hex (Digest.string tree) ^ ".model.bin")) in
                        output_bytes oc b; close_out oc
            | None -> ());
           Printf.sprintf "%s;files=%s;pad=%s:%s;total=%s" (Digest.to_hex (Digest.bytes b)) files
             (hex_of_z bi.bi_pad_start) (hex_of_z bi.bi_pad_size) (hex_of_z bi.bi_total))
  | _ -> failwith "ISO: bad fields"
