(* k_detect.ml — case kind DETECT: fields: cfg world path(hex) tables(keyhex:sector=plain;...|...) reads(off:n,...) *)
open Model
open Util

let run_detect fields =
  match fields with
  | [cfgs; worlds; path; tables; reads] ->
      let c = K_sess.parse_cfg cfgs in
      let w = K_sess.parse_world (String.split_on_char ' ' worlds) in
      let rel = rooted_elems (bytes_of_hex path) in
      let tabs = List.map (fun t ->
        match String.split_on_char ':' t with
        | [k; entries] ->
            let tbl = Hashtbl.create 16 in
            List.iter (fun kv -> match String.split_on_char '=' kv with
              | [s; v] -> Hashtbl.replace tbl (int_of_string s) (bytes_of_hex v)
              | _ -> ()) (split_on ';' entries);
            (k, tbl)
        | _ -> failwith "bad table") (split_on '|' tables) in
      let k = open_file c w rel in
      let content =
        match resolve c.plen w (abs_path c rel) with
        | Ok (File i) -> (match get_inode w.inodes i with Some x -> x.idata | None -> [])
        | _ -> [] in
      let dec_for key =
        let kh = hex_of_bytes key in
        match List.assoc_opt kh tabs with
        | Some tbl -> (fun s _ -> match Hashtbl.find_opt tbl (int_of_z s) with Some p -> p | None -> failwith "dec table: no such sector")
        | None -> (fun _ _ -> failwith ("no dec table for key " ^ kh)) in
      let tag, dec = match k with
        | KErr _ -> "ERR", (fun _ x -> x)
        | KVirtual (p, _) -> (if p then "VPS3" else "VDVD"), (fun _ x -> x)
        | KDir -> "DIR", (fun _ x -> x)
        | KPlain -> "PLAIN", (fun _ x -> x)
        | KEnc (key, _) -> "ENC", dec_for key
        | KEnc3k3y (key, _) -> "ENC3K3Y", dec_for key
        | KMask -> "MASK", (fun _ x -> x) in
      let rds = List.map (fun r -> match String.split_on_char ':' r with
        | [o; n] -> (z_of_int (int_of_string o), z_of_int (int_of_string n))
        | _ -> failwith "bad read") (split_on ',' reads) in
      (match k with
       | KErr _ | KVirtual _ | KDir -> tag
       | _ -> tag ^ ";" ^ String.concat "," (List.map (fun (o, n) -> K_sess.digest_out (kind_read dec k content o n)) rds))
  | _ -> failwith "DETECT: bad fields"
