(* main.ml — runs the extracted model on case files.
   stdin: one case per line, TAB-separated: id, kind, kind-specific fields.
   stdout: id TAB observation. *)
open Model
open Util

(* C14: s, parse_ip table (key=val|- , ...), atoi table, probes *)
let run_c14 fields =
  match fields with
  | [s; iptab; atoitab; probes] ->
      let s = bytes_of_hex s in
      let parse_tab conv t =
        List.map (fun kv -> match String.split_on_char '=' kv with
                   | [k; v] -> (bytes_of_hex k, if v = "!" then None else Some (conv v))
                   | _ -> failwith "bad table") (split_on ',' t) in
      let iptab = parse_tab bytes_of_hex iptab in
      let atoitab = parse_tab z_of_hex atoitab in
      let lookup tab k = try List.assoc k tab with Not_found -> failwith "oracle table miss" in
      let parse_ip k = lookup iptab k and atoi k = lookup atoitab k in
      (match parse_range parse_ip atoi s with
       | None -> "R"
       | Some r ->
           let ps = List.map bytes_of_hex (split_on ',' probes) in
           "A:" ^ String.concat "" (List.map (fun p -> String.make 1 (bool_char (contains r p))) ps)
                ^ ":" ^ hex_of_bytes r.left ^ ":" ^ hex_of_bytes r.right)
  | _ -> failwith "C14: bad fields"

let dispatch kind fields =
  match kind with
  | "C14" -> run_c14 fields
  | "SESS" -> K_sess.run_sess fields
  | "VISO" -> K_viso.run_viso fields
  | "ENC" -> K_enc.run_enc fields
  | "NOMODEL" -> "NOMODEL"
  | "LISTEN" -> K_listen.run_listen fields
  | "TIMED" -> K_timed.run_timed fields
  | "DETECT" -> K_detect.run_detect fields
  | "CONFIG" -> K_config.run_config fields
  | "ISO" -> K_iso.run_iso fields
  | "DECRYPT" -> K_tools.run_decrypt fields
  | "TARGET" -> K_tools.run_target fields
  | "SFO" -> K_sfo.run_sfo fields
  | _ -> failwith ("unknown kind " ^ kind)

let () =
  try
    while true do
      let line = input_line stdin in
      if line <> "" then begin
        match String.split_on_char '\t' line with
        | id :: kind :: fields ->
            let out = try dispatch kind fields with
              | Failure m -> "MODEL-ERROR:" ^ m
              | Not_found -> "MODEL-ERROR:not_found"
              | Stack_overflow -> "MODEL-ERROR:stack_overflow" in
            print_string id; print_char '\t'; print_string out; print_newline ()
        | _ -> ()
      end
    done
  with End_of_file -> ()
