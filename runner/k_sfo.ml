(* k_sfo.ml — case kind SFO: fields content(hex) field(hex); output V<value hex> | ERR *)
open Model
open Util

let run_sfo fields =
  match fields with
  | [content; field] ->
      (match sfo_field (bytes_of_hex content) (bytes_of_hex field) with
       | Ok v -> "V" ^ hex_of_bytes v
       | Err _ -> "ERR")
  | _ -> failwith "SFO: bad fields"
