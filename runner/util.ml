(* util.ml — I/O glue between text case files and the extracted Coq datatypes.
   Numbers travel as hexadecimal (optionally signed) so that no arithmetic is needed
   to convert them to/from Coq's binary [positive]. *)
open Model

let rec pos_of_int (n : int) : positive =
  if n <= 1 then XH
  else if n land 1 = 0 then XO (pos_of_int (n lsr 1)) else XI (pos_of_int (n lsr 1))

let z_of_int (n : int) : z =
  if n = 0 then Z0 else if n > 0 then Zpos (pos_of_int n) else Zneg (pos_of_int (-n))

let rec int_of_pos = function XH -> 1 | XO p -> 2 * int_of_pos p | XI p -> 2 * int_of_pos p + 1
let int_of_z = function Z0 -> 0 | Zpos p -> int_of_pos p | Zneg p -> - (int_of_pos p)

let rec nat_of_int n = if n <= 0 then O else S (nat_of_int (n - 1))
let rec int_of_nat = function O -> 0 | S k -> 1 + int_of_nat k

let byte_tab : z array = Array.init 256 z_of_int

let hexval c =
  match c with
  | '0'..'9' -> Char.code c - 48
  | 'a'..'f' -> Char.code c - 87
  | 'A'..'F' -> Char.code c - 55
  | _ -> failwith "bad hex digit"

(* byte string <-> hex; "-" is the empty string *)
let bytes_of_hex (s : string) : z list =
  if s = "-" || s = "" then [] else begin
    let n = String.length s / 2 in
    let rec go i acc = if i < 0 then acc
      else go (i - 1) (byte_tab.(hexval s.[2*i] * 16 + hexval s.[2*i+1]) :: acc) in
    go (n - 1) []
  end

let hexdig = "0123456789abcdef"
let hex_of_bytes (l : z list) : string =
  if l = [] then "-" else begin
    let b = Buffer.create 64 in
    List.iter (fun z -> let v = int_of_z z in
                if v < 0 || v > 255 then Buffer.add_string b "??"
                else (Buffer.add_char b hexdig.[v lsr 4]; Buffer.add_char b hexdig.[v land 15])) l;
    Buffer.contents b
  end

(* arbitrary-size numbers in hex *)
let pos_of_hex (s : string) : positive option =
  (* bits, most significant first *)
  let bits = ref [] in
  String.iter (fun c -> let v = hexval c in
                for k = 3 downto 0 do bits := ((v lsr k) land 1) :: !bits done) s;
  let msb_first = List.rev !bits in
  let rec strip = function 0 :: r -> strip r | l -> l in
  match strip msb_first with
  | [] -> None
  | _ :: rest -> Some (List.fold_left (fun p b -> if b = 1 then XI p else XO p) XH rest)

let z_of_hex (s : string) : z =
  let neg = String.length s > 0 && s.[0] = '-' in
  let body = if neg then String.sub s 1 (String.length s - 1) else s in
  match pos_of_hex body with
  | None -> Z0
  | Some p -> if neg then Zneg p else Zpos p

let hex_of_pos (p : positive) : string =
  let rec bits p acc = match p with XH -> 1 :: acc | XO q -> bits q (0 :: acc) | XI q -> bits q (1 :: acc) in
  let l = bits p [] in                      (* msb first *)
  let pad = (4 - (List.length l mod 4)) mod 4 in
  let l = List.init pad (fun _ -> 0) @ l in
  let b = Buffer.create 16 in
  let rec go = function
    | a :: c :: d :: e :: r -> Buffer.add_char b hexdig.[a*8 + c*4 + d*2 + e]; go r
    | _ -> () in
  go l; Buffer.contents b

let hex_of_z = function Z0 -> "0" | Zpos p -> hex_of_pos p | Zneg p -> "-" ^ hex_of_pos p

let split_on c s = if s = "" then [] else String.split_on_char c s

let bool_char b = if b then '1' else '0'
