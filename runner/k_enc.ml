(* k_enc.ml — case kind ENC: operation sequences on a decrypting view (Model/Crypt).
   fields: content(spec) clear(0|1) dectable(sector=plainhex;...) ops *)
open Model
open Util

let show_cres = function
  | CData (d, e) -> "D" ^ K_sess.digest_out d ^ (if e then "e" else "")
  | CEOF -> "E"
  | CErr -> "X"
  | CPos p -> "P" ^ string_of_int (int_of_z p)

let run_enc fields =
  match fields with
  | [content; clear; table; ops] ->
      let content = K_sess.content_of_spec content in
      let tbl = Hashtbl.create 64 in
      List.iter (fun kv -> match String.split_on_char '=' kv with
                  | [k; v] -> Hashtbl.replace tbl (int_of_string k) (bytes_of_hex v)
                  | _ -> failwith "bad dec table") (split_on ';' table);
      (* the cipher is external to the model: sector number -> plaintext, from the harness' own decryptor;
         the model must hand it the untouched ciphertext of exactly that sector *)
      let arr = Array.of_list content in
      let dec s x =
        let si = int_of_z s in
        let expect = Array.to_list (Array.sub arr (si * 2048) 2048) in
        if x <> expect then failwith (Printf.sprintf "dec applied to bytes that are not sector %d of the file" si);
        match Hashtbl.find_opt tbl si with
        | Some p -> p
        | None -> failwith (Printf.sprintf "dec table has no sector %d" si) in
      (match new_encrypted content (clear = "1") with
       | Err _ -> "REJECT"
       | Ok v ->
           let regs = String.concat "," (List.map (fun (s, e) -> Printf.sprintf "%d-%d" (int_of_z s) (int_of_z e)) v.ev_regions) in
           "R[" ^ regs ^ "];" ^ String.concat "," (List.map show_cres (crypt_run dec v content (K_viso.parse_ops ops))))
  | _ -> failwith "ENC: bad fields"
