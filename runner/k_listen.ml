(* k_listen.ml — case kind LISTEN: fields: limit events(a:id:ok | c:id ,...) ids *)
open Model
open Util

let run_listen fields =
  match fields with
  | [limit; events; ids] ->
      let evs = List.map (fun t -> match String.split_on_char ':' t with
        | ["a"; c; ok] -> Arrive (nat_of_int (int_of_string c), ok = "1")
        | ["c"; c] -> CloseConn (nat_of_int (int_of_string c))
        | _ -> failwith "bad event") (split_on ',' events) in
      (* observation after every event prefix: state of every connection id *)
      let ids = List.map int_of_string (split_on ',' ids) in
      let show s =
        String.concat "" (List.map (fun i ->
          let n = nat_of_int i in
          if List.mem n s.served then "S"
          else if List.mem n s.rejected then "R"
          else if List.exists (fun (c, _) -> c = n) s.backlog then "W"
          else "-") ids) in
      let rec prefixes acc pre = function
        | [] -> List.rev acc
        | e :: r -> let pre' = pre @ [e] in prefixes (show (lrun (z_of_int (int_of_string limit)) pre') :: acc) pre' r in
      String.concat "," (prefixes [] [] evs)
  | _ -> failwith "LISTEN: bad fields"
