(* k_tools.ml — case kinds of the offline tools (Model/Tools).
   DECRYPT: fields content(spec) dectable(sector=plainhex;...) mask(0|1)
            output: REJECT | ERR | md5 of the bytes the tool writes
   TARGET:  fields existing(names hex, comma) name(hex) dash(0|1)
            output: names of the directory afterwards (hex, comma) and whether the new entry holds the output *)
open Model
open Util

let run_decrypt fields =
  match fields with
  | [content; table; mask] ->
      let content = K_sess.content_of_spec content in
      let tbl = Hashtbl.create 64 in
      List.iter (fun kv -> match String.split_on_char '=' kv with
                  | [k; v] -> Hashtbl.replace tbl (int_of_string k) (bytes_of_hex v)
                  | _ -> failwith "bad dec table") (split_on ';' table);
      let arr = Array.of_list content in
      let dec s x =
        let si = int_of_z s in
        let expect = Array.to_list (Array.sub arr (si * 2048) 2048) in
        if x <> expect then failwith (Printf.sprintf "dec applied to bytes that are not sector %d of the file" si);
        match Hashtbl.find_opt tbl si with
        | Some p -> p
        | None -> failwith (Printf.sprintf "dec table has no sector %d" si) in
      (match new_encrypted content true with
       | Err _ -> "REJECT"
       | Ok _ ->
           match decrypt_output dec content (mask = "1") with
           | Err _ -> "ERR"
           | Ok out ->
               let b = Bytes.create (List.length out) in
               List.iteri (fun i z -> Bytes.set b i (Char.chr ((int_of_z z) land 255))) out;
               Digest.to_hex (Digest.bytes b))
  | _ -> failwith "DECRYPT: bad fields"

let run_target fields =
  match fields with
  | [existing; name; dash] ->
      let ex = List.map (fun n -> (bytes_of_hex n, [byte_tab.(1)])) (split_on ',' existing) in
      let out = [byte_tab.(2)] in
      let after = after_tool ex (bytes_of_hex name) (dash = "1") out in
      String.concat "," (List.map (fun (n, d) -> hex_of_bytes n ^ (if d = out then "*" else "")) after)
  | _ -> failwith "TARGET: bad fields"
