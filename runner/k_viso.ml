(* k_viso.ml — case kind VISO: operation sequences on a generated image (Model/IsoRead). *)
open Model
open Util

(* content function from a spec, without materialising the bytes (multi-GiB sparse files) *)
let data_fn (spec : string) : z -> z =
  let segs = if spec = "-" || spec = "" then [] else String.split_on_char '+' spec in
  let parsed = List.map (fun seg ->
    if seg.[0] = 'z' then (`Z, int_of_string (String.sub seg 1 (String.length seg - 1)), 0, "")
    else if seg.[0] = 'g' then begin
      match String.split_on_char '.' (String.sub seg 1 (String.length seg - 1)) with
      | [n; a] -> (`G, int_of_string n, int_of_string a, "")
      | _ -> failwith "bad g segment"
    end else (`H, String.length seg / 2, 0, seg)) segs in
  fun zi ->
    let i = int_of_z zi in
    let rec find segs base =
      match segs with
      | [] -> byte_tab.(0)
      | (k, n, a, h) :: r ->
          if i < base + n then begin
            let j = i - base in
            match k with
            | `Z -> byte_tab.(0)
            | `G -> byte_tab.(K_sess.pattern_byte a j)
            | `H -> byte_tab.(hexval h.[2*j] * 16 + hexval h.[2*j+1])
          end else find r (base + n) in
    if i < 0 then byte_tab.(0) else find parsed 0

let z_of_dec (s : string) : z = z_of_int (int_of_string s)

let parse_ops (s : string) : iso_op list =
  List.map (fun t ->
    match String.split_on_char ':' t with
    | ["r"; n] -> OpRead (z_of_dec n)
    | ["s"; off; wh] -> OpSeek (z_of_dec off, z_of_dec wh)
    | ["a"; n; off] -> OpReadAt (z_of_dec n, z_of_dec off)
    | _ -> failwith "bad op") (split_on ',' s)

let show_res = function
  | RData d -> "D" ^ K_sess.digest_out d
  | REOF -> "E"
  | RErr _ -> "X"
  | RPos p -> "P" ^ string_of_int (int_of_z p)

(* fields: fsbuf(spec) files(size:lba:spec;...) pad_start pad_size total ops *)
let run_viso fields =
  match fields with
  | [fsb; files; ps; pz; tot; ops] ->
      let vfiles = List.map (fun f ->
        match String.split_on_char ':' f with
        | [size; lba; spec] -> { vsize = z_of_dec size; vlba = z_of_dec lba; vdata = data_fn spec }
        | _ -> failwith "bad file") (split_on ';' files) in
      let img = { fsbuf = K_sess.content_of_spec fsb; vfiles = vfiles;
                  pad_start = z_of_dec ps; pad_size = z_of_dec pz; total = z_of_dec tot } in
      String.concat "," (List.map show_res (iso_run img Z0 (parse_ops ops)))
  | _ -> failwith "VISO: bad fields"
