(* k_config.ml — case kind CONFIG: fields: flag ini_user ini_cwd ini_explicit env default invalid(hex list, comma)
   each value is hex or "!" (absent).  Output: the effective raw value (hex), NONE, or ERR when it is one of the invalid texts. *)
open Model
open Util

let opt s = if s = "!" then None else Some (bytes_of_hex s)

let run_config fields =
  match fields with
  | [fl; iu; ic; ie; en; df; invalid] ->
      let ch = { ch_flag = opt fl; ch_inis = [opt iu; opt ic; opt ie]; ch_env = opt en; ch_default = opt df } in
      let bad = List.map bytes_of_hex (split_on ',' invalid) in
      (match raw_value ch with
       | None -> "NONE"
       | Some v -> if List.mem v bad then "ERR" else hex_of_bytes v)
  | _ -> failwith "CONFIG: bad fields"
