"""props — per-property configuration of ./check (jobs of the correspondence harness,
volumes per tier, evidence rule text, partial/assumption notes)."""

PROPS = {
    "C14": {
        "jobs": [{"cmd": "c14", "quick": 6000, "thorough": 120000}],
        "rule": "specs from the documented grammar and its near misses (16 generator classes: every v4/v6 prefix length, "
                "contiguous and non-contiguous masks, ranges of every width, reversed/mixed ranges, odd prefixes, malformed "
                "addresses, mapped forms, several separators, garbage) x probes at both borders +-2, random interior/exterior, "
                "4- and 16-byte forms; non-trivial = contains a separator or is accepted; distinct by hash of (spec, oracle tables, probes)",
        "assumptions": ["net.ParseIP returns nil or a 16-byte slice and rejects '/' and '-' (checked on every case)",
                        "strconv.Atoi is an opaque oracle (its result is fed to the model)"],
        "partial": [],
        "level_text": "Theorems C14_sound_complete / C14_reject / C14_accepts / C14_mapped: for every string, every result of net.ParseIP/Atoi, "
                      "every prefix length and every 4/16-byte probe, Contains decides exactly the documented numeric set and everything that is not a "
                      "documented form is rejected. Proved over a byte-level model of pkg/iprange tied to the code by a differential on the current tree.",
        "level_note": "net.ParseIP and strconv.Atoi are section variables (two hypotheses on ParseIP, checked per case).",
    },
}

# properties not registered yet, with the reason shown in MANIFEST.not_applicable
NOT_YET = {}
