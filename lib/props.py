"""props — per-property configuration of ./check: jobs of the correspondence harness, volumes per
tier, the projection of observables each property compares, evidence rule text, notes."""

OP = {"open_file": "1224", "read_critical": "1225", "read_cd": "1226", "read_file": "1227", "create": "1228",
      "write": "1229", "open_dir": "122a", "dir_entry": "122b", "delete": "122c", "mkdir": "122d", "rmdir": "122e",
      "dir_entry_v2": "122f", "stat": "1230", "dir_size": "1231", "read_dir": "1232"}


def sess_project(keep_ops=None, world=False, held=False, leak=False):
    """projection of a SESS observation 'steps;closed=..;leak=..;world=..' onto what a property is about"""
    keep = None if keep_ops is None else set(OP[o] for o in keep_ops)

    def f(fields, obs):
        steps, closed, lk, wd = obs.split(";")
        mode = fields[4] if len(fields) > 4 else "blob"
        ops = fields[5].split(",") if len(fields) > 5 else []
        out = []
        if mode == "blob":
            if keep is None:
                out.append(steps)
        else:
            for i, p in enumerate(steps.split(",")):
                if "/" not in p:
                    out.append(p)
                    continue
                d, h = p.rsplit("/", 1)
                op = ops[i] if i < len(ops) else "?"
                item = ""
                if keep is None or op in keep:
                    item = op + ":" + d
                if held:
                    item += "/" + h
                out.append(item)
        res = ",".join(out) + ";" + closed
        if leak:
            res += ";" + lk
        if world:
            res += ";" + wd
        return res
    return f


SESS_RULE = ("random worlds (depth<=3, boundary-sized files, long/non-ASCII names, siblings of the root with secrets, CD images) x "
             "sessions of 1..200 requests over all 15 opcodes with decorated/hostile paths and boundary (offset,limit) pairs, "
             "plus truncated, bit-flipped and random byte streams; non-trivial = at least 3 requests or a malformed stream; "
             "distinct by hash of (config, world, stream)")

SESS_ASSUME = ["the OS filesystem is seen through a double that enumerates directories in byte order, freezes the clock of "
               "mutations, reports 4096 as the size of directories and two fixed, distinct instants as the change and access time of "
               "every file (harness/dfs.go); the model assumes the same",
               "no symlinks inside the modelled world (symlink cases are judged by the direct oracle only)",
               "strings.ToLower is modelled on ASCII only",
               "lseek refuses offsets beyond the filesystem's limit (fs_max_offset: measured on the filesystem of the harness' worlds on every run) and "
               "negative ones; no file is larger than that limit"]

BASE_PARTIAL = []


def sess_job(quick, thorough, **proj):
    return {"cmd": "sess", "quick": quick, "thorough": thorough, "project": sess_project(**proj), "timeout": 3000}


PROPS = {
    "C14": {
        "jobs": [{"cmd": "c14", "quick": 6000, "thorough": 120000}],
        "rule": "specs from the documented grammar and its near misses (16 generator classes: every v4/v6 prefix length, "
                "contiguous and non-contiguous masks, ranges of every width, reversed/mixed ranges, odd prefixes, malformed "
                "addresses, mapped forms, several separators, garbage) x probes at both borders +-2, random interior/exterior, "
                "4- and 16-byte forms; non-trivial = contains a separator or is accepted; distinct by hash of (spec, oracle tables, probes)",
        "assumptions": ["net.ParseIP returns nil or a 16-byte slice and rejects '/' and '-' (checked on every case)",
                        "strconv.Atoi is an opaque oracle (its result is fed to the model)"],
        "partial": [],
        "level_text": "Theorems C14_sound_complete / C14_reject / C14_accepts / C14_mapped: for every string, every result of net.ParseIP/Atoi, "
                      "every prefix length and every 4/16-byte probe, Contains decides exactly the documented numeric set and everything that is not a "
                      "documented form is rejected. Proved over a byte-level model of pkg/iprange tied to the code by a differential on the current tree.",
        "level_note": "net.ParseIP and strconv.Atoi are section variables (two hypotheses on ParseIP, checked per case).",
    },
    "C01": {
        "jobs": [sess_job(300, 2500, world=True), {"cmd": "hostile", "quick": 400, "thorough": 6000, "timeout": 3000}],
        "rule": SESS_RULE + "; every 4th session is replayed against a world with different surroundings of the root (non-interference oracle); "
                "job hostile: paths assembled from '..', '.', empty elements, the names of the root's siblings, the virtual prefixes and NUL, joined by "
                "'/' and - every 4th path - by '\\' or a mix of both (one element for this server, never a way up), incl. fixed escapes such as "
                "'..\\R-other\\secret', run against two worlds that differ only outside the root",
        "assumptions": SESS_ASSUME,
        "partial": ["the spellings of the root (relative, '.', trailing slash, via flag/env/ini) are decided with C19 on the real binary; "
                    "generated images and key-file lookups are covered once C09-C11 views are part of the session model"],
        "level_text": "Theorems C01_clamp (every byte string is clamped to real entry names below the root), C01_noninterference and "
                      "C01_noninterference_stream (two worlds that agree below the root answer every request / byte stream identically and change "
                      "only below the root), C01_conn_ok, C01_outside_untouched, over the session model.",
    },
    "C02": {
        "jobs": [sess_job(320, 2500, keep_ops=["open_file", "read_file", "read_critical"]),
                 {"cmd": "views", "quick": 150, "thorough": 3000, "timeout": 3000}],
        "rule": SESS_RULE, "assumptions": SESS_ASSUME,
        "partial": ["generated images and decrypted views as the opened object are covered by C09/C10 (reader contract); "
                    "sparse files past 4 GiB are exercised by the direct oracle only"],
        "level_text": "Theorems C02_open/C02_read/C02_critical/C02_interleave/C02_slice_spec/C02_offset_refused over the session model: for every content, "
                      "every offset the filesystem can address (fs_max_offset, measured by the translator; beyond it and for negative offsets the connection "
                      "ends without a byte) and every limit the ordinary read announces the exact count and sends exactly the bytes [off, min(off+n,size)), the critical read sends them raw "
                      "and ends the connection after a correct prefix when short; other requests never disturb the opened object.",
    },
    "C03": {
        "jobs": [sess_job(320, 2500), {"cmd": "bigdir", "quick": 4, "thorough": 44, "timeout": 3000}],
        "rule": SESS_RULE, "assumptions": SESS_ASSUME, "partial": [],
        "level_text": "Theorems C03_consumes (parse inverts the documented wire format and consumes exactly 16+announced bytes), C03_stream (the byte-level "
                      "server refines the request-level semantics for every request sequence, any state, any unfinished tail), C03_shape (every response has the "
                      "documented layout) and C03_malformed, over the model of pkg/proto + pkg/server + internal/handler.",
    },
    "C05": {
        "jobs": [sess_job(320, 2500, keep_ops=["create", "write", "delete", "mkdir", "rmdir"], world=True)],
        "rule": SESS_RULE + "; after every create/delete/mkdir/rmdir the set of paths below the root is walked and compared with the set before the "
                "request: exactly the named entry appears or disappears on success, nothing on failure (oracle C05-exact; incl. mkdir of an existing "
                "directory and below a missing parent)", "assumptions": SESS_ASSUME,
        "partial": ["that generated images and decrypted views cannot be written through is decided by the hostile/sess jobs (create below a virtual prefix is "
                    "refused in the model: EPERM) and by C20's targets"],
        "level_text": "Theorems C05_readonly (for every byte stream the world after a connection equals the world before when writing is disabled), "
                      "C05_refused, C05_reads_pure, C05_create (create leaves an empty upload open or changes nothing), C05_upload_exact (any number of writes "
                      "of any sizes store exactly the concatenation, acknowledge every length, touch no other file and not the tree), C05_structure_ops (failure code = nothing changed, no content changes), C05_mkdir_truthful / "
                      "C05_remove_truthful (success code exactly when the filesystem operation succeeded) and C05_mkdir_effect / C05_remove_effect (the named "
                      "entry appears as an empty directory / disappears, the parent gets the new time and the one name more / less, every lookup that "
                      "leaves the path at any element finds the same node, ancestors keep time and names, no inode changes), over the session model.",
    },
    "C06": {
        "jobs": [sess_job(280, 2500, keep_ops=["open_dir", "dir_entry", "dir_entry_v2", "read_dir", "stat", "dir_size"]),
                 {"cmd": "links", "quick": 400, "thorough": 5000, "timeout": 3000},
                 {"cmd": "bigdir", "quick": 4, "thorough": 44, "timeout": 3000}],
        "rule": SESS_RULE + "; every STAT answer and V2 entry is also compared field by field with the harness' own stat of the file (oracles C06-stat, "
                "C06-iter, C06-times: size, mtime, change time, access time, kind); job links: trees with symlinks to files, directories and nothing; job "
                "bigdir: directories of thousands of entries", "assumptions": SESS_ASSUME,
        "partial": ["symlinks (resolved / dangling omitted) are outside the Coq model and judged by the direct oracle only"],
        "level_text": "Theorems C06_opendir, C06_bulk (READ_DIR = one record per statable entry, a permutation of the directory, true fields), "
                      "C06_iter (entry-by-entry enumeration yields each entry once then the end marker, any mix of V1/V2), C06_stat, C06_dirsize, C06_names.",
    },
    "C09": {
        "jobs": [{"cmd": "viso", "quick": 400, "thorough": 4000, "timeout": 3000}],
        "rule": "generated images of trees with 0..25 files of boundary sizes (0,1,2047,2048,2049,64KiB+-1, random; a sparse file past 4 GiB in some) x "
                "sequences of 5..45 Read/Seek/ReadAt operations with offsets at structural boundaries +-2 and lengths 1..1 MiB; the image internals "
                "(fsBuf, file table, pad area) are taken from the real object through an overlay accessor; non-trivial = the sequence touches >= 2 zones; "
                "distinct by hash of (image, ops)",
        "assumptions": ["slices.BinarySearchFunc finds the first element whose comparison is >= 0 (its documented contract for a monotone comparator)",
                        "files do not change on disk while an image is open"],
        "partial": [],
        "level_text": "Theorems C09_reader_ok (every read = the slice of one flat byte function, all offsets/lengths/zones/file sizes), C09_history "
                      "(any Read/Seek/ReadAt sequence = plain cursor semantics), C09_progress, over the zone-by-zone model of VirtualISO.read with the "
                      "iterator's own counters; image internals in the differential come from the real object.",
    },
    "C10": {
        "jobs": [{"cmd": "enc", "quick": 400, "thorough": 8000, "timeout": 3000}],
        "rule": "images of 8..48 sectors (+ partial tail) with random content and disc key, region tables of 2..60 regions (adjacent regions, "
                "regions from sector 1, to/beyond the last sector) and near-miss tables (count<2, first region not at 0, empty/reversed, overlap) x "
                "sequences of 5..35 Read/Seek/ReadAt with unaligned offsets and lengths (1,15,16,17,512,2047..70000); half of the runs over an underlying "
                "file that returns short counts at arbitrary points; header clearing on/off; dec table from the harness' own AES-CBC decryptor "
                "(cross-checked against the openssl CLI in the thorough tier); non-trivial = more than 2 regions or more than 3 reads",
        "assumptions": ["Go's crypto/aes and crypto/cipher implement AES-128-CBC (the model takes per-sector decryption as the variable dec)",
                        "io.ReadFull over io.SectionReader retries short counts"],
        "partial": [],
        "level_text": "Theorems C10_reader_ok (every positional read of the decrypting view = the slice of the whole-file reference plaintext, all offsets, "
                      "lengths and contents, for every length-preserving per-sector cipher i.e. every key), C10_history (any Read/Seek/ReadAt sequence), "
                      "C10_regions_wf (accepted tables give disjoint increasing encrypted regions, sector 0 plain), over the window/region/sector model of "
                      "EncryptedISO.ReadAt; key derivation and IV layout are checked by the independent decryptor in the differential.",
    },
    "C11": {
        "jobs": [{"cmd": "detect", "quick": 2000, "thorough": 20000, "timeout": 3000},
                 {"cmd": "views", "quick": 150, "thorough": 3000, "timeout": 3000}],
        "rule": "random points of the product: directory name case (PS3ISO/ps3iso/Ps3Iso/other) x extension case (.iso/.ISO/.Iso/.bin/none) x nesting x key "
                "situation (none, adjacent, REDKEY, both with different keys, malformed, too short, adjacent is a directory) x watermark (none, encrypted, "
                "decrypted) x file length (16 KiB, around 0xF6F..0x1071, tiny) x valid/invalid region table; opened through FS.Open, read at 7 windows "
                "overlapping 0xF70..0x1070 and the encrypted sectors (ReadAt or Seek+ReadFull); non-trivial = key lookup applies or a watermark is present",
        "assumptions": ["strings.ToLower is modelled on ASCII only", "the dec tables (one per candidate key) come from the harness' own decryptor"],
        "partial": ["the wire path for encrypted and masked views is decided by job views (every object opened and read over a real connection against the harness' own reference views), not by the session model"],
        "level_text": "Theorems C11_decision (the decision chain), C11_key_scope, C11_precedence (adjacent key > REDKEY key > embedded 3k3y key), C11_key_file, "
                      "C11_passthrough, C11_mask (exactly [0xF70,0x1070) is zeroed for every read window), C11_enc (keyed view = C10 reference plaintext; 3k3y = "
                      "decrypt then mask), over the model of FS.OpenFile / tryGetRedumpKey / ReadKeyFile / Test3k3yImage / ISO3k3y.",
    },
    "C12": {
        "jobs": [{"cmd": "conc", "quick": 10, "thorough": 300, "race": True, "timeout": 6000, "project": sess_project()},
                 {"cmd": "slow", "quick": 12, "thorough": 400, "race": True, "timeout": 6000},
                 {"cmd": "sharedimg", "quick": 8, "thorough": 300, "race": True, "timeout": 6000}],
        "rule": "2..8 (thorough: 2..64) concurrent clients against one real server built with -race, GOMAXPROCS 1..16: each client issues 10..50 requests "
                "over the shared read-only subtree (opens, reads of up to 70 KB through the pooled buffers, listings, dir-size) and over its own private "
                "writable subtree (uploads, mkdir/rmdir, delete); each client's response stream is compared with the model's prediction for that client "
                "alone; any race-detector report is a violation; every client's session is one case (all non-trivial); job slow: 2..6 clients over "
                "synchronous pipes, each reading its own 400 KB file of a distinct pattern with READ_FILE and READ_FILE_CRITICAL (1..100000 bytes); in every "
                "round some clients leave their response undrained (the server blocks in Write with the data in its transfer buffer) while the others "
                "are served, then drain; every third round one stalled client reads a part of its answer, drops the connection and comes back on a new "
                "one (connection churn): every response must announce and carry that client's own bytes; job sharedimg: 2..6 clients open the same "
                "directory as a generated image at the same moment (a tree of a few hundred files, so that the opens overlap with the scan), read "
                "different ranges in an interleaved order, close their file or drop the connection and come back while the others go on: every answer "
                "must be the bytes a lone client reads (volume time fields masked)",
        "assumptions": ["request handling is the atomic step of a schedule in the model; the Go memory model is not modelled"],
        "partial": ["the theorem covers schedules in which nothing writes; isolation of clients that write to private subtrees and freedom from data races are "
                    "decided by the -race differential only"],
        "level_text": "Theorems C12_isolation (for every interleaving of any number of connections in which nothing writes, each connection's responses equal its "
                      "solo run), C12_state_private (a step never touches another connection's state), C12_pool (the pooled transfer buffer never leaks a "
                      "previous user's bytes, for every chunking), over the session model lifted to schedules.",
    },
    "C13": {
        "jobs": [sess_job(320, 2500, keep_ops=[], held=True, leak=True),
                 {"cmd": "faults", "quick": 60, "thorough": 4000, "timeout": 6000}],
        "rule": SESS_RULE + "; job faults: six scenarios (plain file, directory enumeration with both entry commands and the bulk listing, generated image with "
                "lazily opened member files, redump image with key lookup, 3k3y image, upload/mkdir/rmdir/delete) each run once without faults, then with one "
                "control operation of the filesystem double (open, openfile, stat, fstat, seek, readat, readdirnames, mkdir, remove ...) failing with EIO - every "
                "index in turn in the thorough tier, a stride in the quick tier -, with every Read returning at most 1/7/512/2047 bytes, with the served file "
                "unreadable from offsets 0/1/999/4096/20000, and with the connection ended by EOF, an unknown opcode, a truncated request, a reset, or silence "
                "(idle / in the middle of a request, the server running with a read timeout; every boundary in the thorough tier, every third in the quick "
                "tier) at every request boundary; after each run: no open handle, connection goroutine ended, every answer = reference answer | failure code | correct prefix + "
                "disconnection (listings and directory sizes may omit what could not be examined, never invent or alter an entry)",
        "assumptions": SESS_ASSUME + ["a short count is legal for Read only: os.File.ReadAt retries, so the double never shortens a positional read"],
        "partial": ["goroutine termination, kernel descriptor accounting and hangs are runtime behaviour: watched by the harness (disconnect signal, "
                    "handle ledger of the filesystem double), not part of the theorem",
                    "filesystem faults have no counterpart in the session model: the fault half of the property is decided by the faults job only"],
        "level_text": "Theorems C13_owned (ledger invariant preserved by every handler on every exit path) and C13_released (for every input stream and "
                      "world, every handle opened for the connection is closed when it ends), over the session model with explicit open/close counters.",
    },
    "C15": {
        "jobs": [{"cmd": "admit", "quick": 120, "thorough": 4000, "timeout": 3000},
                 {"cmd": "admitbin", "quick": 24, "thorough": 600, "binary": True, "timeout": 6000}],
        "rule": "the real netutil.LimitListener + iprange.FilterListener stack (wired in the order read from cmd/ps3netsrv-go/server.go) over an in-memory "
                "listener whose connections carry scripted peer addresses in 127.0.0.0/8 and ::1; limits 0..4 (0..8 thorough), 9 whitelist specs, random "
                "arrival/close orders of up to 4N+2 clients; after every event the state of every connection (served / rejected / waiting) is compared "
                "with the model; non-trivial = at least 4 events; job admitbin: the same histories against the real binary (go build ./cmd/ps3netsrv-go) "
                "started with --max-clients / --client-whitelist (every third case both), clients over TCP from source addresses 127.0.0.1..15 and 127.0.1.x",
        "assumptions": ["the semaphore of netutil.LimitListener is modelled as a counter", "whitelist verdicts of arrivals come from the C14 oracle"],
        "partial": ["kernel backlog and scheduler fairness cannot be exhibited by the model (observed with settle windows in job admitbin)"],
        "level_text": "Theorems C15_bound (served <= N for every history), C15_filter (only whitelisted arrivals are served; rejected ones were never handed to the "
                      "server), C15_conserve (slots = served + waiting loop), C15_progress (waiting arrivals imply the limit is reached), C15_wiring, over a "
                      "transition system of the listener stack.",
    },
    "C16": {
        "jobs": [{"cmd": "timed", "quick": 72, "thorough": 400, "timeout": 3000}],
        "rule": "timing scripts against the real server with ReadTimeout T over net.Pipe: silent after connect, after k requests, stalled after 5 of 16 command bytes, "
                "inside a path, inside an upload payload, pipelined requests, long-lived sessions of 20-40 requests; gaps are <= 0.6 T or silence; the cut is "
                "expected in [T-30ms, T+max(150ms, T/2)] after the last handled request; non-trivial = at least 2 requests or a stall",
        "assumptions": ["net.Conn read deadlines make a pending Read fail at the deadline", "handling a request takes no logical time"],
        "partial": ["real clocks, goroutine exit and net.Conn deadline semantics are runtime behaviour: observed with tolerances, not part of the theorem"],
        "level_text": "Theorems C16_alive_then_cut (every request sequence of any length whose requests complete within T of the previous one is handled in full, the "
                      "deadline in force is always the re-armed one, and silence is cut exactly T after the last handled request), C16_late, C16_stalled, C16_off, "
                      "over a logical-clock model of the connection loop built on the byte-level parser.",
    },
    "C17": {
        "jobs": [sess_job(200, 1500, keep_ops=["open_file", "read_cd"]),
                 {"cmd": "cdsess", "quick": 8, "thorough": 400, "timeout": 6000, "project": sess_project(keep_ops=["open_file", "read_cd"])}],
        "rule": SESS_RULE + "; job cdsess: one connection over several CD images - every sector size x both signatures, an image without a "
                "signature, one of exactly 2 MiB (lower edge of the window, inclusive) and one a byte below it, sparse images of 848 MiB and 848 MiB + 1 (upper "
                "edge) - with opens, CLOSEFILE and sector reads "
                "(start != count, count 0, ranges crossing the end)", "assumptions": SESS_ASSUME,
        "partial": ["images at the upper edge of the window (848 MiB and one byte more; sparse files) are out of the executable model's reach: that edge is "
                    "decided by the theorem over the regenerated constants and by the oracle C17-window on the real code"],
        "level_text": "Theorems C17_args, C17_read (exact user-data slices for every sector size, image, start and count in range), C17_short, C17_detect "
                      "(the detected size is the first candidate whose 16*S+24 position carries either signature; candidates/magics regenerated from the source).",
    },
}

PROPS["C19"] = {
    "jobs": [{"cmd": "config", "quick": 63, "thorough": 900, "binary": True, "timeout": 6000}],
    "rule": "the real binary (go build ./cmd/ps3netsrv-go from the working tree) started once per case: one of 9 observable settings (root in three "
            "spellings, listen-addr, allow-write, max-clients, client-whitelist, read-timeout, debug, json-log, debug-server-listen-addr) gets its value "
            "through one of 6 channels (flag, environment, --config file, PS3NETSRV_CONFIG_FILE file, ./config.ini, user configuration directory), through two "
            "channels with conflicting values, or gets a malformed value (the first 18 cases: an empty value for max-clients, client-whitelist and read-timeout through each of the six channels); the effective value is read off the server's behaviour (marker files, mkdir "
            "result, served clients out of three, admitted source addresses, idle cut, log format, pprof port) or the exit status; all cases non-trivial",
    "assumptions": ["kong and ini.v1 are dependencies: modelled by the resolution order of Model/Config, not verified",
                    "flag and environment names and defaults come from the struct tags of serverApp (regenerated on every run)"],
    "partial": ["buffer-size has no observable effect and is not exercised", "kong/ini parsing itself is outside the model"],
    "level_text": "Theorems C19_flag_wins, C19_channel_equiv, C19_discovery, C19_fail_closed, C19_default, C19_table over the resolution model (flag > last INI "
                  "file > environment > default, then the decoder); the model is tied to the real binary by the channel matrix.",
    "technique": "Coq proof over a resolution-order model + differential against the real binary",
}


ISO_RULE = ("random source trees materialised on disk: depth 0..4, 0..8 entries per directory (some with 40..160 entries in one directory, some with "
            "100..300 directories, thorough: 300 entries / 1100 directories), names from 12 classes (portable, case-colliding, characters outside "
            "the d1 set, non-ASCII and invalid UTF-8, names that collide after mapping, 100..255 byte names), file sizes 0,1,2047,2048,2049,64 KiB+-1, "
            "random, one sparse file of 4..8 GiB; plain and PS3 mode (generated PARAM.SFO with TITLE_ID at a random index, title ids of length "
            "0,3,4,5,9,31,32); opened through FS.Open(***DVD***/***PS3***); every case non-trivial; distinct by hash of the scan observation")
ISO_ASSUME = ["the scan observation (Readdirnames order, names, sizes, mtimes) is taken by the harness with os.Open/os.Stat on the same tree the "
              "image was built from; TZ=UTC", "time.Now() and crypto/rand are the model's explicit arguments now/rnd (masked on both sides)"]

def iso_job(q, t):
    return {"cmd": "iso", "quick": q, "thorough": t, "timeout": 6000}

TOOLS_SMALL = {"cmd": "tools", "quick": 12, "thorough": 200, "binary": True, "timeout": 6000}

PROPS["C07"] = {
    "jobs": [iso_job(120, 3000), TOOLS_SMALL],
    "rule": ISO_RULE, "assumptions": ISO_ASSUME,
    "partial": ["the pieces of a walk are theorems (C07_directory_decodes: a Gallina reader recovers the records of every extent; C08_links: where every extent "
                "is; C07_every_directory_reachable: every directory is linked from its parent; C07_file_records / C07_file_bytes: the files); their composition "
                "into one recursive reader with walk(image t) = t is not formalised - the harness's own ECMA-119/Joliet reader performs that walk on every "
                "generated image; under identifier collisions between sibling directories the theorem gives reachability, not which of the colliding records "
                "belongs to which sibling",
                "the network and make-iso routes are covered by the C20 job (tool output = served view) and the session jobs (served view = library view)"],
    "level_text": "Theorems C07_layout (files tile the file area: the precondition of C09), C07_file_bytes (every file's bytes at the location its "
                  "records give), C07_file_records (both hierarchies: each directory's records are '.', '..', its files verbatim, its sub-directories; "
                  "multi-extent splitting tiles the file exactly), C07_directory_decodes / C07_built_directories_decode (an independent record-by-record "
                  "reader of the extent bytes returns exactly those records), C07_every_directory_reachable (every directory is linked from its parent's "
                  "extent with the location and length of its own '.'), C07_served_bytes, C07_names over the byte-exact model of buildFS; the model's metadata "
                  "area is compared with the real one by hash for every generated tree and an independent reader decodes both hierarchies.",
    "technique": "Coq proof over a byte-exact model of the image builder + differential (hash of metadata area, file table) + independent ISO reader",
}
SFO_JOB = {"cmd": "sfo", "quick": 600, "thorough": 30000, "timeout": 3000}

PROPS["C08"] = {
    "jobs": [iso_job(120, 3000), TOOLS_SMALL, SFO_JOB],
    "rule": ISO_RULE, "assumptions": ISO_ASSUME,
    "partial": ["child-record links are the theorem C07_every_directory_reachable; path-table parent numbering, non-overlap of "
                "directory extents and the supplementary descriptor's fields are checked by the strict validator (anchored on internal/testutil/testdata/testimg.iso) and by the byte-exact differential, not by theorems",
                "job sfo: sfoField against Model/Sfo on 26 crafted files, generated well-formed files and mutations of them (bit flips, truncations, extreme header words)"],
    "level_text": "Theorems C08_sizes, C08_volume_space, C08_record_length, C08_records (no record straddles a sector, every record fits its length "
                  "byte, for every tree), C08_links ('.' = the directory's own extent and length, '..' = the parent's, parents listed first, both "
                  "hierarchies), C08_path_tables (L/M encode one list), C08_ps3_sectors, C08_sfo_field (every well-formed PARAM.SFO, any number and order of "
                  "entries, yields the value of the requested key) over the byte-exact models of buildFS and sfoField.",
    "technique": "Coq proof over a byte-exact model of the image builder + differential + strict ECMA-119/Joliet validator",
}
PROPS["C18"] = {
    "jobs": [iso_job(120, 3000)],
    "rule": ISO_RULE + "; every tree is opened four times (once more sequentially, twice concurrently) and a sample again at the end of the run",
    "assumptions": ISO_ASSUME + ["the filesystem returns the entries of an unchanged directory in the same order on every Readdirnames (true of the "
                                 "Linux filesystems used here; the model takes the order as input)"],
    "partial": ["the network and make-iso routes are covered by the C20 job"],
    "level_text": "Theorem C18_varies_only_in_fields: for every tree the image is A ++ rnd ++ B ++ now now ++ C ++ now now ++ D with fixed A,B,C,D, file "
                  "table and size - the clock and the random source reach exactly the documented fields; the model is tied to the code byte for byte.",
    "technique": "Coq proof over a byte-exact model of the image builder + differential + re-open oracle",
}

PROPS["C20"] = {
    "jobs": [{"cmd": "tools", "quick": 48, "thorough": 1500, "binary": True, "timeout": 6000}],
    "rule": "the real binary (go build ./cmd/ps3netsrv-go from the working tree), four kinds of case in turn: make-iso of a generated tree (C07 space, depth <= 2, "
            "both modes, TITLE_IDs incl. refused ones) compared with the server's view of the same directory under the C18 mask and decoded by the "
            "independent ISO reader; decrypt redump and decrypt 3k3y of generated images (C10 space incl. invalid region tables, key files in lower/upper "
            "case with/without newline) compared with the harness' own decryptor and with Model/Tools.decrypt_output, then served back from PS3ISO/, "
            "PS3ISO/sub/ (upper-case .ISO) and games/; output to a new file or to '-' (a third of the cases); targets: one of the three tools aimed at "
            "an existing file, an existing empty file, an existing directory, a symlink to a file, '-' or a new path, with the bytes and mtimes of everything "
            "that existed compared before/after; all cases non-trivial",
    "assumptions": ["io.Copy reads with a 32 KiB buffer until io.EOF (its generic path); *os.File.Write writes all bytes or fails",
                    "the dec table (per-sector plaintext) comes from the harness' own AES-CBC decryptor, as in C10",
                    "kong evaluates the outputfile mapper before Run; the model takes 'the path exists' as os.Stat reports it"],
    "partial": ["served-back is proved for locations where no key file applies; an output placed next to a .dkey of its own name is decrypted again by design (C11)",
                "a redump plaintext that itself carries a 3k3y watermark at 0xF70 would be masked when served back (not generated)",
                "races between the existence test and the creation of the output file (another process creating the path in between) are outside the model"],
    "level_text": "Theorems C20_make_iso_copy / C20_make_iso (the copy loop writes the whole flat image of every built image), C20_decrypt (the copy of the decrypting "
                  "view is the reference plaintext, region map cleared, 3k3y area zeroed for 3k3y), C20_3k3y_output_clean, C20_served_back, C20_no_clobber, over "
                  "Model/Tools on top of the C07/C09/C10/C11 models; tied to the real binary by the tools job.",
    "technique": "Coq proof over the copy-loop / view models + differential against the real binary (hash of tool output, directory before/after)",
}

PROPS["C04"] = {
    "jobs": [{"cmd": "crash", "quick": 80, "thorough": 2400, "binary": True, "timeout": 9000},
             iso_job(40, 1200),
             {"cmd": "viso", "quick": 10, "thorough": 600, "timeout": 3000},
             {"cmd": "enc", "quick": 30, "thorough": 1500, "timeout": 3000},
             {"cmd": "tools", "quick": 12, "thorough": 300, "binary": True, "timeout": 6000},
             SFO_JOB],
    "rule": "job crash: the real binary (under an 8 GB address-space limit) serves a root of crafted content - 26 PARAM.SFO variants (truncated, bad magic, counts and "
            "offsets up to 2^32-1, TITLE_ID lengths 0,1,3,4,31,32,33,200, non-ASCII), 19 region-table variants (sizes 0..2047, counts 0,1,256,300,2^31,2^32-1, "
            "reversed/overlapping/beyond-EOF regions, partial tail) each with one of 16 key-file variants and as 3k3y twins, every key-file variant (empty, blank, "
            "non-hex, binary, 1/5/15/16/17/24/32 bytes of hex, 31 digits, 10000 digits, BOM, CRLF, upper case) next to one well-formed image, 3k3y areas cut at 9 lengths, keys and "
            "images that are directories, names of 255 bytes / invalid UTF-8, 60 levels of nesting, 1200 entries in a directory, symlink loops - to sessions of six "
            "kinds in turn (every crafted file with reads at offsets up to 2^64-1 and lengths up to 2^32-1, every directory through ***PS3***/***DVD***, listings "
            "and sizes, requests without an open object, bit-flipped/truncated valid sessions, random bytes; round-robin so that every object is visited); after "
            "each session: process alive, fresh connection served, bystander connection served; the last quarter of the cases gives the same content to make-iso "
            "and decrypt; jobs iso/viso/enc/tools: panics caught inside the library-level jobs count here as well",
    "assumptions": ["a crash is observed as process exit, refusal of new connections, silence of the bystander, a Go traceback or exit status > 1 of a tool",
                    "memory exhaustion is observed through the 8 GB address-space limit"],
    "partial": ["Go panics have no counterpart in the total Coq models: the theorems show that the modelled guards make the panicking operations unreachable in the "
                "byte-exact models (encoder widths, region count, window slicing, stream consumption); nil dereferences, slice bounds outside the modelled "
                "arithmetic and the runtime itself are covered by the crash job only",
                "sfoField is modelled (Model/Sfo, total, no allocation from declared counts) and compared with the code on crafted and mutated files (job sfo)"],
    "level_text": "Theorems C04_any_stream (every byte stream is handled to its end in length/16+1 steps), C04_malformed, C04_image_reads, C04_encrypted_reads (all offsets "
                  "and lengths stay inside the buffers), C04_builder_errors, C04_builder_fields (every fixed-width encoder receives a value that fits, every tree and "
                  "name), C04_region_table (count-driven allocation bounded), plus the crash job against the real binary.",
    "technique": "Coq proof that the panicking operations are unreachable in the byte-exact models + hostile-input runs of the real binary with liveness probes",
}

# properties not registered yet, with the reason shown in MANIFEST.not_applicable
NOT_YET = {}
