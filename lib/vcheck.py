"""vcheck — orchestration of one property check (see DESIGN.md 2.5).

Decision = (a) the Coq theorems of Properties/<id>.v are accepted by coqc in a full .vo
build and (b) the tie: regenerated constants + the extracted model and the real code agree
on every generated case + the direct oracle is silent.  Everything random derives from
VERIF_SEED.
"""
import fcntl, glob, hashlib, json, os, re, shutil, subprocess, sys, time

VERIF = os.path.dirname(os.path.dirname(os.path.abspath(__file__)))
REPO = os.environ.get("VERIF_REPO", "/repo")
BUILD = os.path.join(VERIF, "build")
COQ = os.path.join(VERIF, "coq")
RUNNER = os.path.join(VERIF, "runner")
HARNESS = os.path.join(VERIF, "harness")

GOENV = dict(os.environ, GOFLAGS="-mod=mod", GOPROXY="off", GOSUMDB="off", GOTOOLCHAIN="local",
             CGO_ENABLED=os.environ.get("CGO_ENABLED", "0"))

TRUSTED_BASE = [
    "Coq 8.16.1 kernel and coqc (full .vo build, vm_compute; no native_compute)",
    "axioms: none (Print Assumptions parsed on every run; 'Closed under the global context' required unless listed)",
    "extraction with ExtrOcamlBasic only (no Extract Constant/Inductive of our own); OCaml 4.13.1 runner glue (hex<->Z, line parser)",
    "translator genconsts (Go reflect/go-ast -> coq/Gen/Consts.v), regenerated from /repo on every run",
    "correspondence harness (Go, built into /repo's module with go build -overlay; generators, canonicalisation, direct oracles)",
    "modelled, not verified: Go runtime/stdlib, afero, kong, ini.v1, netutil, OS filesystem/sockets/timers (DESIGN.md section 6)",
]

FORBIDDEN = re.compile(r"\b(Admitted|admit|Axiom|Axioms|Parameter|Parameters|Conjecture|Conjectures|Unset\s+Guard|bypass_check|Admit\s+Obligations|type-in-type|impredicative-set)\b")


def log(*a):
    print(*a, file=sys.stderr, flush=True)


def _big_stack():
    import resource
    try:
        soft, hard = resource.getrlimit(resource.RLIMIT_STACK)
        resource.setrlimit(resource.RLIMIT_STACK, (hard, hard))
    except Exception:
        pass


def sh(cmd, cwd=None, timeout=1800, env=None, stdin=None, big_stack=False):
    try:
        p = subprocess.run(cmd, cwd=cwd, env=env, stdin=stdin, stdout=subprocess.PIPE, stderr=subprocess.STDOUT,
                           timeout=timeout, shell=isinstance(cmd, str), preexec_fn=_big_stack if big_stack else None)
        return p.returncode, p.stdout.decode("utf-8", "replace")
    except subprocess.TimeoutExpired as e:
        out = (e.stdout or b"").decode("utf-8", "replace")
        return 124, out + "\n[timeout after %ss]" % timeout


class Lock:
    def __init__(self, name):
        os.makedirs(BUILD, exist_ok=True)
        self.path = os.path.join(BUILD, name + ".lock")

    def __enter__(self):
        self.f = open(self.path, "w")
        fcntl.flock(self.f, fcntl.LOCK_EX)
        return self

    def __exit__(self, *a):
        fcntl.flock(self.f, fcntl.LOCK_UN)
        self.f.close()


def file_hash(paths):
    h = hashlib.sha256()
    for p in sorted(paths):
        h.update(p.encode())
        try:
            with open(p, "rb") as f:
                h.update(f.read())
        except OSError:
            h.update(b"<missing>")
    return h.hexdigest()


def repo_tree_hash():
    paths = []
    for root, dirs, files in os.walk(REPO):
        dirs[:] = [d for d in dirs if d not in (".git",)]
        for f in files:
            if f.endswith(".go") or f in ("go.mod", "go.sum"):
                paths.append(os.path.join(root, f))
    return file_hash(paths)


# ---------------------------------------------------------------- builds

def overlay_json():
    os.makedirs(BUILD, exist_ok=True)
    rep = {}
    for f in glob.glob(os.path.join(HARNESS, "*.go")):
        rep[os.path.join(REPO, "internal", "verifharness", os.path.basename(f))] = f
    for f in glob.glob(os.path.join(HARNESS, "overlay", "*.go")):
        # pkg__fs__zz_verif_export.go -> <repo>/pkg/fs/zz_verif_export.go
        parts = os.path.basename(f).split("__")
        rep[os.path.join(REPO, *parts)] = f
    path = os.path.join(BUILD, "overlay.json")
    with open(path, "w") as fh:
        json.dump({"Replace": rep}, fh, indent=1)
    return path


def build_harness(race=False):
    with Lock("harness"):
        ov = overlay_json()
        out = os.path.join(BUILD, "verifharness-race" if race else "verifharness")
        cmd = ["go", "build", "-tags", "verif", "-overlay", ov, "-o", out]
        env = dict(GOENV)
        if race:
            cmd.insert(2, "-race")
            env["CGO_ENABLED"] = "1"
        cmd.append("./internal/verifharness")
        rc, o = sh(cmd, cwd=REPO, env=env, timeout=1200)
        return rc == 0, o, out


def build_binary():
    """the real ps3netsrv-go binary from the current working tree"""
    with Lock("binary"):
        out = os.path.join(BUILD, "ps3netsrv-go")
        rc, o = sh(["go", "build", "-o", out, "./cmd/ps3netsrv-go"], cwd=REPO, env=GOENV, timeout=1200)
        return rc == 0, o, out


def gen_consts():
    """translator: regenerate coq/Gen/Consts.v from /repo's current source (only rewritten when changed)"""
    ok, o, hb = build_harness()
    if not ok:
        return False, "harness build failed:\n" + o
    rc, out = sh([hb, "genconsts", "-out", os.path.join(BUILD, "gen")], cwd=REPO, env=GOENV, timeout=300)
    if rc != 0:
        return False, out
    src = os.path.join(BUILD, "gen", "Consts.v")
    dst = os.path.join(COQ, "Gen", "Consts.v")
    os.makedirs(os.path.dirname(dst), exist_ok=True)
    new = open(src).read()
    old = open(dst).read() if os.path.exists(dst) else None
    if new != old:
        with open(dst, "w") as f:
            f.write(new)
    return True, out


def build_coq():
    with Lock("coq"):
        ok, o = gen_consts()
        if not ok:
            return False, "genconsts failed:\n" + o
        mk = os.path.join(COQ, "Makefile.coq")
        cp = os.path.join(COQ, "_CoqProject")
        if not os.path.exists(mk) or os.path.getmtime(mk) < os.path.getmtime(cp):
            rc, o = sh(["coq_makefile", "-f", "_CoqProject", "-o", "Makefile.coq"], cwd=COQ)
            if rc != 0:
                return False, o
        rc, o = sh(["make", "-k", "-f", "Makefile.coq", "-j16"], cwd=COQ, timeout=3000)
        return rc == 0, o


def build_runner():
    with Lock("runner"):
        srcs = (glob.glob(os.path.join(COQ, "Lib", "*.v")) + glob.glob(os.path.join(COQ, "Model", "*.v")) +
                glob.glob(os.path.join(COQ, "Gen", "*.v")) + glob.glob(os.path.join(COQ, "Spec", "*.v")) +
                [os.path.join(COQ, "Extract", "Extract.v")] + glob.glob(os.path.join(RUNNER, "*.ml")))
        srcs = [s for s in srcs if not s.endswith("model.ml")]
        stamp = os.path.join(BUILD, "runner.stamp")
        h = file_hash(srcs)
        exe = os.path.join(RUNNER, "runner")
        if os.path.exists(stamp) and os.path.exists(exe) and open(stamp).read() == h:
            return True, "runner up to date", exe
        rc, o = sh(["coqc", "-Q", COQ, "Verif", os.path.join(COQ, "Extract", "Extract.v")], cwd=RUNNER, timeout=900)
        for junk in glob.glob(os.path.join(COQ, "Extract", "Extract.*")):
            if not junk.endswith(".v"):
                os.remove(junk)
        if rc != 0:
            return False, o, exe
        for junk in glob.glob(os.path.join(RUNNER, "*.cm[iox]")) + glob.glob(os.path.join(RUNNER, "*.o")):
            os.remove(junk)
        ks = [os.path.basename(f) for f in glob.glob(os.path.join(RUNNER, "k_*.ml"))]
        order = ["k_sess.ml", "k_viso.ml"]          # kinds other kinds build on come first
        ks = [k for k in order if k in ks] + sorted(k for k in ks if k not in order)
        mls = ["model.mli", "model.ml", "util.ml"] + ks + ["main.ml"]
        rc, o2 = sh(["ocamlfind", "ocamlopt", "-O2", "-w", "-a"] + mls + ["-o", "runner"], cwd=RUNNER, timeout=900)
        if rc != 0:
            return False, o + o2, exe
        with open(stamp, "w") as f:
            f.write(h)
        return True, o + o2, exe


def gate():
    """no Admitted/admit/Axiom/Parameter/... anywhere in the development"""
    bad = []
    for f in glob.glob(os.path.join(COQ, "**", "*.v"), recursive=True):
        txt = open(f).read()
        txt = re.sub(r"\(\*.*?\*\)", "", txt, flags=re.S)
        for m in FORBIDDEN.finditer(txt):
            bad.append("%s: %s" % (os.path.relpath(f, VERIF), m.group(0)))
    return bad


def check_proofs(pid, tier="quick"):
    """full build + re-check of Properties/<pid>.v with its Print Assumptions output parsed;
    thorough tier: the compiled property file and everything it depends on re-checked by coqchk"""
    res = {"ok": False, "obligations": 0, "discharged": 0, "theorems": [], "log": ""}
    pf = os.path.join(COQ, "Properties", pid + ".v")
    src = open(pf).read() if os.path.exists(pf) else ""
    src_nc = re.sub(r"\(\*.*?\*\)", "", src, flags=re.S)
    names = re.findall(r"^\s*(?:Theorem|Corollary)\s+(\w+)", src_nc, flags=re.M)
    res["obligations"] = len(names)
    g = gate()
    if g:
        res["log"] = "forbidden constructs: " + "; ".join(g)
        return res
    ok, o = build_coq()
    build_log = ""
    if not ok:
        # the build keeps going after an error (make -k).  A file that failed has its stale object removed, so that
        # nothing can be checked against an outdated version of it; this property is broken only if its own file, or
        # anything that file depends on, is among the casualties - decided by compiling the property file itself
        failed = re.findall(r"\*\*\* \[Makefile\.coq:\d+: ([\w/]+)\.vo\] Error", o)
        if not failed:                      # not a compile error of a .v file (translator, makefile generation ...)
            res["log"] = o[-4000:]
            m = re.search(r'File "\./([^"]+)", line (\d+)', o)
            res["broken_at"] = m.group(0) if m else "build"
            return res
        for f in failed:
            for ext in (".vo", ".glob", ".vok", ".vos"):
                try:
                    os.remove(os.path.join(COQ, f + ext))
                except OSError:
                    pass
        build_log = o
        res["other_failures"] = sorted(set(failed))
    rc, o = sh(["coqc", "-Q", ".", "Verif", "-w", "-notation-overridden", "Properties/%s.v" % pid], cwd=COQ, timeout=1800)
    if rc != 0:
        res["log"] = (o[-2500:] + "\n--- build log ---\n" + build_log[-2500:]) if build_log else o[-4000:]
        m = re.search(r'File "\./([^"]+)", line (\d+)', build_log + o)
        res["broken_at"] = m.group(0) if (m and build_log) else "Properties/%s.v" % pid
        return res
    # Print Assumptions output: either "Closed under the global context" or "Axioms:" blocks
    blocks = re.split(r"(?=Closed under the global context|Axioms:)", o)
    assum = [b.strip() for b in blocks if b.startswith("Closed") or b.startswith("Axioms:")]
    printed = re.findall(r"^\s*Print Assumptions\s+(\w+)", src_nc, flags=re.M)
    closed = 0
    for i, nm in enumerate(printed):
        a = assum[i] if i < len(assum) else "?"
        a1 = "Closed under the global context" if a.startswith("Closed") else a
        res["theorems"].append({"name": nm, "assumptions": a1})
        if a.startswith("Closed"):
            closed += 1
    missing = [n for n in names if n not in printed]
    res["discharged"] = len([n for n in names if n in printed])
    res["axioms_used"] = [t for t in res["theorems"] if not t["assumptions"].startswith("Closed")]
    res["ok"] = (not missing) and len(assum) >= len(printed) and not res["axioms_used"]
    if missing:
        res["log"] = "theorems without Print Assumptions: " + ", ".join(missing)
    if res["ok"] and tier == "thorough":
        # independent checker over the compiled files; -o prints the axioms of everything loaded
        rc, o = sh(["coqchk", "-silent", "-o", "-Q", ".", "Verif", "Verif.Properties.%s" % pid], cwd=COQ, timeout=3600)
        m = re.search(r"\* Axioms:\s*(.*?)\n\s*\n", o, flags=re.S)
        axioms = (m.group(1).strip() if m else "?")
        res["coqchk"] = {"rc": rc, "axioms": axioms}
        if rc != 0 or axioms != "<none>":
            res["ok"] = False
            res["broken_at"] = "coqchk Properties/%s" % pid
            res["log"] = "coqchk: rc=%d axioms=%s\n%s" % (rc, axioms, o[-1500:])
    return res


# ---------------------------------------------------------------- correspondence

def run_model(runner_exe, cases, out, timeout):
    """evaluate the extracted model on every case line; large case files are dealt round-robin over up to 16 runner
    processes (the runner handles one line at a time, lines are independent)"""
    lines = open(cases, "rb").read().splitlines(keepends=True)
    # the extracted model recurses deeply over long lists (hence the large stack); every minor collection scans that
    # stack, so a large minor heap (16M words) makes the evaluation several times faster
    renv = dict(os.environ, OCAMLRUNPARAM="s=16M")
    nsh = max(1, min(16, len(lines)))
    if nsh == 1:
        with open(cases, "rb") as fin:
            return sh([runner_exe], stdin=fin, timeout=timeout, big_stack=True, env=renv)
    procs = []
    for k in range(nsh):
        sp = os.path.join(out, "cases.%d.tsv" % k)
        with open(sp, "wb") as f:
            f.writelines(lines[k::nsh])
        fin = open(sp, "rb")
        fo = open(os.path.join(out, "model.%d.tsv" % k), "wb")
        procs.append((subprocess.Popen([runner_exe], stdin=fin, stdout=fo, stderr=subprocess.STDOUT, preexec_fn=_big_stack, env=renv), fin, fo, sp))
    deadline = time.time() + timeout
    rc, outs = 0, []
    for k, (pr, fin, fo, sp) in enumerate(procs):
        try:
            r = pr.wait(timeout=max(1, deadline - time.time()))
        except subprocess.TimeoutExpired:
            pr.kill()
            pr.wait()
            r = 124
        fin.close()
        fo.close()
        mp = os.path.join(out, "model.%d.tsv" % k)
        txt = open(mp, "rb").read().decode("utf-8", "replace")
        if r != 0:
            rc = r
            txt += "\n[shard %d: exit %d]" % (k, r)
        outs.append(txt)
        os.remove(sp)
        os.remove(mp)
    return rc, "".join(t if t.endswith("\n") or not t else t + "\n" for t in outs)


def run_job(pid, job, tier, seed, hb, runner_exe, tag=""):
    """one harness job: generate + run implementation, run the model, diff"""
    name = job["cmd"]
    n = job.get(tier, job.get("quick", 100))
    out = os.path.join(BUILD, "run", pid, name + tag)
    shutil.rmtree(out, ignore_errors=True)
    os.makedirs(out)
    exe = hb
    env = dict(GOENV, VERIF_DIR=VERIF, VERIF_BUILD=BUILD, VERIF_REPO=REPO, VERIF_PROP=pid)
    if job.get("binary"):
        okb, ob, binpath = build_binary()
        if not okb:
            return {"name": name, "error": "the binary does not build: " + ob[-2000:]}
        env["VERIF_BIN"] = binpath
    if job.get("race"):
        ok, o, exe = build_harness(race=True)
        if not ok:
            return {"name": name, "error": "race build failed: " + o[-2000:]}
        env["GORACE"] = "log_path=%s exitcode=0" % os.path.join(out, "race")
    cmd = [exe, name, "-seed", str(seed), "-n", str(n), "-tier", tier, "-out", out] + job.get("args", [])
    rc, o = sh(cmd, cwd=REPO, env=env, timeout=job.get("timeout", 3000))
    r = {"name": name, "n": n, "out": out, "harness_rc": rc, "harness_log": o[-3000:]}
    if rc != 0:
        r["error"] = "harness exit %d: %s" % (rc, o[-2000:])
        return r
    st = json.load(open(os.path.join(out, "stats.json")))
    r["stats"] = st
    cases = os.path.join(out, "cases.tsv")
    mism = []
    if os.path.getsize(cases) > 0:
        rc2, mo = run_model(runner_exe, cases, out, job.get("timeout", 3000))
        with open(os.path.join(out, "model.tsv"), "w") as f:
            f.write(mo)
        if rc2 != 0:
            r["error"] = "runner exit %d: %s" % (rc2, mo[-2000:])
            return r
        model = dict(l.split("\t", 1) for l in mo.splitlines() if "\t" in l)
        proj = job.get("project")
        fields_of = {}
        if proj:
            for l in open(cases):
                parts = l.rstrip("\n").split("\t")
                fields_of[parts[0]] = parts[1:]
        for l in open(os.path.join(out, "impl.tsv")):
            l = l.rstrip("\n")
            if "\t" not in l:
                continue
            cid, obs = l.split("\t", 1)
            mobs = model.get(cid)
            if mobs == "NOMODEL":          # oracle-only case (no executable model covers it): nothing to compare
                continue
            if proj and mobs is not None and not mobs.startswith("MODEL-ERROR"):
                # compare projected observables only (DESIGN 2.3): what this property is about
                try:
                    po, pm = proj(fields_of.get(cid, []), obs), proj(fields_of.get(cid, []), mobs)
                except Exception as e:          # malformed line: fall back to the full comparison
                    po, pm = obs, mobs
                if po != pm:
                    mism.append({"id": cid, "impl": po[:400], "model": pm[:400]})
            elif mobs != obs:
                mism.append({"id": cid, "impl": obs[:400], "model": (mobs or "<none>")[:400]})
    r["mismatches"] = mism
    ofs = []
    for l in open(os.path.join(out, "oracle.tsv")):
        l = l.rstrip("\n")
        if "\t" in l:
            cid, msg = l.split("\t", 1)
            ofs.append({"id": cid, "msg": msg})
    for rf in sorted(glob.glob(os.path.join(out, "race.*"))):
        txt = open(rf).read()
        for blk in txt.split("==================")[:6]:
            if "DATA RACE" in blk:
                lines = [l.strip() for l in blk.strip().splitlines() if l.strip()]
                ofs.append({"id": "race", "msg": "[C12-race] the Go race detector reported: " + " | ".join(lines[:8])[:700]})
    r["oracle_failures"] = ofs
    return r


def load_known():
    out = []
    p = os.path.join(VERIF, "known-findings.txt")
    if os.path.exists(p):
        for l in open(p):
            l = l.strip()
            m = re.match(r"finding:\s+property=(\w+)\s+sig=(\S+)\s*(.*)", l)
            if m:
                out.append({"property": m.group(1), "sig": m.group(2), "what": m.group(3)})
    return out


def case_line(out_dir, cid):
    try:
        for l in open(os.path.join(out_dir, "cases.tsv")):
            if l.startswith(cid + "\t"):
                return l.rstrip("\n")
    except OSError:
        pass
    return None


def write_replay(pid, seed, k, obj):
    d = os.path.join(VERIF, "replays")
    os.makedirs(d, exist_ok=True)
    p = os.path.join(d, "%s-%s-%d.json" % (pid, seed, k))
    with open(p, "w") as f:
        json.dump(obj, f, indent=1)
    return p


def run_property(pid, spec, tier, seed, replay=None):
    t0 = time.time()
    violations = []      # (replay_obj, has_input)
    known_hits = {}
    proof = check_proofs(pid, tier)
    okr, orunner, runner_exe = build_runner()
    okh, oh, hb = build_harness()
    jobs = []
    infra_error = None
    if not okh:
        infra_error = "harness does not build against the current tree:\n" + oh[-3000:]
    elif not okr:
        infra_error = "model extraction/runner build failed:\n" + orunner[-3000:]
    known = [k for k in load_known() if k["property"] == pid]

    def attribute(msg):
        for k in known:
            if msg.startswith("[" + k["sig"] + "]"):
                return k
        return None

    def relevant(msg):
        """oracle messages start with [<property>-<sig>]; another property's finding is judged by that property's check"""
        m = re.match(r"\[(C\d+)-", msg)
        if pid == "C04" and re.match(r"\[C\d+-panic\]", msg):
            return True          # a panic caught by any job is a C04 matter as well
        return (m is None) or (m.group(1) == pid) or (m.group(1) in spec.get("also_sigs", []))

    def process(r):
        """turn one job result into violations; returns True when a failing input was exhibited"""
        found = False
        if "error" in r:
            violations.append(({"property_id": pid, "kind": "broken-correspondence", "theorem_or_tie": "corr:" + r["name"],
                                "detail": r["error"], "seed": seed, "case": None}, False))
            return False
        bad_ids = set()
        for of in r["oracle_failures"]:
            if not relevant(of["msg"]):
                continue
            k = attribute(of["msg"])
            if k:
                known_hits.setdefault(k["sig"], (k, of))
                bad_ids.add(of["id"])
                continue
            bad_ids.add(of["id"])
            if sum(1 for v in violations if v[1]) < 5:
                violations.append(({"property_id": pid, "kind": "failing-input", "theorem_or_tie": "oracle:" + r["name"],
                                    "seed": seed, "job": r["name"], "n": r["n"], "tier": tier, "case_id": of["id"],
                                    "case": case_line(r["out"], of["id"]), "observed_impl": of["msg"]}, True))
            found = True
        # model/implementation disagreements not explained by an oracle failure
        rest = [m for m in r["mismatches"] if m["id"] not in bad_ids]
        if rest:
            m = rest[0]
            violations.append(({"property_id": pid, "kind": "broken-correspondence", "theorem_or_tie": "corr:" + r["name"],
                                "seed": seed, "job": r["name"], "n": r["n"], "tier": tier, "case_id": m["id"],
                                "case": case_line(r["out"], m["id"]), "observed_impl": m["impl"], "observed_model": m["model"],
                                "mismatch_count": len(rest)}, False))
        return found

    exhibited = False
    if infra_error is None:
        for job in spec["jobs"]:
            r = run_job(pid, job, tier, seed, hb, runner_exe)
            jobs.append(r)
            exhibited |= process(r)
    else:
        violations.append(({"property_id": pid, "kind": "broken-correspondence", "theorem_or_tie": "build",
                            "detail": infra_error, "seed": seed, "case": None}, False))

    if not proof["ok"]:
        violations.append(({"property_id": pid, "kind": "broken-theorem",
                            "theorem_or_tie": proof.get("broken_at", "Properties/%s.v" % pid),
                            "detail": proof["log"][-3000:], "seed": seed, "case": None}, False))

    # a proof obligation or the tie broke but no failing input yet: search harder
    if violations and not exhibited and infra_error is None:
        for extra in range(1, 4):
            for job in spec["jobs"]:
                j2 = dict(job)
                j2["quick"] = min(job.get("thorough", job.get("quick", 100)), 3 * job.get("quick", 100))
                r = run_job(pid, j2, "quick", seed + extra, hb, runner_exe, tag="-search%d" % extra)
                if "error" in r:
                    continue
                for of in r["oracle_failures"]:
                    if attribute(of["msg"]) or not relevant(of["msg"]):
                        continue
                    violations.insert(0, ({"property_id": pid, "kind": "failing-input", "theorem_or_tie": "oracle:" + r["name"],
                                           "seed": seed + extra, "job": r["name"], "n": r["n"], "tier": "quick",
                                           "case_id": of["id"], "case": case_line(r["out"], of["id"]),
                                           "observed_impl": of["msg"], "found_by": "search after broken proof/tie"}, True))
                    exhibited = True
                    break
                if exhibited:
                    break
            if exhibited:
                break

    # ---- evidence
    ev_cases = sum(j.get("stats", {}).get("evaluations", 0) for j in jobs)
    ev_dist = sum(j.get("stats", {}).get("distinct_nontrivial", 0) for j in jobs)
    samples = []
    dist = {}
    extra = {}
    for j in jobs:
        st = j.get("stats", {})
        samples += (st.get("samples") or [])[:4]
        if st.get("input_distribution"):
            dist[j["name"]] = st["input_distribution"]
        for k, v in st.items():
            if k not in ("evaluations", "distinct_nontrivial", "samples", "input_distribution", "seed", "tier", "oracle_failures"):
                extra.setdefault(j["name"], {})[k] = v
    if not samples:
        samples = [{"note": "no correspondence case was run", "theorems": [t["name"] for t in proof["theorems"]]}]
    n_mism = sum(len(j.get("mismatches", [])) for j in jobs)
    n_orc = sum(len([of for of in j.get("oracle_failures", []) if relevant(of["msg"])]) for j in jobs)
    evidence = {
        "property_id": pid, "tier": tier, "seed": seed, "level": "proof",
        "wall_s": round(time.time() - t0, 2),
        "violations": len(violations),
        "coverage": {
            "obligations": max(proof["obligations"], 1), "discharged": proof["discharged"],
            "checker_cmd": "make -f Makefile.coq -j16 (coqc 8.16.1, full .vo build) && coqc Properties/%s.v ; Print Assumptions parsed" % pid,
            "theorems": proof["theorems"],
            "coqchk": proof.get("coqchk", "not run in the quick tier (thorough: coqchk -silent -o over Properties/%s and all it depends on)" % pid),
            "trusted_base": TRUSTED_BASE + spec.get("trusted_extra", []),
            "repo_tree_sha256": repo_tree_hash(),
            "gen_consts_sha256": file_hash([os.path.join(COQ, "Gen", "Consts.v")]),
            "evaluations": ev_cases, "distinct_nontrivial": ev_dist,
            "rule": spec.get("rule", ""),
            "traces_validated_against_impl": ev_cases,
            "model_vs_impl_mismatches": n_mism, "oracle_failures": n_orc,
            "known_findings_seen": sorted(known_hits.keys()),
            "input_distribution": dist, "samples": samples[:8], "extra": extra,
            "partial": spec.get("partial", []),
        },
        "assumptions": spec.get("assumptions", []),
    }
    os.makedirs(os.path.join(VERIF, "evidence"), exist_ok=True)
    with open(os.path.join(VERIF, "evidence", pid + ".json"), "w") as f:
        json.dump(evidence, f, indent=1, ensure_ascii=False)

    for sig, (k, of) in sorted(known_hits.items()):
        print("KNOWN-FINDING: property=%s %s (sig=%s; e.g. %s)" % (pid, k["what"], sig, of["msg"][:160]))
    if violations:
        # failing inputs first
        violations.sort(key=lambda v: 0 if v[1] else 1)
        shown = 0
        for i, (obj, has_input) in enumerate(violations):
            p = write_replay(pid, seed, i, obj)
            if shown < 3:
                tail = "" if has_input else " no-failing-input-found"
                if not has_input and exhibited:
                    continue
                print("VIOLATION property=%s replay=%s%s" % (pid, p, tail))
                shown += 1
        return 1
    log("%s: ok  (%d theorems, %d cases, %.1fs)" % (pid, proof["discharged"], ev_cases, time.time() - t0))
    return 0


def replay_file(pid, spec, path):
    obj = json.load(open(path))
    if not obj.get("case_id") or not obj.get("job"):
        print("replay: %s names %s (no concrete input recorded)" % (path, obj.get("theorem_or_tie")))
        return run_property(pid, spec, "quick", int(obj.get("seed", 1)))
    okr, _, runner_exe = build_runner()
    okh, oh, hb = build_harness()
    if not (okr and okh):
        print("VIOLATION property=%s replay=%s no-failing-input-found" % (pid, path))
        return 1
    job = [j for j in spec["jobs"] if j["cmd"] == obj["job"]][0]
    j2 = dict(job)
    j2[obj.get("tier", "quick")] = obj["n"]
    r = run_job(pid, j2, obj.get("tier", "quick"), int(obj["seed"]), hb, runner_exe, tag="-replay")
    hit = [of for of in r.get("oracle_failures", []) if of["id"] == obj["case_id"]] + \
          [m for m in r.get("mismatches", []) if m["id"] == obj["case_id"]]
    if hit or "error" in r:
        print("replay: still failing: %s" % (hit[:1] or r.get("error")))
        print("VIOLATION property=%s replay=%s" % (pid, path))
        return 1
    print("replay: case %s no longer fails" % obj["case_id"])
    return 0


def main(argv):
    import props
    if not argv:
        print(__doc__)
        return 2
    tier = "quick"
    replay = None
    args = []
    i = 0
    while i < len(argv):
        if argv[i] == "--tier":
            tier = argv[i + 1]; i += 2
        elif argv[i] == "--replay":
            replay = argv[i + 1]; i += 2
        else:
            args.append(argv[i]); i += 1
    tier = os.environ.get("VERIF_TIER", tier)
    seed = int(os.environ.get("VERIF_SEED", "20260930"))
    what = args[0]
    if what == "setup":
        ok, o = build_coq()
        if not ok:
            print(o[-5000:]); return 1
        okr, o2, _ = build_runner()
        if not okr:
            print(o2[-5000:]); return 1
        okb, o3, _ = build_binary()
        if not okb:
            print(o3[-5000:]); return 1
        print("setup ok")
        return 0
    if what == "all":
        rc = 0
        for pid in sorted(props.PROPS):
            rc |= run_property(pid, props.PROPS[pid], tier, seed)
        return rc
    if what not in props.PROPS:
        print("unknown property", what)
        return 2
    if replay:
        return replay_file(what, props.PROPS[what], replay)
    return run_property(what, props.PROPS[what], tier, seed)
