#!/usr/bin/env python3
"""writes /verif/MANIFEST.json from lib/props.py (so the two never drift)"""
import json, os, sys
sys.path.insert(0, os.path.dirname(os.path.abspath(__file__)))
import props

VERIF = os.path.dirname(os.path.dirname(os.path.abspath(__file__)))
BASE_NOTE = ("Trusted: Coq 8.16.1 kernel (vm_compute, no native_compute; no axioms - Print Assumptions parsed each run), "
             "ExtrOcamlBasic extraction + OCaml runner glue, genconsts translator, correspondence harness (go build -overlay); "
             "Go stdlib/afero/kong/OS are modelled, not verified (DESIGN.md section 6). ")

checks = []
for pid in sorted(props.PROPS):
    p = props.PROPS[pid]
    checks.append({
        "property_id": pid,
        "quick_cmd": "./check %s --tier quick" % pid,
        "thorough_cmd": "./check %s --tier thorough" % pid,
        "evidence_file": "/verif/evidence/%s.json" % pid,
        "replay_cmd_template": "./check %s --replay {path}" % pid,
        "engine": "coq-model+correspondence",
        "level_claimed": {"category": "proof", "text": p.get("level_text", ""), "design_ref": "DESIGN.md section 5 " + pid + " (plan) and section 10.2 (as built)"},
        "level_note": BASE_NOTE + p.get("level_note", ""),
        "technique": p.get("technique", "Coq proof over an executable Gallina model + extracted-model differential against the code"),
    })

all_ids = ["C%02d" % i for i in range(1, 21)]
na = [{"property_id": i, "reason": props.NOT_YET.get(i, "not yet registered: model/correspondence under construction")}
      for i in all_ids if i not in props.PROPS]

m = {
    "version": 1,
    "setup_cmd": "cd /verif && ./check setup",
    "hooks": {
        "guard": "verif",
        "enable": "go build -tags verif -overlay /verif/build/overlay.json ./internal/verifharness (harness and accessor files are added virtually; /repo is not modified)",
        "baseline_off_cmd": "cd /repo && GOFLAGS=-mod=mod GOPROXY=off GOSUMDB=off go test -json -vet=off -count=1 -timeout 25m ./...",
        "source_commits": [],
        "add_only": True,
    },
    "engines": [{"name": "coq-model+correspondence", "path": "/verif/check",
                 "serves_properties": sorted(props.PROPS),
                 "kind_free_text": "Coq 8.16.1 theorems over hand-written executable Gallina models (coq/), constants regenerated from /repo on every run, extracted to OCaml (runner/) and compared with the real code driven by a Go harness (harness/, built with go -overlay); direct model-independent oracles search for replayable failing inputs"}],
    "checks": checks,
    "not_applicable": na,
    "notes": "Every check rebuilds from /repo's working tree. Known findings: /verif/known-findings.txt.",
}
json.dump(m, open(os.path.join(VERIF, "MANIFEST.json"), "w"), indent=1)
print("MANIFEST.json: %d checks, %d not claimed" % (len(checks), len(na)))
