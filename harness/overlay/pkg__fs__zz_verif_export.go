//go:build verif

package fs

import "github.com/spf13/afero"

// Accessors for unexported constants of pkg/fs, added to the build virtually (go build -overlay)
// for the translator genconsts and the correspondence harness of /verif.  Add-only.

var VerifConsts = struct {
	SectorSize, SystemAreaSize, MultiExtentPartSize, MaxPartSize int64
	BasePadSectors, VolumeDescriptorsCount                       int64
	PathTableItemsLimit                                          int64
	ACharacters, DCharacters, D1Characters                       string
	DirFlagDir, DirFlagMultiExtent                               int64
	VolumeTypePrimary, VolumeTypeSupplementary, VolumeTypeTerminator int64
	StandardIdentifier                                           []byte
	PS3ModeVolumeName, ConsoleID, ParamSFOPath                   string
	VirtualISOMask, VirtualPS3ISOMask                            string
	EncryptionKeySize                                            int64
	IsoExt, DkeyExt, PS3IsoDir, RedkeyDir                        string
	KeyData1, IvData1                                            []byte
	MaskedDataBegin, MaskedDataSize                              int64
	WatermarkPlacement, WatermarkSize                            int64
	EncryptionKeyPlacement                                       int64
	DecWatermark, EncWatermark                                   []byte
	SfoMagic                                                     []byte
}{
	SectorSize: int64(sectorSize), SystemAreaSize: int64(systemAreaSize),
	MultiExtentPartSize: int64(multiExtentPartSize), MaxPartSize: int64(maxPartSize),
	BasePadSectors: int64(basePadSectors), VolumeDescriptorsCount: int64(volumeDescriptorsCount),
	PathTableItemsLimit: pathTableItemsLimit,
	ACharacters:         string(aCharacters), DCharacters: string(dCharacters), D1Characters: string(d1Characters),
	DirFlagDir:          dirFlagDir, DirFlagMultiExtent: dirFlagMultiExtent,
	VolumeTypePrimary:   int64(volumeTypePrimary), VolumeTypeSupplementary: int64(volumeTypeSupplementary),
	VolumeTypeTerminator: int64(volumeTypeTerminator),
	StandardIdentifier:   standardIdentifierBytes[:],
	PS3ModeVolumeName:    ps3ModeVolumeName, ConsoleID: consoleID, ParamSFOPath: paramSFOPath,
	VirtualISOMask:       virtualISOMask, VirtualPS3ISOMask: virtualPS3ISOMask,
	EncryptionKeySize:    encryptionKeySize,
	IsoExt:               isoExt, DkeyExt: dkeyExt, PS3IsoDir: ps3isoDir, RedkeyDir: redkeyDir,
	KeyData1:             keyData1[:], IvData1: ivData1[:],
	MaskedDataBegin:      int64(_3k3yMaskedDataBegin), MaskedDataSize: int64(_3k3yMaskedDataSize),
	WatermarkPlacement:   int64(_3k3yWatermarkPlacement), WatermarkSize: int64(_3k3yWatermarkSize),
	EncryptionKeyPlacement: int64(_3k3yEncryptionKeyPlacement),
	DecWatermark:           _3k3yDecWatermark[:], EncWatermark: _3k3yEncWatermark[:],
	SfoMagic:               sfoMagic[:],
}

// VerifVisoFile describes one file of a generated image as read() sees it.
type VerifVisoFile struct {
	Path string
	Size int64
	RLBA int64
}

// VerifVisoInternals exposes the structures VirtualISO.read works on (read-only copy).
func VerifVisoInternals(v *VirtualISO) (fsBuf []byte, files []VerifVisoFile, padStart, padSize, total int64) {
	fsBuf = append([]byte(nil), v.fsBuf...)
	for _, f := range v.files {
		files = append(files, VerifVisoFile{Path: f.path, Size: int64(f.size), RLBA: int64(f.rLBA)})
	}
	return fsBuf, files, int64(v.padAreaStart), int64(v.padAreaSize), int64(v.totalSize)
}

// VerifEncRegions exposes the encrypted sector ranges an EncryptedISO derived from the region map.
func VerifEncRegions(e *EncryptedISO) [][2]int64 {
	var out [][2]int64
	for _, r := range e.encryptedRegions {
		if r.start == 0 && r.end == 0 {
			continue // leading placeholders left by make(n)+append
		}
		out = append(out, [2]int64{int64(r.start), int64(r.end)})
	}
	return out
}

// VerifISO3k3yInner returns the file an ISO3k3y wraps.
func VerifISO3k3yInner(i *ISO3k3y) interface{} { return i.privateFile }

// VerifSfoField exposes the PARAM.SFO field reader.
func VerifSfoField(f afero.File, field string) (string, error) { return sfoField(f, field) }
