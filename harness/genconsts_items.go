//go:build verif

package main

import (
	"encoding/binary"
	"fmt"
	"go/ast"
	"go/parser"
	"go/token"
	"os"
	"path/filepath"
	"reflect"
	"strconv"
	"strings"

	pfs "github.com/xakep666/ps3netsrv-go/pkg/fs"
	"github.com/xakep666/ps3netsrv-go/pkg/proto"
)

func repoDir() string {
	if d := os.Getenv("VERIF_REPO"); d != "" {
		return d
	}
	d, _ := os.Getwd()
	return d
}

func init() {
	constGenerators = append(constGenerators, genProto, genFsConsts, genHandlerLiterals, genServerWiring)
}

func defZ(b *strings.Builder, name string, v int64) {
	fmt.Fprintf(b, "Definition %s : Z := %d.\n", name, v)
}
func defBytes(b *strings.Builder, name string, v []byte) {
	fmt.Fprintf(b, "Definition %s : list Z := %s.\n", name, coqBytes(v))
}

// struct layout: widths of the fields in wire order (binary.Size of each field)
func layoutOf(v any) []int64 {
	t := reflect.TypeOf(v)
	var ws []int64
	for i := 0; i < t.NumField(); i++ {
		ws = append(ws, int64(binary.Size(reflect.New(t.Field(i).Type).Elem().Interface())))
	}
	return ws
}

func genProto(b *strings.Builder) error {
	b.WriteString("(* pkg/proto: opcodes, result layouts (reflect + binary.Size) *)\n")
	ops := []struct {
		n string
		v proto.OpCode
	}{
		{"op_open_file", proto.CmdOpenFile}, {"op_read_file_critical", proto.CmdReadFileCritical},
		{"op_read_cd_2048", proto.CmdReadCD2048Critical}, {"op_read_file", proto.CmdReadFile},
		{"op_create_file", proto.CmdCreateFile}, {"op_write_file", proto.CmdWriteFile},
		{"op_open_dir", proto.CmdOpenDir}, {"op_read_dir_entry", proto.CmdReadDirEntry},
		{"op_delete_file", proto.CmdDeleteFile}, {"op_mkdir", proto.CmdMkdir}, {"op_rmdir", proto.CmdRmdir},
		{"op_read_dir_entry_v2", proto.CmdReadDirEntryV2}, {"op_stat_file", proto.CmdStatFile},
		{"op_get_dir_size", proto.CmdGetDirSize}, {"op_read_dir", proto.CmdReadDir},
	}
	for _, o := range ops {
		defZ(b, o.n, int64(o.v))
	}
	defZ(b, "command_size", int64(binary.Size(proto.Command{})))
	defZ(b, "max_dir_entry_name", proto.MaxDirEntryName)
	lay := []struct {
		n string
		v any
	}{
		{"layout_open_dir_result", proto.OpenDirResult{}}, {"layout_read_dir_result", proto.ReadDirResult{}},
		{"layout_dir_entry", proto.DirEntry{}}, {"layout_read_dir_entry_result", proto.ReadDirEntryResult{}},
		{"layout_read_dir_entry_v2_result", proto.ReadDirEntryV2Result{}}, {"layout_stat_file_result", proto.StatFileResult{}},
		{"layout_open_file_result", proto.OpenFileResult{}}, {"layout_read_file_result", proto.ReadFileResult{}},
		{"layout_create_file_result", proto.CreateFileResult{}}, {"layout_write_file_result", proto.WriteFileResult{}},
		{"layout_delete_file_result", proto.DeleteFileResult{}}, {"layout_mkdir_result", proto.MkdirResult{}},
		{"layout_rmdir_result", proto.RmdirResult{}}, {"layout_get_dir_size_result", proto.GetDirSizeResult{}},
		// request tails (decoded from the 14 data bytes of the command)
		{"layout_read_file_command", proto.ReadFileCommand{}}, {"layout_read_cd_command", proto.ReadCD2048CriticalCommand{}},
		{"layout_write_file_command", proto.WriteFileCommand{}}, {"layout_open_file_command", proto.OpenFileCommand{}},
	}
	for _, l := range lay {
		fmt.Fprintf(b, "Definition %s : list Z := %s.\n", l.n, coqZList(layoutOf(l.v)))
	}
	// field order of the CD read command (which wire field is the start sector)
	t := reflect.TypeOf(proto.ReadCD2048CriticalCommand{})
	for i := 0; i < t.NumField(); i++ {
		if t.Field(i).Name == "StartSector" {
			defZ(b, "cd_command_start_field", int64(i))
		}
		if t.Field(i).Name == "SectorsToRead" {
			defZ(b, "cd_command_count_field", int64(i))
		}
	}
	b.WriteString("\n")
	return nil
}

func genFsConsts(b *strings.Builder) error {
	c := pfs.VerifConsts
	b.WriteString("(* pkg/fs: unexported constants through the overlay accessor file *)\n")
	defZ(b, "sector_size", c.SectorSize)
	defZ(b, "system_area_size", c.SystemAreaSize)
	defZ(b, "multi_extent_part_size", c.MultiExtentPartSize)
	defZ(b, "max_part_size", c.MaxPartSize)
	defZ(b, "base_pad_sectors", c.BasePadSectors)
	defZ(b, "volume_descriptors_count", c.VolumeDescriptorsCount)
	defZ(b, "path_table_items_limit", c.PathTableItemsLimit)
	defBytes(b, "a_characters", []byte(c.ACharacters))
	defBytes(b, "d_characters", []byte(c.DCharacters))
	defBytes(b, "d1_characters", []byte(c.D1Characters))
	defZ(b, "dir_flag_dir", c.DirFlagDir)
	defZ(b, "dir_flag_multi_extent", c.DirFlagMultiExtent)
	defZ(b, "volume_type_primary", c.VolumeTypePrimary)
	defZ(b, "volume_type_supplementary", c.VolumeTypeSupplementary)
	defZ(b, "volume_type_terminator", c.VolumeTypeTerminator)
	defBytes(b, "standard_identifier", c.StandardIdentifier)
	defBytes(b, "ps3_mode_volume_name", []byte(c.PS3ModeVolumeName))
	defBytes(b, "console_id", []byte(c.ConsoleID))
	var sfo []string
	for _, e := range strings.Split(c.ParamSFOPath, string(filepath.Separator)) {
		sfo = append(sfo, coqBytes([]byte(e)))
	}
	fmt.Fprintf(b, "Definition param_sfo_path : list (list Z) := [%s].\n", strings.Join(sfo, "; "))
	defBytes(b, "virtual_iso_name", []byte(strings.TrimPrefix(c.VirtualISOMask, string(filepath.Separator))))
	defBytes(b, "virtual_ps3iso_name", []byte(strings.TrimPrefix(c.VirtualPS3ISOMask, string(filepath.Separator))))
	defZ(b, "encryption_key_size", c.EncryptionKeySize)
	defBytes(b, "iso_ext", []byte(c.IsoExt))
	defBytes(b, "dkey_ext", []byte(c.DkeyExt))
	defBytes(b, "ps3iso_dir", []byte(c.PS3IsoDir))
	defBytes(b, "redkey_dir", []byte(c.RedkeyDir))
	defBytes(b, "key_data1", c.KeyData1)
	defBytes(b, "iv_data1", c.IvData1)
	defZ(b, "masked_data_begin", c.MaskedDataBegin)
	defZ(b, "masked_data_size", c.MaskedDataSize)
	defZ(b, "watermark_placement", c.WatermarkPlacement)
	defZ(b, "watermark_size", c.WatermarkSize)
	defZ(b, "encryption_key_placement", c.EncryptionKeyPlacement)
	defBytes(b, "dec_watermark", c.DecWatermark)
	defBytes(b, "enc_watermark", c.EncWatermark)
	defBytes(b, "sfo_magic", c.SfoMagic)
	b.WriteString("\n")
	return nil
}

// ---- function-local literals of internal/handler/handler.go through go/ast ----

func intLit(e ast.Expr) (int64, bool) {
	switch x := e.(type) {
	case *ast.BasicLit:
		if x.Kind == token.INT {
			v, err := strconv.ParseInt(x.Value, 0, 64)
			return v, err == nil
		}
	case *ast.ParenExpr:
		return intLit(x.X)
	}
	return 0, false
}

func strLit(e ast.Expr) (string, bool) {
	if x, ok := e.(*ast.BasicLit); ok && x.Kind == token.STRING {
		s, err := strconv.Unquote(x.Value)
		return s, err == nil
	}
	return "", false
}

func findFunc(f *ast.File, name string) *ast.FuncDecl {
	for _, d := range f.Decls {
		if fd, ok := d.(*ast.FuncDecl); ok && fd.Name.Name == name {
			return fd
		}
	}
	return nil
}

// constant or variable initialiser by name inside a node
func findValue(n ast.Node, name string) ast.Expr {
	var out ast.Expr
	ast.Inspect(n, func(x ast.Node) bool {
		if vs, ok := x.(*ast.ValueSpec); ok {
			for i, id := range vs.Names {
				if id.Name == name && i < len(vs.Values) {
					out = vs.Values[i]
				}
			}
		}
		if as, ok := x.(*ast.AssignStmt); ok && as.Tok == token.DEFINE {
			for i, l := range as.Lhs {
				if id, ok := l.(*ast.Ident); ok && id.Name == name && i < len(as.Rhs) {
					out = as.Rhs[i]
				}
			}
		}
		return true
	})
	return out
}

func genHandlerLiterals(b *strings.Builder) error {
	path := filepath.Join(repoDir(), "internal", "handler", "handler.go")
	fset := token.NewFileSet()
	f, err := parser.ParseFile(fset, path, nil, 0)
	if err != nil {
		return err
	}
	b.WriteString("(* internal/handler/handler.go: function-local literals through go/ast *)\n")
	need := func(ok bool, what string) error {
		if !ok {
			return fmt.Errorf("genconsts: cannot find %s in %s (source shape changed; translator needs an update)", what, path)
		}
		return nil
	}
	v, ok := intLit(findValue(f, "psxPrefixSize"))
	if err := need(ok, "psxPrefixSize"); err != nil {
		return err
	}
	defZ(b, "psx_prefix", v)

	det := findFunc(f, "determineSectorSize")
	if err := need(det != nil, "determineSectorSize"); err != nil {
		return err
	}
	var sizes []int64
	if cl, ok := findValue(det, "sectorSizes").(*ast.CompositeLit); ok {
		for _, e := range cl.Elts {
			if v, ok := intLit(e); ok {
				sizes = append(sizes, v)
			}
		}
	}
	if err := need(len(sizes) > 0, "sectorSizes"); err != nil {
		return err
	}
	fmt.Fprintf(b, "Definition sector_sizes : list Z := %s.\n", coqZList(sizes))
	m1, ok1 := strLit(findValue(det, "magic1"))
	m2, ok2 := strLit(findValue(det, "magic2"))
	ex, ok3 := intLit(findValue(det, "extraBytes"))
	sa, ok4 := intLit(findValue(det, "systemAreaSectors"))
	if err := need(ok1 && ok2 && ok3 && ok4, "magic1/magic2/extraBytes/systemAreaSectors"); err != nil {
		return err
	}
	defBytes(b, "magic1", []byte(m1))
	defBytes(b, "magic2", []byte(m2))
	defZ(b, "magic_extra", ex)
	defZ(b, "system_area_sectors", sa)

	of := findFunc(f, "HandleOpenFile")
	if err := need(of != nil, "HandleOpenFile"); err != nil {
		return err
	}
	var defSec int64 = -1
	var bounds []int64
	ast.Inspect(of, func(x ast.Node) bool {
		if as, ok := x.(*ast.AssignStmt); ok && as.Tok == token.ASSIGN && len(as.Lhs) == 1 {
			if sel, ok := as.Lhs[0].(*ast.SelectorExpr); ok && sel.Sel.Name == "CDSectorSize" {
				if v, ok := intLit(as.Rhs[0]); ok {
					defSec = v
				}
			}
		}
		if be, ok := x.(*ast.BinaryExpr); ok && (be.Op == token.GEQ || be.Op == token.LEQ) {
			if call, ok := be.X.(*ast.CallExpr); ok {
				if sel, ok := call.Fun.(*ast.SelectorExpr); ok && sel.Sel.Name == "Size" {
					if v, ok := intLit(be.Y); ok {
						bounds = append(bounds, v)
					}
				}
			}
		}
		return true
	})
	if err := need(defSec > 0 && len(bounds) == 2, "default sector size / detection window"); err != nil {
		return err
	}
	defZ(b, "default_sector_size", defSec)
	defZ(b, "detect_min_size", bounds[0])
	defZ(b, "detect_max_size", bounds[1])

	cd := findFunc(f, "HandleReadCD2048Critical")
	if err := need(cd != nil, "HandleReadCD2048Critical"); err != nil {
		return err
	}
	rs, ok := intLit(findValue(cd, "readSize"))
	if err := need(ok, "readSize"); err != nil {
		return err
	}
	defZ(b, "cd_read_size", rs)
	b.WriteString("\n")
	return nil
}

// order of the listener wrappers in cmd/ps3netsrv-go/server.go: position of each wrapper call in (*serverApp).server
func genServerWiring(b *strings.Builder) error {
	path := filepath.Join(repoDir(), "cmd", "ps3netsrv-go", "server.go")
	fset := token.NewFileSet()
	f, err := parser.ParseFile(fset, path, nil, 0)
	if err != nil {
		return err
	}
	fn := findFunc(f, "server")
	if fn == nil {
		return fmt.Errorf("genconsts: cannot find (*serverApp).server in %s", path)
	}
	limitPos, filterPos := int64(-1), int64(-1)
	var idx int64
	ast.Inspect(fn, func(x ast.Node) bool {
		if call, ok := x.(*ast.CallExpr); ok {
			if sel, ok := call.Fun.(*ast.SelectorExpr); ok {
				idx++
				switch sel.Sel.Name {
				case "LimitListener":
					limitPos = idx
				case "FilterListener":
					filterPos = idx
				}
			}
		}
		return true
	})
	b.WriteString("(* cmd/ps3netsrv-go/server.go: order of the listener wrappers (later call = outer wrapper) *)\n")
	fmt.Fprintf(b, "Definition limit_listener_present : bool := %v.\n", limitPos >= 0)
	fmt.Fprintf(b, "Definition filter_listener_present : bool := %v.\n", filterPos >= 0)
	fmt.Fprintf(b, "Definition filter_is_outermost : bool := %v.\n", filterPos > limitPos)
	b.WriteString("\n")
	return nil
}

// ---- settings table of serverApp (cmd/ps3netsrv-go/server.go struct tags) ----

func kebab(name string) string {
	// kong's default flag naming: words split at lower->upper and at the end of an acronym
	var out []rune
	rs := []rune(name)
	for i, r := range rs {
		upper := r >= 'A' && r <= 'Z'
		if upper && i > 0 {
			prevLower := rs[i-1] >= 'a' && rs[i-1] <= 'z'
			nextLower := i+1 < len(rs) && rs[i+1] >= 'a' && rs[i+1] <= 'z'
			prevUpper := rs[i-1] >= 'A' && rs[i-1] <= 'Z'
			if prevLower || (prevUpper && nextLower) {
				out = append(out, '-')
			}
		}
		if upper {
			r = r - 'A' + 'a'
		}
		out = append(out, r)
	}
	return string(out)
}

type serverSetting struct{ Flag, Env, Default, Type string }

func readServerSettings() ([]serverSetting, error) {
	path := filepath.Join(repoDir(), "cmd", "ps3netsrv-go", "server.go")
	fset := token.NewFileSet()
	f, err := parser.ParseFile(fset, path, nil, 0)
	if err != nil {
		return nil, err
	}
	// every struct type of the file; embedded option structs (kong: `embed:"" envprefix:"X"`) are expanded in place
	structs := map[string]*ast.StructType{}
	ast.Inspect(f, func(n ast.Node) bool {
		if ts, ok := n.(*ast.TypeSpec); ok {
			if st, ok := ts.Type.(*ast.StructType); ok {
				structs[ts.Name.Name] = st
			}
		}
		return true
	})
	var expand func(st *ast.StructType, envPrefix string, depth int) []serverSetting
	expand = func(st *ast.StructType, envPrefix string, depth int) []serverSetting {
		var out []serverSetting
		for _, fld := range st.Fields.List {
			tag := ""
			if fld.Tag != nil {
				tag, _ = strconv.Unquote(fld.Tag.Value)
			}
			stag := reflect.StructTag(tag)
			if len(fld.Names) == 0 { // embedded
				if id, ok := fld.Type.(*ast.Ident); ok && depth < 4 {
					if _, isEmbed := stag.Lookup("embed"); isEmbed {
						if inner, ok := structs[id.Name]; ok {
							out = append(out, expand(inner, envPrefix+stag.Get("envprefix"), depth+1)...)
						}
					}
				}
				continue
			}
			if fld.Tag == nil {
				continue
			}
			if _, isEmbed := stag.Lookup("embed"); isEmbed {
				if id, ok := fld.Type.(*ast.Ident); ok && depth < 4 {
					if inner, ok := structs[id.Name]; ok {
						out = append(out, expand(inner, envPrefix+stag.Get("envprefix"), depth+1)...)
						continue
					}
				}
			}
			env := stag.Get("env")
			if env != "" {
				env = envPrefix + env
			}
			out = append(out, serverSetting{Flag: kebab(fld.Names[0].Name), Env: env, Default: stag.Get("default"), Type: stag.Get("type")})
		}
		return out
	}
	// the command's struct: serverApp, or - should it be renamed - the struct with the most settings
	var out []serverSetting
	if st, ok := structs["serverApp"]; ok {
		out = expand(st, "", 0)
	}
	if len(out) == 0 {
		for _, st := range structs {
			if c := expand(st, "", 0); len(c) > len(out) {
				out = c
			}
		}
	}
	if len(out) == 0 {
		return nil, fmt.Errorf("genconsts: no settings struct found in %s", path)
	}
	return out, nil
}

func init() {
	constGenerators = append(constGenerators, func(b *strings.Builder) error {
		ss, err := readServerSettings()
		if err != nil {
			return err
		}
		b.WriteString("(* cmd/ps3netsrv-go/server.go: settings of serverApp from its struct tags: (flag name, (env name, default)) *)\n")
		var items []string
		for _, s := range ss {
			items = append(items, fmt.Sprintf("(%s, (%s, %s))", coqBytes([]byte(s.Flag)), coqBytes([]byte(s.Env)), coqBytes([]byte(s.Default))))
		}
		fmt.Fprintf(b, "Definition server_settings : list (list Z * (list Z * list Z)) := [%s].\n\n", strings.Join(items, ";\n  "))
		return nil
	})
}

// ---- the environment: the largest file offset the filesystem under the temporary directory accepts ----
// (lseek fails with EINVAL beyond the filesystem's maximum file size - 16 TiB - 4 KiB on ext4 with 4 KiB blocks, 2^63-1 on
// tmpfs; a READ_FILE at such an offset ends the connection like a negative one; worlds of every job live under os.TempDir)
func fsMaxOffset() int64 {
	f, err := os.CreateTemp("", "vmaxoff")
	if err != nil {
		return 1<<63 - 1
	}
	defer os.Remove(f.Name())
	defer f.Close()
	lo, hi := int64(0), int64(1<<63-1) // lo is accepted; find the largest accepted offset
	if _, err := f.Seek(hi, 0); err == nil {
		return hi
	}
	for lo < hi {
		mid := lo + (hi-lo)/2 + (hi-lo)%2
		if _, err := f.Seek(mid, 0); err == nil {
			lo = mid
		} else {
			hi = mid - 1
		}
	}
	return lo
}

func init() {
	constGenerators = append(constGenerators, func(b *strings.Builder) error {
		b.WriteString("(* environment: the largest offset lseek accepts on the filesystem that holds the worlds of the harness *)\n")
		defZ(b, "fs_max_offset", fsMaxOffset())
		b.WriteString("\n")
		return nil
	})
}
