//go:build verif

package main

import (
	"bytes"
	"encoding/binary"
	"encoding/hex"
	"fmt"
	"net"
	"os"
	"path/filepath"
	"sort"
	"strings"
	"time"

	pfs "github.com/xakep666/ps3netsrv-go/pkg/fs"
)

// Job crash — C04: the real binary serving a root full of hostile content (malformed PARAM.SFO, crafted
// region tables, key files, truncated 3k3y areas, long / non-UTF-8 names, deep and wide trees, symlink loops)
// to hostile clients (structure-aware sessions over every crafted object with unaligned reads and huge
// declared counts; mutated and random byte streams).  After every session: the process is alive, a fresh
// connection is served, and a bystander connection opened at the start is still served.
// make-iso / decrypt get the same content: an error exit, never a Go traceback.
func init() { subcmds["crash"] = runCrash }

// ---- hostile content ----

func sfoVariants(env *Env) map[string][]byte {
	good := buildSFO([]sfoEntry{{"CATEGORY", []byte("DG\x00"), 0x204}, {"TITLE_ID", []byte("BLES01234\x00"), 0x204}, {"VERSION", []byte("01.00\x00"), 0x204}})
	mut := func(f func(b []byte)) []byte { b := append([]byte(nil), good...); f(b); return b }
	tid := func(v string, dl int) []byte {
		b := buildSFO([]sfoEntry{{"TITLE_ID", []byte(v + "\x00"), 0x204}})
		if dl >= 0 {
			binary.LittleEndian.PutUint32(b[20+4:], uint32(dl))
		}
		return b
	}
	m := map[string][]byte{
		"empty":          {},
		"short-header":   good[:11],
		"header-only":    good[:20],
		"bad-magic":      mut(func(b []byte) { b[1] = 'X' }),
		"count-huge":     mut(func(b []byte) { binary.LittleEndian.PutUint32(b[16:], 0xFFFFFFFF) }),
		"count-zero":     mut(func(b []byte) { binary.LittleEndian.PutUint32(b[16:], 0) }),
		"keytab-beyond":  mut(func(b []byte) { binary.LittleEndian.PutUint32(b[8:], 0xFFFFFFF0) }),
		"datatab-beyond": mut(func(b []byte) { binary.LittleEndian.PutUint32(b[12:], 0xFFFFFFF0) }),
		"key-no-nul":     append(append([]byte(nil), good[:20+16*3]...), []byte("TITLE_ID")...),
		"truncated-idx":  good[:20+16+5],
		"keyoff-huge":    mut(func(b []byte) { binary.LittleEndian.PutUint16(b[20+16:], 0xFFFF) }),
		"tid-len0":       tid("BLES01234", 0),
		"tid-len1":       tid("BLES01234", 1),
		"tid-len-huge":   tid("BLES01234", -1+1<<32),
		"tid-len-past":   tid("BLES01234", 5000),
		"tid-3":          tid("ABC", -1),
		"tid-4":          tid("ABCD", -1),
		"tid-31":         tid(strings.Repeat("T", 31), -1),
		"tid-32":         tid(strings.Repeat("T", 32), -1),
		"tid-33":         tid(strings.Repeat("T", 33), -1),
		"tid-200":        tid(strings.Repeat("T", 200), -1),
		"tid-nonascii":   tid("BLÉS日本\xff\xfe", -1),
		"tid-empty":      tid("", -1),
		"no-tid":         buildSFO([]sfoEntry{{"TITLE", []byte("x\x00"), 0x204}}),
		"random":         func() []byte { b := make([]byte, 200); env.Rnd.Read(b); copy(b, []byte{0, 'P', 'S', 'F'}); return b }(),
		"good":           good,
	}
	return m
}

func regionTable(count uint32, regs [][2]uint32) []byte {
	h := make([]byte, 8+8*len(regs))
	binary.BigEndian.PutUint32(h, count)
	for i, r := range regs {
		binary.BigEndian.PutUint32(h[8+8*i:], r[0])
		binary.BigEndian.PutUint32(h[12+8*i:], r[1])
	}
	return h
}

func encVariants(env *Env) map[string][]byte {
	body := func(n int, hdr []byte) []byte {
		b := make([]byte, n)
		env.Rnd.Read(b)
		copy(b, hdr)
		return b
	}
	m := map[string][]byte{
		"size0":          {},
		"size1":          {1},
		"size7":          make([]byte, 7),
		"size8-count2":   regionTable(2, nil),
		"size2047":       body(2047, regionTable(2, [][2]uint32{{0, 1}, {2, 3}})),
		"count0":         body(20000, regionTable(0, nil)),
		"count1":         body(20000, regionTable(1, [][2]uint32{{0, 4}})),
		"count-huge":     body(20000, regionTable(0xFFFFFFFF, [][2]uint32{{0, 1}, {2, 3}})),
		"count-2^31":     body(20000, regionTable(0x80000000, [][2]uint32{{0, 1}, {2, 3}})),
		"count-300":      body(20000, regionTable(300, [][2]uint32{{0, 1}, {2, 3}})),
		"count-256":      body(20000, regionTable(256, [][2]uint32{{0, 1}, {2, 3}})),
		"reversed":       body(20000, regionTable(2, [][2]uint32{{0, 5}, {3, 2}})),
		"overlap":        body(20000, regionTable(3, [][2]uint32{{0, 5}, {3, 6}, {7, 9}})),
		"beyond-eof":     body(20000, regionTable(2, [][2]uint32{{0, 1}, {0xFFFFFFF0, 0xFFFFFFFF}})),
		"all-encrypted":  body(20000, regionTable(2, [][2]uint32{{0, 1}, {9, 10}})),
		"first-not-zero": body(20000, regionTable(2, [][2]uint32{{1, 2}, {3, 4}})),
		"partial-tail":   body(2048*6+700, regionTable(2, [][2]uint32{{0, 1}, {7, 8}})),
		"region-max":     body(20000, regionTable(2, [][2]uint32{{0, 1}, {0xFFFFFFFF, 0xFFFFFFFF}})),
		"valid":          body(2048*12, regionTable(3, [][2]uint32{{0, 2}, {4, 6}, {9, 12}})),
	}
	return m
}

func keyVariants() map[string][]byte {
	return map[string][]byte{
		"good":    []byte("00112233445566778899aabbccddeeff"),
		"upper\n": []byte("00112233445566778899AABBCCDDEEFF\n"),
		"empty":   {},
		"short":   []byte("0011223344"),
		"nonhex":  []byte("zz112233445566778899aabbccddeeffzz"),
		"31":      []byte("00112233445566778899aabbccddeef"),
		"binary":  {0, 1, 2, 3, 255, 254, 0, 0, 0, 0, 0, 0, 0, 0, 0, 0, 0, 0, 0, 0, 0, 0, 0, 0, 0, 0, 0, 0, 0, 0, 0, 0, 0},
		"long":    bytes.Repeat([]byte("ab"), 5000),
		// other lengths of well-formed hex, and decorations found in the wild
		"15bytes": []byte("00112233445566778899aabbccddee"),
		"17bytes": []byte("00112233445566778899aabbccddeeff00"),
		"24bytes": []byte("00112233445566778899aabbccddeeff0011223344556677"),
		"32bytes": []byte("00112233445566778899aabbccddeeff00112233445566778899aabbccddeeff"),
		"1byte":   []byte("00"),
		"bom":     []byte("\xef\xbb\xbf00112233445566778899aabbccddeeff"),
		"crlf":    []byte("\r\n00112233445566778899aabbccddeeff\r\n"),
		"blank":   []byte(" \n\t "),
	}
}

type hostileRoot struct {
	files   []string // served paths of files
	dirs    []string // served paths of directories
	encImgs []string // OS paths for the CLI
	keys    []string
	sfoDirs []string // OS paths of game directories
}

func buildHostileRoot(env *Env, root string) (*hostileRoot, error) {
	h := &hostileRoot{}
	c := pfs.VerifConsts
	mk := func(rel string, b []byte) string {
		p := filepath.Join(root, rel)
		_ = os.MkdirAll(filepath.Dir(p), 0o755)
		if err := os.WriteFile(p, b, 0o644); err == nil {
			h.files = append(h.files, "/"+rel)
		}
		return p
	}
	keys := keyVariants()
	i := 0
	encs := encVariants(env)
	for _, name := range sortedKeys(encs) {
		b := encs[name]
		// each image: adjacent key (cycled through the key variants), and a 3k3y twin
		rel := fmt.Sprintf("PS3ISO/%s.iso", name)
		h.encImgs = append(h.encImgs, mk(rel, b))
		kn := []string{"good", "upper\n", "good", "empty", "short", "nonhex", "31", "binary", "long", "good"}[i%10]
		h.keys = append(h.keys, mk(fmt.Sprintf("PS3ISO/%s.dkey", name), keys[kn]))
		if len(b) >= int(c.MaskedDataBegin+c.MaskedDataSize) {
			t := append([]byte(nil), b...)
			copy(t[c.MaskedDataBegin+c.WatermarkPlacement:], c.EncWatermark)
			h.encImgs = append(h.encImgs, mk(fmt.Sprintf("ISO3K/%s-3k3y.iso", name), t))
			d := append([]byte(nil), b...)
			copy(d[c.MaskedDataBegin+c.WatermarkPlacement:], c.DecWatermark)
			mk(fmt.Sprintf("ISO3K/%s-3k3ydec.iso", name), d)
		}
		i++
	}
	// every key variant next to a well-formed image (a refused image hides what a bad key does)
	for _, kn := range sortedKeys(keys) {
		nm := strings.TrimSpace(kn)
		h.encImgs = append(h.encImgs, mk(fmt.Sprintf("PS3ISO/key-%s.iso", nm), encs["valid"]))
		h.keys = append(h.keys, mk(fmt.Sprintf("PS3ISO/key-%s.dkey", nm), keys[kn]))
	}
	// (these come first in the round-robin of the "files" sessions)
	var front, rest []string
	for _, f := range h.files {
		if strings.HasPrefix(f, "/PS3ISO/key-") && strings.HasSuffix(f, ".iso") {
			front = append(front, f)
		} else {
			rest = append(rest, f)
		}
	}
	h.files = append(front, rest...)
	// 3k3y area cut at every interesting length
	full := make([]byte, 6000)
	env.Rnd.Read(full)
	copy(full, regionTable(2, [][2]uint32{{0, 1}, {2, 3}}))
	copy(full[c.MaskedDataBegin+c.WatermarkPlacement:], c.EncWatermark)
	for _, n := range []int64{c.MaskedDataBegin - 1, c.MaskedDataBegin, c.MaskedDataBegin + 1, c.MaskedDataBegin + 16, c.MaskedDataBegin + 17, c.MaskedDataBegin + 32, c.MaskedDataBegin + c.MaskedDataSize - 1, c.MaskedDataBegin + c.MaskedDataSize, c.MaskedDataBegin + c.MaskedDataSize + 1} {
		h.encImgs = append(h.encImgs, mk(fmt.Sprintf("ISO3K/cut-%d.iso", n), full[:n]))
	}
	// a key that is a directory, a REDKEY key, an image that is a directory
	_ = os.MkdirAll(filepath.Join(root, "PS3ISO/dirkey.dkey"), 0o755)
	mk("PS3ISO/dirkey.iso", encVariants(env)["valid"])
	mk("REDKEY/valid.dkey", keys["nonhex"])
	_ = os.MkdirAll(filepath.Join(root, "PS3ISO/adir.iso"), 0o755)
	h.dirs = append(h.dirs, "/PS3ISO", "/ISO3K", "/PS3ISO/adir.iso", "/REDKEY")
	// games with PARAM.SFO variants
	sfos := sfoVariants(env)
	for _, name := range sortedKeys(sfos) {
		b := sfos[name]
		g := filepath.Join(root, "GAMES", name)
		mk(filepath.Join("GAMES", name, "PS3_GAME", "PARAM.SFO"), b)
		mk(filepath.Join("GAMES", name, "PS3_GAME", "USRDIR", "EBOOT.BIN"), []byte("eboot"))
		h.sfoDirs = append(h.sfoDirs, g)
		h.dirs = append(h.dirs, "/GAMES/"+name)
	}
	_ = os.MkdirAll(filepath.Join(root, "GAMES/sfo-is-dir/PS3_GAME/PARAM.SFO"), 0o755)
	_ = os.MkdirAll(filepath.Join(root, "GAMES/no-ps3game/x"), 0o755)
	mk("GAMES/ps3game-is-file/PS3_GAME", []byte("file"))
	h.dirs = append(h.dirs, "/GAMES/sfo-is-dir", "/GAMES/no-ps3game", "/GAMES/ps3game-is-file")
	h.sfoDirs = append(h.sfoDirs, filepath.Join(root, "GAMES/sfo-is-dir"), filepath.Join(root, "GAMES/no-ps3game"), filepath.Join(root, "GAMES/ps3game-is-file"))
	// names and shapes
	long := strings.Repeat("n", 255)
	mk("NAMES/"+long, []byte("x"))
	mk("NAMES/"+strings.Repeat("J", 111), []byte("x"))
	mk("NAMES/"+strings.Repeat("日", 85), []byte("x"))
	mk("NAMES/bad\xff\xfeutf8", []byte("x"))
	mk("NAMES/sp ace;1", []byte("x"))
	_ = os.MkdirAll(filepath.Join(root, "NAMES", strings.Repeat("d", 255), strings.Repeat("e", 255)), 0o755)
	_ = os.MkdirAll(filepath.Join(root, "NAMES", strings.Repeat("D", 130)), 0o755)
	h.dirs = append(h.dirs, "/NAMES", "/NAMES/"+strings.Repeat("d", 255), "/NAMES/"+strings.Repeat("D", 130))
	deep := "DEEP"
	for k := 0; k < 60; k++ {
		deep = filepath.Join(deep, fmt.Sprintf("l%d", k))
	}
	mk(filepath.Join(deep, "bottom.bin"), []byte("bottom"))
	h.dirs = append(h.dirs, "/DEEP")
	for k := 0; k < 1200; k++ {
		if k%3 == 0 {
			_ = os.MkdirAll(filepath.Join(root, "WIDE", fmt.Sprintf("dir%04d", k)), 0o755)
		} else {
			p := filepath.Join(root, "WIDE", fmt.Sprintf("file%04d_%s.bin", k, strings.Repeat("x", k%40)))
			_ = os.MkdirAll(filepath.Dir(p), 0o755)
			_ = os.WriteFile(p, []byte{byte(k)}, 0o644)
		}
	}
	h.dirs = append(h.dirs, "/WIDE")
	_ = os.MkdirAll(filepath.Join(root, "LOOP/a"), 0o755)
	_ = os.Symlink("..", filepath.Join(root, "LOOP/a/up"))
	_ = os.Symlink("self", filepath.Join(root, "LOOP/self"))
	_ = os.Symlink("/nonexistent/target", filepath.Join(root, "LOOP/dangling"))
	mk("LOOP/a/f.bin", []byte("f"))
	h.dirs = append(h.dirs, "/LOOP", "/LOOP/a")
	h.files = append(h.files, "/LOOP/self", "/LOOP/dangling")
	_ = os.MkdirAll(filepath.Join(root, "EMPTY"), 0o755)
	h.dirs = append(h.dirs, "/EMPTY", "/")
	// one name around the limits of a directory record / a path-table entry per directory (the first over-long name ends a scan)
	for _, n := range []int{111, 112, 127, 128, 129, 150, 200, 221, 222} {
		mk(fmt.Sprintf("LONGD/f%d/%s", n, strings.Repeat("f", n)), []byte("x"))
		mk(fmt.Sprintf("LONGD/d%d/%s/in.bin", n, strings.Repeat("d", n)), []byte("y"))
		h.dirs = append(h.dirs, fmt.Sprintf("/LONGD/f%d", n), fmt.Sprintf("/LONGD/d%d", n))
	}
	// these first (always as a plain image), then the game directories: the round-robin of the virtual-prefix sessions reaches
	// every one of them and every PARAM.SFO variant early
	rank := func(d string) int {
		switch {
		case strings.HasPrefix(d, "/LONGD/"):
			return 0
		case strings.HasPrefix(d, "/GAMES/"):
			return 1
		}
		return 2
	}
	sort.SliceStable(h.dirs, func(i, j int) bool { return rank(h.dirs[i]) < rank(h.dirs[j]) })
	return h, nil
}

func sortedKeys(m map[string][]byte) []string {
	var ks []string
	for k := range m {
		ks = append(ks, k)
	}
	sort.Strings(ks)
	return ks
}

// ---- hostile sessions ----

var crashCursor [4]int // round-robin positions, so that every crafted object is visited after few sessions

func crashSession(env *Env, h *hostileRoot, kind int) []*Req {
	r := env.Rnd
	bigN := []uint32{0, 1, 15, 2047, 2048, 2049, 65536, 65537, 1 << 20, 1 << 24, 0x7FFFFFFF, 0x80000000, 0xFFFFFFFF}
	bigOff := []uint64{0, 1, 2047, 2048, 0xF6F, 0xF70, 0x1070, 1 << 31, 1 << 32, 1 << 62, 1 << 63, 0xFFFFFFFFFFFFFFFF}
	var reqs []*Req
	reads := func() {
		for k := 0; k < 3+r.Intn(5); k++ {
			n := bigN[r.Intn(len(bigN))]
			if n > 1<<24 && r.Intn(4) != 0 {
				n = uint32(r.Intn(70000))
			}
			switch r.Intn(4) {
			case 0:
				reqs = append(reqs, &Req{Op: opReadFile, N: n, Off: bigOff[r.Intn(len(bigOff))]})
			case 1:
				reqs = append(reqs, &Req{Op: opReadFileCritical, N: uint32(r.Intn(5000)), Off: uint64(r.Intn(30000))})
			case 2:
				reqs = append(reqs, &Req{Op: opReadCD, Start: uint32(r.Intn(40)), Cnt: []uint32{0, 1, 2, 16, 1 << 16, 0xFFFFFFFF}[r.Intn(6)]})
			default:
				reqs = append(reqs, &Req{Op: opReadFile, N: uint32(r.Intn(9000)), Off: uint64(r.Intn(25000))})
			}
		}
	}
	switch kind {
	case 0: // every crafted file, opened plainly
		for k := 0; k < 10; k++ {
			crashCursor[0]++
			reqs = append(reqs, nil) // a new connection for every object: a failed critical read ends the previous one
			reqs = append(reqs, &Req{Op: opOpenFile, Path: h.files[crashCursor[0]%len(h.files)]})
			reads()
			reqs = append(reqs, &Req{Op: opStatFile, Path: h.files[r.Intn(len(h.files))]})
		}
	case 1: // directories through the virtual prefixes
		for k := 0; k < 4; k++ {
			crashCursor[1]++
			d := h.dirs[crashCursor[1]%len(h.dirs)]
			pre := []string{"/***PS3***", "/***DVD***", "***PS3***", "/***PS3***/.."}[r.Intn(4)]
			if crashCursor[1] < 2*len(h.dirs) { // first pass: PS3 mode, second pass: plain mode, then anything
				pre = []string{"/***PS3***", "/***DVD***"}[crashCursor[1]/len(h.dirs)]
			}
			if strings.HasPrefix(d, "/LONGD/") { // (the game mode gives up on these before it looks at the names)
				pre = "/***DVD***"
			}
			reqs = append(reqs, nil)
			reqs = append(reqs, &Req{Op: opOpenFile, Path: pre + d})
			reads()
		}
	case 2: // listings and sizes
		for k := 0; k < 5; k++ {
			crashCursor[2]++
			d := h.dirs[crashCursor[2]%len(h.dirs)]
			reqs = append(reqs, nil)
			reqs = append(reqs, &Req{Op: opOpenDir, Path: d}, &Req{Op: opReadDir}, &Req{Op: opOpenDir, Path: d})
			for j := 0; j < 3; j++ {
				reqs = append(reqs, &Req{Op: []int{opReadDirEntry, opReadDirEntryV2}[r.Intn(2)]})
			}
			reqs = append(reqs, &Req{Op: opGetDirSize, Path: d}, &Req{Op: opStatFile, Path: d})
		}
	default: // operations without an open object, mutations, odd opcodes
		for k := 0; k < 10; k++ {
			switch r.Intn(8) {
			case 0:
				reads()
			case 1:
				reqs = append(reqs, &Req{Op: opReadDirEntry}, &Req{Op: opReadDir})
			case 2:
				reqs = append(reqs, &Req{Op: opWriteFile, N: uint32(r.Intn(100)), Payload: make([]byte, r.Intn(100))})
			case 3:
				reqs = append(reqs, &Req{Op: opCreateFile, Path: h.files[r.Intn(len(h.files))]})
			case 4:
				reqs = append(reqs, &Req{Op: []int{opDeleteFile, opRmdir, opMkdir}[r.Intn(3)], Path: h.dirs[r.Intn(len(h.dirs))]})
			case 5:
				reqs = append(reqs, &Req{Op: 0x1200 + r.Intn(0x50)})
			default:
				reqs = append(reqs, &Req{Op: opOpenFile, Path: strings.Repeat("/"+strings.Repeat("p", 200), 1+r.Intn(20))})
			}
		}
	}
	for _, q := range reqs {
		if q != nil {
			q.Junk = make([]byte, 14)
			r.Read(q.Junk)
		}
	}
	return reqs
}

// segments splits a request list at the nil markers: each segment travels on its own connection
func segments(reqs []*Req) (streams [][]byte, flat []*Req) {
	var cur []byte
	for _, q := range reqs {
		if q == nil {
			if len(cur) > 0 {
				streams = append(streams, cur)
			}
			cur = nil
			continue
		}
		cur = append(cur, q.Wire()...)
		flat = append(flat, q)
	}
	if len(cur) > 0 {
		streams = append(streams, cur)
	}
	return streams, flat
}

type crashServer struct {
	run       *binRun
	addr      string
	bystander net.Conn
}

func startCrashServer(home, root string, allowWrite bool) (*crashServer, error) {
	port := freePort()
	addr := fmt.Sprintf("127.0.0.1:%d", port)
	args := []string{"server", "--listen-addr", addr, "--root", root, "--read-timeout", "3s"}
	if allowWrite {
		args = append(args, "--allow-write")
	}
	// an address-space limit, so that a count-driven allocation shows up as a crash of the server, not of the sandbox
	sh := fmt.Sprintf("ulimit -v 8000000; exec %q %s", binPath(), shellJoin(args))
	run, err := startShell(home, sh)
	if err != nil {
		return nil, err
	}
	if !run.waitPort(addr, 5*time.Second) {
		run.Kill()
		return nil, fmt.Errorf("server did not start: %s", trim(run.Err(), 300))
	}
	by, err := net.DialTimeout("tcp", addr, time.Second)
	if err != nil {
		run.Kill()
		return nil, err
	}
	return &crashServer{run: run, addr: addr, bystander: by}, nil
}

func shellJoin(args []string) string {
	var q []string
	for _, a := range args {
		q = append(q, "'"+strings.ReplaceAll(a, "'", `'\''`)+"'")
	}
	return strings.Join(q, " ")
}

// statProbe: STAT "/" on the connection answers with 33 bytes
func statProbe(c net.Conn, timeout time.Duration) bool {
	q := &Req{Op: opStatFile, Path: "/", Junk: make([]byte, 14)}
	_ = c.SetDeadline(time.Now().Add(timeout))
	if _, err := c.Write(q.Wire()); err != nil {
		return false
	}
	buf := make([]byte, 33)
	n := 0
	for n < 33 {
		k, err := c.Read(buf[n:])
		n += k
		if err != nil {
			break
		}
	}
	return n == 33
}

func runCrash(env *Env) error {
	base, err := os.MkdirTemp("", "vcrash")
	if err != nil {
		return err
	}
	defer os.RemoveAll(base)
	home := filepath.Join(base, "home")
	_ = os.MkdirAll(home, 0o755)
	root := filepath.Join(base, "root")
	h, err := buildHostileRoot(env, root)
	if err != nil {
		return err
	}
	allow := false
	srv, err := startCrashServer(home, root, allow)
	if err != nil {
		return err
	}
	defer func() {
		if srv != nil {
			srv.bystander.Close()
			srv.run.Kill()
		}
	}()
	restart := func() error {
		srv.bystander.Close()
		srv.run.Kill()
		s2, err := startCrashServer(home, root, allow)
		if err != nil {
			srv = nil
			return err
		}
		srv = s2
		return nil
	}
	nserver := env.N * 3 / 4
	for i := 0; i < env.N; i++ {
		id := fmt.Sprintf("crash-%d", i)
		if i >= nserver {
			crashCLI(env, id, home, base, h, i-nserver)
			continue
		}
		if i == nserver/2 { // second half with uploads allowed
			allow = true
			if err := restart(); err != nil {
				return err
			}
		}
		kind := []int{0, 1, 2, 1, 3, 4, 5, 1}[i%8]
		var stream []byte
		var streams [][]byte
		desc := ""
		switch {
		case kind < 4:
			ss, flat := segments(crashSession(env, h, kind))
			streams = ss
			desc = describeReqs(flat)
		case kind == 4: // a valid session with bytes flipped, cut short or doubled
			_, flat := segments(crashSession(env, h, env.Rnd.Intn(4)))
			reqs := flat
			for _, q := range reqs {
				stream = append(stream, q.Wire()...)
			}
			for k := 0; k < 1+env.Rnd.Intn(6); k++ {
				stream[env.Rnd.Intn(len(stream))] ^= byte(1 << env.Rnd.Intn(8))
			}
			if env.Rnd.Intn(3) == 0 {
				stream = stream[:env.Rnd.Intn(len(stream))]
			}
			desc = "mutated: " + trim(describeReqs(reqs), 300)
		default:
			stream = make([]byte, 16+env.Rnd.Intn(600))
			env.Rnd.Read(stream)
			if env.Rnd.Intn(2) == 0 {
				binary.BigEndian.PutUint16(stream, uint16(0x1224+env.Rnd.Intn(15)))
			}
			desc = "random bytes: " + hex.EncodeToString(stream[:min(32, len(stream))])
		}
		env.Count("session", []string{"files", "virtual", "listings", "stateless", "mutated", "random"}[kind])
		if streams == nil {
			streams = [][]byte{stream}
		}
		// run the session: every segment on its own connection; write everything, read until quiet or closed
		for _, stream := range streams {
			c, err := net.DialTimeout("tcp", srv.addr, time.Second)
			if err != nil {
				break
			}
			_ = c.SetDeadline(time.Now().Add(20 * time.Second))
			go func() { _, _ = c.Write(stream) }()
			buf := make([]byte, 1<<16)
			total := 0
			quiet := 0
			for quiet < 2 && total < 64<<20 {
				_ = c.SetReadDeadline(time.Now().Add(150 * time.Millisecond))
				n, err := c.Read(buf)
				total += n
				if err != nil {
					if ne, ok := err.(net.Error); ok && ne.Timeout() {
						quiet++
						continue
					}
					break
				}
				quiet = 0
			}
			c.Close()
		}
		// liveness
		verdict := "alive"
		if c, err := net.DialTimeout("tcp", srv.addr, time.Second); err != nil {
			time.Sleep(150 * time.Millisecond) // nobody listens: give the exit status time to arrive
		} else {
			c.Close()
		}
		switch {
		case srv.run.Exited():
			verdict = "process-died"
			env.OracleFail(id, fmt.Sprintf("[C04-crash] the server process terminated during the session: %s; stderr: %s", trim(desc, 500), trim(lastLines(srv.run.Err()+srv.run.Out(), 12), 700)))
		default:
			p, err := net.DialTimeout("tcp", srv.addr, 2*time.Second)
			if err != nil || !statProbe(p, 8*time.Second) {
				verdict = "not-accepting"
				env.OracleFail(id, fmt.Sprintf("[C04-accept] after the session a fresh connection is not served: %s; server output: %s", trim(desc, 500), trim(lastLines(srv.run.Err()+srv.run.Out(), 12), 600)))
			}
			if p != nil {
				p.Close()
			}
			if verdict == "alive" && !statProbe(srv.bystander, 8*time.Second) {
				verdict = "bystander-disturbed"
				env.OracleFail(id, fmt.Sprintf("[C04-bystander] a connection opened before the session is no longer served: %s", trim(desc, 500)))
			}
		}
		env.Case(id, "NOMODEL", []string{trim(desc, 200)}, verdict, true)
		if verdict != "alive" {
			if err := restart(); err != nil {
				return err
			}
		}
		if i < 2 {
			env.Sample(map[string]any{"id": id, "session": trim(desc, 300), "verdict": verdict})
		}
	}
	return nil
}

func lastLines(s string, n int) string {
	l := strings.Split(strings.TrimSpace(s), "\n")
	// the head of a Go traceback says what happened
	for i, x := range l {
		if strings.HasPrefix(x, "panic:") || strings.HasPrefix(x, "fatal error:") {
			return strings.Join(l[i:min(len(l), i+n)], " | ")
		}
	}
	if len(l) > n {
		l = l[len(l)-n:]
	}
	return strings.Join(l, " | ")
}

// the same content given to the command-line tools: an error exit, not a crash
func crashCLI(env *Env, id, home, base string, h *hostileRoot, k int) {
	out := filepath.Join(base, fmt.Sprintf("cli-out-%d", k))
	defer os.Remove(out)
	var args []string
	switch k % 3 {
	case 0:
		d := h.sfoDirs[(k/3)%len(h.sfoDirs)]
		args = []string{"make-iso", "--ps3-mode", d, out}
		if k/3 >= len(h.sfoDirs) {
			args = []string{"make-iso", filepath.Join(filepath.Dir(filepath.Dir(d)), []string{"NAMES", "LOOP", "DEEP", "EMPTY", "WIDE"}[env.Rnd.Intn(5)]), out}
		}
	case 1:
		args = []string{"decrypt", "redump", h.encImgs[(k/3)%len(h.encImgs)], h.keys[env.Rnd.Intn(len(h.keys))], out}
	default:
		args = []string{"decrypt", "3k3y", h.encImgs[(k/3)%len(h.encImgs)], out}
	}
	r := runTool(home, base, args...)
	env.Count("cli", args[0]+" "+args[1])
	verdict := fmt.Sprintf("exit%d", r.exit)
	if r.crashed() || r.timedOut || r.exit > 1 {
		verdict = "crashed"
		env.OracleFail(id, fmt.Sprintf("[C04-cli] %s: exit %d, timed out %v: %s", strings.Join(args[:len(args)-1], " "), r.exit, r.timedOut, trim(lastLines(string(r.stderr), 8), 500)))
	}
	env.Count("cli_exit", verdict)
	env.Case(id, "NOMODEL", []string{strings.Join(args[:2], " ") + " " + filepath.Base(args[len(args)-2])}, verdict, true)
}
