//go:build verif

package main

import (
	"fmt"
	"io"
	"net"
	"os"
	"strings"
	"sync"
	"time"
)

func init() { subcmds["timed"] = runTimed }

type timedChunk struct {
	at   int // ms since connect (scripted)
	data []byte
}

// runTimed: timing scripts against the real server with a read timeout T over net.Pipe (which
// implements deadlines).  Gaps are either well inside T (<= 0.6 T) or silence, so scheduling jitter
// cannot flip a verdict; cut times are judged with wide tolerances.
func runTimed(env *Env) error {
	root, err := os.MkdirTemp("", "vtimed")
	if err != nil {
		return err
	}
	defer os.RemoveAll(root)
	_ = os.WriteFile(root+"/a", []byte("hello"), 0o644)
	type job struct {
		id     string
		T      int
		chunks []timedChunk
		nreq   int // complete requests in the script
		kind   string
	}
	var jobs []job
	stat := (&Req{Op: opStatFile, Path: "/a", Junk: make([]byte, 14)}).Wire()
	for i := 0; i < env.N; i++ {
		T := 150
		if env.Tier == "thorough" {
			T = []int{100, 150, 300, 600, 1000}[env.Rnd.Intn(5)]
		}
		j := job{id: fmt.Sprintf("timed-%d", i), T: T}
		at := 0
		k := env.Rnd.Intn(6)
		kind := i % 7
		if kind == 5 && i%12 == 5 {
			k = 20 + env.Rnd.Intn(20) // long-lived: many multiples of T
		}
		for r := 0; r < k; r++ {
			at += T/10 + env.Rnd.Intn(T/2)
			if env.Rnd.Intn(3) == 0 { // the request trickles in two parts
				cut := 1 + env.Rnd.Intn(len(stat)-1)
				j.chunks = append(j.chunks, timedChunk{at, stat[:cut]})
				at += env.Rnd.Intn(T / 10)
				j.chunks = append(j.chunks, timedChunk{at, stat[cut:]})
			} else {
				j.chunks = append(j.chunks, timedChunk{at, stat})
			}
			j.nreq++
		}
		switch kind {
		case 0, 5: // silent afterwards
			j.kind = "silent"
		case 1: // stalled after 5 of 16 command bytes
			at += T/10 + env.Rnd.Intn(T/3)
			j.chunks = append(j.chunks, timedChunk{at, stat[:5]})
			j.kind = "stall-command"
		case 2: // stalled inside the path
			at += T/10 + env.Rnd.Intn(T/3)
			j.chunks = append(j.chunks, timedChunk{at, stat[:17]})
			j.kind = "stall-path"
		case 3: // stalled inside an upload payload
			at += T/10 + env.Rnd.Intn(T/3)
			w := (&Req{Op: opWriteFile, N: 100, Payload: make([]byte, 100), Junk: make([]byte, 14)}).Wire()
			j.chunks = append(j.chunks, timedChunk{at, w[:60]})
			j.kind = "stall-payload"
		case 6: // one request dripping in, a few bytes every 0.35 T: never silent for T, never complete within T
			at += T/10 + env.Rnd.Intn(T/3)
			for p := 0; p < len(stat); p += 3 {
				j.chunks = append(j.chunks, timedChunk{at, stat[p:min(p+3, len(stat))]})
				at += T * 35 / 100
			}
			j.kind = "drip"
		case 4: // two requests pipelined in one chunk, then silence
			at += T/10 + env.Rnd.Intn(T/3)
			j.chunks = append(j.chunks, timedChunk{at, append(append([]byte{}, stat...), stat...)})
			j.nreq += 2
			j.kind = "pipelined"
		}
		jobs = append(jobs, j)
	}
	type result struct {
		obs       string
		cutAt     time.Duration
		responses int
		lastDone  time.Duration
	}
	results := make([]result, len(jobs))
	var wg sync.WaitGroup
	sem := make(chan struct{}, 8)
	for idx := range jobs {
		wg.Add(1)
		sem <- struct{}{}
		go func(idx int) {
			defer wg.Done()
			defer func() { <-sem }()
			j := jobs[idx]
			ls := NewLibServer(root, false, time.Unix(tmutUnix, 0), time.Duration(j.T)*time.Millisecond, 65536)
			defer ls.Stop()
			cli, srv := net.Pipe()
			start := time.Now()
			ls.Connect(srv)
			var mu sync.Mutex
			got := 0
			var eofAt time.Duration
			var lastResp time.Duration
			doneRead := make(chan struct{})
			go func() {
				buf := make([]byte, 4096)
				for {
					n, err := cli.Read(buf)
					mu.Lock()
					got += n
					if n > 0 {
						lastResp = time.Since(start)
					}
					mu.Unlock()
					if err != nil {
						mu.Lock()
						eofAt = time.Since(start)
						mu.Unlock()
						close(doneRead)
						return
					}
				}
			}()
			for _, c := range j.chunks {
				if d := time.Duration(c.at)*time.Millisecond - time.Since(start); d > 0 {
					time.Sleep(d)
				}
				_ = cli.SetWriteDeadline(time.Now().Add(2 * time.Second))
				if _, err := cli.Write(c.data); err != nil {
					break
				}
			}
			select {
			case <-doneRead:
			case <-time.After(time.Duration(j.T)*4*time.Millisecond + 2*time.Second):
			}
			mu.Lock()
			r := result{responses: got / 33, cutAt: eofAt, lastDone: lastResp}
			mu.Unlock()
			if eofAt > 0 {
				r.obs = fmt.Sprintf("handled=%d;cut", r.responses)
			} else {
				r.obs = fmt.Sprintf("handled=%d;wait", r.responses)
			}
			cli.Close()
			if w, ok := interface{}(srv).(io.Closer); ok {
				_ = w
			}
			results[idx] = r
		}(idx)
	}
	wg.Wait()
	for idx, j := range jobs {
		r := results[idx]
		// model input: every byte with its scripted arrival time
		var data []byte
		var times []string
		for _, c := range j.chunks {
			data = append(data, c.data...)
			for range c.data {
				times = append(times, fmt.Sprint(c.at))
			}
		}
		// scripted expectation (oracle): all complete requests handled, then cut T after the last one
		last := 0
		if j.nreq > 0 {
			// completion time of the last complete request = arrival of its last byte
			cnt := 0
			for _, c := range j.chunks {
				cnt += len(c.data)
				if cnt <= j.nreq*len(stat) {
					last = c.at
				}
			}
			if j.kind == "pipelined" {
				last = j.chunks[len(j.chunks)-1].at
			}
		}
		wantCut := time.Duration(last+j.T) * time.Millisecond
		tol := time.Duration(max(150, j.T/2)) * time.Millisecond
		switch {
		case r.responses > j.nreq:
			env.OracleFail(j.id, fmt.Sprintf("[C16-cut] %s script with T=%dms: a request that took longer than T to arrive was still answered (%d answers for %d requests completed in time; connection ended at %v, expected a cut at %v)", j.kind, j.T, r.responses, j.nreq, r.cutAt, wantCut))
		case r.cutAt == 0:
			env.OracleFail(j.id, fmt.Sprintf("[C16-cut] %s script with T=%dms: the connection was not cut (handled %d of %d)", j.kind, j.T, r.responses, j.nreq))
		case r.responses != j.nreq:
			env.OracleFail(j.id, fmt.Sprintf("[C16-alive] %s script with T=%dms: %d of %d requests were answered before the connection ended at %v (every gap was below 0.7 T)", j.kind, j.T, r.responses, j.nreq, r.cutAt))
		case r.cutAt < wantCut-30*time.Millisecond || r.cutAt > wantCut+tol:
			env.OracleFail(j.id, fmt.Sprintf("[C16-cut] %s script with T=%dms: cut at %v, expected %v (+%v)", j.kind, j.T, r.cutAt, wantCut, tol))
		}
		mobs := r.obs
		if r.cutAt > 0 {
			// the model reports the exact logical cut time; compare it as scripted when the real one is inside the window
			if r.cutAt >= wantCut-30*time.Millisecond && r.cutAt <= wantCut+tol {
				mobs = fmt.Sprintf("handled=%d;cut@%d", r.responses, last+j.T)
			} else {
				mobs = fmt.Sprintf("handled=%d;cut@%d!", r.responses, r.cutAt.Milliseconds())
			}
		}
		env.Case(j.id, "TIMED", []string{fmt.Sprint(j.T), hx(data), strings.Join(times, ",")}, mobs, j.nreq >= 2 || j.kind != "silent")
		env.Count("kind", j.kind)
		env.Count("T", fmt.Sprint(j.T))
		if idx < 3 {
			env.Sample(map[string]any{"id": j.id, "T_ms": j.T, "kind": j.kind, "requests": j.nreq, "observed": r.obs, "cut_at_ms": r.cutAt.Milliseconds()})
		}
	}
	return nil
}
