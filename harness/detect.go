//go:build verif

package main

import (
	"bytes"
	"encoding/binary"
	"encoding/hex"
	"errors"
	"fmt"
	"io"
	"os"
	"path/filepath"
	"strings"

	"github.com/spf13/afero"

	pfs "github.com/xakep666/ps3netsrv-go/pkg/fs"
)

func init() { subcmds["detect"] = runDetect }

func runDetect(env *Env) error {
	base, err := os.MkdirTemp("", "vdet")
	if err != nil {
		return err
	}
	defer os.RemoveAll(base)
	c := pfs.VerifConsts
	dirNames := []string{"PS3ISO", "ps3iso", "Ps3Iso", "GAMES"}
	exts := []string{".iso", ".ISO", ".Iso", ".bin", ""}
	keySits := []string{"none", "adjacent", "redkey", "both", "malformed", "adjacent-dir", "short", "redkey-file"}
	wms := []string{"none", "enc", "dec"}
	for i := 0; i < env.N; i++ {
		id := fmt.Sprintf("det-%d", i)
		top := filepath.Join(base, fmt.Sprintf("w%d", i))
		dn := dirNames[env.Rnd.Intn(len(dirNames))]
		ex := exts[env.Rnd.Intn(len(exts))]
		nested := env.Rnd.Intn(2) == 0
		ks := keySits[env.Rnd.Intn(len(keySits))]
		wm := wms[env.Rnd.Intn(len(wms))]
		// the image: 8 sectors, region table [0,2) plain, [2,5) encrypted, [5,8) plain
		keyAdj := make([]byte, 16)
		keyRed := make([]byte, 16)
		key3k := make([]byte, 16)
		env.Rnd.Read(keyAdj)
		env.Rnd.Read(keyRed)
		env.Rnd.Read(key3k)
		nsec := 8
		size := nsec * 2048
		switch env.Rnd.Intn(6) {
		case 0: // around the watermark area
			size = 0xF6F + env.Rnd.Intn(0x1071-0xF6F+1)
		case 2: // ending just behind the watermark area: the image is recognised and reads across the area reach the end of the file
			size = []int{0x1070, 0x1071, 0x1072, 0x1080, 0x10FF, 0x1100}[env.Rnd.Intn(6)]
		case 1:
			size = env.Rnd.Intn(3000)
		}
		content := make([]byte, size)
		env.Rnd.Read(content)
		validTable := env.Rnd.Intn(8) != 0
		if len(content) >= 24 {
			hdr := make([]byte, 24)
			binary.BigEndian.PutUint32(hdr, 2)
			binary.BigEndian.PutUint32(hdr[8:], 0)
			binary.BigEndian.PutUint32(hdr[12:], 2)
			binary.BigEndian.PutUint32(hdr[16:], 5)
			binary.BigEndian.PutUint32(hdr[20:], 8)
			if !validTable {
				binary.BigEndian.PutUint32(hdr[8:], 1)
			}
			copy(content, hdr)
		}
		if len(content) >= 0xF70+32 {
			switch wm {
			case "enc":
				copy(content[0xF70:], c.EncWatermark)
				copy(content[0xF80:], key3k)
			case "dec":
				copy(content[0xF70:], c.DecWatermark)
			}
		}
		// the tree
		fileName := "game" + ex
		imgDir := &WNode{Name: dn, Dir: true, MTime: 1500000001}
		holder := imgDir
		relDir := "/" + dn
		if nested {
			sub := &WNode{Name: "sub", Dir: true, MTime: 1500000002}
			imgDir.Kids = append(imgDir.Kids, sub)
			holder = sub
			relDir += "/sub"
		}
		holder.Kids = append(holder.Kids, &WNode{Name: fileName, MTime: 1400000000, Content: lit(content)})
		keyName := strings.TrimSuffix(fileName, ex) + ".dkey"
		r := &WNode{Name: "R", Dir: true, MTime: 1500000000, Kids: []*WNode{imgDir}}
		hexKey := func(k []byte) []byte {
			s := hex.EncodeToString(k)
			if env.Rnd.Intn(2) == 0 {
				s = strings.ToUpper(s)
			}
			if env.Rnd.Intn(2) == 0 {
				s += "\n"
			}
			return []byte(s)
		}
		addRed := func(k []byte) {
			red := &WNode{Name: "REDKEY", Dir: true, MTime: 1500000003}
			h := red
			if nested {
				s := &WNode{Name: "sub", Dir: true, MTime: 1500000004}
				red.Kids = append(red.Kids, s)
				h = s
			}
			h.Kids = append(h.Kids, &WNode{Name: keyName, MTime: 1400000001, Content: lit(k)})
			r.Kids = append(r.Kids, red)
		}
		if keyName == fileName { // no extension: the key name would collide with the image
			ks = "none"
		}
		switch ks {
		case "adjacent":
			holder.Kids = append(holder.Kids, &WNode{Name: keyName, MTime: 1400000001, Content: lit(hexKey(keyAdj))})
		case "redkey":
			addRed(hexKey(keyRed))
		case "both":
			holder.Kids = append(holder.Kids, &WNode{Name: keyName, MTime: 1400000001, Content: lit(hexKey(keyAdj))})
			addRed(hexKey(keyRed))
		case "malformed":
			holder.Kids = append(holder.Kids, &WNode{Name: keyName, MTime: 1400000001, Content: lit([]byte("zz112233445566778899aabbccddeeff"))})
			addRed(hexKey(keyRed))
		case "short":
			holder.Kids = append(holder.Kids, &WNode{Name: keyName, MTime: 1400000001, Content: lit([]byte("0011"))})
		case "adjacent-dir":
			holder.Kids = append(holder.Kids, &WNode{Name: keyName, Dir: true, MTime: 1400000001})
			addRed(hexKey(keyRed))
		case "redkey-file": // where the key's directory would be there is a regular file: no key file exists, the image is passed through
			if nested && env.Rnd.Intn(2) == 0 {
				r.Kids = append(r.Kids, &WNode{Name: "REDKEY", Dir: true, MTime: 1500000003, Kids: []*WNode{{Name: "sub", MTime: 1400000001, Content: lit(hexKey(keyRed))}}})
			} else {
				r.Kids = append(r.Kids, &WNode{Name: "REDKEY", MTime: 1400000001, Content: lit(hexKey(keyRed))})
			}
		}
		w := &WNode{Dir: true, MTime: 1300000000, Kids: []*WNode{r}}
		if err := w.Materialise(top); err != nil {
			return err
		}
		path := relDir + "/" + fileName
		fsys := &pfs.FS{Fs: afero.NewBasePathFs(afero.NewOsFs(), filepath.Join(top, "R"))}
		f, oerr := fsys.Open(path)
		// ---- the harness' own decision table, from the property text
		isIso := strings.EqualFold(ex, ".iso")
		inPS3 := strings.EqualFold(dn, "ps3iso")
		var useKey []byte
		expect := "PLAIN"
		dontCare := false
		if isIso && inPS3 {
			switch ks {
			case "adjacent", "both":
				useKey = keyAdj
			case "redkey":
				useKey = keyRed
			case "malformed", "short", "adjacent-dir":
				dontCare = true // the property is silent about malformed key files
			}
		}
		has3k := len(content) >= 0x1070
		switch {
		case useKey != nil:
			expect = "ENC"
		case has3k && wm == "enc":
			expect = "ENC3K3Y"
			useKey = key3k
		case has3k && wm == "dec":
			expect = "MASK"
		}
		tableOK := validTable && len(content) >= 24
		// reference transformation
		ref := append([]byte(nil), content...)
		if (expect == "ENC" || expect == "ENC3K3Y") && tableOK {
			ref = refPlain(content, refDeriveKey(useKey), [][2]uint32{{0, 2}, {5, 8}}, false)
		}
		if expect == "ENC3K3Y" || expect == "MASK" {
			for p := 0xF70; p < 0x1070 && p < len(ref); p++ {
				ref[p] = 0
			}
		}
		// ---- observe
		reads := [][2]int64{{0, 64}, {0xF60, 0x40}, {0xF80, 0x100}, {0x1060, 0x30}, {2 * 2048, 2048}, {2*2048 + 100, 3000}, {int64(size) - 10, 50}}
		var obs string
		tag := ""
		if oerr != nil {
			tag, obs = "ERR", "ERR"
		} else {
			switch v := f.(type) {
			case *pfs.EncryptedISO:
				tag = "ENC"
			case *pfs.ISO3k3y:
				if _, ok := pfs.VerifISO3k3yInner(v).(*pfs.EncryptedISO); ok {
					tag = "ENC3K3Y"
				} else {
					tag = "MASK"
				}
			default:
				tag = "PLAIN"
			}
			var parts []string
			for _, rd := range reads {
				if rd[0] < 0 {
					rd[0] = 0
				}
				buf := make([]byte, rd[1])
				var n int
				var rerr error
				func() {
					defer func() {
						if rec := recover(); rec != nil {
							env.OracleFail(id, fmt.Sprintf("[C11-panic] reading %v of %s panicked: %v", rd, path, rec))
							rerr = errors.New("panic")
						}
					}()
					if env.Rnd.Intn(2) == 0 {
						n, rerr = f.ReadAt(buf, rd[0])
					} else {
						if _, rerr = f.Seek(rd[0], io.SeekStart); rerr == nil {
							n, rerr = io.ReadFull(f, buf)
						}
					}
				}()
				_ = rerr
				parts = append(parts, digestOut(buf[:n]))
				// direct oracle: the reference transformation
				if !dontCare && (tableOK || expect == "PLAIN" || expect == "MASK") {
					var want []byte
					if rd[0] < int64(len(ref)) {
						e := rd[0] + rd[1]
						if e > int64(len(ref)) {
							e = int64(len(ref))
						}
						want = ref[rd[0]:e]
					}
					if !bytes.Equal(buf[:n], want) {
						env.OracleFail(id, fmt.Sprintf("[C11-bytes] %s (dir %q ext %q keys %s watermark %s size %d): read %v returned %d bytes that differ from the %s reference (%d bytes)", path, dn, ex, ks, wm, size, rd, n, expect, len(want)))
					}
				}
			}
			obs = tag + ";" + strings.Join(parts, ",")
			f.Close()
		}
		if !dontCare {
			switch {
			case (expect == "ENC" || expect == "ENC3K3Y") && !tableOK:
				if tag != "ERR" {
					env.OracleFail(id, fmt.Sprintf("[C11-kind] %s must be rejected (invalid region table), got %s", path, tag))
				}
			case tag != expect:
				env.OracleFail(id, fmt.Sprintf("[C11-kind] %s (dir %q ext %q keys %s watermark %s size %d): opened as %s, documented: %s", path, dn, ex, ks, wm, size, tag, expect))
			}
		}
		// dec tables for the model: one per candidate key
		var tabs []string
		for _, k := range [][]byte{keyAdj, keyRed, key3k} {
			dk := refDeriveKey(k)
			var es []string
			for s := 0; (s+1)*2048 <= len(content); s++ {
				es = append(es, fmt.Sprintf("%d=%s", s, hx(refDecryptSector(dk, s, content[s*2048:(s+1)*2048]))))
			}
			tabs = append(tabs, hx(k)+":"+strings.Join(es, ";"))
		}
		var rs []string
		for _, rd := range reads {
			if rd[0] < 0 {
				rd[0] = 0
			}
			rs = append(rs, fmt.Sprintf("%d:%d", rd[0], rd[1]))
		}
		cfg := fmt.Sprintf("%s|%s|0|%s", hx([]byte("R")), hxnum(int64(len(top))), hxnum(tmutUnix))
		env.Case(id, "DETECT", []string{cfg, w.Spec(), hx([]byte(path)), strings.Join(tabs, "|"), strings.Join(rs, ",")}, obs, isIso && inPS3 || wm != "none")
		env.Count("expected", expect)
		env.Count("keys", ks)
		env.Count("watermark", wm)
		env.Count("dir", dn)
		env.Count("ext", ex)
		if i < 3 {
			env.Sample(map[string]any{"id": id, "path": path, "keys": ks, "watermark": wm, "size": size, "expected": expect, "observed": trim(obs, 120)})
		}
		os.RemoveAll(top)
	}
	return nil
}
