//go:build verif

package main

import (
	"fmt"
	"os"
	"path/filepath"

	"github.com/spf13/afero"

	pfs "github.com/xakep666/ps3netsrv-go/pkg/fs"
)

// Job sfo — pkg/fs.sfoField against Model/Sfo.sfo_field: crafted variants, generated well-formed files (any key
// order / count), and mutations of those (bit flips, truncations, overwritten header words).
//
//	case fields: content(hex) field(hex)     observation: V<value hex> | ERR | PANIC
func init() { subcmds["sfo"] = runSfo }

func runSfo(env *Env) error {
	base, err := os.MkdirTemp("", "vsfo")
	if err != nil {
		return err
	}
	defer os.RemoveAll(base)
	var pool [][]byte
	vs := sfoVariants(env)
	for _, k := range sortedKeys(vs) {
		pool = append(pool, vs[k])
	}
	for i := 0; i < env.N; i++ {
		id := fmt.Sprintf("sfo-%d", i)
		var content []byte
		kind := "crafted"
		switch {
		case i < len(pool):
			content = pool[i]
		case i%3 == 0:
			kind = "wellformed"
			content = genSFO(env, []string{"BLES01234", "ABCD", "", "X", "NPUB31419-EXTRA-LONG-TITLE-ID-VALUE"}[env.Rnd.Intn(5)])
		default:
			kind = "mutated"
			content = append([]byte(nil), genSFO(env, "BLES01234")...)
			for k := 0; k < 1+env.Rnd.Intn(4); k++ {
				switch env.Rnd.Intn(4) {
				case 0:
					content[env.Rnd.Intn(len(content))] ^= byte(1 << env.Rnd.Intn(8))
				case 1:
					content = content[:env.Rnd.Intn(len(content)+1)]
				case 2: // a header or index word becomes extreme
					if len(content) >= 36 {
						off := []int{8, 12, 16, 20, 24, 28, 32}[env.Rnd.Intn(7)]
						v := []uint32{0, 1, 0x7FFFFFFF, 0x80000000, 0xFFFFFFFF, uint32(len(content)), uint32(len(content) - 1)}[env.Rnd.Intn(7)]
						content[off], content[off+1], content[off+2], content[off+3] = byte(v), byte(v>>8), byte(v>>16), byte(v>>24)
					}
				default:
					content = append(content, byte(env.Rnd.Intn(256)))
				}
				if len(content) == 0 {
					break
				}
			}
		}
		field := "TITLE_ID"
		if env.Rnd.Intn(6) == 0 {
			field = []string{"TITLE", "CATEGORY", "NOPE", ""}[env.Rnd.Intn(4)]
		}
		p := filepath.Join(base, "PARAM.SFO")
		if err := os.WriteFile(p, content, 0o644); err != nil {
			return err
		}
		f, err := afero.NewOsFs().Open(p)
		if err != nil {
			return err
		}
		obs := ""
		func() {
			defer func() {
				if r := recover(); r != nil {
					obs = "PANIC"
					env.OracleFail(id, fmt.Sprintf("[C04-panic] sfoField panicked on a %d-byte file: %v", len(content), r))
				}
			}()
			v, err := pfs.VerifSfoField(f, field)
			if err != nil {
				obs = "ERR"
			} else {
				obs = "V" + hx([]byte(v))
			}
		}()
		f.Close()
		env.Case(id, "SFO", []string{hx(content), hx([]byte(field))}, obs, true)
		env.Count("kind", kind)
		env.Count("result", obs[:1])
		if i < 3 {
			env.Sample(map[string]any{"id": id, "kind": kind, "bytes": len(content), "field": field, "observed": trim(obs, 60)})
		}
	}
	return nil
}
