//go:build verif

package main

import (
	"bytes"
	"crypto/aes"
	"crypto/cipher"
	"encoding/binary"
	"errors"
	"fmt"
	"io"
	"os"
	"os/exec"
	"path/filepath"
	"strings"

	"github.com/spf13/afero"

	pfs "github.com/xakep666/ps3netsrv-go/pkg/fs"
)

func init() { subcmds["enc"] = runEnc }

// ---- the harness' own decryptor (written from psdevwiki's description: the image key is the disc key
// AES-128-CBC-encrypted with a fixed key/IV; each 2048-byte sector of an encrypted region is
// AES-128-CBC-decrypted on its own with an IV holding the big-endian sector number in its last 4 bytes) ----

func refDeriveKey(discKey []byte) []byte {
	c := pfs.VerifConsts
	blk, err := aes.NewCipher(c.KeyData1)
	if err != nil {
		panic(err)
	}
	out := make([]byte, 16)
	cipher.NewCBCEncrypter(blk, c.IvData1).CryptBlocks(out, discKey)
	return out
}

func refDecryptSector(key []byte, sector int, ct []byte) []byte {
	blk, err := aes.NewCipher(key)
	if err != nil {
		panic(err)
	}
	iv := make([]byte, 16)
	binary.BigEndian.PutUint32(iv[12:], uint32(sector))
	out := make([]byte, len(ct))
	cipher.NewCBCDecrypter(blk, iv).CryptBlocks(out, ct)
	return out
}

func refEncryptSector(key []byte, sector int, pt []byte) []byte {
	blk, _ := aes.NewCipher(key)
	iv := make([]byte, 16)
	binary.BigEndian.PutUint32(iv[12:], uint32(sector))
	out := make([]byte, len(pt))
	cipher.NewCBCEncrypter(blk, iv).CryptBlocks(out, pt)
	return out
}

// reference plaintext of a whole image
func refPlain(content []byte, key []byte, plainRegions [][2]uint32, clear bool) []byte {
	out := append([]byte(nil), content...)
	for i := 1; i < len(plainRegions); i++ {
		for s := int(plainRegions[i-1][1]); s < int(plainRegions[i][0]); s++ {
			if (s+1)*2048 <= len(content) {
				copy(out[s*2048:], refDecryptSector(key, s, content[s*2048:(s+1)*2048]))
			}
		}
	}
	if clear {
		h := 8 + 8*len(plainRegions)
		for i := 0; i < h && i < len(out); i++ {
			out[i] = 0
		}
	}
	return out
}

type encImage struct {
	content []byte
	regions [][2]uint32 // unencrypted regions as stored
	valid   bool
	why     string
}

// genEncImage builds an image of nsec sectors (+ optional partial tail) with a region table
func genEncImage(env *Env, key []byte) encImage {
	r := env.Rnd
	nsec := 8 + r.Intn(40)
	tail := 0
	if r.Intn(4) == 0 {
		tail = r.Intn(2048)
	}
	plain := make([]byte, nsec*2048+tail)
	r.Read(plain)
	// region borders
	count := 2 + r.Intn(4)
	if r.Intn(10) == 0 {
		count = 2 + r.Intn(60)
	}
	var regs [][2]uint32
	pos := uint32(0)
	big := r.Intn(10) == 0
	if big { // more than 256 sectors, with one encrypted region across the 255/256 and 511/512 borders
		nsec = 258 + r.Intn(40)
		if env.Tier == "thorough" {
			nsec = 270 + r.Intn(300)
		}
		plain = make([]byte, nsec*2048+tail)
		r.Read(plain)
		regs = [][2]uint32{{0, uint32(1 + r.Intn(3))}, {uint32(nsec - 4), uint32(nsec - 2)}, {uint32(nsec - 1), uint32(nsec)}}
		count = 0
	}
	for i := 0; i < count; i++ {
		start := pos
		if i > 0 {
			start += uint32(r.Intn(4)) // gap = encrypted region (may be empty: adjacent regions)
		}
		end := start + 1 + uint32(r.Intn(4))
		regs = append(regs, [2]uint32{start, end})
		pos = end
	}
	if !big && r.Intn(6) == 0 { // regions reaching to or beyond the end of the file
		regs[len(regs)-1][1] = uint32(nsec) + uint32(r.Intn(3))
	}
	// near-miss variants
	nm := r.Intn(13)
	if big {
		nm = 99
	}
	switch nm {
	case 4: // a well-formed table that does not fit the first sector (more than 255 regions)
		n := []int{255, 255, 254, 256, 256 + r.Intn(200)}[r.Intn(5)] // 255 regions fill the first sector exactly: still well-formed
		regs = regs[:0]
		for i := 0; i < n; i++ {
			regs = append(regs, [2]uint32{uint32(2 * i), uint32(2*i + 1)})
		}
		nsec = 2*n + 2
		if n <= 255 { // a well-formed map may describe more than the file holds: keep these images small
			nsec = 24 + r.Intn(40)
		}
		plain = make([]byte, nsec*2048+tail)
		r.Read(plain)
	case 0:
		regs[0][0] = 1
	case 1:
		k := r.Intn(len(regs))
		regs[k][1] = regs[k][0]
	case 2:
		if len(regs) > 1 {
			regs[1][0] = regs[0][1] - 1
		}
	case 3:
		regs = regs[:1]
	}
	img := encImage{regions: regs}
	// validity as documented: at least two regions, the map inside the first sector, the first region
	// starts at 0, every region non-empty, borders non-decreasing
	img.valid, img.why = true, ""
	switch {
	case len(regs) < 2:
		img.valid, img.why = false, "count < 2"
	case 8+8*len(regs) > 2048:
		img.valid, img.why = false, "table beyond the first sector"
	case regs[0][0] != 0:
		img.valid, img.why = false, "first region not at 0"
	default:
		for k := range regs {
			if regs[k][1] <= regs[k][0] {
				img.valid, img.why = false, "empty or reversed region"
			} else if k > 0 && regs[k][0] < regs[k-1][1] {
				img.valid, img.why = false, "overlap"
			}
		}
	}
	// write the table
	hdr := make([]byte, 8+8*len(regs))
	binary.BigEndian.PutUint32(hdr, uint32(len(regs)))
	if r.Intn(3) == 0 {
		r.Read(hdr[4:8]) // the pad word is ignored
	}
	for i, rg := range regs {
		binary.BigEndian.PutUint32(hdr[8+8*i:], rg[0])
		binary.BigEndian.PutUint32(hdr[12+8*i:], rg[1])
	}
	copy(plain, hdr)
	// encrypt the gaps
	content := append([]byte(nil), plain...)
	if img.valid {
		for i := 1; i < len(regs); i++ {
			for s := int(regs[i-1][1]); s < int(regs[i][0]); s++ {
				if (s+1)*2048 <= len(content) {
					copy(content[s*2048:], refEncryptSector(key, s, plain[s*2048:(s+1)*2048]))
				}
			}
		}
	}
	img.content = content
	return img
}

func encRes(b []byte, n int, err error, readAt bool) string {
	switch {
	case err == nil:
		return "D" + digestOut(b[:n])
	case errors.Is(err, io.EOF) && n == 0:
		return "E"
	case errors.Is(err, io.EOF) && readAt:
		return "D" + digestOut(b[:n]) + "e"
	case errors.Is(err, io.EOF):
		return "D" + digestOut(b[:n]) + "e!" // Read must not return data together with EOF in our model
	default:
		return "X"
	}
}

func encApply(f afero.File, op visoOp) (res string, panicked string) {
	defer func() {
		if r := recover(); r != nil {
			panicked = fmt.Sprint(r)
		}
	}()
	switch op.kind {
	case 'r':
		buf := make([]byte, op.n)
		n, err := f.Read(buf)
		return encRes(buf, n, err, false), ""
	case 'a':
		buf := make([]byte, op.n)
		n, err := f.ReadAt(buf, op.off)
		return encRes(buf, n, err, true), ""
	default:
		p, err := f.Seek(op.off, op.wh)
		if err != nil {
			return "X", ""
		}
		return fmt.Sprintf("P%d", p), ""
	}
}

// shortFile wraps an afero.File so that reads are cut at arbitrary points (short reads of the underlying file)
type shortFile struct {
	afero.File
	env *Env
	on  bool
}

func (s *shortFile) ReadAt(p []byte, off int64) (int, error) {
	if s.on && len(p) > 1 {
		k := 1 + s.env.Rnd.Intn(len(p))
		n, err := s.File.ReadAt(p[:k], off)
		if err == nil && n < len(p) {
			return n, nil // io.ReaderAt may not do this, io.SectionReader+ReadFull must cope with short counts from Read
		}
		return n, err
	}
	return s.File.ReadAt(p, off)
}

func runEnc(env *Env) error {
	base, err := os.MkdirTemp("", "venc")
	if err != nil {
		return err
	}
	defer os.RemoveAll(base)
	haveOpenssl := false
	if _, err := exec.LookPath("openssl"); err == nil && env.Tier == "thorough" {
		haveOpenssl = true
	}
	for i := 0; i < env.N; i++ {
		id := fmt.Sprintf("enc-%d", i)
		discKey := make([]byte, 16)
		env.Rnd.Read(discKey)
		key := refDeriveKey(discKey)
		img := genEncImage(env, key)
		clear := env.Rnd.Intn(2) == 0
		path := filepath.Join(base, fmt.Sprintf("e%d.iso", i))
		if err := os.WriteFile(path, img.content, 0o644); err != nil {
			return err
		}
		raw, err := afero.NewOsFs().Open(path)
		if err != nil {
			return err
		}
		var under afero.File = raw
		if i%2 == 1 { // the underlying file returns short counts at arbitrary points
			under = &shortFile{File: raw, env: env, on: true}
		}
		env.Count("short_reads", fmt.Sprint(i%2 == 1))
		ef, cerr := pfs.NewEncryptedISO(under, discKey, clear)
		env.Count("table", map[bool]string{true: "valid", false: "invalid:" + img.why}[img.valid])
		// dec table for the model: every whole sector, from the harness' own decryptor
		var tbl []string
		for s := 0; (s+1)*2048 <= len(img.content); s++ {
			tbl = append(tbl, fmt.Sprintf("%d=%s", s, hx(refDecryptSector(key, s, img.content[s*2048:(s+1)*2048]))))
		}
		if cerr != nil {
			if img.valid {
				env.OracleFail(id, fmt.Sprintf("[C10-table] a valid region table %v was rejected: %v", img.regions, cerr))
			}
			env.Case(id, "ENC", []string{lit(img.content).Spec(), fmt.Sprint(b2i(clear)), strings.Join(tbl, ";"), "-"}, "REJECT", true)
			raw.Close()
			os.Remove(path)
			continue
		}
		if !img.valid {
			env.OracleFail(id, fmt.Sprintf("[C10-table] an invalid region table (%s) %v was accepted", img.why, img.regions))
		}
		want := refPlain(img.content, key, img.regions, clear)
		if haveOpenssl && i%20 == 0 {
			// cross-check the harness' decryptor against the openssl CLI on one encrypted sector
			for k := 1; k < len(img.regions); k++ {
				s := int(img.regions[k-1][1])
				if s < int(img.regions[k][0]) && (s+1)*2048 <= len(img.content) {
					iv := make([]byte, 16)
					binary.BigEndian.PutUint32(iv[12:], uint32(s))
					cmd := exec.Command("openssl", "enc", "-aes-128-cbc", "-d", "-nopad", "-K", fmt.Sprintf("%x", key), "-iv", fmt.Sprintf("%x", iv))
					cmd.Stdin = bytes.NewReader(img.content[s*2048 : (s+1)*2048])
					out, err := cmd.Output()
					if err != nil || !bytes.Equal(out, want[s*2048:(s+1)*2048]) {
						env.OracleFail(id, fmt.Sprintf("[C10-openssl] the reference decryptor disagrees with openssl on sector %d: %v", s, err))
					}
					env.Count("openssl_crosscheck", "1")
					break
				}
			}
		}
		size := int64(len(img.content))
		// operations
		nops := 5 + env.Rnd.Intn(30)
		var ops []visoOp
		var obs []string
		cur := int64(0)
		enc := 0
		for k := 0; k < nops; k++ {
			var op visoOp
			pickOff := func() int64 {
				b := int64(env.Rnd.Intn(len(img.content)/2048+2)) * 2048
				b += []int64{0, 1, 15, 16, 17, 2047, -1, -16}[env.Rnd.Intn(8)]
				if b < 0 {
					b = 0
				}
				return b
			}
			pickN := func() int64 {
				return []int64{1, 15, 16, 17, 512, 2047, 2048, 2049, 4096, 5000, 70000, 0, 8192, 600000}[env.Rnd.Intn(14)]
			}
			switch env.Rnd.Intn(10) {
			case 0, 1, 2, 3:
				op = visoOp{kind: 'r', n: pickN()}
			case 4, 5, 6:
				op = visoOp{kind: 'a', n: pickN(), off: pickOff()}
			default:
				wh := env.Rnd.Intn(3)
				var off int64
				switch wh {
				case 0:
					off = pickOff()
				case 1:
					off = pickOff() - cur
				default:
					off = pickOff() - size
				}
				op = visoOp{kind: 's', off: off, wh: wh}
			}
			ops = append(ops, op)
			res, panicked := encApply(ef, op)
			if panicked != "" {
				env.OracleFail(id, fmt.Sprintf("[C10-panic] %s panicked: %s", op, panicked))
				obs = append(obs, "PANIC")
				break
			}
			// direct oracle: the reference plaintext
			var exp string
			slice := func(at, n int64) []byte {
				if at >= size {
					return nil
				}
				e := at + n
				if e > size {
					e = size
				}
				return want[at:e]
			}
			switch op.kind {
			case 'r':
				switch {
				case op.n == 0:
					exp = "D-"
				case cur >= size:
					exp = "E"
				default:
					d := slice(cur, op.n)
					exp = "D" + digestOut(d)
					cur += int64(len(d))
				}
			case 'a':
				switch {
				case op.n == 0:
					exp = "D-"
				case op.off >= size:
					exp = "E"
				default:
					d := slice(op.off, op.n)
					exp = "D" + digestOut(d)
					if int64(len(d)) < op.n {
						exp += "e"
					}
				}
			case 's':
				var t int64
				switch op.wh {
				case 0:
					t = op.off
				case 1:
					t = cur + op.off
				default:
					t = size + op.off
				}
				if t < 0 {
					exp = "X"
				} else {
					exp = fmt.Sprintf("P%d", t)
					cur = t
				}
			}
			if res != exp {
				env.OracleFail(id, fmt.Sprintf("[C10-plain] %s: got %s, the reference plaintext says %s (regions %v clear=%v)", op, trim(res, 60), trim(exp, 60), img.regions, clear))
			}
			if op.kind != 's' {
				enc++
			}
			obs = append(obs, res)
		}
		var regs []string
		for _, r := range pfs.VerifEncRegions(ef) {
			regs = append(regs, fmt.Sprintf("%d-%d", r[0], r[1]))
		}
		ef.Close()
		var os_ []string
		for _, o := range ops {
			os_ = append(os_, o.String())
		}
		fields := []string{lit(img.content).Spec(), fmt.Sprint(b2i(clear)), strings.Join(tbl, ";"), strings.Join(os_, ",")}
		env.Case(id, "ENC", fields, "R["+strings.Join(regs, ",")+"];"+strings.Join(obs, ","), len(img.regions) > 2 || enc > 3)
		env.Count("regions", fmt.Sprint(len(img.regions)))
		env.Count("clear", fmt.Sprint(clear))
		if i < 3 {
			env.Sample(map[string]any{"id": id, "regions": img.regions, "size": size, "clear": clear, "ops": os_[:min(len(os_), 8)], "observed": trim(strings.Join(obs, ","), 160)})
		}
		os.Remove(path)
	}
	return nil
}
