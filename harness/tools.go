//go:build verif

package main

import (
	"bytes"
	"context"
	"crypto/md5"
	"encoding/hex"
	"fmt"
	"io"
	"os"
	"os/exec"
	"path/filepath"
	"sort"
	"strings"
	"time"

	"github.com/spf13/afero"

	pfs "github.com/xakep666/ps3netsrv-go/pkg/fs"
)

// Job tools — C20: the real binary's make-iso and decrypt commands.
//
//	make-iso   output (file or "-") = the image the library view serves for the same directory and mode
//	           (volume times / PS3 filler masked), decoded and validated once more (third route of C07/C08)
//	decrypt    output = reference plaintext from the harness' own decryptor (region map cleared; 3k3y: the
//	           3k3y area zeroed) = Model/Tools.decrypt_output (kind DECRYPT); served back from PS3ISO and
//	           from elsewhere byte-identically
//	targets    existing file / directory / symlink / "-" / new path: nothing that exists changes (kind TARGET)
func init() { subcmds["tools"] = runTools }

type toolRun struct {
	stdout, stderr []byte
	exit           int
	timedOut       bool
}

func runTool(home, cwd string, args ...string) toolRun {
	ctx, cancel := context.WithTimeout(context.Background(), 120*time.Second)
	defer cancel()
	cmd := exec.CommandContext(ctx, binPath(), args...)
	cmd.Dir = cwd
	cmd.Env = baseEnv(home)
	var so, se bytes.Buffer
	cmd.Stdout, cmd.Stderr = &so, &se
	err := cmd.Run()
	r := toolRun{stdout: so.Bytes(), stderr: se.Bytes()}
	if ctx.Err() != nil {
		r.timedOut = true
	}
	if err != nil {
		r.exit = 1
		if ee, ok := err.(*exec.ExitError); ok && ee.ExitCode() > 0 {
			r.exit = ee.ExitCode()
		}
	}
	return r
}

func (r toolRun) crashed() bool {
	s := string(r.stderr) + string(r.stdout)
	return r.exit == 2 && strings.Contains(s, "goroutine ") || strings.Contains(s, "panic: ") || strings.Contains(s, "fatal error: ")
}

func md5hex(b []byte) string {
	s := md5.Sum(b)
	return hex.EncodeToString(s[:])
}

func readAllView(f afero.File) ([]byte, error) {
	var buf bytes.Buffer
	_, err := io.Copy(&buf, struct{ io.Reader }{f})
	return buf.Bytes(), err
}

func firstDiff(a, b []byte) int {
	n := min(len(a), len(b))
	for i := 0; i < n; i++ {
		if a[i] != b[i] {
			return i
		}
	}
	if len(a) != len(b) {
		return n
	}
	return -1
}

func runTools(env *Env) error {
	time.Local = time.UTC
	base, err := os.MkdirTemp("", "vtools")
	if err != nil {
		return err
	}
	defer os.RemoveAll(base)
	home := filepath.Join(base, "home")
	_ = os.MkdirAll(home, 0o755)
	for i := 0; i < env.N; i++ {
		id := fmt.Sprintf("tools-%d", i)
		work := filepath.Join(base, fmt.Sprintf("w%d", i))
		_ = os.MkdirAll(work, 0o755)
		switch i % 4 {
		case 0:
			toolsMakeISO(env, id, home, work)
		case 1:
			toolsDecrypt(env, id, home, work, false)
		case 2:
			toolsDecrypt(env, id, home, work, true)
		case 3:
			toolsTargets(env, id, home, work)
		}
		os.RemoveAll(work)
	}
	return nil
}

func smallIsoTree(env *Env, name string, ps3 bool) (*WNode, string) {
	tree := genIsoTree(env, isoShape{depth: env.Rnd.Intn(3), maxKids: 1 + env.Rnd.Intn(5)}, name)
	titleID := ""
	game := ps3 || env.Rnd.Intn(2) == 0 // a game folder may also be turned into a plain image: the mode is the caller's choice, not the tree's
	if game {
		titleID = []string{"BLES01234", "BCUS98111", "ABCD", strings.Repeat("T", 31)}[env.Rnd.Intn(4)]
		if env.Rnd.Intn(8) == 0 {
			titleID = []string{"ABC", strings.Repeat("T", 32)}[env.Rnd.Intn(2)]
		}
		g := tree.Child("PS3_GAME")
		if g == nil {
			g = &WNode{Name: "PS3_GAME", Dir: true, MTime: 1400000000}
			tree.Kids = append(tree.Kids, g)
		} else if !g.Dir {
			g.Dir, g.Content = true, nil
		}
		g.Kids = append(g.Kids, &WNode{Name: "PARAM.SFO", MTime: 1400000001, Content: lit(genSFO(env, titleID))})
	}
	return tree, titleID
}

func toolsMakeISO(env *Env, id, home, work string) {
	ps3 := env.Rnd.Intn(2) == 0
	rootName := []string{"img", "My Game", "game-dir_1"}[env.Rnd.Intn(3)]
	tree, titleID := smallIsoTree(env, rootName, ps3)
	top := filepath.Join(work, "top")
	w := &WNode{Dir: true, MTime: 1300000000, Kids: []*WNode{tree}}
	if err := w.Materialise(top); err != nil {
		env.Count("skipped", "materialise")
		return
	}
	dash := env.Rnd.Intn(3) == 0
	out := filepath.Join(work, "out.iso")
	args := []string{"make-iso"}
	if ps3 {
		args = append(args, "--ps3-mode")
	}
	target := out
	if dash {
		target = "-"
	}
	args = append(args, filepath.Join(top, rootName), target)
	r := runTool(home, work, args...)
	env.Count("tool", "make-iso")
	env.Count("make-iso.mode", map[bool]string{false: "dvd", true: "ps3"}[ps3])
	env.Count("make-iso.target", map[bool]string{false: "file", true: "stdout"}[dash])
	if r.crashed() || r.timedOut {
		env.OracleFail(id, "[C04-cli] make-iso crashed or hung: "+trim(string(r.stderr), 300))
	}
	// the server's view of the same directory
	fsys := &pfs.FS{Fs: afero.NewBasePathFs(afero.NewOsFs(), top)}
	prefix := "/***DVD***/"
	if ps3 {
		prefix = "/***PS3***/"
	}
	var view []byte
	f, verr := fsys.Open(prefix + rootName)
	if verr == nil {
		view, _ = readAllView(f)
		f.Close()
	}
	var got []byte
	if dash {
		got = r.stdout
	} else {
		got, _ = os.ReadFile(out)
	}
	obs := "ok"
	switch {
	case verr != nil:
		obs = "refused"
		if r.exit == 0 {
			env.OracleFail(id, fmt.Sprintf("[C20-makeiso] the server refuses to build an image of this directory (%v) but make-iso exits 0", verr))
		}
	case r.exit != 0:
		env.OracleFail(id, fmt.Sprintf("[C20-makeiso] make-iso failed (exit %d: %s) on a directory the server serves", r.exit, trim(string(r.stderr), 200)))
	default:
		a, b := maskFsBuf(got, ps3), maskFsBuf(view, ps3)
		if d := firstDiff(a, b); d >= 0 {
			sig := "[C20-makeiso]"
			if dash {
				sig = "[C20-stdout]"
			}
			env.OracleFail(id, fmt.Sprintf("%s make-iso wrote %d bytes, the server serves %d for the same directory and mode; first difference at offset %d (outside the volume time / PS3 filler fields)", sig, len(got), len(view), d))
		} else {
			validateAndMatch(env, id, bytes.NewReader(got), int64(len(got)), tree, ps3, titleID, "make-iso")
		}
	}
	env.Case(id, "NOMODEL", []string{strings.Join(args[1:len(args)-2], " ") + " " + rootName}, obs, true)
}

func toolsDecrypt(env *Env, id, home, work string, is3k3y bool) {
	discKey := make([]byte, 16)
	env.Rnd.Read(discKey)
	key := refDeriveKey(discKey)
	img := genEncImage(env, key)
	content := img.content
	c := pfs.VerifConsts
	if is3k3y {
		copy(content[c.MaskedDataBegin+c.WatermarkPlacement:], c.EncWatermark)
		copy(content[c.MaskedDataBegin+c.EncryptionKeyPlacement:], discKey)
	}
	imgPath := filepath.Join(work, "image.iso")
	_ = os.WriteFile(imgPath, content, 0o644)
	keyPath := filepath.Join(work, "image.dkey")
	ks := hex.EncodeToString(discKey)
	if env.Rnd.Intn(2) == 0 {
		ks = strings.ToUpper(ks)
	}
	if env.Rnd.Intn(2) == 0 {
		ks += "\n"
	}
	_ = os.WriteFile(keyPath, []byte(ks), 0o644)
	dash := env.Rnd.Intn(3) == 0
	out := filepath.Join(work, "plain.iso")
	target := out
	if dash {
		target = "-"
	}
	var args []string
	if is3k3y {
		args = []string{"decrypt", "3k3y", imgPath, target}
	} else {
		args = []string{"decrypt", "redump", imgPath, keyPath, target}
	}
	r := runTool(home, work, args...)
	kind := map[bool]string{false: "redump", true: "3k3y"}[is3k3y]
	env.Count("tool", "decrypt "+kind)
	env.Count("decrypt.target", map[bool]string{false: "file", true: "stdout"}[dash])
	env.Count("decrypt.table", map[bool]string{true: "valid", false: "invalid:" + img.why}[img.valid])
	if r.crashed() || r.timedOut {
		env.OracleFail(id, fmt.Sprintf("[C04-cli] decrypt %s crashed or hung: %s", kind, trim(string(r.stderr), 300)))
	}
	var got []byte
	if dash {
		got = r.stdout
	} else {
		got, _ = os.ReadFile(out)
	}
	var tbl []string
	for s := 0; (s+1)*2048 <= len(content); s++ {
		tbl = append(tbl, fmt.Sprintf("%d=%s", s, hx(refDecryptSector(key, s, content[s*2048:(s+1)*2048]))))
	}
	fields := []string{lit(content).Spec(), strings.Join(tbl, ";"), fmt.Sprint(b2i(is3k3y))}
	if r.exit != 0 {
		if img.valid {
			env.OracleFail(id, fmt.Sprintf("[C20-decrypt] decrypt %s failed (exit %d: %s) on an image with a valid region table", kind, r.exit, trim(string(r.stderr), 200)))
		}
		env.Case(id, "DECRYPT", fields, "REJECT", true)
		return
	}
	if !img.valid {
		env.OracleFail(id, fmt.Sprintf("[C20-decrypt] decrypt %s accepted an invalid region table (%s)", kind, img.why))
	}
	env.Case(id, "DECRYPT", fields, md5hex(got), true)
	want := refPlain(content, key, img.regions, true)
	if is3k3y {
		for p := c.MaskedDataBegin; p < c.MaskedDataBegin+c.MaskedDataSize && p < int64(len(want)); p++ {
			want[p] = 0
		}
	}
	if d := firstDiff(got, want); d >= 0 {
		sig := "[C20-decrypt]"
		if dash {
			sig = "[C20-stdout]"
		}
		where := ""
		if int64(d) >= c.MaskedDataBegin && int64(d) < c.MaskedDataBegin+c.MaskedDataSize {
			where = " (inside the 3k3y area 0xF70..0x1070)"
		}
		env.OracleFail(id, fmt.Sprintf("%s decrypt %s wrote %d bytes, the reference plaintext has %d; first difference at offset %d%s; output starts %q", sig, kind, len(got), len(want), d, where, trim(string(got[:min(len(got), 40)]), 40)))
	}
	// served back: below PS3ISO (no key file of its name) and elsewhere
	if len(got) > 0 {
		top := filepath.Join(work, "root")
		for _, rel := range []string{"PS3ISO/back.iso", "games/back.iso", "PS3ISO/sub/Back.ISO"} {
			p := filepath.Join(top, rel)
			_ = os.MkdirAll(filepath.Dir(p), 0o755)
			_ = os.WriteFile(p, got, 0o644)
		}
		fsys := &pfs.FS{Fs: afero.NewBasePathFs(afero.NewOsFs(), top)}
		for _, rel := range []string{"/PS3ISO/back.iso", "/games/back.iso", "/PS3ISO/sub/Back.ISO"} {
			f, err := fsys.Open(rel)
			if err != nil {
				env.OracleFail(id, fmt.Sprintf("[C20-servedback] the output of decrypt %s placed at %s cannot be opened: %v", kind, rel, err))
				continue
			}
			back, rerr := readAllView(f)
			f.Close()
			if d := firstDiff(back, got); d >= 0 || rerr != nil {
				env.OracleFail(id, fmt.Sprintf("[C20-servedback] the output of decrypt %s placed at %s is not served back byte-identically: first difference at offset %d (%d vs %d bytes, err %v)", kind, rel, d, len(back), len(got), rerr))
			}
		}
	}
}

var targetsRound int // cycles through the target variants, then through the three tools

func toolsTargets(env *Env, id, home, work string) {
	// a tiny source and a directory with things in it
	src := filepath.Join(work, "src")
	_ = os.MkdirAll(src, 0o755)
	_ = os.WriteFile(filepath.Join(src, "a.txt"), []byte("hello"), 0o644)
	outDir := filepath.Join(work, "outdir")
	_ = os.MkdirAll(filepath.Join(outDir, "adir"), 0o755)
	pre := map[string][]byte{"keep.iso": []byte("precious data"), "empty.iso": {}, "other.bin": bytes.Repeat([]byte{7}, 5000)}
	old := time.Unix(1500000000, 0)
	for n, b := range pre {
		_ = os.WriteFile(filepath.Join(outDir, n), b, 0o644)
		_ = os.Chtimes(filepath.Join(outDir, n), old, old)
	}
	_ = os.Symlink("keep.iso", filepath.Join(outDir, "link.iso"))
	names := []string{"adir", "empty.iso", "keep.iso", "link.iso", "other.bin"}
	variants := []string{"existing-file", "existing-empty", "existing-dir", "symlink-to-file", "stdout", "new"}
	variant := variants[targetsRound%len(variants)]
	name := map[string]string{"existing-file": "keep.iso", "existing-empty": "empty.iso", "existing-dir": "adir", "symlink-to-file": "link.iso", "stdout": "-", "new": "fresh.iso"}[variant]
	tool := (targetsRound / len(variants)) % 3
	targetsRound++
	var args []string
	target := filepath.Join(outDir, name)
	if variant == "stdout" {
		target = "-"
	}
	var expect []byte
	switch tool {
	case 0:
		args = []string{"make-iso", src, target}
	default:
		discKey := make([]byte, 16)
		env.Rnd.Read(discKey)
		key := refDeriveKey(discKey)
		var img encImage
		for img = genEncImage(env, key); !img.valid; img = genEncImage(env, key) {
		}
		c := pfs.VerifConsts
		if tool == 2 {
			copy(img.content[c.MaskedDataBegin+c.WatermarkPlacement:], c.EncWatermark)
			copy(img.content[c.MaskedDataBegin+c.EncryptionKeyPlacement:], discKey)
		}
		_ = os.WriteFile(filepath.Join(work, "image.iso"), img.content, 0o644)
		_ = os.WriteFile(filepath.Join(work, "image.dkey"), []byte(hex.EncodeToString(discKey)), 0o644)
		expect = refPlain(img.content, key, img.regions, true)
		if tool == 2 {
			for p := c.MaskedDataBegin; p < c.MaskedDataBegin+c.MaskedDataSize; p++ {
				expect[p] = 0
			}
			args = []string{"decrypt", "3k3y", filepath.Join(work, "image.iso"), target}
		} else {
			args = []string{"decrypt", "redump", filepath.Join(work, "image.iso"), filepath.Join(work, "image.dkey"), target}
		}
	}
	r := runTool(home, work, args...)
	env.Count("tool", "targets:"+args[0])
	env.Count("target_variant", variant)
	if r.crashed() || r.timedOut {
		env.OracleFail(id, "[C04-cli] "+args[0]+" crashed or hung: "+trim(string(r.stderr), 300))
	}
	// nothing that existed may have changed
	for n, b := range pre {
		p := filepath.Join(outDir, n)
		now, err := os.ReadFile(p)
		st, serr := os.Lstat(p)
		if err != nil || serr != nil || !bytes.Equal(now, b) {
			env.OracleFail(id, fmt.Sprintf("[C20-clobber] %s %s (target %s, %s): the existing file %s was modified (%d -> %d bytes, err %v)", args[0], strings.Join(args[1:2], " "), name, variant, n, len(b), len(now), err))
		} else if !st.ModTime().Equal(old) {
			env.OracleFail(id, fmt.Sprintf("[C20-clobber] %s (target %s, %s): the existing file %s was rewritten (mtime changed)", args[0], name, variant, n))
		}
	}
	if st, err := os.Lstat(filepath.Join(outDir, "adir")); err != nil || !st.IsDir() {
		env.OracleFail(id, fmt.Sprintf("[C20-clobber] %s (target %s): the existing directory adir is gone", args[0], name))
	}
	if ents, _ := os.ReadDir(filepath.Join(outDir, "adir")); len(ents) != 0 {
		env.OracleFail(id, fmt.Sprintf("[C20-clobber] %s (target %s): something was created inside the existing directory", args[0], name))
	}
	if l, err := os.Readlink(filepath.Join(outDir, "link.iso")); err != nil || l != "keep.iso" {
		env.OracleFail(id, fmt.Sprintf("[C20-clobber] %s (target %s): the existing symlink was replaced", args[0], name))
	}
	refusedExpected := variant != "new" && variant != "stdout"
	if refusedExpected && r.exit == 0 {
		env.OracleFail(id, fmt.Sprintf("[C20-clobber] %s with the already existing target %s (%s) exits 0", args[0], name, variant))
	}
	if !refusedExpected && r.exit != 0 {
		env.OracleFail(id, fmt.Sprintf("[C20-target] %s with target %s (%s) fails: %s", args[0], name, variant, trim(string(r.stderr), 200)))
	}
	// the directory afterwards, in the model's terms
	ents, _ := os.ReadDir(outDir)
	var after []string
	for _, e := range ents {
		after = append(after, e.Name())
	}
	sort.Strings(after)
	var obs []string
	for _, n := range names {
		for _, a := range after {
			if a == n {
				obs = append(obs, hx([]byte(n)))
			}
		}
	}
	for _, a := range after {
		known := false
		for _, n := range names {
			known = known || a == n
		}
		if !known {
			star := ""
			b, _ := os.ReadFile(filepath.Join(outDir, a))
			if expect == nil || bytes.Equal(b, expect) {
				star = "*"
			}
			if expect == nil && len(b) == 0 {
				star = ""
			}
			obs = append(obs, hx([]byte(a))+star)
		}
	}
	var ex []string
	for _, n := range names {
		ex = append(ex, hx([]byte(n)))
	}
	mname := name
	if variant == "stdout" {
		mname = "-"
	}
	env.Case(id, "TARGET", []string{strings.Join(ex, ","), hx([]byte(mname)), fmt.Sprint(b2i(variant == "stdout"))}, strings.Join(obs, ","), true)
}
