//go:build verif

package main

import (
	"bytes"
	"encoding/binary"
	"fmt"
	"os"
	"path/filepath"
	"sort"
	"strings"

	"github.com/xakep666/ps3netsrv-go/pkg/proto"
)

// Job bigdir — C03 / C06 on directories with thousands of entries (4095, 4096, 4097, 4100, 10000 ...): the bulk
// listing announces exactly the entries it carries and carries every entry once; entry-by-entry enumeration returns
// every name once and then the end marker; the connection is still in step afterwards (a STAT gets its own answer).
// Oracle-only: the session model resolves every entry by path, which is quadratic in the directory size.
func init() { subcmds["bigdir"] = runBigDir }

func runBigDir(env *Env) error {
	base, err := os.MkdirTemp("", "vbigdir")
	if err != nil {
		return err
	}
	defer os.RemoveAll(base)
	sizes := []int{4097, 4096, 4100, 4095, 300, 1, 0, 10000, 65, 8191, 8193}
	es := binary.Size(proto.DirEntry{})
	for i := 0; i < env.N; i++ {
		id := fmt.Sprintf("bigdir-%d", i)
		n := sizes[i%len(sizes)]
		top := filepath.Join(base, fmt.Sprintf("w%d", i))
		big := &WNode{Name: "big", Dir: true, MTime: 1500000900}
		want := map[string]int64{}
		var links [][2]string
		for k := 0; k < n; k++ {
			nm := fmt.Sprintf("e%05d%s", k, strings.Repeat("x", k%9))
			sz := k % 4
			if k%50 == 7 {
				big.Kids = append(big.Kids, &WNode{Name: nm, Dir: true, MTime: 1400000000})
				want[nm] = -2
				continue
			}
			if k%97 == 50 && n >= 2 { // a symbolic link to a file of one byte: listed as that file
				links = append(links, [2]string{nm, "e00001x"})
				want[nm] = 1
				continue
			}
			if k%97 == 13 { // next to it a link to nothing: omitted from every listing
				links = append(links, [2]string{nm + "_gone", "no-such-target"})
			}
			big.Kids = append(big.Kids, &WNode{Name: nm, MTime: 1400000000 + int64(k%7), Content: Content{{Kind: 'g', N: sz, A: k}}})
			want[nm] = int64(sz)
		}
		w := &WNode{Dir: true, MTime: 1300000000, Kids: []*WNode{{Name: "R", Dir: true, MTime: 1500000000, Kids: []*WNode{big, {Name: "probe", MTime: 1400000001, Content: lit([]byte("12345"))}}}}}
		if err := w.Materialise(top); err != nil {
			return err
		}
		for _, l := range links {
			if err := os.Symlink(l[1], filepath.Join(top, "R", "big", l[0])); err != nil {
				return err
			}
		}
		env.Count("links", fmt.Sprint(len(links)))
		reqs := []*Req{{Op: opOpenDir, Path: "/big"}, {Op: opReadDir}, {Op: opStatFile, Path: "/probe"}, {Op: opOpenDir, Path: "/big"}}
		v2 := env.Rnd.Intn(2) == 0
		for k := 0; k < n+1; k++ {
			reqs = append(reqs, &Req{Op: map[bool]int{false: opReadDirEntry, true: opReadDirEntryV2}[v2]})
		}
		reqs = append(reqs, &Req{Op: opStatFile, Path: "/probe"})
		var chunks [][]byte
		var ops []int
		for _, q := range reqs {
			q.Junk = make([]byte, 14)
			chunks = append(chunks, q.Wire())
			ops = append(ops, q.Op)
		}
		res, err := runSession(top, false, chunks, ops, 65536, nil)
		if err != nil {
			return err
		}
		fail := func(format string, a ...any) { env.OracleFail(id, fmt.Sprintf(format, a...)) }
		ok := len(res.steps) == len(reqs)
		if !ok {
			fail("[C03-shape] a directory of %d entries: the session ended after %d of %d requests", n, len(res.steps), len(reqs))
		} else {
			// bulk listing
			out := res.steps[1].out
			if len(out) < 8 {
				fail("[C03-shape] READ_DIR of a directory with %d entries: %d bytes", n, len(out))
			} else {
				cnt := int64(binary.BigEndian.Uint64(out))
				if int64(len(out)-8) != cnt*int64(es) {
					fail("[C03-shape] READ_DIR of a directory with %d entries announces %d entries but carries %d bytes (%d bytes per entry)", n, cnt, len(out)-8, es)
				}
				seen := map[string]int{}
				for o := 8; o+es <= len(out); o += es {
					name := string(bytes.TrimRight(out[o+17:o+es], "\x00"))
					seen[name]++
					sz := int64(binary.BigEndian.Uint64(out[o:]))
					if w, okw := want[name]; !okw {
						fail("[C06-bulk] READ_DIR reports %q, which is not in the directory", name)
						break
					} else if w >= 0 && sz != w {
						fail("[C06-bulk] READ_DIR reports %q with size %d, it has %d bytes", name, sz, w)
						break
					}
				}
				if len(seen) != n || cnt != int64(n) {
					fail("[C06-bulk] READ_DIR of a directory with %d entries reports %d (%d distinct)", n, cnt, len(seen))
				}
			}
			for _, k := range []int{2, len(reqs) - 1} {
				if so := res.steps[k]; len(so.out) != 33 || int64(binary.BigEndian.Uint64(so.out)) != 5 {
					fail("[C03-shape] the STAT after the listing of %d entries is not answered in step: %d bytes", n, len(so.out))
				}
			}
			// entry by entry
			seen := map[string]int{}
			hdr := 11
			if v2 {
				hdr = 35
			}
			for k := 4; k < 4+n+1; k++ {
				out := res.steps[k].out
				if len(out) < hdr {
					fail("[C03-shape] READ_DIR_ENTRY %d of %d: %d bytes", k-4, n, len(out))
					break
				}
				nl := int(binary.BigEndian.Uint16(out[hdr-3:]))
				if k == 4+n { // the end marker
					if int64(binary.BigEndian.Uint64(out)) != -1 && !(nl == 0) {
						fail("[C06-iter] after %d entries the enumeration of a %d-entry directory goes on with %q", n, n, out[hdr:])
					}
					break
				}
				if len(out) != hdr+nl {
					fail("[C03-shape] READ_DIR_ENTRY %d: header says %d name bytes, %d follow", k-4, nl, len(out)-hdr)
					break
				}
				seen[string(out[hdr:])]++
			}
			var missing []string
			for nm := range want {
				if seen[nm] != 1 {
					missing = append(missing, nm)
				}
			}
			sort.Strings(missing)
			if len(missing) > 0 {
				fail("[C06-iter] entry-by-entry enumeration of a directory with %d entries: %d names not reported exactly once (first: %q, seen %d times)", n, len(missing), missing[0], seen[missing[0]])
			}
		}
		if res.leak != 0 {
			fail("[C13-leak] %d handles left open after listing a directory of %d entries", res.leak, n)
		}
		env.Case(id, "NOMODEL", []string{fmt.Sprintf("%d entries, v2=%v", n, v2)}, fmt.Sprintf("ok=%v", ok), true)
		env.Count("entries", fmt.Sprint(n))
		if i < 2 {
			env.Sample(map[string]any{"id": id, "entries": n, "requests": len(reqs)})
		}
		os.RemoveAll(top)
	}
	return nil
}
