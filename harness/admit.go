//go:build verif

package main

import (
	"fmt"
	"math/big"
	"net"
	"os"
	"strings"
	"time"

	"github.com/spf13/afero"
	"golang.org/x/net/netutil"

	"github.com/xakep666/ps3netsrv-go/internal/copier"
	"github.com/xakep666/ps3netsrv-go/internal/handler"
	pfs "github.com/xakep666/ps3netsrv-go/pkg/fs"
	"github.com/xakep666/ps3netsrv-go/pkg/iprange"
	"github.com/xakep666/ps3netsrv-go/pkg/server"

	"log/slog"
)

func init() { subcmds["admit"] = runAdmit }

// the listener stack exactly as cmd/ps3netsrv-go/server.go builds it: limit inside, filter outside
func wrapListeners(l net.Listener, maxClients int, wl *iprange.IPRange) net.Listener {
	if maxClients > 0 {
		l = netutil.LimitListener(l, maxClients)
	}
	if wl != nil {
		l = iprange.FilterListener(l, wl, false)
	}
	return l
}

func runAdmit(env *Env) error {
	root, err := os.MkdirTemp("", "vadmit")
	if err != nil {
		return err
	}
	defer os.RemoveAll(root)
	slog.SetDefault(slog.New(discardHandler{}))
	specs := []string{"127.0.0.0/24", "127.0.0.1", "127.0.0.5-127.0.0.9", "127.0.1.0/255.255.255.0", "127.0.0.0/8", "::1", "127.0.0.0/30", "127.0.0.8/31", ""}
	for i := 0; i < env.N; i++ {
		id := fmt.Sprintf("admit-%d", i)
		limit := env.Rnd.Intn(5) // 0 = no limit
		if env.Tier == "thorough" {
			limit = env.Rnd.Intn(9)
		}
		spec := specs[env.Rnd.Intn(len(specs))]
		var wl *iprange.IPRange
		var exp c14Expect
		if spec != "" {
			wl, err = iprange.ParseIPRange(spec)
			if err != nil {
				return err
			}
			exp = c14Oracle(spec)
		}
		inner := newChanListener()
		s := &server.Server[handler.State]{
			Handler: &handler.Handler{Fs: &pfs.FS{Fs: afero.NewBasePathFs(afero.NewOsFs(), root)}, Copier: copier.NewPooledCopier(65536)},
			Logger:  slog.New(discardHandler{}),
		}
		done := make(chan error, 1)
		go func() { done <- s.Serve(wrapListeners(inner, limit, wl)) }()

		nclients := 2 + env.Rnd.Intn(4*max(limit, 1)+2)
		conns := map[int]*scriptConn{}
		state := map[int]string{} // harness' own idea: open / closed
		var events []string
		var obs []string
		var ids []string
		next := 0
		served := func(c *scriptConn) string {
			c.mu.Lock()
			defer c.mu.Unlock()
			switch {
			case len(c.out) >= 33:
				return "S"
			case c.closed && len(c.out) == 0:
				return "R"
			default:
				return "W"
			}
		}
		snapshot := func() string {
			var sb strings.Builder
			for k := 0; k < next; k++ {
				if state[k] == "closed" {
					sb.WriteString("-")
				} else {
					sb.WriteString(served(conns[k]))
				}
			}
			return sb.String()
		}
		settle := func() string {
			last, same := "", 0
			for t := 0; t < 4000 && same < 25; t++ {
				time.Sleep(200 * time.Microsecond)
				cur := snapshot()
				if cur == last {
					same++
				} else {
					last, same = cur, 0
				}
			}
			return last
		}
		maxServed := 0
		for step := 0; step < nclients*2; step++ {
			doClose := false
			var open []int
			for k := 0; k < next; k++ {
				if state[k] == "open" && served(conns[k]) == "S" {
					open = append(open, k)
				}
			}
			if next >= nclients || (len(open) > 0 && env.Rnd.Intn(3) == 0) {
				doClose = len(open) > 0
				if !doClose && next >= nclients {
					break
				}
			}
			if doClose {
				k := open[env.Rnd.Intn(len(open))]
				conns[k].EOF()
				// wait until the server has closed it (slot released)
				for t := 0; t < 5000; t++ {
					conns[k].mu.Lock()
					cl := conns[k].closed
					conns[k].mu.Unlock()
					if cl {
						break
					}
					time.Sleep(100 * time.Microsecond)
				}
				state[k] = "closed"
				events = append(events, fmt.Sprintf("c:%d", k))
			} else {
				var ip net.IP
				switch env.Rnd.Intn(6) {
				case 0:
					ip = net.ParseIP("::1")
				case 1:
					ip = net.IPv4(127, 0, 1, byte(env.Rnd.Intn(256))).To4()
				default:
					ip = net.IPv4(127, 0, 0, byte(env.Rnd.Intn(16)))
				}
				ok := true
				if wl != nil {
					v := new(big.Int).SetBytes(ip.To16())
					ok = v.Cmp(exp.lo) >= 0 && v.Cmp(exp.hi) <= 0
				}
				c := newScriptConn(&net.TCPAddr{IP: ip, Port: 40000 + next})
				q := &Req{Op: opStatFile, Path: "/", Junk: make([]byte, 14)}
				c.mu.Lock()
				c.in = append(c.in, q.Wire()...)
				c.mu.Unlock()
				conns[next] = c
				state[next] = "open"
				ids = append(ids, fmt.Sprint(next))
				events = append(events, fmt.Sprintf("a:%d:%d", next, b2i(ok)))
				inner.ch <- c
				next++
			}
			o := settle()
			// pad to the final number of ids later; record as is
			obs = append(obs, o)
			ns := strings.Count(o, "S")
			if ns > maxServed {
				maxServed = ns
			}
			if limit > 0 && ns > limit {
				env.OracleFail(id, fmt.Sprintf("[C15-bound] %d connections served at once with max-clients %d (events %v)", ns, limit, events))
			}
		}
		// oracle: a rejected connection received nothing; a served one is whitelisted
		for k := 0; k < next; k++ {
			c := conns[k]
			c.mu.Lock()
			out := len(c.out)
			c.mu.Unlock()
			okArr := strings.Contains(strings.Join(events, ","), fmt.Sprintf("a:%d:1", k))
			if !okArr && out > 0 {
				env.OracleFail(id, fmt.Sprintf("[C15-filter] connection %d from outside the whitelist %q received %d bytes", k, spec, out))
			}
		}
		// all ids known at the end: pad observations
		for j := range obs {
			for len(obs[j]) < next {
				obs[j] += "-"
			}
		}
		inner.Close()
		for _, c := range conns {
			c.EOF()
		}
		<-done
		env.Case(id, "LISTEN", []string{fmt.Sprint(limit), strings.Join(events, ","), strings.Join(ids, ",")}, strings.Join(obs, ","), len(events) >= 4)
		env.Count("limit", fmt.Sprint(limit))
		env.Count("whitelist", spec)
		if i < 3 {
			env.Sample(map[string]any{"id": id, "limit": limit, "whitelist": spec, "events": events, "observed": obs})
		}
	}
	return nil
}
