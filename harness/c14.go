//go:build verif

package main

import (
	"bytes"
	"fmt"
	"math/big"
	"net"
	"net/netip"
	"strconv"
	"strings"

	"github.com/xakep666/ps3netsrv-go/pkg/iprange"
)

func init() { subcmds["c14"] = runC14 }

// expectation of the direct oracle, written from the documentation of ParseIPRange and the
// property text only (netip + math/big; no byte masks, no code shared with pkg/iprange).
type c14Expect struct {
	accept bool
	lo, hi *big.Int // inclusive bounds in the 128-bit (v4-mapped) space
	class  string
}

var v4base = new(big.Int).Lsh(big.NewInt(0xffff), 32)

func addrVal(a netip.Addr) *big.Int {
	b := a.As16()
	return new(big.Int).SetBytes(b[:])
}

func parseAddrStrict(s string) (netip.Addr, bool) {
	a, err := netip.ParseAddr(s)
	if err != nil || a.Zone() != "" {
		return netip.Addr{}, false
	}
	return a, true
}

// c14Oracle decides what the documentation says about s.
func c14Oracle(s string) c14Expect {
	sep := strings.IndexAny(s, "/-")
	if sep < 0 {
		a, ok := parseAddrStrict(s)
		if !ok {
			return c14Expect{class: "bad-single"}
		}
		v := addrVal(a)
		return c14Expect{accept: true, lo: v, hi: v, class: "single"}
	}
	l, r := s[:sep], s[sep+1:]
	if r == "" {
		return c14Expect{class: "empty-suffix"}
	}
	if s[sep] == '-' {
		a, ok1 := parseAddrStrict(l)
		b, ok2 := parseAddrStrict(r)
		if !ok1 || !ok2 {
			return c14Expect{class: "bad-range-addr"}
		}
		if a.Unmap().Is4() != b.Unmap().Is4() {
			return c14Expect{class: "mixed-family"}
		}
		if addrVal(a).Cmp(addrVal(b)) > 0 {
			return c14Expect{class: "reversed"}
		}
		return c14Expect{accept: true, lo: addrVal(a), hi: addrVal(b), class: "range"}
	}
	a, ok := parseAddrStrict(l)
	if !ok {
		return c14Expect{class: "bad-block-addr"}
	}
	is4 := a.Unmap().Is4()
	bits := 128
	if is4 {
		bits = 32
	}
	plen := -1
	class := "cidr"
	if m, ok := parseAddrStrict(r); ok {
		if !is4 || !m.Unmap().Is4() {
			return c14Expect{class: "mask-family"}
		}
		mb := m.Unmap().As4()
		mv := uint32(mb[0])<<24 | uint32(mb[1])<<16 | uint32(mb[2])<<8 | uint32(mb[3])
		ones := 0
		for ones < 32 && mv&(1<<(31-uint(ones))) != 0 {
			ones++
		}
		if ones < 32 && mv<<uint(ones) != 0 {
			return c14Expect{class: "noncontiguous-mask"}
		}
		plen = ones
		class = "mask"
	} else {
		n, err := strconv.Atoi(r)
		if err != nil {
			return c14Expect{class: "bad-prefix"}
		}
		if n < 0 || n > bits {
			return c14Expect{class: "prefix-out-of-range"}
		}
		plen = n
	}
	var av *big.Int
	if is4 {
		b4 := a.Unmap().As4()
		av = new(big.Int).SetBytes(b4[:])
	} else {
		av = addrVal(a)
	}
	sz := new(big.Int).Lsh(big.NewInt(1), uint(bits-plen))
	lo := new(big.Int).Div(av, sz)
	lo.Mul(lo, sz)
	hi := new(big.Int).Add(lo, sz)
	hi.Sub(hi, big.NewInt(1))
	if plen < bits-1 { // network and broadcast excluded
		lo.Add(lo, big.NewInt(1))
		hi.Sub(hi, big.NewInt(1))
		class += "-excl"
	} else {
		class += "-small"
	}
	if is4 {
		lo.Add(lo, v4base)
		hi.Add(hi, v4base)
	}
	return c14Expect{accept: true, lo: lo, hi: hi, class: class}
}

func randV4(env *Env) net.IP {
	b := make([]byte, 4)
	env.Rnd.Read(b)
	switch env.Rnd.Intn(6) {
	case 0:
		b[3] = 0
	case 1:
		b[3] = 255
	case 2:
		b[2], b[3] = 0, 0
	}
	return net.IP(b)
}

func randV6(env *Env) net.IP {
	b := make([]byte, 16)
	env.Rnd.Read(b)
	switch env.Rnd.Intn(6) {
	case 0:
		for i := 8; i < 16; i++ {
			b[i] = 0
		}
	case 1:
		for i := 2; i < 16; i++ {
			b[i] = 0
		}
	case 2:
		for i := 12; i < 16; i++ {
			b[i] = 255
		}
	}
	if b[0] == 0 && b[10] == 0xff && b[11] == 0xff { // keep it a real v6
		b[0] = 0x20
	}
	return net.IP(b)
}

func prefixText(env *Env, n int) string {
	switch env.Rnd.Intn(12) {
	case 0:
		return fmt.Sprintf("+%d", n)
	case 1:
		return fmt.Sprintf("0%d", n)
	default:
		return strconv.Itoa(n)
	}
}

func c14GenSpec(env *Env, i int) string {
	r := env.Rnd
	switch k := i % 16; k {
	case 0: // every v4 prefix length
		return randV4(env).String() + "/" + prefixText(env, (i/16)%33)
	case 1: // every v6 prefix length
		return randV6(env).String() + "/" + prefixText(env, (i/16)%129)
	case 2: // contiguous masks
		return randV4(env).String() + "/" + net.IP(net.CIDRMask((i/16)%33, 32)).String()
	case 3: // non-contiguous / arbitrary masks
		m := randV4(env)
		if r.Intn(2) == 0 {
			m = net.IP(net.CIDRMask(r.Intn(33), 32))
			m[r.Intn(4)] ^= 1 << uint(r.Intn(8))
		}
		return randV4(env).String() + "/" + m.String()
	case 4: // v4 ranges of every width
		a := randV4(env)
		w := uint32(1) << uint(r.Intn(32))
		av := uint32(a[0])<<24 | uint32(a[1])<<16 | uint32(a[2])<<8 | uint32(a[3])
		bv := av + uint32(r.Int63n(int64(w)+1))
		if bv < av {
			bv = 0xffffffff
		}
		b := net.IPv4(byte(bv>>24), byte(bv>>16), byte(bv>>8), byte(bv))
		return a.String() + "-" + b.String()
	case 5: // v6 ranges
		a := randV6(env)
		b := append(net.IP{}, a...)
		p := r.Intn(16)
		for j := p; j < 16; j++ {
			b[j] = byte(r.Intn(256))
		}
		if bytes.Compare(a, b) > 0 && r.Intn(4) != 0 {
			a, b = b, a
		}
		return a.String() + "-" + b.String()
	case 6: // singles
		switch r.Intn(3) {
		case 0:
			return randV4(env).String()
		case 1:
			return randV6(env).String()
		default:
			return "::ffff:" + randV4(env).String()
		}
	case 7: // reversed / equal / mixed-family ranges
		a, b := randV4(env), randV4(env)
		switch r.Intn(6) {
		case 4: // an IPv6 start below the IPv4-mapped block: numerically smaller than every IPv4 end, still another family
			return []string{"::", "::1", "::fffe:0:0", "::5:6", "0:0:0:0:0:fffe:ffff:ffff"}[r.Intn(5)] + "-" + b.String()
		case 5:
			return a.String() + "-" + []string{"::ffff:ffff:ffff", "1::", "ffff::"}[r.Intn(3)]
		case 0:
			return a.String() + "-" + a.String()
		case 1:
			return a.String() + "-" + randV6(env).String()
		case 2:
			return randV6(env).String() + "-" + b.String()
		default:
			if bytes.Compare(a, b) < 0 {
				a, b = b, a
			}
			return a.String() + "-" + b.String()
		}
	case 8: // out-of-range and odd prefixes
		sfx := []string{"33", "129", "-1", "", "256", "0x10", "1e1", " 24", "24 ", "٣", "99999999999999999999", "-0", "+0", "032", "128", "32", "127", "31", "0", "1"}
		a := randV4(env).String()
		if r.Intn(2) == 0 {
			a = randV6(env).String()
		}
		return a + "/" + sfx[r.Intn(len(sfx))]
	case 9: // malformed addresses
		bad := []string{"192.0.2.", "192.0.2", "192.0.2.256", "2001:db8", "2001:db8:::1", "", "a.b.c.d", "1.2.3.4.5", "fe80::1%eth0", "01.2.3.4", "1.2.3.4 "}
		b := bad[r.Intn(len(bad))]
		switch r.Intn(4) {
		case 0:
			return b
		case 1:
			return b + "/24"
		case 2:
			return b + "-" + randV4(env).String()
		default:
			return randV4(env).String() + "-" + b
		}
	case 10: // v4-mapped forms with prefixes and masks, masks in v6 notation
		a := "::ffff:" + randV4(env).String()
		switch r.Intn(4) {
		case 0:
			return a + "/" + strconv.Itoa(r.Intn(33))
		case 1:
			return a + "/" + strconv.Itoa(96+r.Intn(33))
		case 2:
			return randV4(env).String() + "/::ffff:" + net.IP(net.CIDRMask(r.Intn(33), 32)).String()
		default:
			return a + "-" + randV4(env).String()
		}
	case 11: // several separators
		a := randV4(env).String()
		switch r.Intn(4) {
		case 0:
			return a + "/24/8"
		case 1:
			return a + "-" + a + "-" + a
		case 2:
			return a + "/24-" + a
		default:
			return a + "-" + a + "/24"
		}
	case 12: // v6 mask attempts
		return randV6(env).String() + "/" + randV6(env).String()
	case 13: // small blocks around the exclusion threshold
		if r.Intn(2) == 0 {
			return randV4(env).String() + "/" + strconv.Itoa(28+r.Intn(5))
		}
		return randV6(env).String() + "/" + strconv.Itoa(124+r.Intn(5))
	case 14: // big blocks
		if r.Intn(2) == 0 {
			return randV4(env).String() + "/" + strconv.Itoa(r.Intn(9))
		}
		return randV6(env).String() + "/" + strconv.Itoa(r.Intn(9))
	default: // random garbage over the alphabet
		alpha := "0123456789abcdef.:/-"
		n := r.Intn(24)
		b := make([]byte, n)
		for j := range b {
			b[j] = alpha[r.Intn(len(alpha))]
		}
		return string(b)
	}
}

func bigTo16(v *big.Int) net.IP {
	out := make([]byte, 16)
	if v.Sign() < 0 {
		return out
	}
	b := v.Bytes()
	if len(b) > 16 {
		for i := range out {
			out[i] = 0xff
		}
		return out
	}
	copy(out[16-len(b):], b)
	return out
}

// probes for a specification: borders +-1, network/broadcast, random; 4- and 16-byte forms
func c14Probes(env *Env, exp c14Expect) []net.IP {
	var ps []net.IP
	add := func(ip16 net.IP) {
		ps = append(ps, ip16)
		if v4 := ip16.To4(); v4 != nil {
			ps = append(ps, append(net.IP{}, v4...))
		}
	}
	if exp.accept {
		one := big.NewInt(1)
		two := big.NewInt(2)
		for _, v := range []*big.Int{
			new(big.Int).Sub(exp.lo, two), new(big.Int).Sub(exp.lo, one), exp.lo, new(big.Int).Add(exp.lo, one),
			new(big.Int).Sub(exp.hi, one), exp.hi, new(big.Int).Add(exp.hi, one), new(big.Int).Add(exp.hi, two),
		} {
			add(bigTo16(v))
		}
		// random interior
		w := new(big.Int).Sub(exp.hi, exp.lo)
		if w.Sign() > 0 {
			off := new(big.Int).Rand(env.Rnd, new(big.Int).Add(w, one))
			add(bigTo16(new(big.Int).Add(exp.lo, off)))
		}
	}
	add(randV4(env).To16())
	add(randV6(env))
	return ps
}

func runC14(env *Env) error {
	n := env.N
	fails := 0
	for i := 0; i < n; i++ {
		s := c14GenSpec(env, i)
		id := fmt.Sprintf("c14-%d", i)
		exp := c14Oracle(s)
		env.Count("oracle_class", exp.class)

		// implementation
		r, err := iprange.ParseIPRange(s)
		probes := c14Probes(env, exp)
		obs := "R"
		var res []bool
		if err == nil {
			var sb strings.Builder
			for _, p := range probes {
				c := r.Contains(p)
				res = append(res, c)
				if c {
					sb.WriteByte('1')
				} else {
					sb.WriteByte('0')
				}
			}
			// String() is "<left>-<right>"; we re-parse to 16-byte hex for an exact comparison
			obs = "A:" + sb.String() + ":" + c14Bounds(r)
			env.Count("impl", "accept")
		} else {
			env.Count("impl", "reject")
		}

		// oracle tables for the model (net.ParseIP / strconv.Atoi are external to the model)
		sep := strings.IndexAny(s, "/-")
		keys := []string{s}
		if sep >= 0 {
			keys = append(keys, s[:sep], s[sep+1:])
		}
		var iptab, atoitab []string
		seen := map[string]bool{}
		for _, k := range keys {
			if seen[k] {
				continue
			}
			seen[k] = true
			ip := net.ParseIP(k)
			if ip == nil {
				iptab = append(iptab, hx([]byte(k))+"=!")
			} else {
				iptab = append(iptab, hx([]byte(k))+"="+hx(ip))
				// hypotheses of the theorem about net.ParseIP
				if len(ip) != 16 {
					env.OracleFail(id, fmt.Sprintf("hypothesis parse_ip_ok violated: ParseIP(%q) has length %d", k, len(ip)))
				}
				if strings.ContainsAny(k, "/-") {
					env.OracleFail(id, fmt.Sprintf("hypothesis parse_ip_nosep violated: ParseIP(%q) accepted", k))
				}
			}
			v, aerr := strconv.Atoi(k)
			if aerr != nil {
				atoitab = append(atoitab, hx([]byte(k))+"=!")
			} else {
				atoitab = append(atoitab, hx([]byte(k))+"="+hxnum(int64(v)))
			}
		}
		var ph []string
		for _, p := range probes {
			ph = append(ph, hx(p))
		}
		fields := []string{hx([]byte(s)), strings.Join(iptab, ","), strings.Join(atoitab, ","), strings.Join(ph, ",")}
		env.Case(id, "C14", fields, obs, sep >= 0 || err == nil)

		// direct oracle
		if exp.accept != (err == nil) {
			env.OracleFail(id, fmt.Sprintf("spec %q (%s): documented accept=%v, ParseIPRange accept=%v", s, exp.class, exp.accept, err == nil))
			fails++
		} else if exp.accept {
			for j, p := range probes {
				v := new(big.Int).SetBytes(p.To16())
				want := v.Cmp(exp.lo) >= 0 && v.Cmp(exp.hi) <= 0
				if want != res[j] {
					env.OracleFail(id, fmt.Sprintf("spec %q (%s): Contains(%s)=%v, documented set says %v", s, exp.class, p, res[j], want))
					fails++
					break
				}
			}
		}
		if i < 4 || (exp.accept && len(env.Samples) < 6 && i%7 == 0) {
			env.Sample(map[string]any{"spec": s, "class": exp.class, "impl": obs, "probes": len(probes)})
		}
	}
	if env.Tier == "thorough" {
		c14Exhaustive(env)
	}
	return nil
}

func c14Bounds(r *iprange.IPRange) string {
	// IPRange.String prints "<left>-<right>" with net.IP formatting
	s := r.String()
	// the separator is the '-' between two addresses; addresses contain no '-'
	i := strings.IndexByte(s, '-')
	l, rr := net.ParseIP(s[:i]), net.ParseIP(s[i+1:])
	return hx(l.To16()) + ":" + hx(rr.To16())
}

// thorough tier: every address of every block /20 and smaller for a sample of specs,
// and +-300 around it, against the direct oracle (implementation only).
func c14Exhaustive(env *Env) {
	cnt := 0
	for k := 0; k < 200; k++ {
		plen := 20 + env.Rnd.Intn(13)
		s := randV4(env).String() + "/" + strconv.Itoa(plen)
		if k%3 == 1 {
			s = randV4(env).String() + "/" + net.IP(net.CIDRMask(plen, 32)).String()
		}
		exp := c14Oracle(s)
		r, err := iprange.ParseIPRange(s)
		if err != nil || !exp.accept {
			env.OracleFail(fmt.Sprintf("c14-ex-%d", k), fmt.Sprintf("spec %q rejected", s))
			continue
		}
		lo := new(big.Int).Sub(exp.lo, big.NewInt(300))
		hi := new(big.Int).Add(exp.hi, big.NewInt(300))
		for v := new(big.Int).Set(lo); v.Cmp(hi) <= 0; v.Add(v, big.NewInt(1)) {
			ip := bigTo16(v)
			want := v.Cmp(exp.lo) >= 0 && v.Cmp(exp.hi) <= 0
			got := r.Contains(ip)
			got4 := got
			if v4 := ip.To4(); v4 != nil {
				got4 = r.Contains(v4)
			}
			cnt++
			if got != want || got4 != want {
				env.OracleFail(fmt.Sprintf("c14-ex-%d", k), fmt.Sprintf("spec %q: Contains(%s)=%v/%v, documented %v", s, ip, got, got4, want))
				break
			}
		}
	}
	env.Extra["exhaustive_block_addresses_checked"] = cnt
}
