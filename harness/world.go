//go:build verif

package main

import (
	"crypto/md5"
	"encoding/binary"
	"encoding/hex"
	"fmt"
	"os"
	"path/filepath"
	"sort"
	"strings"
	"time"
)

// ---- content specifications shared with the OCaml runner (k_sess.ml) ----

type Seg struct {
	Kind byte // 'h' literal, 'z' zeros, 'g' pattern
	Data []byte
	N    int
	A    int
}

type Content []Seg

func patternByte(a, j int) byte { return byte((a + j*31 + (j/2048)*17) & 255) }

func (c Content) Bytes() []byte {
	var out []byte
	for _, s := range c {
		switch s.Kind {
		case 'h':
			out = append(out, s.Data...)
		case 'z':
			out = append(out, make([]byte, s.N)...)
		case 'g':
			b := make([]byte, s.N)
			for j := range b {
				b[j] = patternByte(s.A, j)
			}
			out = append(out, b...)
		}
	}
	return out
}

func (c Content) Spec() string {
	if len(c) == 0 {
		return "-"
	}
	var parts []string
	for _, s := range c {
		switch s.Kind {
		case 'h':
			if len(s.Data) > 0 {
				parts = append(parts, hex.EncodeToString(s.Data))
			}
		case 'z':
			parts = append(parts, fmt.Sprintf("z%d", s.N))
		case 'g':
			parts = append(parts, fmt.Sprintf("g%d.%d", s.N, s.A))
		}
	}
	if len(parts) == 0 {
		return "-"
	}
	return strings.Join(parts, "+")
}

func lit(b []byte) Content { return Content{{Kind: 'h', Data: b}} }

// ---- world trees ----

type WNode struct {
	Name    string
	Dir     bool
	MTime   int64
	Kids    []*WNode
	Content Content
}

func (n *WNode) Child(name string) *WNode {
	for _, k := range n.Kids {
		if k.Name == name {
			return k
		}
	}
	return nil
}

// Spec renders the preorder token list understood by the runner.
func (n *WNode) Spec() string {
	var sb strings.Builder
	var rec func(x *WNode)
	rec = func(x *WNode) {
		if sb.Len() > 0 {
			sb.WriteByte(' ')
		}
		if x.Dir {
			fmt.Fprintf(&sb, "D %s %s %d", hx([]byte(x.Name)), hxnum(x.MTime), len(x.Kids))
			for _, k := range x.Kids {
				rec(k)
			}
		} else {
			fmt.Fprintf(&sb, "F %s %s %s", hx([]byte(x.Name)), hxnum(x.MTime), x.Content.Spec())
		}
	}
	rec(n)
	return sb.String()
}

// Materialise writes the tree below dir (dir itself is the node n) and sets every mtime.
func (n *WNode) Materialise(dir string) error {
	if !n.Dir {
		return fmt.Errorf("root must be a directory")
	}
	if err := os.MkdirAll(dir, 0o755); err != nil {
		return err
	}
	for _, k := range n.Kids {
		p := filepath.Join(dir, k.Name)
		if k.Dir {
			if err := k.Materialise(p); err != nil {
				return err
			}
		} else {
			if err := writeContent(p, k.Content); err != nil {
				return err
			}
			t := time.Unix(k.MTime, 0)
			if err := os.Chtimes(p, t, t); err != nil {
				return err
			}
		}
	}
	t := time.Unix(n.MTime, 0)
	return os.Chtimes(dir, t, t)
}

// writeContent writes a file; long zero segments become holes (sparse files of several GiB)
func writeContent(p string, c Content) error {
	f, err := os.Create(p)
	if err != nil {
		return err
	}
	defer f.Close()
	var pos int64
	for _, s := range c {
		if s.Kind == 'z' && s.N > 1<<20 {
			pos += int64(s.N)
			if _, err := f.Seek(pos, 0); err != nil {
				return err
			}
			continue
		}
		b := Content{s}.Bytes()
		if _, err := f.Write(b); err != nil {
			return err
		}
		pos += int64(len(b))
	}
	return f.Truncate(pos)
}

// Size of the content in bytes
func (c Content) Size() int64 {
	var n int64
	for _, s := range c {
		if s.Kind == 'h' {
			n += int64(len(s.Data))
		} else {
			n += int64(s.N)
		}
	}
	return n
}

// At returns byte i of the content without materialising it
func (c Content) At(i int64) byte {
	var base int64
	for _, s := range c {
		n := int64(s.N)
		if s.Kind == 'h' {
			n = int64(len(s.Data))
		}
		if i < base+n {
			j := i - base
			switch s.Kind {
			case 'h':
				return s.Data[j]
			case 'g':
				return patternByte(s.A, int(j))
			default:
				return 0
			}
		}
		base += n
	}
	return 0
}

// Walk visits all nodes with their path relative to the root node ("" for the root).
func (n *WNode) Walk(f func(rel string, x *WNode)) {
	var rec func(rel string, x *WNode)
	rec = func(rel string, x *WNode) {
		f(rel, x)
		for _, k := range x.Kids {
			rec(rel+"/"+k.Name, k)
		}
	}
	rec("", n)
}

// DumpDisk is the canonical dump of a real directory tree, in the format of dump_world (k_sess.ml):
// md5 over sorted lines "D <pathhex> <mtime>" / "F <pathhex> <mtime> <size> <md5>".
func DumpDisk(root string) (string, []string, error) {
	var lines []string
	err := filepath.Walk(root, func(p string, fi os.FileInfo, err error) error {
		if err != nil {
			return err
		}
		rel := strings.TrimPrefix(p, root)
		if fi.IsDir() {
			lines = append(lines, fmt.Sprintf("D %s %s", hx([]byte(rel)), hxnum(fi.ModTime().Unix())))
			return nil
		}
		if !fi.Mode().IsRegular() {
			lines = append(lines, fmt.Sprintf("O %s %s", hx([]byte(rel)), fi.Mode().String()))
			return nil
		}
		b, err := os.ReadFile(p)
		if err != nil {
			return err
		}
		s := md5.Sum(b)
		lines = append(lines, fmt.Sprintf("F %s %s %d %s", hx([]byte(rel)), hxnum(fi.ModTime().Unix()), len(b), hex.EncodeToString(s[:])))
		return nil
	})
	if err != nil {
		return "", nil, err
	}
	sort.Strings(lines)
	s := md5.Sum([]byte(strings.Join(lines, "\n")))
	return hex.EncodeToString(s[:]), lines, nil
}

func digestOut(b []byte) string {
	if len(b) <= 48 {
		return hx(b)
	}
	s := md5.Sum(b)
	return fmt.Sprintf("%d:%s", len(b), hex.EncodeToString(s[:]))
}

// ---- wire requests ----

const (
	opOpenFile         = 0x1224
	opReadFileCritical = 0x1225
	opReadCD           = 0x1226
	opReadFile         = 0x1227
	opCreateFile       = 0x1228
	opWriteFile        = 0x1229
	opOpenDir          = 0x122a
	opReadDirEntry     = 0x122b
	opDeleteFile       = 0x122c
	opMkdir            = 0x122d
	opRmdir            = 0x122e
	opReadDirEntryV2   = 0x122f
	opStatFile         = 0x1230
	opGetDirSize       = 0x1231
	opReadDir          = 0x1232
)

type Req struct {
	Op      int
	Path    string
	N       uint32
	Off     uint64
	Start   uint32
	Cnt     uint32
	Payload []byte
	Junk    []byte // filler for the ignored bytes of the 16-byte command
}

func isPathOp(op int) bool {
	switch op {
	case opOpenFile, opCreateFile, opOpenDir, opDeleteFile, opMkdir, opRmdir, opStatFile, opGetDirSize:
		return true
	}
	return false
}

func (r *Req) Wire() []byte {
	b := make([]byte, 16)
	if len(r.Junk) > 0 {
		copy(b[2:], r.Junk)
	}
	binary.BigEndian.PutUint16(b[0:], uint16(r.Op))
	switch {
	case isPathOp(r.Op):
		binary.BigEndian.PutUint16(b[2:], uint16(len(r.Path)))
		b = append(b, r.Path...)
	case r.Op == opReadFile || r.Op == opReadFileCritical:
		binary.BigEndian.PutUint32(b[4:], r.N)
		binary.BigEndian.PutUint64(b[8:], r.Off)
	case r.Op == opReadCD:
		binary.BigEndian.PutUint32(b[4:], r.Start)
		binary.BigEndian.PutUint32(b[8:], r.Cnt)
	case r.Op == opWriteFile:
		binary.BigEndian.PutUint32(b[4:], r.N)
		b = append(b, r.Payload...)
	}
	return b
}

func (r *Req) String() string {
	switch {
	case isPathOp(r.Op):
		return fmt.Sprintf("%#x %q", r.Op, r.Path)
	case r.Op == opReadFile || r.Op == opReadFileCritical:
		return fmt.Sprintf("%#x n=%d off=%d", r.Op, r.N, r.Off)
	case r.Op == opReadCD:
		return fmt.Sprintf("%#x start=%d cnt=%d", r.Op, r.Start, r.Cnt)
	case r.Op == opWriteFile:
		return fmt.Sprintf("%#x n=%d payload=%d", r.Op, r.N, len(r.Payload))
	}
	return fmt.Sprintf("%#x", r.Op)
}
