//go:build verif

package main

import (
	"bytes"
	"encoding/binary"
	"fmt"
	"io"
	"net"
	"os"
	"path/filepath"
	"strings"
	"time"

	pfs "github.com/xakep666/ps3netsrv-go/pkg/fs"
	"github.com/xakep666/ps3netsrv-go/pkg/proto"
)

// Job faults — C13: every scenario is run once without faults (the reference), then again with one control
// operation of the filesystem failing - every index in turn (quick: a stride) - with short reads of several sizes,
// with an unreadable tail of the served file, and with every way of ending the connection at every request
// boundary.  After each run: no handle is left open, the connection goroutine ended, a new connection is served,
// and every answer is the reference answer, the protocol's failure code, or a correct prefix followed by
// disconnection.  Oracle-only (the filesystem double's fault hooks have no counterpart in the session model).
func init() { subcmds["faults"] = runFaults }

// sessPrep is consulted by runSession right after the server is created (fault configuration)
var sessPrep func(ls *LibServer)

type faultScenario struct {
	name  string
	allow bool
	reqs  []*Req
}

func faultWorld(env *Env) *WNode {
	c := pfs.VerifConsts
	discKey := []byte{0x00, 0x11, 0x22, 0x33, 0x44, 0x55, 0x66, 0x77, 0x88, 0x99, 0xaa, 0xbb, 0xcc, 0xdd, 0xee, 0xff}
	key := refDeriveKey(discKey)
	mkEnc := func(watermark bool) []byte {
		plain := make([]byte, 2048*12)
		env.Rnd.Read(plain)
		copy(plain, regionTable(3, [][2]uint32{{0, 3}, {5, 7}, {9, 12}}))
		if watermark {
			copy(plain[c.MaskedDataBegin+c.WatermarkPlacement:], c.EncWatermark)
			copy(plain[c.MaskedDataBegin+c.EncryptionKeyPlacement:], discKey)
		}
		out := append([]byte(nil), plain...)
		for _, s := range []int{3, 4, 7, 8} {
			copy(out[s*2048:], refEncryptSector(key, s, plain[s*2048:(s+1)*2048]))
		}
		return out
	}
	f := func(name string, n, a int) *WNode {
		return &WNode{Name: name, MTime: 1400000000, Content: Content{{Kind: 'g', N: n, A: a}}}
	}
	return &WNode{Name: "R", Dir: true, MTime: 1500000000, Kids: []*WNode{
		f("f.bin", 70000, 3), f("other.bin", 100, 9),
		{Name: "d", Dir: true, MTime: 1500000001, Kids: []*WNode{f("a", 10, 1), f("b", 3000, 2), {Name: "c", Dir: true, MTime: 1500000002, Kids: []*WNode{f("deep", 5, 4)}}}},
		{Name: "dvd", Dir: true, MTime: 1500000003, Kids: []*WNode{f("x.bin", 3000, 5), {Name: "y", Dir: true, MTime: 1500000004, Kids: []*WNode{f("z.bin", 10, 6)}}}},
		{Name: "PS3ISO", Dir: true, MTime: 1500000005, Kids: []*WNode{
			{Name: "g.iso", MTime: 1400000001, Content: lit(mkEnc(false))},
			{Name: "g.dkey", MTime: 1400000002, Content: lit([]byte("00112233445566778899aabbccddeeff"))}}},
		{Name: "iso3k", Dir: true, MTime: 1500000006, Kids: []*WNode{{Name: "t.iso", MTime: 1400000003, Content: lit(mkEnc(true))}}},
		{Name: "up", Dir: true, MTime: 1500000007},
	}}
}

func faultScenarios() []faultScenario {
	rd := func(n uint32, off uint64) *Req { return &Req{Op: opReadFile, N: n, Off: off} }
	cr := func(n uint32, off uint64) *Req { return &Req{Op: opReadFileCritical, N: n, Off: off} }
	return []faultScenario{
		{"plain", false, []*Req{{Op: opOpenFile, Path: "/f.bin"}, rd(1000, 0), rd(70000, 100), cr(3000, 65000), {Op: opStatFile, Path: "/f.bin"},
			{Op: opOpenFile, Path: "/other.bin"}, rd(200, 0), {Op: opOpenFile, Path: "/CLOSEFILE"}}},
		{"listing", false, []*Req{{Op: opOpenDir, Path: "/d"}, {Op: opReadDirEntry}, {Op: opReadDirEntry}, {Op: opReadDirEntry}, {Op: opReadDirEntry},
			{Op: opOpenDir, Path: "/d"}, {Op: opReadDirEntryV2}, {Op: opReadDirEntryV2}, {Op: opReadDirEntryV2}, {Op: opReadDirEntryV2},
			{Op: opOpenDir, Path: "/d"}, {Op: opReadDir}, {Op: opGetDirSize, Path: "/d"}, {Op: opStatFile, Path: "/d/c"}, {Op: opOpenDir, Path: "/"}, {Op: opReadDir}}},
		{"generated-image", false, []*Req{{Op: opOpenFile, Path: "/***DVD***/dvd"}, rd(4096, 0), rd(800, 16 * 2048) /* stops before the volume time fields, which differ between opens (C18) */, cr(2048, 20 * 2048),
			rd(70000, 24 * 2048), rd(100, 1 << 30), {Op: opOpenFile, Path: "/***DVD***/d"}, rd(65536, 30 * 2048)}},
		{"redump", false, []*Req{{Op: opOpenFile, Path: "/PS3ISO/g.iso"}, rd(4096, 0), rd(5000, 3*2048 + 7), cr(2048, 7 * 2048), rd(30000, 0), {Op: opStatFile, Path: "/PS3ISO/g.iso"}}},
		{"3k3y", false, []*Req{{Op: opOpenFile, Path: "/iso3k/t.iso"}, rd(300, 0xF60), rd(5000, 3*2048 + 7), cr(4096, 2048), rd(30000, 0)}},
		{"held", true, []*Req{{Op: opOpenFile, Path: "/f.bin"}, rd(100, 0), {Op: opOpenDir, Path: "/d"}, {Op: opReadDirEntry}, {Op: opReadDirEntry}, {Op: opReadDirEntry}, {Op: opReadDirEntry},
			{Op: opOpenDir, Path: "/d"}, {Op: opReadDirEntry}, {Op: opCreateFile, Path: "/up/h.bin"},
			{Op: opWriteFile, N: 5, Payload: []byte("hello")}}}, // ends with a read file, a directory and an upload all open
		{"upload", true, []*Req{{Op: opCreateFile, Path: "/up/u.bin"}, {Op: opWriteFile, N: 3000, Payload: bytes.Repeat([]byte{5}, 3000)}, {Op: opWriteFile, N: 10, Payload: []byte("0123456789")},
			{Op: opStatFile, Path: "/up/u.bin"}, {Op: opOpenFile, Path: "/up/u.bin"}, rd(4000, 0), {Op: opMkdir, Path: "/up/nd"}, {Op: opRmdir, Path: "/up/nd"}, {Op: opDeleteFile, Path: "/up/u.bin"}}},
	}
}

// sizes of the files below the directories of the fault world that scenarios ask the size of
var dirFileSizes = map[string][]int64{"/d": {10, 3000, 5}}

func subsetSum(xs []int64, want int64) bool {
	for m := 0; m < 1<<len(xs); m++ {
		var s int64
		for i, x := range xs {
			if m>>i&1 == 1 {
				s += x
			}
		}
		if s == want {
			return true
		}
	}
	return false
}

func allFF(b []byte) bool {
	for _, x := range b {
		if x != 0xFF {
			return false
		}
	}
	return len(b) > 0
}

// acceptable: the reference answer, a correct prefix followed by disconnection, or the protocol's failure code
func faultAnswerOK(q *Req, ref, got stepObs, refs []stepObs, reqs []*Req) (bool, string) {
	if bytes.Equal(ref.out, got.out) && ref.closed == got.closed {
		return true, ""
	}
	// listings and directory sizes: an entry that cannot be examined is omitted (the code's documented choice, as for
	// dangling links); what is reported must still be true: an entry of the reference listing, a sum over a subset of the files
	switch q.Op {
	case opReadDirEntry, opReadDirEntryV2:
		for k, r := range refs {
			if k < len(reqs) && reqs[k].Op == q.Op && bytes.Equal(r.out, got.out) && !got.closed {
				return true, ""
			}
		}
	case opReadDir:
		es := int(binary.Size(proto.DirEntry{}))
		if len(got.out) >= 8 && len(ref.out) >= 8 && (len(got.out)-8)%es == 0 && int64(binary.BigEndian.Uint64(got.out)) == int64((len(got.out)-8)/es) {
			all := true
			for o := 8; o < len(got.out); o += es {
				found := false
				for p := 8; p+es <= len(ref.out); p += es {
					found = found || bytes.Equal(got.out[o:o+es], ref.out[p:p+es])
				}
				all = all && found
			}
			if all {
				return true, ""
			}
		}
	case opGetDirSize:
		if len(got.out) == 8 && len(ref.out) == 8 {
			g, r := int64(binary.BigEndian.Uint64(got.out)), int64(binary.BigEndian.Uint64(ref.out))
			if g >= 0 && g <= r && subsetSum(dirFileSizes[q.Path], g) {
				return true, ""
			}
		}
	}
	if got.closed && len(got.out) <= len(ref.out) && bytes.Equal(got.out, ref.out[:len(got.out)]) {
		return true, ""
	}
	if got.closed && len(got.out) == 0 {
		return true, ""
	}
	switch q.Op {
	case opReadFile: // the announced count with exactly that many correct bytes, or an empty read
		if len(got.out) >= 4 {
			n := int(int32(binary.BigEndian.Uint32(got.out)))
			if n <= 0 && len(got.out) == 4 {
				return true, ""
			}
			if n > 0 && len(got.out) == 4+n && len(ref.out) >= 4+n && bytes.Equal(got.out[4:], ref.out[4:4+n]) {
				return true, "" // a shorter but correct read
			}
		}
	case opReadFileCritical, opReadCD:
		// only a prefix + disconnection is acceptable (handled above)
	case opReadDir:
		if len(got.out) == 8 && (allFF(got.out) || bytes.Equal(got.out, make([]byte, 8))) {
			return true, ""
		}
	default:
		if len(got.out) == len(ref.out) || len(got.out) == fixedLen(q.Op) || fixedLen(q.Op) < 0 {
			lead := got.out
			if len(lead) > 8 {
				lead = lead[:8]
			}
			if len(got.out) == 4 {
				lead = got.out
			}
			if allFF(lead) {
				return true, ""
			}
		}
	}
	return false, fmt.Sprintf("answer of %d bytes (closed=%v) is neither the reference answer (%d bytes), nor a correct prefix followed by disconnection, nor a failure code: % x...", len(got.out), got.closed, len(ref.out), got.out[:min(len(got.out), 24)])
}

func runFaults(env *Env) error {
	base, err := os.MkdirTemp("", "vfaults")
	if err != nil {
		return err
	}
	defer os.RemoveAll(base)
	defer func() { sessPrep = nil }()
	world := faultWorld(env)
	scen := faultScenarios()
	nrun := 0
	fresh := func(tag string) (string, error) {
		top := filepath.Join(base, tag)
		os.RemoveAll(top)
		w := &WNode{Dir: true, MTime: 1300000000, Kids: []*WNode{world}}
		return top, w.Materialise(top)
	}
	for si, sc := range scen {
		for _, q := range sc.reqs {
			q.Junk = make([]byte, 14)
		}
		var chunks [][]byte
		var ops []int
		for _, q := range sc.reqs {
			chunks = append(chunks, q.Wire())
			ops = append(ops, q.Op)
		}
		// reference run
		top, err := fresh(fmt.Sprintf("s%d-ref", si))
		if err != nil {
			return err
		}
		ticks := 0
		var lsRef *LibServer
		sessPrep = func(ls *LibServer) { lsRef = ls }
		ref, err := runSession(top, sc.allow, chunks, ops, 65536, nil)
		if err != nil {
			return err
		}
		ticks = lsRef.Dfs.Tick
		for k := range ref.steps {
			if k < len(sc.reqs) {
				ref.steps[k] = sansOpenTime(sc.reqs[k], ref.steps[k])
			}
		}
		refID := fmt.Sprintf("faults-%s-ref", sc.name)
		if ref.leak != 0 {
			env.OracleFail(refID, fmt.Sprintf("[C13-leak] %d handles left open after the fault-free scenario", ref.leak))
		}
		env.Case(refID, "NOMODEL", []string{describeReqs(sc.reqs)}, fmt.Sprintf("ticks=%d", ticks), true)
		env.Count("scenario", sc.name)
		env.Count("control_ops:"+sc.name, fmt.Sprint(ticks))
		judge := func(id, what string, res *sessResult, strict bool) {
			nrun++
			if res.leak != 0 {
				env.OracleFail(id, fmt.Sprintf("[C13-leak] %s: %d handle(s) still open after the connection ended; requests: %s", what, res.leak, trim(describeReqs(sc.reqs), 300)))
			}
			if !res.goroutineEnded {
				env.OracleFail(id, fmt.Sprintf("[C13-hang] %s: the connection goroutine did not end", what))
			}
			for k, so := range res.steps {
				if k >= len(ref.steps) {
					break
				}
				so = sansOpenTime(sc.reqs[k], so)
				if strict {
					if !bytes.Equal(so.out, ref.steps[k].out) || so.closed != ref.steps[k].closed {
						env.OracleFail(id, fmt.Sprintf("[C13-short] %s: request %d %s answered differently from the run without short reads (%d vs %d bytes)", what, k, sc.reqs[k].String(), len(so.out), len(ref.steps[k].out)))
						break
					}
					continue
				}
				if ok, why := faultAnswerOK(sc.reqs[k], ref.steps[k], so, ref.steps, sc.reqs); !ok {
					env.OracleFail(id, fmt.Sprintf("[C13-wrong] %s: request %d %s: %s", what, k, sc.reqs[k].String(), why))
					if os.Getenv("VERIF_DEBUG") != "" {
						for j, x := range res.steps {
							fmt.Fprintf(os.Stderr, "DEBUG %s step %d: %d bytes closed=%v (ref %d)\n", id, j, len(x.out), x.closed, len(ref.steps[j].out))
						}
					}
					break
				}
			}
		}
		stride := 1
		if env.Tier != "thorough" && env.N < 100 {
			stride = 1 + ticks*len(scen)/(env.N*4+1)
		}
		// (1) one failing control operation
		for k := (si % stride); k < ticks; k += stride {
			id := fmt.Sprintf("faults-%s-op%d", sc.name, k)
			top, err := fresh(fmt.Sprintf("s%d-k", si))
			if err != nil {
				return err
			}
			var lsK *LibServer
			sessPrep = func(ls *LibServer) { ls.Dfs.FailAt[k] = true; ls.Dfs.LogOn = true; lsK = ls }
			res, err := runSession(top, sc.allow, chunks, ops, 65536, nil)
			if err != nil {
				return err
			}
			opName := "?"
			if lsK != nil && k < len(lsK.Dfs.Log) {
				opName = lsK.Dfs.Log[k]
				opName = opName[:strings.IndexByte(opName+" ", ' ')]
			}
			judge(id, fmt.Sprintf("control operation %d (%s) failing with EIO", k, opName), res, false)
			env.Case(id, "NOMODEL", []string{sc.name, fmt.Sprint(k)}, fmt.Sprintf("leak=%d", res.leak), true)
			env.Count("failed_op", opName)
		}
		// (2) short reads
		for _, mr := range []int{1, 7, 512, 2047} {
			if sc.name == "upload" {
				continue
			}
			id := fmt.Sprintf("faults-%s-short%d", sc.name, mr)
			sessPrep = func(ls *LibServer) { ls.Dfs.MaxRead = mr }
			res, err := runSession(top, sc.allow, chunks, ops, 65536, nil)
			if err != nil {
				return err
			}
			judge(id, fmt.Sprintf("every read returning at most %d bytes", mr), res, true)
			env.Case(id, "NOMODEL", []string{sc.name, fmt.Sprint(mr)}, fmt.Sprintf("leak=%d", res.leak), true)
		}
		// (2b) positional reads of the encrypted image coming back short without an error
		if sc.name == "redump" {
			for _, sa := range []int{1, 1000, 2047, 3000} {
				id := fmt.Sprintf("faults-%s-shortat%d", sc.name, sa)
				abs := filepath.Join(top, "R", "PS3ISO/g.iso")
				sessPrep = func(ls *LibServer) { ls.Dfs.ShortAt[abs] = sa }
				res, err := runSession(top, sc.allow, chunks, ops, 65536, nil)
				if err != nil {
					return err
				}
				judge(id, fmt.Sprintf("every positional read of PS3ISO/g.iso returning at most %d bytes without an error", sa), res, true)
				env.Case(id, "NOMODEL", []string{sc.name, fmt.Sprint(sa)}, fmt.Sprintf("leak=%d", res.leak), true)
			}
		}
		// (3) an unreadable tail of the main file
		if sc.name == "plain" || sc.name == "redump" {
			file := map[string]string{"plain": "f.bin", "redump": "PS3ISO/g.iso"}[sc.name]
			for _, bad := range []int64{0, 1, 999, 4096, 20000} {
				id := fmt.Sprintf("faults-%s-bad%d", sc.name, bad)
				abs := filepath.Join(top, "R", file)
				sessPrep = func(ls *LibServer) { ls.Dfs.BadFrom[abs] = bad }
				res, err := runSession(top, sc.allow, chunks, ops, 65536, nil)
				if err != nil {
					return err
				}
				judge(id, fmt.Sprintf("%s unreadable from offset %d", file, bad), res, false)
				env.Case(id, "NOMODEL", []string{sc.name, fmt.Sprint(bad)}, fmt.Sprintf("leak=%d", res.leak), true)
			}
		}
		// (3b) every Close reports an error (the handle itself is released): the others are closed all the same
		{
			id := fmt.Sprintf("faults-%s-closeerr", sc.name)
			top, err := fresh(fmt.Sprintf("s%d-c", si))
			if err != nil {
				return err
			}
			sessPrep = func(ls *LibServer) { ls.Dfs.CloseErr = true }
			res, err := runSession(top, sc.allow, chunks, ops, 65536, nil)
			if err != nil {
				return err
			}
			judge(id, "every Close reporting EIO", res, false)
			env.Case(id, "NOMODEL", []string{sc.name, "closeerr"}, fmt.Sprintf("leak=%d", res.leak), true)
		}
		// (4) every way of ending the connection at every request boundary
		for cut := 0; cut <= len(chunks); cut++ {
			for _, ending := range []string{"eof", "bad-opcode", "mid-request", "reset", "timeout-idle", "timeout-mid-request"} {
				if strings.HasPrefix(ending, "timeout") && env.Tier != "thorough" && cut%3 != si%3 {
					continue // (each waits for the timeout to pass)
				}
				id := fmt.Sprintf("faults-%s-end%d-%s", sc.name, cut, ending)
				top, err := fresh(fmt.Sprintf("s%d-e", si))
				if err != nil {
					return err
				}
				cs := append([][]byte(nil), chunks[:cut]...)
				os_ := append([]int(nil), ops[:cut]...)
				switch ending {
				case "bad-opcode":
					cs = append(cs, append([]byte{0x77, 0x77}, make([]byte, 14)...))
					os_ = append(os_, 0x7777)
				case "mid-request", "timeout-mid-request":
					cs = append(cs, (&Req{Op: opOpenFile, Path: "/f.bin", Junk: make([]byte, 14)}).Wire()[:19])
					os_ = append(os_, opOpenFile)
				}
				sessPrep = nil
				var res *sessResult
				if ending == "reset" {
					res, err = runSessionReset(top, sc.allow, cs)
				} else if strings.HasPrefix(ending, "timeout") {
					res, err = runSessionStall(top, sc.allow, cs)
				} else {
					res, err = runSession(top, sc.allow, cs, os_, 65536, nil)
				}
				if err != nil {
					return err
				}
				nrun++
				if res.leak != 0 {
					env.OracleFail(id, fmt.Sprintf("[C13-leak] connection ended by %s after %d requests of %s: %d handle(s) still open", ending, cut, trim(describeReqs(sc.reqs), 200), res.leak))
				}
				if !res.goroutineEnded {
					env.OracleFail(id, fmt.Sprintf("[C13-hang] connection ended by %s after %d requests: the connection goroutine did not end", ending, cut))
				}
				env.Case(id, "NOMODEL", []string{sc.name, fmt.Sprint(cut), ending}, fmt.Sprintf("leak=%d", res.leak), true)
				env.Count("ending", ending)
			}
		}
	}
	env.Count("runs", fmt.Sprint(nrun))
	return nil
}

// sansOpenTime: a generated image is stamped with the moment it was opened; that field of the OPEN_FILE answer differs
// between any two runs and is left out of the comparison.
func sansOpenTime(q *Req, so stepObs) stepObs {
	if q.Op == opOpenFile && strings.Contains(q.Path, "***") && len(so.out) == 16 && !allFF(so.out[:8]) {
		so.out = append(append([]byte(nil), so.out[:8]...), make([]byte, 8)...)
	}
	return so
}

// runSessionReset: the client's side of the connection is torn down (reads and writes fail) after the chunks
func runSessionReset(top string, allow bool, chunks [][]byte) (*sessResult, error) {
	ls := NewLibServer(filepath.Join(top, "R"), allow, time.Unix(tmutUnix, 0), 0, 65536)
	defer ls.Stop()
	c := newScriptConn(&net.TCPAddr{IP: net.IPv4(127, 0, 0, 1), Port: 50001})
	ls.Connect(c)
	c.Feed(nil)
	res := &sessResult{}
	for _, ch := range chunks {
		out, closed := c.Feed(ch)
		res.steps = append(res.steps, stepObs{out: out, closed: closed})
		if closed {
			res.closedByServer = true
			break
		}
	}
	c.Close() // both directions fail from now on: a reset
	res.goroutineEnded = ls.WaitDisconnect(10 * time.Second)
	res.leak = ls.Dfs.Live()
	return res, nil
}

// runSessionStall: the client sends the chunks and then neither sends anything more nor closes; the server is configured
// with a read timeout and has to end the connection - and release what it holds - on its own.
func runSessionStall(top string, allow bool, chunks [][]byte) (*sessResult, error) {
	ls := NewLibServer(filepath.Join(top, "R"), allow, time.Unix(tmutUnix, 0), 60*time.Millisecond, 65536)
	defer ls.Stop()
	a, b := net.Pipe()
	ls.Connect(b)
	go func() { _, _ = io.Copy(io.Discard, a) }() // the responses are judged by the other endings; here they are only drained
	res := &sessResult{}
	for _, ch := range chunks {
		_ = a.SetWriteDeadline(time.Now().Add(5 * time.Second))
		if _, err := a.Write(ch); err != nil {
			res.closedByServer = true
			break
		}
	}
	res.goroutineEnded = ls.WaitDisconnect(5 * time.Second)
	res.leak = ls.Dfs.Live()
	a.Close()
	return res, nil
}
