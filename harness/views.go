//go:build verif

package main

import (
	"bytes"
	"encoding/binary"
	"fmt"
	"io"
	"net"
	"os"
	"path/filepath"
	"time"

	"github.com/spf13/afero"

	pfs "github.com/xakep666/ps3netsrv-go/pkg/fs"
)

// Job views — C02 / C11 over the wire for objects that are not plain files: a redump image with its key, an encrypted
// and a decrypted 3k3y image, a directory served as a generated image.  Every OPEN_FILE must announce the size of the
// view and every READ_FILE / READ_FILE_CRITICAL must return exactly the slice of the reference view: the harness' own
// decryption (region map kept, 3k3y area zeroed), the library view of the generated image (volume time fields masked).
// Oracle-only: the session model serves plain files (the views have their own models and jobs: C09, C10, C11).
func init() { subcmds["views"] = runViews }

func runViews(env *Env) error {
	base, err := os.MkdirTemp("", "vviews")
	if err != nil {
		return err
	}
	defer os.RemoveAll(base)
	c := pfs.VerifConsts
	for i := 0; i < env.N; i++ {
		id := fmt.Sprintf("views-%d", i)
		top := filepath.Join(base, fmt.Sprintf("w%d", i))
		discKey := make([]byte, 16)
		env.Rnd.Read(discKey)
		key := refDeriveKey(discKey)
		nsec := 20 + env.Rnd.Intn(30)
		tail := []int{0, 0, 1, 700, 2047}[env.Rnd.Intn(5)]
		regs := [][2]uint32{{0, 3}, {uint32(5 + env.Rnd.Intn(3)), uint32(9 + env.Rnd.Intn(3))}, {uint32(14 + env.Rnd.Intn(4)), uint32(nsec)}}
		mk := func(watermark []byte) (content, view []byte) {
			plain := make([]byte, nsec*2048+tail)
			env.Rnd.Read(plain)
			copy(plain, regionTable(uint32(len(regs)), regs))
			if watermark != nil {
				copy(plain[c.MaskedDataBegin+c.WatermarkPlacement:], watermark)
				copy(plain[c.MaskedDataBegin+c.EncryptionKeyPlacement:], discKey)
			}
			content = append([]byte(nil), plain...)
			for k := 1; k < len(regs); k++ {
				for s := int(regs[k-1][1]); s < int(regs[k][0]); s++ {
					copy(content[s*2048:], refEncryptSector(key, s, plain[s*2048:(s+1)*2048]))
				}
			}
			view = append([]byte(nil), plain...)
			if watermark != nil {
				for p := c.MaskedDataBegin; p < c.MaskedDataBegin+c.MaskedDataSize; p++ {
					view[p] = 0
				}
			}
			return content, view
		}
		redump, redumpView := mk(nil)
		k3enc, k3encView := mk(c.EncWatermark)
		// a decrypted 3k3y image: plain bytes with the "decrypted" watermark; served with the area zeroed
		k3dec := make([]byte, 9000+env.Rnd.Intn(9000))
		env.Rnd.Read(k3dec)
		copy(k3dec[c.MaskedDataBegin+c.WatermarkPlacement:], c.DecWatermark)
		k3decView := append([]byte(nil), k3dec...)
		for p := c.MaskedDataBegin; p < c.MaskedDataBegin+c.MaskedDataSize; p++ {
			k3decView[p] = 0
		}
		plainFile := make([]byte, 5000+env.Rnd.Intn(70000))
		env.Rnd.Read(plainFile)
		keyText := fmt.Sprintf("%x", discKey)
		dvd := genIsoTree(env, isoShape{depth: 1 + env.Rnd.Intn(2), maxKids: 2 + env.Rnd.Intn(4)}, "dvd")
		root := &WNode{Name: "R", Dir: true, MTime: 1500000000, Kids: []*WNode{
			{Name: "PS3ISO", Dir: true, MTime: 1500000001, Kids: []*WNode{
				{Name: "g.iso", MTime: 1400000001, Content: lit(redump)}, {Name: "g.dkey", MTime: 1400000002, Content: lit([]byte(keyText))},
				{Name: "nokey.ISO", MTime: 1400000003, Content: lit(redump)}}},
			{Name: "REDKEY", Dir: true, MTime: 1500000002, Kids: []*WNode{{Name: "r.dkey", MTime: 1400000004, Content: lit([]byte(keyText + "\n"))}}},
			{Name: "ps3iso", Dir: true, MTime: 1500000003, Kids: []*WNode{{Name: "r.Iso", MTime: 1400000005, Content: lit(redump)}}},
			{Name: "iso3k", Dir: true, MTime: 1500000004, Kids: []*WNode{
				{Name: "enc.iso", MTime: 1400000006, Content: lit(k3enc)}, {Name: "dec.iso", MTime: 1400000007, Content: lit(k3dec)}}},
			{Name: "plain.bin", MTime: 1400000008, Content: lit(plainFile)},
			dvd,
		}}
		w := &WNode{Dir: true, MTime: 1300000000, Kids: []*WNode{root}}
		if err := w.Materialise(top); err != nil {
			env.Count("skipped", "materialise")
			continue
		}
		// the generated image as the library serves it
		var dvdView []byte
		// (through the same filesystem double as the server: it enumerates directories in byte order, and the layout follows the enumeration)
		fsys := &pfs.FS{Fs: afero.NewBasePathFs(NewDoubleFs(time.Unix(tmutUnix, 0)), filepath.Join(top, "R"))}
		if f, err := fsys.Open("/***DVD***/dvd"); err == nil {
			var b bytes.Buffer
			_, _ = io.Copy(&b, struct{ io.Reader }{f})
			f.Close()
			dvdView = b.Bytes()
		}
		type object struct {
			path   string
			view   []byte
			masked bool // volume time fields may differ between two opens (C18)
			kind   string
		}
		objs := []object{
			{"/PS3ISO/g.iso", redumpView, false, "redump (adjacent key)"},
			{"/ps3iso/r.Iso", redumpView, false, "redump (REDKEY key, mixed case)"},
			{"/PS3ISO/nokey.ISO", redump, false, "no key: passed through"},
			{"/iso3k/enc.iso", k3encView, false, "3k3y encrypted"},
			{"/iso3k/dec.iso", k3decView, false, "3k3y decrypted"},
			{"/plain.bin", plainFile, false, "plain"},
		}
		if dvdView != nil {
			objs = append(objs, object{"/***DVD***/dvd", dvdView, true, "generated image"})
		}
		ls := NewLibServer(filepath.Join(top, "R"), false, time.Unix(tmutUnix, 0), 0, 65536)
		conn := newScriptConn(&net.TCPAddr{IP: net.IPv4(127, 0, 0, 1), Port: 50002})
		ls.Connect(conn)
		conn.Feed(nil)
		nreads := 0
		bad := false
		for _, o := range env.Rnd.Perm(len(objs)) {
			ob := objs[o]
			out, closed := conn.Feed((&Req{Op: opOpenFile, Path: ob.path, Junk: make([]byte, 14)}).Wire())
			if closed || len(out) != 16 {
				env.OracleFail(id, fmt.Sprintf("[C02-view] OPEN_FILE %s (%s): %d bytes, closed=%v", ob.path, ob.kind, len(out), closed))
				bad = true
				break
			}
			if sz := int64(binary.BigEndian.Uint64(out)); sz != int64(len(ob.view)) {
				env.OracleFail(id, fmt.Sprintf("[C02-view] OPEN_FILE %s (%s) announced %d bytes, the view has %d", ob.path, ob.kind, sz, len(ob.view)))
				env.OracleFail(id, fmt.Sprintf("[C11-view] %s (%s) is not served through the view its location and content call for (size %d, expected %d)", ob.path, ob.kind, sz, len(ob.view)))
			}
			size := int64(len(ob.view))
			for k := 0; k < 4+env.Rnd.Intn(8) && !bad; k++ {
				var off, n int64
				switch env.Rnd.Intn(5) {
				case 0: // sector aligned
					off, n = int64(env.Rnd.Intn(int(size/2048)+1))*2048, int64(1+env.Rnd.Intn(4))*2048
				case 1: // aligned start, odd length
					off, n = int64(env.Rnd.Intn(int(size/2048)+1))*2048, int64(1+env.Rnd.Intn(5000))
				case 2: // around the 3k3y area
					off, n = int64(c.MaskedDataBegin)-int64(env.Rnd.Intn(40)), int64(1+env.Rnd.Intn(400))
				case 3: // across the end
					off, n = size-int64(env.Rnd.Intn(3000)), int64(1+env.Rnd.Intn(6000))
				default:
					off, n = env.Rnd.Int63n(size), int64(1+env.Rnd.Intn(70000))
				}
				if off < 0 {
					off = 0
				}
				critical := env.Rnd.Intn(3) == 0 && off+n <= size
				want := []byte{}
				if off < size {
					want = ob.view[off:min(size, off+n)]
				}
				op := opReadFile
				if critical {
					op = opReadFileCritical
				}
				out, closed := conn.Feed((&Req{Op: op, N: uint32(n), Off: uint64(off), Junk: make([]byte, 14)}).Wire())
				nreads++
				var data []byte
				if critical {
					data = out
				} else {
					if len(out) < 4 {
						env.OracleFail(id, fmt.Sprintf("[C02-view] READ_FILE(%d,%d) of %s (%s): %d bytes, closed=%v", n, off, ob.path, ob.kind, len(out), closed))
						bad = true
						break
					}
					cnt := int(int32(binary.BigEndian.Uint32(out)))
					data = out[4:]
					if cnt != len(data) || cnt != len(want) {
						env.OracleFail(id, fmt.Sprintf("[C02-view] READ_FILE(%d,%d) of %s (%s): announced %d, sent %d, the view has %d bytes there", n, off, ob.path, ob.kind, cnt, len(data), len(want)))
					}
				}
				a, b := data, want
				if ob.masked { // the volume time fields of the two descriptors
					a, b = append([]byte(nil), a...), append([]byte(nil), b...)
					for _, s := range []int64{16, 17} {
						for p := s*2048 + 813; p < s*2048+847; p++ {
							if p >= off && p-off < int64(len(a)) && p-off < int64(len(b)) {
								a[p-off], b[p-off] = 0, 0
							}
						}
					}
				}
				if !bytes.Equal(a, b) {
					d := firstDiff(a, b)
					env.OracleFail(id, fmt.Sprintf("[C02-view] %s(%d,%d) of %s (%s): the bytes differ from the view at offset %d (+%d of the answer; %d vs %d bytes)", map[bool]string{false: "READ_FILE", true: "READ_FILE_CRITICAL"}[critical], n, off, ob.path, ob.kind, off+int64(d), d, len(a), len(b)))
					env.OracleFail(id, fmt.Sprintf("[C11-view] %s (%s) read at %d: not the bytes of the view its location and content call for", ob.path, ob.kind, off+int64(d)))
					bad = true
				}
				if closed {
					bad = true
				}
			}
			if bad {
				break
			}
		}
		conn.EOF()
		ls.WaitDisconnect(5 * time.Second)
		if l := ls.Dfs.Live(); l != 0 {
			env.OracleFail(id, fmt.Sprintf("[C13-leak] %d handles still open after a session over views", l))
		}
		ls.Stop()
		env.Case(id, "NOMODEL", []string{fmt.Sprintf("%d objects, %d reads", len(objs), nreads)}, fmt.Sprintf("ok=%v", !bad), true)
		env.Count("objects", fmt.Sprint(len(objs)))
		if i < 2 {
			env.Sample(map[string]any{"id": id, "objects": len(objs), "reads": nreads, "image_sectors": nsec, "tail": tail})
		}
		os.RemoveAll(top)
	}
	return nil
}
