//go:build verif

package main

import (
	"context"
	"errors"
	"io"
	"log/slog"
	"net"
	"sync"
	"time"

	"github.com/spf13/afero"

	"github.com/xakep666/ps3netsrv-go/internal/copier"
	"github.com/xakep666/ps3netsrv-go/internal/handler"
	pfs "github.com/xakep666/ps3netsrv-go/pkg/fs"
	"github.com/xakep666/ps3netsrv-go/pkg/server"
)

// scriptConn is an in-memory net.Conn whose input is fed step by step.  The harness can wait
// until the server has consumed everything and is blocked in Read (idle), which gives exact
// per-request output boundaries without timeouts.
type scriptConn struct {
	mu      sync.Mutex
	cond    *sync.Cond
	in      []byte
	eof     bool
	closed  bool
	waiting bool
	out     []byte
	remote  net.Addr
	Wait    time.Duration // how long Feed waits for the server to become idle or to close (default 60 s)
	Stuck   bool          // Feed gave up: the server neither answered to the end nor closed
}

func newScriptConn(remote net.Addr) *scriptConn {
	c := &scriptConn{remote: remote}
	c.cond = sync.NewCond(&c.mu)
	return c
}

func (c *scriptConn) Read(p []byte) (int, error) {
	c.mu.Lock()
	defer c.mu.Unlock()
	for len(c.in) == 0 && !c.eof && !c.closed {
		c.waiting = true
		c.cond.Broadcast()
		c.cond.Wait()
	}
	c.waiting = false
	if c.closed {
		return 0, net.ErrClosed
	}
	if len(c.in) == 0 {
		return 0, io.EOF
	}
	n := copy(p, c.in)
	c.in = c.in[n:]
	return n, nil
}

func (c *scriptConn) Write(p []byte) (int, error) {
	c.mu.Lock()
	defer c.mu.Unlock()
	if c.closed {
		return 0, net.ErrClosed
	}
	c.out = append(c.out, p...)
	return len(p), nil
}

func (c *scriptConn) Close() error {
	c.mu.Lock()
	c.closed = true
	c.cond.Broadcast()
	c.mu.Unlock()
	return nil
}

func (c *scriptConn) LocalAddr() net.Addr                { return &net.TCPAddr{IP: net.IPv4(127, 0, 0, 1), Port: 38008} }
func (c *scriptConn) RemoteAddr() net.Addr               { return c.remote }
func (c *scriptConn) SetDeadline(t time.Time) error      { return nil }
func (c *scriptConn) SetReadDeadline(t time.Time) error  { return nil }
func (c *scriptConn) SetWriteDeadline(t time.Time) error { return nil }

// Feed appends input and waits until the server is idle (blocked in Read with nothing left) or
// has closed the connection.  It returns the output produced meanwhile and whether the server closed.
func (c *scriptConn) Feed(b []byte) (out []byte, closed bool) {
	c.mu.Lock()
	defer c.mu.Unlock()
	if len(b) > 0 {
		c.in = append(c.in, b...)
		c.waiting = false
		c.cond.Broadcast()
	}
	wait := c.Wait
	if wait == 0 {
		wait = 60 * time.Second
	}
	deadline := time.Now().Add(wait)
	for !(c.closed || (c.waiting && len(c.in) == 0)) {
		// cond.Wait has no timeout; poll with a helper goroutine-free approach
		c.mu.Unlock()
		time.Sleep(20 * time.Microsecond)
		c.mu.Lock()
		if time.Now().After(deadline) {
			c.Stuck = true
			break
		}
	}
	out = c.out
	c.out = nil
	return out, c.closed
}

func (c *scriptConn) EOF() {
	c.mu.Lock()
	c.eof = true
	c.cond.Broadcast()
	c.mu.Unlock()
}

// oneShotListener hands out the given connections, then blocks until closed.
type chanListener struct {
	ch     chan net.Conn
	done   chan struct{}
	closed sync.Once
}

func newChanListener() *chanListener {
	return &chanListener{ch: make(chan net.Conn, 64), done: make(chan struct{})}
}

func (l *chanListener) Accept() (net.Conn, error) {
	select {
	case c := <-l.ch:
		return c, nil
	case <-l.done:
		return nil, errors.New("listener closed")
	}
}
func (l *chanListener) Close() error   { l.closed.Do(func() { close(l.done) }); return nil }
func (l *chanListener) Addr() net.Addr { return &net.TCPAddr{IP: net.IPv4(127, 0, 0, 1), Port: 38008} }

// disconnectSignal is a slog handler that reports the last deferred action of serveConn
// ("Client disconnected" is logged after Context.Close has run).
type disconnectSignal struct {
	mu sync.Mutex
	n  int
	ch chan struct{}
}

func (h *disconnectSignal) Enabled(context.Context, slog.Level) bool { return true }
func (h *disconnectSignal) Handle(_ context.Context, r slog.Record) error {
	if r.Message == "Client disconnected" {
		h.mu.Lock()
		h.n++
		h.mu.Unlock()
		select {
		case h.ch <- struct{}{}:
		default:
		}
	}
	return nil
}
func (h *disconnectSignal) WithAttrs([]slog.Attr) slog.Handler { return h }
func (h *disconnectSignal) WithGroup(string) slog.Handler      { return h }

type discardHandler struct{}

func (discardHandler) Enabled(context.Context, slog.Level) bool  { return false }
func (discardHandler) Handle(context.Context, slog.Record) error { return nil }
func (discardHandler) WithAttrs([]slog.Attr) slog.Handler        { return discardHandler{} }
func (discardHandler) WithGroup(string) slog.Handler             { return discardHandler{} }

// LibServer is the real server.Server wired exactly like cmd/ps3netsrv-go/server.go, except
// that the OS filesystem is seen through the DoubleFs.
type LibServer struct {
	Dfs  *DoubleFs
	ln   *chanListener
	sig  *disconnectSignal
	done chan error
}

func NewLibServer(rootAbs string, allowWrite bool, tmut time.Time, readTimeout time.Duration, bufSize int64) *LibServer {
	slog.SetDefault(slog.New(discardHandler{}))
	d := NewDoubleFs(tmut)
	var cop *copier.Copier
	if bufSize > 0 {
		cop = copier.NewPooledCopier(bufSize)
	} else {
		cop = copier.NewCopier()
	}
	sig := &disconnectSignal{ch: make(chan struct{}, 1024)}
	s := &server.Server[handler.State]{
		Handler: &handler.Handler{
			Fs:         &pfs.FS{Fs: afero.NewBasePathFs(d, rootAbs)},
			AllowWrite: allowWrite,
			Copier:     cop,
		},
		ReadTimeout: readTimeout,
		Logger:      slog.New(sig),
	}
	ls := &LibServer{Dfs: d, ln: newChanListener(), sig: sig, done: make(chan error, 1)}
	go func() { ls.done <- s.Serve(ls.ln) }()
	return ls
}

func (ls *LibServer) Connect(c net.Conn) { ls.ln.ch <- c }

// WaitDisconnect waits until serveConn has run all its deferred actions for one connection.
func (ls *LibServer) WaitDisconnect(timeout time.Duration) bool {
	select {
	case <-ls.sig.ch:
		return true
	case <-time.After(timeout):
		return false
	}
}

func (ls *LibServer) Stop() {
	ls.ln.Close()
	<-ls.done
}
