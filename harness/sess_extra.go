//go:build verif

package main

import (
	"bytes"
	"encoding/binary"
	"fmt"
	"os"
	"path/filepath"
	"sort"
	"strings"
)

func init() {
	subcmds["cdsess"] = runCDSess
	subcmds["hostile"] = runHostile
	subcmds["links"] = runLinks
}

// ---------------------------------------------------------------- C17: CD images of several sector sizes on one connection

var cdSizes = []int{2048, 2328, 2336, 2340, 2352, 2368, 2448}

func runCDSess(env *Env) error {
	base, err := os.MkdirTemp("", "vcd")
	if err != nil {
		return err
	}
	defer os.RemoveAll(base)
	for i := 0; i < env.N; i++ {
		id := fmt.Sprintf("cd-%d", i)
		top := filepath.Join(base, fmt.Sprintf("w%da", i))
		type img struct {
			name string
			s    int // raw sector size, 0 = undetectable
			c    Content
		}
		var imgs []img
		mk := func(name string, s int, magic2 bool, sectors int) {
			imgs = append(imgs, img{name, s, genCDImage(env, s, magic2, sectors)})
		}
		s1 := cdSizes[(i/2)%7]
		s2 := cdSizes[env.Rnd.Intn(7)]
		minSectors := func(s int) int { return (0x200000 + s - 1) / s }
		mk("a.bin", s1, i%2 == 0, minSectors(s1)+env.Rnd.Intn(3))
		if i%3 == 0 || env.Tier == "thorough" && i%3 == 2 { // (every image costs the model a list of two million bytes: two or three per case in the quick tier)
			mk("b.bin", s2, env.Rnd.Intn(2) == 0, minSectors(s2)+20+env.Rnd.Intn(100))
		}
		// undetectable: big enough, no signature anywhere
		raw := Content{{Kind: 'g', N: 0x200000 + env.Rnd.Intn(50000), A: env.Rnd.Intn(256)}}
		if i%3 != 0 {
			imgs = append(imgs, img{"raw.bin", 0, raw})
		}
		// just below the detection window: has a signature but must not be probed
		sb := cdSizes[env.Rnd.Intn(7)]
		small := genCDImage(env, sb, false, minSectors(sb))
		// cut it to one byte below 2 MiB (the last segment is the pattern after the signature)
		small[len(small)-1].N -= int(small.Size() - (0x200000 - 1))
		if i%3 == 0 {
			imgs = append(imgs, img{"small.bin", 0, small})
		}
		// exactly at the lower edge of the window (2 MiB, inclusive): probed like any larger image
		if i%3 == 1 || env.Tier == "thorough" && i%3 == 0 {
			se := []int{2048, 2328, 2336, 2340, 2368, 2448}[env.Rnd.Intn(6)]
			exact := genCDImage(env, se, i%2 == 1, minSectors(se))
			exact[len(exact)-1].N -= int(exact.Size() - 0x200000)
			imgs = append(imgs, img{"exact.bin", se, exact})
		}
		r := &WNode{Name: "R", Dir: true, MTime: 1500000000}
		for _, im := range imgs {
			r.Kids = append(r.Kids, &WNode{Name: im.name, MTime: 1400000000, Content: im.c})
		}
		w := &WNode{Dir: true, MTime: 1300000000, Kids: []*WNode{r}}
		if err := w.Materialise(top); err != nil {
			return err
		}
		data := map[string][]byte{}
		for _, im := range imgs {
			data[im.name] = im.c.Bytes()
		}
		// session: opens, CLOSEFILE, sector reads with start != count, count 0, ranges crossing EOF
		var reqs []*Req
		cur := ""    // harness' own idea of the open image
		secSize := 0 // and of its sector size
		nreq := 6 + env.Rnd.Intn(14)
		type expect struct {
			data   []byte
			closed bool
			check  bool
		}
		var exps []expect
		// every session starts with a scripted part: a recognised image that is not 2352, a sector read, then - without
		// CLOSEFILE - an image without a signature (the default applies again) and a read of a sector other than 0
		var undet []int
		for j, im := range imgs {
			if im.s == 0 {
				undet = append(undet, j)
			}
		}
		script := []int{}
		if len(undet) > 0 && imgs[0].s != 2352 {
			script = []int{100, 9, 101, 9}
		}
		for k := 0; k < nreq; k++ {
			x := env.Rnd.Intn(10)
			forced := -1
			if k < len(script) {
				x, forced = script[k], script[k]
				if x >= 100 {
					x = 0
				}
			}
			switch {
			case x < 4:
				im := imgs[env.Rnd.Intn(len(imgs))]
				if forced == 100 {
					im = imgs[0]
				} else if forced == 101 {
					im = imgs[undet[env.Rnd.Intn(len(undet))]]
				}
				reqs = append(reqs, &Req{Op: opOpenFile, Path: "/" + im.name, Junk: make([]byte, 14)})
				cur = im.name
				secSize = im.s
				if secSize == 0 {
					secSize = 2352
				}
				exps = append(exps, expect{})
			case x == 4:
				reqs = append(reqs, &Req{Op: opOpenFile, Path: "/CLOSEFILE", Junk: make([]byte, 14)})
				cur, secSize = "", 0
				exps = append(exps, expect{})
			default:
				var start, cnt uint32
				nsec := 1000
				if cur != "" {
					nsec = len(data[cur]) / secSize
				}
				pick := env.Rnd.Intn(7)
				if forced == 9 {
					pick = 3
				}
				switch pick {
				case 6:
					start, cnt = 0, 0 // nothing from the very first sector
				case 0:
					start, cnt = uint32(env.Rnd.Intn(nsec)), 0
				case 1:
					start, cnt = uint32(nsec-1-env.Rnd.Intn(2)), uint32(1+env.Rnd.Intn(3)) // around EOF
				case 2:
					start, cnt = 0, uint32(1+env.Rnd.Intn(4))
				default:
					start, cnt = uint32(env.Rnd.Intn(nsec)), uint32(1+env.Rnd.Intn(5))
				}
				reqs = append(reqs, &Req{Op: opReadCD, Start: start, Cnt: cnt, Junk: make([]byte, 14)})
				e := expect{check: true}
				if cur == "" {
					e.closed = true
				} else {
					d := data[cur]
					for j := uint32(0); j < cnt; j++ {
						off := 24 + int(start+j)*secSize
						if off+2048 <= len(d) {
							e.data = append(e.data, d[off:off+2048]...)
						} else {
							if off < len(d) {
								e.data = append(e.data, d[off:]...)
							}
							e.closed = true
							break
						}
					}
				}
				exps = append(exps, e)
				if e.closed {
					k = nreq
				}
			}
		}
		var chunks [][]byte
		var ops []int
		var stream []byte
		for _, q := range reqs {
			wb := q.Wire()
			chunks = append(chunks, wb)
			ops = append(ops, q.Op)
			stream = append(stream, wb...)
		}
		after := func(k int, so stepObs, ls *LibServer) {
			e := exps[k]
			if !e.check {
				return
			}
			if !bytes.Equal(so.out, e.data) || so.closed != e.closed {
				env.OracleFail(id, fmt.Sprintf("[C17-sectors] %s on %q (sector size %d): got %d bytes closed=%v, the user-data slices are %d bytes closed=%v; equal prefix %v",
					reqs[k].String(), cur, secSize, len(so.out), so.closed, len(e.data), e.closed, bytes.HasPrefix(e.data, so.out)))
			}
		}
		// note: cur/secSize above are the final values; recompute per step for the message only
		res, err := runSession(top, false, chunks, ops, 65536, after)
		if err != nil {
			return err
		}
		if res.leak != 0 {
			env.OracleFail(id, fmt.Sprintf("[C13-leak] %d handles still open", res.leak))
		}
		var opl []string
		for _, o := range ops {
			opl = append(opl, fmt.Sprintf("%x", o))
		}
		cfg := fmt.Sprintf("%s|%s|0|%s", hx([]byte("R")), hxnum(int64(len(top))), hxnum(tmutUnix))
		env.Case(id, "SESS", []string{cfg, w.Spec(), lit(stream).Spec(), "steps", strings.Join(opl, ",")}, obsString(res, false), len(reqs) >= 3)
		env.Count("sector_size_a", fmt.Sprint(s1))
		env.Count("sector_size_b", fmt.Sprint(s2))
		if i < 2 {
			var rs []string
			for _, q := range reqs {
				rs = append(rs, q.String())
			}
			env.Sample(map[string]any{"id": id, "images": fmt.Sprintf("a.bin:%d b.bin:%d raw.bin small.bin", s1, s2), "requests": rs})
		}
		os.RemoveAll(top)
		if i%4 == 1 {
			if err := cdUpperEdge(env, base, i); err != nil {
				return err
			}
		}
	}
	return nil
}

// cdUpperEdge: the upper edge of the detection window (848 MiB, inclusive) on sparse images: at the edge the signature
// is honoured, one byte above it the default of 2352 applies.  Oracle-only (an image of that size is out of the model's reach).
func cdUpperEdge(env *Env, base string, i int) error {
	const edge = 0x35000000
	s := []int{2048, 2328, 2336, 2340, 2368, 2448}[env.Rnd.Intn(6)]
	for _, total := range []int64{edge, edge + 1} {
		id := fmt.Sprintf("cd-edge-%d-%d", i, total-edge)
		top := filepath.Join(base, fmt.Sprintf("e%d", i))
		const k = 1000
		offS, offD := int64(24+k*s), int64(24+k*2352) // where sector k's user data lies for the detected and for the default size
		type piece struct {
			off int64
			a   int
		}
		ps := []piece{{offS, 1}, {offD, 2}}
		if offD < offS {
			ps = []piece{{offD, 2}, {offS, 1}}
		}
		var c Content
		pre := 16*s + 24
		sig := []byte("\x01CD001")
		c = append(c, Seg{Kind: 'z', N: pre}, Seg{Kind: 'h', Data: sig})
		pos := int64(pre + len(sig))
		for _, p := range ps {
			c = append(c, Seg{Kind: 'z', N: int(p.off - pos)}, Seg{Kind: 'g', N: 2048, A: p.a})
			pos = p.off + 2048
		}
		c = append(c, Seg{Kind: 'z', N: int(total - pos)})
		w := &WNode{Dir: true, MTime: 1300000000, Kids: []*WNode{{Name: "R", Dir: true, MTime: 1500000000, Kids: []*WNode{{Name: "huge.bin", MTime: 1400000000, Content: c}}}}}
		if err := w.Materialise(top); err != nil {
			os.RemoveAll(top)
			env.Count("skipped", "no room for a sparse image")
			return nil
		}
		want := Content{{Kind: 'g', N: 2048, A: 1}}.Bytes()
		what := fmt.Sprintf("detected size %d", s)
		if total > edge {
			want = Content{{Kind: 'g', N: 2048, A: 2}}.Bytes()
			what = "default size 2352"
		}
		reqs := []*Req{{Op: opOpenFile, Path: "/huge.bin", Junk: make([]byte, 14)}, {Op: opReadCD, Start: k, Cnt: 1, Junk: make([]byte, 14)}}
		var chunks [][]byte
		var ops []int
		for _, q := range reqs {
			chunks = append(chunks, q.Wire())
			ops = append(ops, q.Op)
		}
		res, err := runSession(top, false, chunks, ops, 65536, nil)
		if err != nil {
			return err
		}
		ok := len(res.steps) == 2 && bytes.Equal(res.steps[1].out, want)
		if !ok {
			got := -1
			if len(res.steps) == 2 {
				got = len(res.steps[1].out)
			}
			env.OracleFail(id, fmt.Sprintf("[C17-window] image of %d bytes (848 MiB%+d) with the signature of sector size %d: sector %d must come from the %s; got %d bytes that are not those", total, total-edge, s, k, what, got))
		}
		env.Case(id, "NOMODEL", []string{fmt.Sprint(s), fmt.Sprint(total)}, fmt.Sprintf("ok=%v", ok), true)
		env.Count("upper_edge", fmt.Sprintf("%+d", total-edge))
		os.RemoveAll(top)
	}
	return nil
}

// ---------------------------------------------------------------- C01: hostile path spellings on every path opcode (oracle only)

var hostileElems = []string{"..", ".", "", "a", "R-other", "Rx", "secret", "sub", "x.iso", "***DVD***", "***PS3***", "***DVD***..", "***PS3***..", "***DVD***R-other",
	"PS3ISO", "REDKEY", "..R-other", "R", "\x00", "CLOSEFILE", "k.dkey",
	// bytes that are not UTF-8 around dots: ordinary (if odd) names for this server, never "." or ".."
	".\xff.", "\xc0..", "..\xfe", ".\xff", "\xff", ".\xc3."}

func runHostile(env *Env) error {
	base, err := os.MkdirTemp("", "vhost")
	if err != nil {
		return err
	}
	defer os.RemoveAll(base)
	pathOps := []int{opOpenFile, opStatFile, opOpenDir, opCreateFile, opDeleteFile, opMkdir, opRmdir, opGetDirSize}
	for i := 0; i < env.N; i++ {
		id := fmt.Sprintf("host-%d", i)
		allow := i%2 == 0
		mkWorld := func(variant int) *WNode {
			secret := append(append([]byte{}, secretMarker...), make([]byte, secretSize-len(secretMarker))...)
			if variant == 1 {
				secret = bytes.Repeat([]byte("other-world "), 100)
			}
			sib := func(name string) *WNode {
				return &WNode{Name: name, Dir: true, MTime: 1300000001 + int64(variant), Kids: []*WNode{
					{Name: "secret", MTime: 1300000002, Content: lit(secret)},
					{Name: "x.iso", MTime: 1300000003, Content: lit(secret)},
					{Name: "x.dkey", MTime: 1300000003, Content: lit([]byte("00112233445566778899aabbccddeeff"))},
					{Name: "sub", Dir: true, MTime: 1300000004, Kids: []*WNode{{Name: "deep", MTime: 1300000005, Content: lit(secret)}}},
				}}
			}
			r := &WNode{Name: "R", Dir: true, MTime: 1500000000, Kids: []*WNode{
				{Name: "a", MTime: 1400000000, Content: lit([]byte("inside"))},
				{Name: "PS3ISO", Dir: true, MTime: 1500000001, Kids: []*WNode{{Name: "x.iso", MTime: 1400000001, Content: Content{{Kind: 'g', N: 5000, A: 3}}}}},
				{Name: "sub", Dir: true, MTime: 1500000002, Kids: []*WNode{{Name: "f", MTime: 1400000002, Content: lit([]byte("ff"))}}},
			}}
			kids := []*WNode{r, sib("R-other"), sib("Rx"), {Name: "secret", MTime: 1300000009, Content: lit(secret)}}
			if variant == 1 {
				kids = []*WNode{r, {Name: "R-other", MTime: 1, Content: lit([]byte("file now"))}, sib("REDKEY")}
			}
			return &WNode{Dir: true, MTime: 1300000000 + int64(variant), Kids: kids}
		}
		var reqs []*Req
		for k := 0; k < 12; k++ {
			n := 1 + env.Rnd.Intn(5)
			var es []string
			for j := 0; j < n; j++ {
				es = append(es, hostileElems[env.Rnd.Intn(len(hostileElems))])
			}
			p := strings.Join(es, "/")
			if k%4 == 3 { // separators of another platform, alone and mixed: one path element for this server, never a way up
				var sb strings.Builder
				for j, e := range es {
					if j > 0 {
						sb.WriteString([]string{"\\", "\\", "/"}[env.Rnd.Intn(3)])
					}
					sb.WriteString(e)
				}
				p = sb.String()
				if k%8 == 7 {
					p = []string{`..\R-other\secret`, `/..\Rx\secret`, `/sub\..\..\R-other\x.iso`, `/..\secret`, `/***DVD***\..\..\Rx`, `..\..\secret`, `/..\R-other\sub`,
						`/***PS3***/..\Rx`, `/a\..\..\R-other\new`, `\..\R-other\secret`, `/PS3ISO\..\..\Rx\x.iso`,
						"/.\xff./R-other/secret", "/\xc0../Rx/secret", "/sub/.\xff./.\xfe./R-other/x.iso", "/..\xff/secret"}[env.Rnd.Intn(15)]
				}
			}
			if env.Rnd.Intn(3) != 0 {
				p = "/" + p
			}
			op := pathOps[env.Rnd.Intn(len(pathOps))]
			reqs = append(reqs, &Req{Op: op, Path: p, Junk: make([]byte, 14)})
			switch op {
			case opOpenFile:
				reqs = append(reqs, &Req{Op: opReadFile, N: 300000, Off: 0, Junk: make([]byte, 14)})
			case opOpenDir:
				reqs = append(reqs, &Req{Op: opReadDir, Junk: make([]byte, 14)}, &Req{Op: opReadDirEntry, Junk: make([]byte, 14)})
			case opCreateFile:
				reqs = append(reqs, &Req{Op: opWriteFile, N: 5, Payload: []byte("pwned"), Junk: make([]byte, 14)})
			}
		}
		// every path opcode, in every case, once with a plain way out of the root (the templates in rotation); these come
		// first and none of them can end the connection, so they are always reached
		escapes := []string{"/../R-other/new1", "/../Rx/sub/new2", "/sub/../../R-other/n3", "../R-other/secret", "/../secret", "/../R-other", "/../Rx/x.iso",
			"/../R-other/sub/deep", "/a/../../Rx/secret", "/../../R-other/new4", "/PS3ISO/../../Rx/new5", "/../R-new", "/../Rx/sub"}
		var first []*Req
		for j, op := range pathOps {
			first = append(first, &Req{Op: op, Path: escapes[(i/2+j*5)%len(escapes)], Junk: make([]byte, 14)})
			switch op {
			case opOpenDir:
				first = append(first, &Req{Op: opReadDir, Junk: make([]byte, 14)})
			case opCreateFile:
				first = append(first, &Req{Op: opWriteFile, N: 5, Payload: []byte("pwned"), Junk: make([]byte, 14)})
			}
		}
		reqs = append(first, reqs...)
		var chunks [][]byte
		var ops []int
		for _, q := range reqs {
			chunks = append(chunks, q.Wire())
			ops = append(ops, q.Op)
		}
		var results [2]*sessResult
		var outsideBefore [2][]string
		var tops [2]string
		for v := 0; v < 2; v++ {
			top := filepath.Join(base, fmt.Sprintf("w%d%c", i, 'a'+v))
			tops[v] = top
			if err := mkWorld(v).Materialise(top); err != nil {
				return err
			}
			_, before, err := DumpDisk(top)
			if err != nil {
				return err
			}
			outsideBefore[v] = snapshotLines(before, hx([]byte("/R")), false)
			res, err := runSession(top, allow, chunks, ops, 65536, func(k int, so stepObs, ls *LibServer) {
				if bytes.Contains(so.out, secretMarker) || bytes.Contains(so.out, []byte("other-world other-world")) {
					env.OracleFail(id, fmt.Sprintf("[C01-leak] request %d %s: the response carries bytes of a file outside the root", k, reqs[k].String()))
				}
				if (reqs[k].Op == opStatFile && len(so.out) == 33 || reqs[k].Op == opOpenFile && len(so.out) == 16) && int64(binary.BigEndian.Uint64(so.out[:8])) == secretSize {
					env.OracleFail(id, fmt.Sprintf("[C01-leak] request %d %s: announced the size of an outside file", k, reqs[k].String()))
				}
			})
			if err != nil {
				return err
			}
			results[v] = res
			after := snapshotLines(res.dumpLines, hx([]byte("/R")), false)
			if strings.Join(outsideBefore[v], "\n") != strings.Join(after, "\n") {
				env.OracleFail(id, fmt.Sprintf("[C01-outside] the tree outside the served root changed (world %d); requests: %s", v, describeReqs(reqs)))
			}
		}
		// non-interference: both worlds have the same root; answers must be identical
		a, b := results[0], results[1]
		n := len(a.steps)
		if len(b.steps) < n {
			n = len(b.steps)
		}
		lastOpen := ""
		for k := 0; k < n; k++ {
			if reqs[k].Op == opOpenFile {
				lastOpen = reqs[k].Path
			}
			ao, bo := a.steps[k].out, b.steps[k].out
			if strings.Contains(lastOpen, "***") && len(ao) == len(bo) {
				// a generated image is stamped with the moment it was opened (C18: the two volume time fields, and the time
				// field of the OPEN_FILE answer); the two worlds are served one after the other
				ao, bo = append([]byte(nil), ao...), append([]byte(nil), bo...)
				switch {
				case reqs[k].Op == opOpenFile && len(ao) == 16:
					copy(ao[8:], make([]byte, 8))
					copy(bo[8:], make([]byte, 8))
				case reqs[k].Op == opReadFile && reqs[k].Off == 0:
					for _, sct := range []int{16, 17} {
						for p := 4 + sct*2048 + 813; p < 4+sct*2048+847 && p < len(ao); p++ {
							ao[p], bo[p] = 0, 0
						}
					}
				}
			}
			if !bytes.Equal(ao, bo) || a.steps[k].closed != b.steps[k].closed {
				env.OracleFail(id, fmt.Sprintf("[C01-ni] request %d %s answered differently when only the surroundings of the root differ (%d vs %d bytes)", k, reqs[k].String(), len(a.steps[k].out), len(b.steps[k].out)))
				break
			}
		}
		if len(a.steps) != len(b.steps) {
			env.OracleFail(id, "[C01-ni] the connection ended at different points when only the surroundings of the root differ")
		}
		// inside the root both worlds must end up identical as well
		ia := snapshotLines(a.dumpLines, hx([]byte("/R")), true)
		ib := snapshotLines(b.dumpLines, hx([]byte("/R")), true)
		if strings.Join(ia, "\n") != strings.Join(ib, "\n") {
			env.OracleFail(id, "[C01-ni] the served tree ended up different when only the surroundings of the root differ")
		}
		// recorded as a case without model comparison: the observation is the impl's own (oracle-only job)
		obs := obsString(a, true)
		env.Case(id, "NOMODEL", []string{describeReqs(reqs)}, obs, true)
		env.Count("allow_write", fmt.Sprint(allow))
		for _, q := range reqs {
			if isPathOp(q.Op) {
				env.Count("opcode", fmt.Sprintf("%#x", q.Op))
				if strings.Contains(q.Path, "***") {
					env.Count("virtual_prefix", "1")
				}
				if strings.Contains(q.Path, "..") {
					env.Count("dotdot", "1")
				}
			}
		}
		if i < 2 {
			env.Sample(map[string]any{"id": id, "requests": describeReqs(reqs)})
		}
		os.RemoveAll(tops[0])
		os.RemoveAll(tops[1])
	}
	return nil
}

func describeReqs(reqs []*Req) string {
	var rs []string
	for _, q := range reqs {
		rs = append(rs, q.String())
	}
	return strings.Join(rs, " ; ")
}

// ---------------------------------------------------------------- C06: symlinks (oracle only)

func runLinks(env *Env) error {
	base, err := os.MkdirTemp("", "vlinks")
	if err != nil {
		return err
	}
	defer os.RemoveAll(base)
	for i := 0; i < env.N; i++ {
		id := fmt.Sprintf("links-%d", i)
		top := filepath.Join(base, fmt.Sprintf("w%d", i))
		tree := genDir(env, "R", 2, 6)
		w := &WNode{Dir: true, MTime: 1300000000, Kids: []*WNode{tree}}
		if err := w.Materialise(top); err != nil {
			return err
		}
		root := filepath.Join(top, "R")
		// sprinkle symlinks: to a file, to a directory, dangling, chained
		var files, dirs []string
		tree.Walk(func(rel string, x *WNode) {
			if rel == "" {
				dirs = append(dirs, "/")
			} else if x.Dir {
				dirs = append(dirs, rel)
			} else {
				files = append(files, rel)
			}
		})
		nl := 1 + env.Rnd.Intn(5)
		dirLinked := false
		for k := 0; k < nl; k++ {
			d := dirs[env.Rnd.Intn(len(dirs))]
			name := filepath.Join(root, d, fmt.Sprintf("ln%d", k))
			var target string
			switch env.Rnd.Intn(4) {
			case 0:
				if len(files) > 0 {
					target = filepath.Join(root, files[env.Rnd.Intn(len(files))])
				}
			case 1:
				// at most one link to a directory, never to an ancestor of the link (no cycles: GET_DIR_SIZE follows links)
				t := dirs[env.Rnd.Intn(len(dirs))]
				if !dirLinked && t != "/" && !strings.HasPrefix(d+"/", t+"/") {
					target = filepath.Join(root, t)
					dirLinked = true
				}
			case 2:
				target = filepath.Join(root, "does-not-exist")
			default:
				target = fmt.Sprintf("ln%d", (k+1)%nl) // relative, maybe chained or dangling
			}
			if target != "" {
				_ = os.Symlink(target, name)
			}
		}
		// a listing session over every directory with all three commands, and stat of every entry
		var reqs []*Req
		for _, d := range dirs {
			reqs = append(reqs, &Req{Op: opOpenDir, Path: d}, &Req{Op: opReadDir})
			reqs = append(reqs, &Req{Op: opOpenDir, Path: d})
			es, _ := os.ReadDir(filepath.Join(root, d))
			for k := 0; k <= len(es); k++ {
				op := opReadDirEntry
				if (k+i)%2 == 0 {
					op = opReadDirEntryV2
				}
				reqs = append(reqs, &Req{Op: op})
			}
			for _, e := range es {
				reqs = append(reqs, &Req{Op: opStatFile, Path: filepath.Join(d, e.Name())})
			}
			reqs = append(reqs, &Req{Op: opGetDirSize, Path: d})
		}
		var chunks [][]byte
		var ops []int
		for _, q := range reqs {
			if q.Junk == nil {
				q.Junk = make([]byte, 14)
			}
			chunks = append(chunks, q.Wire())
			ops = append(ops, q.Op)
		}
		st := &oracleState{}
		var curDir string
		var listed map[string]bool
		res, err := runSession(top, false, chunks, ops, 65536, func(k int, so stepObs, ls *LibServer) {
			q := reqs[k]
			fail := func(sig, f string, a ...any) {
				env.OracleFail(id, "["+sig+"] "+fmt.Sprintf("request %s: ", q.String())+fmt.Sprintf(f, a...))
			}
			trueEntries := func(d string) map[string]os.FileInfo { // symlinks resolved, dangling ones omitted
				out := map[string]os.FileInfo{}
				es, _ := os.ReadDir(filepath.Join(root, d))
				for _, e := range es {
					if fi, err := os.Stat(filepath.Join(root, d, e.Name())); err == nil {
						out[e.Name()] = fi
					}
				}
				return out
			}
			checkEntry := func(name string, size int64, isdir bool, mtime int64, haveM bool, d string) {
				fi, ok := trueEntries(d)[name]
				if !ok {
					fail("C06-links", "entry %q of %q is reported but does not resolve", name, d)
					return
				}
				ws := fi.Size()
				if fi.IsDir() {
					ws = 0
				}
				if size != ws || isdir != fi.IsDir() || (haveM && mtime != fi.ModTime().Unix()) {
					fail("C06-links", "entry %q of %q: size=%d dir=%v mtime=%d; resolved target has size=%d dir=%v mtime=%d", name, d, size, isdir, mtime, ws, fi.IsDir(), fi.ModTime().Unix())
				}
			}
			switch q.Op {
			case opOpenDir:
				curDir = canon(q.Path)
				listed = map[string]bool{}
			case opReadDir:
				if len(so.out) < 8 {
					fail("C03-shape", "short READ_DIR answer")
					return
				}
				cnt := be64(so.out[:8])
				const es = 8 + 8 + 1 + 512
				if int64(len(so.out)) != 8+cnt*es {
					fail("C03-shape", "READ_DIR announces %d entries, carries %d bytes", cnt, len(so.out)-8)
					return
				}
				got := map[string]bool{}
				for j := int64(0); j < cnt; j++ {
					e := so.out[8+j*es : 8+(j+1)*es]
					nm := string(bytes.TrimRight(e[17:], "\x00"))
					if got[nm] {
						fail("C06-links", "entry %q listed twice", nm)
					}
					got[nm] = true
					checkEntry(nm, be64(e[0:8]), e[16] == 1, be64(e[8:16]), true, curDir)
				}
				var missing []string
				for nm := range trueEntries(curDir) {
					if !got[nm] {
						missing = append(missing, nm)
					}
				}
				sort.Strings(missing)
				if len(missing) > 0 {
					fail("C06-links", "listing of %q misses %q", curDir, missing)
				}
			case opReadDirEntry, opReadDirEntryV2:
				hl := 11
				if q.Op == opReadDirEntryV2 {
					hl = 35
				}
				if len(so.out) < hl {
					fail("C03-shape", "short entry answer")
					return
				}
				size := be64(so.out[:8])
				if size == -1 {
					for nm := range trueEntries(curDir) {
						if listed != nil && !listed[nm] {
							fail("C06-links", "end marker for %q while %q was never reported", curDir, nm)
							break
						}
					}
					listed = nil
					return
				}
				if listed == nil {
					return
				}
				nm := string(so.out[hl:])
				if listed[nm] {
					fail("C06-links", "entry %q reported twice", nm)
				}
				listed[nm] = true
				var mt int64
				if q.Op == opReadDirEntryV2 {
					mt = be64(so.out[8:16])
				}
				checkEntry(nm, size, so.out[hl-1] == 1, mt, q.Op == opReadDirEntryV2, curDir)
			case opStatFile:
				checkStep(env, id, top, false, st, q, so)
			case opGetDirSize:
				// the server resolves symlinks while walking (by design): so does this oracle
				var walk func(p string) int64
				walk = func(p string) int64 {
					fi, err := os.Stat(p)
					if err != nil {
						return 0
					}
					if !fi.IsDir() {
						return fi.Size()
					}
					var sum int64
					es, _ := os.ReadDir(p)
					for _, e := range es {
						sum += walk(filepath.Join(p, e.Name()))
					}
					return sum
				}
				if len(so.out) != 8 {
					fail("C03-shape", "GET_DIR_SIZE answered %d bytes", len(so.out))
				} else if want := walk(filepath.Join(root, canon(q.Path))); be64(so.out) != want {
					fail("C06-dirsize", "answered %d, the files below it (links resolved) sum to %d", be64(so.out), want)
				}
			}
		})
		if err != nil {
			return err
		}
		env.Case(id, "NOMODEL", []string{fmt.Sprintf("%d requests", len(reqs))}, obsString(res, true), true)
		env.Count("symlinks", fmt.Sprint(nl))
		if i < 2 {
			env.Sample(map[string]any{"id": id, "dirs": len(dirs), "files": len(files), "symlinks": nl, "requests": len(reqs)})
		}
		os.RemoveAll(top)
	}
	return nil
}
