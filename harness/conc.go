//go:build verif

package main

import (
	"fmt"
	"net"
	"os"
	"path/filepath"
	"runtime"
	"strings"
	"sync"
	"sync/atomic"
	"time"
)

func init() { subcmds["conc"] = runConc }

// runConc: N concurrent clients against one real server (built with -race by the check): every client
// works on the shared read-only part of the tree (and the same generated data) plus its own private
// writable subtree; each client's response stream must equal the model's prediction for that client alone.
func runConc(env *Env) error {
	base, err := os.MkdirTemp("", "vconc")
	if err != nil {
		return err
	}
	defer os.RemoveAll(base)
	for i := 0; i < env.N; i++ {
		top := filepath.Join(base, fmt.Sprintf("w%da", i))
		nclients := 2 + env.Rnd.Intn(7)
		procs := []int{1, 2, 4, 8, 16}[env.Rnd.Intn(5)]
		if env.Tier == "thorough" {
			nclients = 2 + env.Rnd.Intn(63)
		}
		shared := genDir(env, "shared", 2, 6)
		if len(shared.Kids) == 0 {
			shared.Kids = append(shared.Kids, &WNode{Name: "only", MTime: 1400000001, Content: Content{{Kind: 'g', N: 70000, A: 5}}})
		}
		// two disc images with different sector sizes: their sector-size detection runs inside OPEN_FILE, on every connection
		cdA, cdB := 2352, []int{2048, 2336, 2448}[env.Rnd.Intn(3)]
		withCD := i%10 == 1 // (two 2 MiB images make the model runs slow: every client session carries the world)
		if withCD && nclients > 3 && env.Tier != "thorough" {
			nclients = 3
		}
		if withCD && shared.Child("cdA.bin") == nil && shared.Child("cdB.bin") == nil {
			shared.Kids = append(shared.Kids,
				&WNode{Name: "cdA.bin", MTime: 1400000010, Content: genCDImage(env, cdA, false, (0x200000+cdA-1)/cdA+3)},
				&WNode{Name: "cdB.bin", MTime: 1400000011, Content: genCDImage(env, cdB, true, (0x200000+cdB-1)/cdB+3)})
		}
		r := &WNode{Name: "R", Dir: true, MTime: 1500000000, Kids: []*WNode{shared}}
		for k := 0; k < nclients; k++ {
			r.Kids = append(r.Kids, &WNode{Name: fmt.Sprintf("priv%d", k), Dir: true, MTime: 1500000100})
		}
		w := &WNode{Dir: true, MTime: 1300000000, Kids: []*WNode{r}}
		if err := w.Materialise(top); err != nil {
			return err
		}
		// per-client request lists (generated up front from the single PRNG)
		var sfiles, sdirs []string
		shared.Walk(func(rel string, x *WNode) {
			if x.Dir {
				sdirs = append(sdirs, "/shared"+rel)
			} else {
				sfiles = append(sfiles, "/shared"+rel)
			}
		})
		pick := func(l []string) string {
			if len(l) == 0 {
				return "/shared"
			}
			return l[env.Rnd.Intn(len(l))]
		}
		reqsOf := make([][]*Req, nclients)
		for k := 0; k < nclients; k++ {
			priv := fmt.Sprintf("/priv%d", k)
			n := 10 + env.Rnd.Intn(40)
			var rs []*Req
			for len(rs) < n {
				x := env.Rnd.Intn(14)
				if !withCD && x == 11 {
					x = 12
				}
				if withCD && x < 6 {
					x = 11
				}
				switch x {
				case 0, 1:
					rs = append(rs, &Req{Op: opOpenFile, Path: pick(sfiles)})
				case 2, 3, 4:
					rs = append(rs, &Req{Op: opReadFile, N: uint32(env.Rnd.Intn(70000)), Off: uint64(env.Rnd.Intn(3000))})
				case 5:
					rs = append(rs, &Req{Op: opReadFileCritical, N: uint32(env.Rnd.Intn(2)), Off: uint64(env.Rnd.Intn(10))})
				case 6:
					rs = append(rs, &Req{Op: opOpenDir, Path: pick(sdirs)}, &Req{Op: opReadDirEntry}, &Req{Op: opReadDir})
				case 7:
					rs = append(rs, &Req{Op: opStatFile, Path: pick(sfiles)})
				case 8:
					p := make([]byte, []int{10, 3000, 70000}[env.Rnd.Intn(3)])
					env.Rnd.Read(p)
					nm := fmt.Sprintf("%s/u%d", priv, env.Rnd.Intn(3))
					rs = append(rs, &Req{Op: opCreateFile, Path: nm}, &Req{Op: opWriteFile, N: uint32(len(p)), Payload: p}, &Req{Op: opStatFile, Path: nm})
				case 9:
					rs = append(rs, &Req{Op: opMkdir, Path: priv + "/d"}, &Req{Op: opOpenDir, Path: priv}, &Req{Op: opReadDir}, &Req{Op: opRmdir, Path: priv + "/d"})
				case 10:
					nm := fmt.Sprintf("%s/u%d", priv, env.Rnd.Intn(3))
					rs = append(rs, &Req{Op: opOpenFile, Path: nm}, &Req{Op: opReadFile, N: 80000, Off: 0}, &Req{Op: opDeleteFile, Path: nm})
				case 11:
					img := []string{"/shared/cdA.bin", "/shared/cdB.bin"}[env.Rnd.Intn(2)]
					rs = append(rs, &Req{Op: opOpenFile, Path: img}, &Req{Op: opReadCD, Start: uint32(env.Rnd.Intn(800)), Cnt: uint32(1 + env.Rnd.Intn(3))},
						&Req{Op: opReadCD, Start: uint32(env.Rnd.Intn(800)), Cnt: uint32(env.Rnd.Intn(2))})
				default:
					rs = append(rs, &Req{Op: opGetDirSize, Path: "/shared"}, &Req{Op: opOpenFile, Path: "/CLOSEFILE"})
				}
			}
			for _, q := range rs {
				q.Junk = make([]byte, 14)
			}
			reqsOf[k] = rs
		}
		// run them concurrently
		old := runtime.GOMAXPROCS(procs)
		ls := NewLibServer(filepath.Join(top, "R"), true, time.Unix(tmutUnix, 0), 0, 65536)
		results := make([][]stepObs, nclients)
		closedBy := make([]bool, nclients)
		var wg sync.WaitGroup
		var stuck atomic.Bool
		for k := 0; k < nclients; k++ {
			wg.Add(1)
			go func(k int) {
				defer wg.Done()
				c := newScriptConn(&net.TCPAddr{IP: net.IPv4(127, 0, 0, 1), Port: 50000 + k})
				c.Wait = 20 * time.Second
				ls.Connect(c)
				c.Feed(nil)
				for qi, q := range reqsOf[k] {
					out, closed := c.Feed(q.Wire())
					results[k] = append(results[k], stepObs{out: out, closed: closed})
					if c.Stuck {
						stuck.Store(true)
						env.oracleMu.Lock()
						env.OracleFail(fmt.Sprintf("conc-%d-%d", i, k), fmt.Sprintf("[C12-hang] client %d of %d: request %d (%s) was neither answered to its end nor was the connection closed within 20 s while the other clients were active", k, nclients, qi, q.String()))
						env.oracleMu.Unlock()
						break
					}
					if closed {
						closedBy[k] = true
						break
					}
				}
				if !closedBy[k] {
					c.EOF()
				}
			}(k)
		}
		wg.Wait()
		time.Sleep(2 * time.Millisecond)
		for t := 0; t < 2000 && ls.Dfs.Live() != 0; t++ {
			time.Sleep(time.Millisecond)
		}
		leak := ls.Dfs.Live()
		ls.Stop()
		runtime.GOMAXPROCS(old)
		if leak != 0 {
			env.OracleFail(fmt.Sprintf("conc-%d", i), fmt.Sprintf("[C13-leak] %d handles still open after %d concurrent clients disconnected", leak, nclients))
		}
		cfg := fmt.Sprintf("%s|%s|1|%s", hx([]byte("R")), hxnum(int64(len(top))), hxnum(tmutUnix))
		for k := 0; k < nclients; k++ {
			id := fmt.Sprintf("conc-%d-%d", i, k)
			var stream []byte
			var opl []string
			for _, q := range reqsOf[k] {
				stream = append(stream, q.Wire()...)
				opl = append(opl, fmt.Sprintf("%x", q.Op))
			}
			var parts []string
			for _, s := range results[k] {
				parts = append(parts, digestOut(s.out)+"/0")
			}
			cl := 0
			if closedBy[k] {
				cl = 1
			}
			obs := fmt.Sprintf("%s;closed=%d;leak=0;world=-", strings.Join(parts, ","), cl)
			env.Case(id, "SESS", []string{cfg, w.Spec(), lit(stream).Spec(), "steps", strings.Join(opl, ",")}, obs, true)
		}
		env.Count("clients", fmt.Sprint(nclients))
		env.Count("gomaxprocs", fmt.Sprint(procs))
		if i < 2 {
			env.Sample(map[string]any{"id": fmt.Sprintf("conc-%d", i), "clients": nclients, "gomaxprocs": procs, "requests_client0": describeReqs(reqsOf[0][:min(8, len(reqsOf[0]))])})
		}
		os.RemoveAll(top)
	}
	return nil
}
