//go:build verif

package main

import (
	"fmt"
	"math/big"
	"net"
	"os"
	"path/filepath"
	"strings"
	"sync"
	"time"
)

// Job admitbin — C15 against the real binary: the listener stack as cmd/ps3netsrv-go/server.go builds it
// (not a replica), reached over TCP from different loopback source addresses.  Same case kind (LISTEN)
// and the same model as job admit.
func init() { subcmds["admitbin"] = runAdmitBin }

type tcpProbe struct {
	mu     sync.Mutex
	c      net.Conn
	got    int
	closed bool
}

func newTCPProbe(local, addr string, req []byte) (*tcpProbe, error) {
	d := net.Dialer{Timeout: 2 * time.Second, LocalAddr: &net.TCPAddr{IP: net.ParseIP(local)}}
	c, err := d.Dial("tcp", addr)
	if err != nil {
		return nil, err
	}
	p := &tcpProbe{c: c}
	if _, err := c.Write(req); err != nil {
		// a filtered connection may already be reset: that is a rejection, not a harness error
		p.closed = true
	}
	go func() {
		buf := make([]byte, 4096)
		for {
			n, err := c.Read(buf)
			p.mu.Lock()
			p.got += n
			if err != nil {
				p.closed = true
				p.mu.Unlock()
				return
			}
			p.mu.Unlock()
		}
	}()
	return p, nil
}

func (p *tcpProbe) state() string {
	p.mu.Lock()
	defer p.mu.Unlock()
	switch {
	case p.got >= 33:
		return "S"
	case p.closed && p.got == 0:
		return "R"
	default:
		return "W"
	}
}

func runAdmitBin(env *Env) error {
	base, err := os.MkdirTemp("", "vadmitbin")
	if err != nil {
		return err
	}
	defer os.RemoveAll(base)
	root := filepath.Join(base, "root")
	_ = os.MkdirAll(root, 0o755)
	specs := []string{"127.0.0.0/24", "127.0.0.1", "127.0.0.5-127.0.0.9", "127.0.1.0/255.255.255.0", "127.0.0.0/8", "127.0.0.0/30", "127.0.0.8/31", ""}
	req := (&Req{Op: opStatFile, Path: "/", Junk: make([]byte, 14)}).Wire()
	for i := 0; i < env.N; i++ {
		id := fmt.Sprintf("admitbin-%d", i)
		limit := env.Rnd.Intn(4)
		spec := specs[env.Rnd.Intn(len(specs))]
		if i%3 == 0 { // both options together
			limit = 1 + env.Rnd.Intn(3)
			spec = specs[env.Rnd.Intn(len(specs)-1)]
		}
		var exp c14Expect
		if spec != "" {
			exp = c14Oracle(spec)
		}
		port := freePort()
		addr := fmt.Sprintf("127.0.0.1:%d", port)
		args := []string{"server", "--listen-addr", addr, "--root", root}
		if limit > 0 {
			args = append(args, "--max-clients", fmt.Sprint(limit))
		}
		if spec != "" {
			args = append(args, "--client-whitelist", spec)
		}
		home := filepath.Join(base, fmt.Sprintf("home%d", i))
		_ = os.MkdirAll(home, 0o755)
		run, err := startBin(home, baseEnv(home), args...)
		if err != nil {
			return err
		}
		if !run.waitPort(addr, 5*time.Second) {
			run.Kill()
			return fmt.Errorf("admitbin: the server did not start: %s", trim(run.Err(), 300))
		}
		time.Sleep(30 * time.Millisecond) // the start-up probe has been closed and its slot released
		nclients := 2 + env.Rnd.Intn(3*max(limit, 1)+2)
		conns := map[int]*tcpProbe{}
		state := map[int]string{}
		var events, obs, ids []string
		next := 0
		snapshot := func() string {
			var sb strings.Builder
			for k := 0; k < next; k++ {
				if state[k] == "closed" {
					sb.WriteString("-")
				} else {
					sb.WriteString(conns[k].state())
				}
			}
			return sb.String()
		}
		settle := func() string {
			last, same := "", 0
			for t := 0; t < 400 && same < 12; t++ {
				time.Sleep(2 * time.Millisecond)
				cur := snapshot()
				if cur == last {
					same++
				} else {
					last, same = cur, 0
				}
			}
			return last
		}
		harnessErr := false
		for step := 0; step < nclients*2; step++ {
			var open []int
			for k := 0; k < next; k++ {
				if state[k] == "open" && conns[k].state() == "S" {
					open = append(open, k)
				}
			}
			doClose := false
			if next >= nclients || (len(open) > 0 && env.Rnd.Intn(3) == 0) {
				doClose = len(open) > 0
				if !doClose && next >= nclients {
					break
				}
			}
			if doClose {
				k := open[env.Rnd.Intn(len(open))]
				conns[k].c.Close()
				state[k] = "closed"
				events = append(events, fmt.Sprintf("c:%d", k))
				time.Sleep(5 * time.Millisecond)
			} else {
				var ip net.IP
				if env.Rnd.Intn(6) == 0 {
					ip = net.IPv4(127, 0, 1, byte(1+env.Rnd.Intn(250))).To4()
				} else {
					ip = net.IPv4(127, 0, 0, byte(1+env.Rnd.Intn(15))).To4()
				}
				ok := true
				if spec != "" {
					v := new(big.Int).SetBytes(ip.To16())
					ok = v.Cmp(exp.lo) >= 0 && v.Cmp(exp.hi) <= 0
				}
				p, err := newTCPProbe(ip.String(), addr, req)
				if err != nil {
					harnessErr = true
					break
				}
				conns[next] = p
				state[next] = "open"
				ids = append(ids, fmt.Sprint(next))
				events = append(events, fmt.Sprintf("a:%d:%d", next, b2i(ok)))
				next++
			}
			o := settle()
			obs = append(obs, o)
			// model-independent: an arrival from outside the whitelist is closed, not left hanging; a whitelisted arrival
			// waits only while all slots are in use
			okOf := map[int]bool{}
			for _, e := range events {
				var k, b int
				if n, _ := fmt.Sscanf(e, "a:%d:%d", &k, &b); n == 2 {
					okOf[k] = b == 1
				}
			}
			nsNow := strings.Count(o, "S")
			for k := 0; k < next && k < len(o); k++ {
				if o[k] == 'W' && !okOf[k] && spec != "" && (limit == 0 || nsNow < limit) { // (while every slot is in use the accept loop does not look at new arrivals at all)
					env.OracleFail(id, fmt.Sprintf("[C15-filter] connection %d from outside the whitelist %q is not closed although a slot is free (the real binary, --max-clients %d): events %v -> %s", k, spec, limit, events, o))
				}
				if o[k] == 'W' && okOf[k] && (limit == 0 || nsNow < limit) {
					env.OracleFail(id, fmt.Sprintf("[C15-progress] whitelisted connection %d waits although only %d of %d slots are in use (whitelist %q): events %v -> %s", k, nsNow, limit, spec, events, o))
				}
			}
			if ns := strings.Count(o, "S"); limit > 0 && ns > limit {
				env.OracleFail(id, fmt.Sprintf("[C15-bound] the real binary serves %d connections at once with --max-clients %d --client-whitelist %q (events %v)", ns, limit, spec, events))
			}
		}
		for k := 0; k < next; k++ {
			conns[k].mu.Lock()
			got := conns[k].got
			conns[k].mu.Unlock()
			okArr := strings.Contains(","+strings.Join(events, ",")+",", fmt.Sprintf(",a:%d:1,", k))
			if !okArr && got > 0 {
				env.OracleFail(id, fmt.Sprintf("[C15-filter] connection %d from outside the whitelist %q received %d bytes from the real binary", k, spec, got))
			}
		}
		for j := range obs {
			for len(obs[j]) < next {
				obs[j] += "-"
			}
		}
		for _, c := range conns {
			c.c.Close()
		}
		run.Kill()
		if harnessErr {
			env.Count("skipped", "dial")
			continue
		}
		env.Case(id, "LISTEN", []string{fmt.Sprint(limit), strings.Join(events, ","), strings.Join(ids, ",")}, strings.Join(obs, ","), len(events) >= 4)
		env.Count("limit", fmt.Sprint(limit))
		env.Count("whitelist", spec)
		env.Count("both_options", fmt.Sprint(limit > 0 && spec != ""))
		if i < 3 {
			env.Sample(map[string]any{"id": id, "limit": limit, "whitelist": spec, "events": events, "observed": obs})
		}
	}
	return nil
}
