//go:build verif

package main

import (
	"bytes"
	"crypto/md5"
	"encoding/binary"
	"encoding/hex"
	"fmt"
	"os"
	"path/filepath"
	"regexp"
	"sort"
	"strings"
	"sync"
	"time"

	"github.com/spf13/afero"

	pfs "github.com/xakep666/ps3netsrv-go/pkg/fs"
)

// Job iso — C07 / C08 / C18: the image builder (buildFS) against Model/IsoBuild.build_image and against
// the independent reader/validator of isoread.go.
//
//	case fields: tree volname ps3 gamecode       (what the scan observes; see k_iso.ml)
//	observation: md5(masked fsBuf);files=...;pad=...;total=...   or ERR
func init() { subcmds["iso"] = runIso }

var isoSizes = []int{0, 0, 1, 2047, 2048, 2049, 65535, 65536, 65537, 100, 3000, 4096}

var portableRe = regexp.MustCompile(`^[A-Za-z0-9._-]+$`)

func isoName(env *Env, used map[string]bool, long bool) string {
	for {
		var n string
		switch env.Rnd.Intn(14) {
		case 0, 1, 2, 3, 4:
			n = fmt.Sprintf("%s%d.%s", []string{"file", "Data", "README", "x-y", "a_b"}[env.Rnd.Intn(5)], env.Rnd.Intn(50), []string{"bin", "TXT", "dat", "p3t"}[env.Rnd.Intn(4)])
		case 5:
			n = []string{"EBOOT.BIN", "ICON0.PNG", "USRDIR", "LICDIR", "TROPDIR", "a", "A", "b", "abc", "Abc", "ABC",
				".version", "..data", ".nomedia", ".config", "...", ".a.b."}[env.Rnd.Intn(17)] // names that begin with a dot are names like any other
		case 6:
			n = []string{"a b.txt", "q?.x", "q*.x", "semi;1", "plus+", "tilde~", "x?", "x*", "[z]", "#1", "a@b", "c$d", "e^f", "{g}", "h|i", "j`k", "l\\m"}[env.Rnd.Intn(17)]
		case 7:
			n = []string{"héllo.txt", "日本語", "emoji😀.dat", "ſharp", "ıdot", "ÀÉÎ", "ß", "Ünï", "\xff\xfe", "bad\xc3", "\xe0\xc5\xbf", "x\xf0\x90y"}[env.Rnd.Intn(12)]
		case 8:
			l := []int{30, 64, 100, 109, 110}[env.Rnd.Intn(5)]
			n = strings.Repeat(string(rune('a'+env.Rnd.Intn(26))), l-3) + fmt.Sprintf("%03d", env.Rnd.Intn(1000))
		case 9:
			if long {
				l := []int{111, 125, 127, 128, 200, 255}[env.Rnd.Intn(6)]
				n = strings.Repeat("L", l)
			} else {
				n = fmt.Sprintf("n%d", env.Rnd.Intn(1000))
			}
		case 10:
			n = strings.Repeat("日", 20+env.Rnd.Intn(40))
		default:
			n = fmt.Sprintf("%c%d", 'a'+env.Rnd.Intn(26), env.Rnd.Intn(100))
		}
		if !used[n] && n != "." && n != ".." {
			used[n] = true
			return n
		}
	}
}

var longPick int

type isoShape struct {
	depth, maxKids int
	long, huge     bool
	hugeIdx        int // which of the boundary sizes (the job walks through them by case number)
	wide, manyDirs int
}

// mtimes: mostly ordinary; sometimes outside what a recording time can hold (year-1900 wraps in a byte)
func isoMTime(env *Env, base int64) int64 {
	if env.Rnd.Intn(12) == 0 {
		return []int64{7258118400, 5869584000, 5869583999, -2145916800, 4102444800, 0}[env.Rnd.Intn(6)] + env.Rnd.Int63n(1000)
	}
	return base + env.Rnd.Int63n(500000000)
}

var hugePick int // which of the boundary sizes the next huge file gets (advances with every huge tree; seeded per run below)

func genIsoTree(env *Env, sh isoShape, name string) *WNode {
	var gen func(d int, name string) *WNode
	dirs := 0
	gen = func(d int, name string) *WNode {
		n := &WNode{Name: name, Dir: true, MTime: isoMTime(env, 1200000000)}
		used := map[string]bool{}
		nk := env.Rnd.Intn(sh.maxKids + 1)
		if d == 0 && sh.wide > 0 {
			nk = sh.wide
		}
		for i := 0; i < nk; i++ {
			kn := isoName(env, used, false)
			if d < sh.depth && env.Rnd.Intn(3) == 0 && dirs < 400 {
				dirs++
				n.Kids = append(n.Kids, gen(d+1, kn))
			} else {
				sz := isoSizes[env.Rnd.Intn(len(isoSizes))]
				if env.Rnd.Intn(5) == 0 {
					sz = env.Rnd.Intn(20000)
				}
				n.Kids = append(n.Kids, &WNode{Name: kn, MTime: isoMTime(env, 1100000000), Content: Content{{Kind: 'g', N: sz, A: env.Rnd.Intn(256)}}})
			}
		}
		return n
	}
	root := gen(0, name)
	if sh.long {
		// exactly one name around the limits of a directory record / a path-table entry (Joliet: 2 bytes per character), as a
		// file or as a directory, at the root or one level down; the cases walk through the list
		picks := []struct {
			n   int
			dir bool
		}{{111, false}, {111, true}, {128, true}, {112, false}, {221, true}, {222, false}, {200, true}, {127, false}, {223, true}, {150, true}, {255, false}, {110, true}, {110, false}, {129, true}}
		pk := picks[longPick%len(picks)]
		longPick++
		kid := &WNode{Name: strings.Repeat(string(rune('k'+longPick%5)), pk.n), MTime: 1250000000}
		if pk.dir {
			kid.Dir = true
			kid.Kids = []*WNode{{Name: "in.bin", MTime: 1250000001, Content: Content{{Kind: 'g', N: 300, A: 5}}}}
		} else {
			kid.Content = Content{{Kind: 'g', N: 1234, A: 6}}
		}
		p := root
		for _, k := range root.Kids {
			if k.Dir && longPick%2 == 0 {
				p = k
				break
			}
		}
		p.Kids = append(p.Kids, kid)
	}
	for i := 0; i < sh.manyDirs; i++ { // a chain/fan of many directories (path tables past one sector)
		p := root
		if i%3 != 0 && len(root.Kids) > 0 {
			if k := root.Kids[env.Rnd.Intn(len(root.Kids))]; k.Dir {
				p = k
			}
		}
		p.Kids = append(p.Kids, &WNode{Name: fmt.Sprintf("dir%04d_%s", i, strings.Repeat("x", env.Rnd.Intn(12))), Dir: true, MTime: 1300000000 + int64(i)})
	}
	if sh.huge {
		// sizes around the 32-bit extent length and the 0xFFFFF800 part size, exactly and +-1, and a few GiB more
		const part = 0xFFFFF800
		sizes := []int64{part, part - 1, part + 1, 0xFFFFFFFF, 1 << 32, 1<<32 + 1, 2 * part, 2*part + 1, 1<<32 + 3000 + env.Rnd.Int63n(1<<32), 9<<30 + 12345}
		size := sizes[sh.hugeIdx%len(sizes)]
		root.Kids = append(root.Kids, &WNode{Name: "huge.bin", MTime: 1234567890,
			Content: Content{{Kind: 'g', N: 3000, A: 7}, {Kind: 'z', N: int(size - 3000 - 1000)}, {Kind: 'g', N: 1000, A: 9}}})
		if env.Rnd.Intn(2) == 0 {
			root.Kids = append(root.Kids, &WNode{Name: "after.bin", MTime: 1234567891, Content: Content{{Kind: 'g', N: 5000, A: 3}}})
		}
	}
	return root
}

// ---- PARAM.SFO ----

type sfoEntry struct {
	key  string
	data []byte
	fmt  uint16
}

func buildSFO(entries []sfoEntry) []byte {
	var keys, data bytes.Buffer
	idx := make([]byte, 16*len(entries))
	for i, e := range entries {
		binary.LittleEndian.PutUint16(idx[16*i:], uint16(keys.Len()))
		binary.LittleEndian.PutUint16(idx[16*i+2:], e.fmt)
		binary.LittleEndian.PutUint32(idx[16*i+4:], uint32(len(e.data)))
		max := (len(e.data) + 3) / 4 * 4
		binary.LittleEndian.PutUint32(idx[16*i+8:], uint32(max))
		binary.LittleEndian.PutUint32(idx[16*i+12:], uint32(data.Len()))
		keys.WriteString(e.key)
		keys.WriteByte(0)
		data.Write(e.data)
		data.Write(make([]byte, max-len(e.data)))
	}
	for keys.Len()%4 != 0 {
		keys.WriteByte(0)
	}
	hdr := make([]byte, 20)
	copy(hdr, []byte{0, 'P', 'S', 'F', 1, 1, 0, 0})
	binary.LittleEndian.PutUint32(hdr[8:], uint32(20+len(idx)))
	binary.LittleEndian.PutUint32(hdr[12:], uint32(20+len(idx)+keys.Len()))
	binary.LittleEndian.PutUint32(hdr[16:], uint32(len(entries)))
	return append(append(append(hdr, idx...), keys.Bytes()...), data.Bytes()...)
}

func genSFO(env *Env, titleID string) []byte {
	pool := []sfoEntry{
		{"APP_VER", []byte("01.00\x00"), 0x204}, {"ATTRIBUTE", []byte{0, 0, 0, 0}, 0x404}, {"BOOTABLE", []byte{1, 0, 0, 0}, 0x404},
		{"CATEGORY", []byte("DG\x00"), 0x204}, {"LICENSE", []byte("Some licence text\x00"), 0x204}, {"PARENTAL_LEVEL", []byte{5, 0, 0, 0}, 0x404},
		{"PS3_SYSTEM_VER", []byte("03.4100\x00"), 0x204}, {"RESOLUTION", []byte{63, 0, 0, 0}, 0x404}, {"SOUND_FORMAT", []byte{1, 1, 0, 0}, 0x404},
		{"TITLE", []byte("A Game: Subtitle\x00"), 0x204}, {"TITLE_ID_X", []byte("NOPE00000\x00"), 0x204}, {"VERSION", []byte("01.00\x00"), 0x204},
		{"TITLE_I", []byte("short\x00"), 0x204},
	}
	env.Rnd.Shuffle(len(pool), func(i, j int) { pool[i], pool[j] = pool[j], pool[i] })
	es := pool[:env.Rnd.Intn(len(pool)+1)]
	es = append([]sfoEntry{}, es...)
	at := env.Rnd.Intn(len(es) + 1)
	es = append(es[:at], append([]sfoEntry{{"TITLE_ID", []byte(titleID + "\x00"), 0x204}}, es[at:]...)...)
	if env.Rnd.Intn(2) == 0 { // the real files are sorted by key; accept either
		sort.Slice(es, func(i, j int) bool { return es[i].key < es[j].key })
	}
	return buildSFO(es)
}

// ---- the scan observation (the model's input) ----

func recTime(t time.Time) []byte {
	t = t.UTC()
	return []byte{byte(t.Year() - 1900), byte(t.Month()), byte(t.Day()), byte(t.Hour()), byte(t.Minute()), byte(t.Second()), 0}
}

func scanTokens(dir string, sb *strings.Builder) error {
	st, err := os.Stat(dir)
	if err != nil {
		return err
	}
	f, err := os.Open(dir)
	if err != nil {
		return err
	}
	names, err := f.Readdirnames(-1)
	f.Close()
	if err != nil {
		return err
	}
	if sb.Len() > 0 {
		sb.WriteByte(' ')
	}
	fmt.Fprintf(sb, "D %s %s %d", hx([]byte(st.Name())), hex.EncodeToString(recTime(st.ModTime())), len(names))
	for _, n := range names {
		p := filepath.Join(dir, n)
		s, err := os.Stat(p)
		if err != nil {
			return err
		}
		if s.IsDir() {
			if err := scanTokens(p, sb); err != nil {
				return err
			}
		} else {
			fmt.Fprintf(sb, " F %s %s %s", hx([]byte(n)), hxnum(s.Size()), hex.EncodeToString(recTime(s.ModTime())))
		}
	}
	return nil
}

func maskFsBuf(b []byte, ps3 bool) []byte {
	out := append([]byte(nil), b...)
	for _, s := range []int{16, 17} {
		o := s*2048 + 813
		if len(out) >= o+34 {
			copy(out[o:o+34], make([]byte, 34))
		}
	}
	if ps3 && len(out) >= 2048+64+0x1C0 {
		copy(out[2048+64:2048+64+0x1C0], make([]byte, 0x1C0))
	}
	return out
}

var dumpName string

func isoObs(v *pfs.VirtualISO, rootAbs string, ps3 bool) string {
	fsBuf, files, padStart, padSize, total := pfs.VerifVisoInternals(v)
	sum := md5.Sum(maskFsBuf(fsBuf, ps3))
	if d := os.Getenv("VERIF_ISO_DUMP"); d != "" {
		os.WriteFile(filepath.Join(d, dumpName+".impl.bin"), maskFsBuf(fsBuf, ps3), 0o644)
	}
	var fl []string
	for _, f := range files {
		rel := strings.TrimPrefix(f.Path, rootAbs)
		rel = strings.TrimPrefix(rel, "/")
		var el []string
		for _, e := range strings.Split(rel, "/") {
			el = append(el, hx([]byte(e)))
		}
		fl = append(fl, fmt.Sprintf("%s:%s:%s", strings.Join(el, "/"), hxnum(f.Size), hxnum(f.RLBA)))
	}
	return fmt.Sprintf("%s;files=%s;pad=%s:%s;total=%s", hex.EncodeToString(sum[:]), strings.Join(fl, ","), hxnum(padStart), hxnum(padSize), hxnum(total))
}

// ---- C07: the decoded hierarchies against the tree the harness generated ----

type isoMatcher struct {
	src     isoSource
	primary bool
	why     string
}

func (m *isoMatcher) fileEqual(src *WNode, img *isoNode) bool {
	if img.Dir || img.Size != src.Content.Size() {
		return false
	}
	// bytes through the extents
	off := int64(0)
	r := img.rec
	for k := range r.extentsLoc {
		l := r.extentsLen[k]
		base := r.extentsLoc[k] * 2048
		check := func(a, n int64) bool {
			if a < 0 {
				n += a
				a = 0
			}
			if a+n > l {
				n = l - a
			}
			if n <= 0 {
				return true
			}
			buf := make([]byte, n)
			got, _ := m.src.ReadAt(buf, base+a)
			if int64(got) != n {
				return false
			}
			for j := int64(0); j < n; j++ {
				if buf[j] != src.Content.At(off+a+j) {
					return false
				}
			}
			return true
		}
		if l <= 8<<20 {
			if !check(0, l) {
				return false
			}
		} else if !check(0, 70000) || !check(l-70000, 70000) || !check(l/2-1000, 2000) {
			return false
		}
		off += l
	}
	return true
}

func (m *isoMatcher) match(src *WNode, img *isoNode, path string) bool {
	if len(src.Kids) != len(img.Kids) {
		m.why = fmt.Sprintf("%s: the source has %d entries, the image %d", path, len(src.Kids), len(img.Kids))
		return false
	}
	used := make([]bool, len(img.Kids))
	// entries whose names must be preserved first
	order := make([]*WNode, 0, len(src.Kids))
	for _, k := range src.Kids {
		if portableRe.MatchString(k.Name) {
			order = append(order, k)
		}
	}
	for _, k := range src.Kids {
		if !portableRe.MatchString(k.Name) {
			order = append(order, k)
		}
	}
	for _, k := range order {
		want := ""
		if portableRe.MatchString(k.Name) {
			want = k.Name
			if m.primary {
				want = strings.ToUpper(want)
			}
		}
		found := false
		for j, c := range img.Kids {
			if used[j] || c.Dir != k.Dir || (want != "" && c.Name != want) {
				continue
			}
			if k.Dir {
				save := m.why
				if !m.match(k, c, path+"/"+k.Name) {
					if want != "" && m.why == save {
						m.why = save
					}
					continue
				}
				m.why = save
			} else if !m.fileEqual(k, c) {
				continue
			}
			used[j] = true
			found = true
			break
		}
		if !found {
			if m.why == "" {
				m.why = fmt.Sprintf("%s: no entry of the image is %q (dir=%v, size %d) with its exact content (expected name %q)", path, k.Name, k.Dir, k.Content.Size(), want)
			}
			return false
		}
	}
	return true
}

func validateAndMatch(env *Env, id string, src isoSource, size int64, tree *WNode, ps3 bool, titleID string, route string) {
	p := parseISO(src, size, ps3, titleID)
	for _, pr := range p.problems {
		env.OracleFail(id, fmt.Sprintf("[C08-valid] (%s) %s", route, pr))
	}
	if len(p.problems) > 0 {
		// an image that an independent reader cannot decode does not contain the source tree either
		env.OracleFail(id, fmt.Sprintf("[C07-tree] (%s) the image cannot be decoded by an independent ISO 9660 reader: %s", route, p.problems[0]))
		return
	}
	for h, top := range []*isoNode{p.primary, p.joliet} {
		if top == nil {
			env.OracleFail(id, fmt.Sprintf("[C07-tree] (%s) hierarchy %d missing", route, h))
			continue
		}
		m := &isoMatcher{src: src, primary: h == 0}
		if !m.match(tree, top, "") {
			env.OracleFail(id, fmt.Sprintf("[C07-tree] (%s) %s hierarchy: %s", route, []string{"primary", "joliet"}[h], m.why))
		}
	}
	// zero padding: everything of the data area not covered by an extent is zero (images up to 64 MiB)
	if size <= 64<<20 {
		type ext struct{ s, l int64 }
		var all []ext
		for loc, l := range p.vol.dirExt {
			all = append(all, ext{loc * 2048, l})
		}
		for _, f := range p.vol.fileExt {
			all = append(all, ext{f[0], f[1]})
		}
		sort.Slice(all, func(i, j int) bool { return all[i].s < all[j].s })
		pos := int64(0)
		if len(all) > 0 {
			pos = all[0].s
		}
		for _, e := range all {
			if e.s > pos {
				gap := p.vol.read(pos, e.s-pos)
				if !bytes.Equal(gap, make([]byte, len(gap))) {
					env.OracleFail(id, fmt.Sprintf("[C08-pad] (%s) non-zero bytes between extents at [%d,%d)", route, pos, e.s))
					break
				}
			}
			if e.s+e.l > pos {
				pos = e.s + e.l
			}
		}
		if pos > 0 && pos < size {
			gap := p.vol.read(pos, size-pos)
			if !bytes.Equal(gap, make([]byte, len(gap))) {
				env.OracleFail(id, fmt.Sprintf("[C08-pad] (%s) non-zero bytes after the last extent at [%d,%d)", route, pos, size))
			}
		}
	}
}

func oddTimes(t *WNode) bool {
	odd := false
	t.Walk(func(_ string, x *WNode) {
		if x.MTime > 4000000000 || x.MTime < 100000 {
			odd = true
		}
	})
	return odd
}

func runIso(env *Env) error {
	time.Local = time.UTC
	hugePick = int(env.Seed % 10) // the seed decides where the cycle through the ten boundary sizes starts (a quick run of 120 trees covers all)
	base, err := os.MkdirTemp("", "viso")
	if err != nil {
		return err
	}
	defer os.RemoveAll(base)
	// the validator is anchored on a third-party image: it must accept it
	if b, err := os.ReadFile(filepath.Join(repoDir(), "internal/testutil/testdata/testimg.iso")); err == nil {
		// (the file is padded past its volume space; the volume itself is what the descriptor declares)
		space := int64(binary.LittleEndian.Uint32(b[16*2048+80:])) * 2048
		p := parseISO(bytes.NewReader(b[:space]), space, false, "")
		for _, pr := range p.problems {
			return fmt.Errorf("validator rejects the third-party anchor image: %s", pr)
		}
		env.Count("anchor_image", "accepted")
	} else {
		env.Count("anchor_image", "missing")
	}
	type deferred struct {
		id, path, obs, rootAbs string
		fsys               *pfs.FS
		ps3                bool
	}
	var later []deferred
	defer func() {
		// C18: a sample of the trees is opened once more at the end of the run (another second on the clock)
		if len(later) > 0 {
			time.Sleep(1100 * time.Millisecond)
		}
		for _, d := range later {
			f, err := d.fsys.Open(d.path)
			if err != nil {
				env.OracleFail(d.id, "[C18-reopen] re-open at the end of the run failed: "+err.Error())
				continue
			}
			if v, ok := f.(*pfs.VirtualISO); ok {
				if got := isoObs(v, d.rootAbs, d.ps3); got != d.obs {
					env.OracleFail(d.id, fmt.Sprintf("[C18-reopen] the image of the unchanged directory differs when opened later, outside the documented variable fields: %s vs %s", trim(got, 80), trim(d.obs, 80)))
				}
			}
			f.Close()
		}
		env.Count("reopened_later", fmt.Sprint(len(later)))
	}()
	for i := 0; i < env.N; i++ {
		id := fmt.Sprintf("iso-%d", i)
		top := filepath.Join(base, fmt.Sprintf("t%d", i))
		sh := isoShape{depth: env.Rnd.Intn(5), maxKids: 1 + env.Rnd.Intn(8)}
		switch {
		case i%11 == 3:
			sh.wide = 40 + env.Rnd.Intn(120)
			if i == 3 {
				sh.wide = 200 // at least one directory well past any batching threshold
			}
		case i%11 == 5:
			sh.manyDirs = 100 + env.Rnd.Intn(200)
		case i%11 == 7 || i%11 == 1:
			sh.long = true
		case i%11 == 9:
			sh.depth, sh.maxKids = 0, 0
		}
		if env.Tier == "thorough" && i%40 == 13 {
			sh.manyDirs = 1100
		}
		if env.Tier == "thorough" && i%40 == 17 {
			sh.wide = 300
		}
		sh.huge = (i%10 == 4 && i < 100) || (env.Tier == "thorough" && i%30 == 8)
		sh.hugeIdx = i / 10
		if sh.huge { // (an over-long name would have the image refused before the big file is looked at)
			sh.long = false
		}
		ps3 := env.Rnd.Intn(3) == 0
		rootName := []string{"img", "My Game", "game-dir_1", "日本", "a?b", strings.Repeat("v", 40)}[env.Rnd.Intn(6)]
		tree := genIsoTree(env, sh, rootName)
		if i%20 == 2 { // sibling directories (and a file) whose names collide after mapping, in the primary or in both hierarchies
			for k, n := range []string{"save data", "save_data", "Extras", "EXTRAS", "extras", "save?data"} {
				if tree.Child(n) == nil {
					kid := &WNode{Name: n, Dir: k != 5, MTime: 1300000100 + int64(k)}
					if kid.Dir {
						kid.Kids = []*WNode{{Name: fmt.Sprintf("in%d.bin", k), MTime: 1300000200, Content: Content{{Kind: 'g', N: 100 + k, A: k}}}}
					} else {
						kid.Content = Content{{Kind: 'g', N: 77, A: 1}}
					}
					tree.Kids = append(tree.Kids, kid)
				}
			}
			env.Count("shape_extra", "colliding-siblings")
		}
		titleID := ""
		if ps3 {
			titleID = []string{"BLES01234", "BCUS98111", "NPEB00001", "ABCD", "ABCDE", strings.Repeat("T", 31)}[env.Rnd.Intn(6)]
			if sh.huge { // (a refused title would use up this case's boundary size)
				titleID = "BLES01234"
			}
			if env.Rnd.Intn(5) == 0 {
				titleID = []string{"", "ABC", strings.Repeat("T", 32), strings.Repeat("T", 32), strings.Repeat("U", 33), strings.Repeat("V", 64)}[env.Rnd.Intn(6)] // must be refused
			}
			g := tree.Child("PS3_GAME")
			if g == nil {
				g = &WNode{Name: "PS3_GAME", Dir: true, MTime: 1400000000}
				tree.Kids = append(tree.Kids, g)
			} else if !g.Dir {
				g.Dir, g.Content = true, nil
			}
			g.Kids = append(g.Kids, &WNode{Name: "PARAM.SFO", MTime: 1400000001, Content: lit(genSFO(env, titleID))})
		}
		w := &WNode{Dir: true, MTime: 1300000000, Kids: []*WNode{tree}}
		if err := w.Materialise(top); err != nil {
			// names the filesystem refuses (too long): skip
			env.Count("skipped", "materialise")
			os.RemoveAll(top)
			continue
		}
		var sb strings.Builder
		if err := scanTokens(filepath.Join(top, rootName), &sb); err != nil {
			return err
		}
		prefix := "/***DVD***/"
		if ps3 {
			prefix = "/***PS3***/"
		}
		fsys := &pfs.FS{Fs: afero.NewBasePathFs(afero.NewOsFs(), top)}
		openPath := prefix + rootName
		// the served root itself as an image: the image root has no name of its own (volume identifier empty)
		noName := !ps3 && i%13 == 6
		if noName {
			fsys = &pfs.FS{Fs: afero.NewBasePathFs(afero.NewOsFs(), filepath.Join(top, rootName))}
			openPath = "/***DVD***/"
			env.Count("shape_extra", "served root as image")
		}
		open := func() (*pfs.VirtualISO, string, string) {
			var v *pfs.VirtualISO
			var panicked string
			var errs string
			func() {
				defer func() {
					if r := recover(); r != nil {
						panicked = fmt.Sprint(r)
					}
				}()
				f, err := fsys.Open(openPath)
				if err != nil {
					errs = err.Error()
					return
				}
				v, _ = f.(*pfs.VirtualISO)
			}()
			return v, errs, panicked
		}
		v, errs, panicked := open()
		volname := rootName
		if ps3 {
			volname = "PS3VOLUME"
		}
		if noName {
			volname = ""
		}
		fields := []string{sb.String(), hx([]byte(volname)), map[bool]string{false: "0", true: "1"}[ps3], hx([]byte(titleID))}
		env.Count("mode", map[bool]string{false: "dvd", true: "ps3"}[ps3])
		shape := "random"
		switch {
		case sh.wide > 0:
			shape = "wide"
		case sh.manyDirs > 0:
			shape = "manydirs"
		case sh.long:
			shape = "longnames"
		case sh.huge:
			shape = "huge"
		}
		env.Count("shape", shape)
		if panicked != "" {
			env.OracleFail(id, "[C04-panic] image creation panicked: "+trim(panicked, 200))
			env.Case(id, "ISO", fields, "PANIC", true)
			os.RemoveAll(top)
			continue
		}
		if v == nil {
			env.Case(id, "ISO", fields, "ERR", true)
			env.Count("result", "refused")
			if i < 40 {
				env.Count("refusal", trim(errs[strings.LastIndex(errs, ": ")+1:], 40))
			}
			os.RemoveAll(top)
			continue
		}
		env.Count("result", "built")
		rootAbs := "/" + rootName
		if noName {
			rootAbs = ""
		}
		ts := md5.Sum([]byte(sb.String()))
		dumpName = hex.EncodeToString(ts[:])
		obs := isoObs(v, rootAbs, ps3)
		env.Case(id, "ISO", fields, obs, true)
		st, _ := v.Stat()
		// C08 / C07 on the library view
		validateAndMatch(env, id, v, st.Size(), tree, ps3, titleID, "library view")
		// C18: open again, twice more concurrently: identical under the mask
		fs1, _, _, _, total1 := pfs.VerifVisoInternals(v)
		var wg sync.WaitGroup
		others := make([]*pfs.VirtualISO, 3)
		for k := range others {
			wg.Add(1)
			go func(k int) {
				defer wg.Done()
				others[k], _, _ = open()
			}(k)
			if k == 0 {
				wg.Wait() // the first re-open is sequential, the next two concurrent
			}
		}
		wg.Wait()
		for k, o := range others {
			if o == nil {
				env.OracleFail(id, fmt.Sprintf("[C18-reopen] re-open %d of the unchanged directory failed", k))
				continue
			}
			if got := isoObs(o, rootAbs, ps3); got != obs {
				env.OracleFail(id, fmt.Sprintf("[C18-reopen] re-open %d differs outside the documented variable fields: %s vs %s", k, trim(got, 80), trim(obs, 80)))
			}
			fs2, _, _, _, total2 := pfs.VerifVisoInternals(o)
			if total1 != total2 || len(fs1) != len(fs2) {
				env.OracleFail(id, fmt.Sprintf("[C18-reopen] re-open %d has size %d, first open %d", k, total2, total1))
			}
			// the whole image byte for byte (small ones)
			if total1 <= 16<<20 && total1 == total2 {
				a, b := make([]byte, total1), make([]byte, total2)
				v.ReadAt(a, 0)
				o.ReadAt(b, 0)
				if !bytes.Equal(maskFsBuf(a, ps3), maskFsBuf(b, ps3)) {
					env.OracleFail(id, fmt.Sprintf("[C18-reopen] re-open %d: image bytes differ outside the masked fields", k))
				}
			}
			o.Close()
		}
		v.Close()
		if len(later) < 12 && !sh.huge && (i%4 == 1 || oddTimes(tree) || noName) {
			later = append(later, deferred{id, openPath, obs, rootAbs, fsys, ps3})
			top = "" // kept until the end of the run (removed with base)
		}
		if i < 3 {
			env.Sample(map[string]any{"id": id, "ps3": ps3, "shape": shape, "tree": trim(sb.String(), 300), "observed": trim(obs, 200)})
		}
		if top != "" {
			os.RemoveAll(top)
		}
	}
	return nil
}
