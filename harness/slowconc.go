//go:build verif

package main

import (
	"bytes"
	"fmt"
	"io"
	"net"
	"os"
	"path/filepath"
	"runtime"
	"time"
)

// Job slow — C12 with clients that drain slowly.  The connections are synchronous pipes (a server Write
// blocks until the client reads), so one client's response can still be in flight - sitting in the
// server's transfer buffer - while other clients are served.  Every client reads its own file of a
// distinct byte pattern with READ_FILE and READ_FILE_CRITICAL; every third round a stalled client reads a part of its
// answer, drops the connection and comes back.  Each response must be exactly that client's bytes.  Oracle-only (the per-client
// solo prediction is the file's own content).
func init() { subcmds["slow"] = runSlow }

func runSlow(env *Env) error {
	base, err := os.MkdirTemp("", "vslow")
	if err != nil {
		return err
	}
	defer os.RemoveAll(base)
	for i := 0; i < env.N; i++ {
		id := fmt.Sprintf("slow-%d", i)
		top := filepath.Join(base, fmt.Sprintf("w%d", i))
		k := 2 + env.Rnd.Intn(5)
		r := &WNode{Name: "R", Dir: true, MTime: 1500000000}
		const fsize = 400000
		for c := 0; c < k; c++ {
			r.Kids = append(r.Kids, &WNode{Name: fmt.Sprintf("f%d.bin", c), MTime: 1400000000 + int64(c), Content: Content{{Kind: 'g', N: fsize, A: c*37 + 11}}})
		}
		w := &WNode{Dir: true, MTime: 1300000000, Kids: []*WNode{r}}
		if err := w.Materialise(top); err != nil {
			return err
		}
		procs := []int{1, 1, 2, 4}[env.Rnd.Intn(4)]
		old := runtime.GOMAXPROCS(procs)
		ls := NewLibServer(filepath.Join(top, "R"), false, time.Unix(tmutUnix, 0), 0, 65536)
		type client struct {
			c       net.Conn
			content Content
			pending int64 // bytes of a response not read yet
			poff    int64
			plain   bool // the pending response is a READ_FILE answer: a 4-byte count, then the bytes
		}
		cl := make([]*client, k)
		fail := func(msg string) { env.OracleFail(id, msg) }
		ok := true
		connect := func(c int) bool {
			a, b := net.Pipe()
			ls.Connect(b)
			cl[c] = &client{c: a, content: r.Kids[c].Content}
			a.SetDeadline(time.Now().Add(20 * time.Second))
			q := &Req{Op: opOpenFile, Path: fmt.Sprintf("/f%d.bin", c)}
			if _, err := a.Write(q.Wire()); err != nil {
				return false
			}
			res := make([]byte, 16)
			if _, err := io.ReadFull(a, res); err != nil {
				fail(fmt.Sprintf("[C12-slow] client %d: no OPEN_FILE response: %v", c, err))
				return false
			}
			return true
		}
		nchurn := 0
		// pick READ_FILE or READ_FILE_CRITICAL for a request of n bytes at off
		request := func(c int, n, off int64) bool {
			x := cl[c]
			x.plain = env.Rnd.Intn(2) == 0
			op := opReadFileCritical
			if x.plain {
				op = opReadFile
			}
			q := &Req{Op: op, N: uint32(n), Off: uint64(off)}
			x.c.SetDeadline(time.Now().Add(20 * time.Second))
			if _, err := x.c.Write(q.Wire()); err != nil {
				fail(fmt.Sprintf("[C12-slow] client %d: request refused: %v", c, err))
				return false
			}
			x.pending, x.poff = n, off
			return true
		}
		drain := func(c int) {
			x := cl[c]
			if x.pending == 0 {
				return
			}
			buf := make([]byte, x.pending)
			x.c.SetDeadline(time.Now().Add(20 * time.Second))
			if x.plain {
				var hd [4]byte
				if _, err := io.ReadFull(x.c, hd[:]); err != nil {
					fail(fmt.Sprintf("[C12-slow] client %d: response cut short: %v", c, err))
					ok = false
					x.pending = 0
					return
				}
				if cnt := int64(int32(uint32(hd[0])<<24 | uint32(hd[1])<<16 | uint32(hd[2])<<8 | uint32(hd[3]))); cnt != x.pending {
					fail(fmt.Sprintf("[C12-slow] client %d asked for %d bytes of its own file at %d (all inside the file) while other clients came and went: the answer announces %d bytes", c, x.pending, x.poff, cnt))
					ok = false
					x.pending = 0
					return
				}
			}
			if _, err := io.ReadFull(x.c, buf); err != nil {
				fail(fmt.Sprintf("[C12-slow] client %d: response cut short: %v", c, err))
				ok = false
			} else {
				want := make([]byte, x.pending)
				for j := range want {
					want[j] = x.content.At(x.poff + int64(j))
				}
				if !bytes.Equal(buf, want) {
					first := 0
					for first < len(buf) && buf[first] == want[first] {
						first++
					}
					whose := "nobody's"
					for o := range cl {
						if o != c && first < len(buf) && buf[first] == cl[o].content.At(x.poff+int64(first)) {
							whose = fmt.Sprintf("client %d's", o)
						}
					}
					fail(fmt.Sprintf("[C12-slow] client %d asked for %d bytes of its own file at %d while other clients were served: byte %d of the response is not its file's (it is %s)", c, x.pending, x.poff, first, whose))
				}
			}
			x.pending = 0
		}
		for c := 0; c < k && ok; c++ {
			ok = connect(c)
		}
		rounds := 6 + env.Rnd.Intn(10)
		nstalled := 0
		for rd := 0; rd < rounds && ok; rd++ {
			// some clients send a request and do not read the answer yet
			for c := 0; c < k && ok; c++ {
				if cl[c].pending != 0 || env.Rnd.Intn(2) == 0 {
					continue
				}
				n := int64([]int{2048, 4096, 65536, 65535, 30000, 1, 65537, 100000}[env.Rnd.Intn(8)])
				off := env.Rnd.Int63n(fsize - n)
				if !request(c, n, off) {
					ok = false
					break
				}
				nstalled++
			}
			time.Sleep(300 * time.Microsecond) // let the server reach its blocked Write
			// connection churn: one of the stalled clients reads a part of its answer, goes away and comes back on a new connection
			if rd%3 == 1 {
				for _, c := range env.Rnd.Perm(k) {
					if x := cl[c]; ok && x.pending > 1 {
						part := make([]byte, 1+env.Rnd.Int63n(min(x.pending-1, 9000)))
						_, _ = io.ReadFull(x.c, part)
						x.c.Close()
						time.Sleep(300 * time.Microsecond)
						ok = connect(c)
						nchurn++
						break
					}
				}
			}
			// the others are served in full meanwhile
			for c := 0; c < k && ok; c++ {
				if cl[c].pending != 0 {
					continue
				}
				for t := 0; t < 1+env.Rnd.Intn(3) && ok; t++ {
					n := int64([]int{2048, 65536, 40000, 512}[env.Rnd.Intn(4)])
					off := env.Rnd.Int63n(fsize - n)
					if !request(c, n, off) {
						ok = false
						break
					}
					drain(c)
				}
			}
			// now the slow ones read, in random order
			for _, c := range env.Rnd.Perm(k) {
				if ok {
					drain(c)
				}
			}
		}
		for c := range cl {
			if cl[c] != nil {
				cl[c].c.Close()
			}
		}
		ls.Stop()
		runtime.GOMAXPROCS(old)
		env.Case(id, "NOMODEL", []string{fmt.Sprintf("%d clients, %d rounds, %d stalled responses, %d clients replaced in mid-answer, GOMAXPROCS %d", k, rounds, nstalled, nchurn, procs)}, fmt.Sprintf("ok=%v", ok), true)
		if i < 2 {
			env.Sample(map[string]any{"id": id, "clients": k, "rounds": rounds, "stalled_responses": nstalled, "replaced_mid_answer": nchurn, "gomaxprocs": procs})
		}
		env.Count("clients", fmt.Sprint(k))
		env.Count("gomaxprocs", fmt.Sprint(procs))
		os.RemoveAll(top)
	}
	return nil
}
