//go:build verif

// Command verifharness drives the real ps3netsrv-go code for the correspondence checks
// of /verif.  It is added to /repo virtually with `go build -overlay` and never committed
// there.  Every subcommand writes, into -out:
//
//	cases.tsv   id, kind, model input fields      (fed to the extracted Coq model)
//	impl.tsv    id, observation of the real code   (compared with the model's line)
//	oracle.tsv  id, message                        (direct property oracle failures, model-independent)
//	stats.json  input distribution and counts for the evidence file
package main

import (
	"flag"
	"fmt"
	"os"
)

type subcmd func(env *Env) error

var subcmds = map[string]subcmd{}

func main() {
	if len(os.Args) < 2 {
		fmt.Fprintln(os.Stderr, "usage: verifharness <kind> [flags]")
		os.Exit(2)
	}
	kind := os.Args[1]
	fs := flag.NewFlagSet(kind, flag.ExitOnError)
	seed := fs.Int64("seed", 1, "PRNG seed")
	n := fs.Int("n", 100, "volume knob")
	out := fs.String("out", ".", "output directory")
	tier := fs.String("tier", "quick", "quick|thorough")
	replay := fs.String("replay", "", "replay file (case line) instead of generating")
	_ = fs.Parse(os.Args[2:])

	cmd, ok := subcmds[kind]
	if !ok {
		fmt.Fprintf(os.Stderr, "unknown kind %q\n", kind)
		os.Exit(2)
	}
	env, err := NewEnv(*out, *seed, *n, *tier, *replay)
	if err != nil {
		fmt.Fprintln(os.Stderr, err)
		os.Exit(2)
	}
	if err := cmd(env); err != nil {
		fmt.Fprintln(os.Stderr, "harness error:", err)
		os.Exit(3)
	}
	if err := env.Close(); err != nil {
		fmt.Fprintln(os.Stderr, err)
		os.Exit(3)
	}
}
