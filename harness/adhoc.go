//go:build verif

package main

import (
	"fmt"
	"os"
	"path/filepath"
)

func init() { subcmds["adhoc"] = runAdhoc }

// runAdhoc holds small fixed scenarios used to demonstrate findings against the real code
// (each also lives in corpus/ as a regression case of the property it belongs to).
func runAdhoc(env *Env) error {
	base, err := os.MkdirTemp("", "vadhoc")
	if err != nil {
		return err
	}
	defer os.RemoveAll(base)
	// rmroot: an empty served root, writing enabled, RMDIR "/" and DELETE_FILE "/"
	for _, op := range []int{opRmdir, opDeleteFile} {
		top := filepath.Join(base, fmt.Sprintf("t%x", op))
		w := &WNode{Dir: true, MTime: 1300000000, Kids: []*WNode{{Name: "R", Dir: true, MTime: 1300000001}, {Name: "keep", MTime: 1300000002, Content: lit([]byte("x"))}}}
		if err := w.Materialise(top); err != nil {
			return err
		}
		q := &Req{Op: op, Path: "/"}
		res, err := runSession(top, true, [][]byte{q.Wire()}, []int{op}, 65536, nil)
		if err != nil {
			return err
		}
		_, serr := os.Stat(filepath.Join(top, "R"))
		fmt.Printf("adhoc rmroot op=%#x response=%x root-still-exists=%v\n", op, res.steps[0].out, serr == nil)
		if serr != nil {
			env.OracleFail(fmt.Sprintf("adhoc-rmroot-%x", op), "[C01-outside] the served root directory itself was removed by a client request (its parent directory changed)")
		}
	}
	return nil
}
