//go:build verif

package main

import (
	"bytes"
	"encoding/binary"
	"fmt"
	"sort"
	"unicode/utf16"
)

// An ISO 9660 / Joliet reader and strict validator written from ECMA-119 and the Joliet specification
// only (no code shared with pkg/fs).  It is the direct oracle of C07 (what the image contains) and C08
// (structural validity).

type isoSource interface {
	ReadAt(p []byte, off int64) (int, error)
}

type isoRecord struct {
	Loc, Len   int64
	Flags      byte
	ID         []byte
	Time       []byte
	recOff     int64 // absolute offset of the record
	extentsLoc []int64
	extentsLen []int64
}

func (r *isoRecord) IsDir() bool { return r.Flags&2 != 0 }

type isoNode struct {
	Name  string
	Dir   bool
	Size  int64
	Kids  []*isoNode
	rec   *isoRecord
	depth int
}

type isoVolume struct {
	src      isoSource
	size     int64
	problems []string
	dirExt   map[int64]int64 // directory extent location -> length (per hierarchy walk)
	fileExt  [][2]int64
}

func (v *isoVolume) bad(format string, a ...any) {
	if len(v.problems) < 12 {
		v.problems = append(v.problems, fmt.Sprintf(format, a...))
	}
}

func (v *isoVolume) read(off, n int64) []byte {
	if off < 0 || n < 0 || off+n > v.size {
		v.bad("read of [%d,+%d) outside the volume of %d bytes", off, n, v.size)
		return make([]byte, n)
	}
	b := make([]byte, n)
	k, _ := v.src.ReadAt(b, off)
	if int64(k) != n {
		v.bad("short read at %d: %d of %d", off, k, n)
	}
	return b
}

func both32(v *isoVolume, b []byte, what string) int64 {
	le := binary.LittleEndian.Uint32(b[0:4])
	be := binary.BigEndian.Uint32(b[4:8])
	if le != be {
		v.bad("%s: both-endian fields disagree (%d vs %d)", what, le, be)
	}
	return int64(le)
}

func both16(v *isoVolume, b []byte, what string) int {
	le := binary.LittleEndian.Uint16(b[0:2])
	be := binary.BigEndian.Uint16(b[2:4])
	if le != be {
		v.bad("%s: both-endian fields disagree (%d vs %d)", what, le, be)
	}
	return int(le)
}

func (v *isoVolume) parseRecord(b []byte, abs int64, what string) *isoRecord {
	l := int(b[0])
	if l < 34 || l > len(b) {
		v.bad("%s: record length %d at %d", what, l, abs)
		return nil
	}
	if l%2 != 0 {
		v.bad("%s: odd record length %d at %d", what, l, abs)
	}
	r := &isoRecord{recOff: abs}
	r.Loc = both32(v, b[2:10], what+" extent location")
	r.Len = both32(v, b[10:18], what+" data length")
	r.Time = append([]byte(nil), b[18:25]...)
	r.Flags = b[25]
	if b[26] != 0 || b[27] != 0 {
		v.bad("%s: interleaved file at %d", what, abs)
	}
	if both16(v, b[28:32], what+" volume sequence number") != 1 {
		v.bad("%s: volume sequence number is not 1", what)
	}
	idl := int(b[32])
	need := 33 + idl
	if idl%2 == 0 {
		need++
	}
	if need > l {
		v.bad("%s: identifier of %d bytes does not fit the record length %d at %d", what, idl, l, abs)
		return nil
	}
	r.ID = append([]byte(nil), b[33:33+idl]...)
	return r
}

// readDir parses the records of one directory extent.
func (v *isoVolume) readDir(loc, length int64, what string) []*isoRecord {
	if length%2048 != 0 || length == 0 {
		v.bad("%s: directory extent length %d is not a positive multiple of the sector size", what, length)
	}
	data := v.read(loc*2048, length)
	var out []*isoRecord
	for p := int64(0); p < int64(len(data)); {
		if data[p] == 0 { // rest of the sector is padding: must be zero
			end := (p/2048 + 1) * 2048
			if end > int64(len(data)) {
				end = int64(len(data))
			}
			if !bytes.Equal(data[p:end], make([]byte, end-p)) {
				v.bad("%s: non-zero padding after the records of a sector at %d", what, loc*2048+p)
			}
			p = end
			continue
		}
		l := int64(data[p])
		if p%2048+l > 2048 {
			v.bad("%s: the record at %d (length %d) straddles a sector boundary", what, loc*2048+p, l)
		}
		if p+l > int64(len(data)) {
			v.bad("%s: record at %d runs past the directory extent", what, loc*2048+p)
			break
		}
		r := v.parseRecord(data[p:p+l], loc*2048+p, what)
		if r == nil {
			break
		}
		out = append(out, r)
		p += l
	}
	return out
}

func decodeName(id []byte, joliet bool) string {
	if !joliet {
		return string(id)
	}
	if len(id)%2 != 0 {
		return "?odd-utf16"
	}
	u := make([]uint16, len(id)/2)
	for i := range u {
		u[i] = binary.BigEndian.Uint16(id[2*i:])
	}
	return string(utf16.Decode(u))
}

// walk reads one hierarchy from its root record.
func (v *isoVolume) walk(root *isoRecord, joliet bool, hier string) *isoNode {
	top := &isoNode{Name: "", Dir: true, rec: root}
	type work struct {
		n          *isoNode
		parentLoc  int64
		parentTime []byte
	}
	queue := []work{{top, root.Loc, nil}}
	seen := map[int64]bool{}
	for len(queue) > 0 {
		w := queue[0]
		queue = queue[1:]
		n := w.n
		what := fmt.Sprintf("%s directory %q", hier, n.Name)
		if seen[n.rec.Loc] {
			v.bad("%s: directory extent %d is referenced twice", what, n.rec.Loc)
			continue
		}
		seen[n.rec.Loc] = true
		if n.depth > 64 {
			v.bad("%s: directory nesting too deep (loop?)", what)
			continue
		}
		v.dirExt[n.rec.Loc] = n.rec.Len
		recs := v.readDir(n.rec.Loc, n.rec.Len, what)
		if len(recs) < 2 || !bytes.Equal(recs[0].ID, []byte{0}) || !bytes.Equal(recs[1].ID, []byte{1}) {
			v.bad("%s: the first two records are not '.' and '..'", what)
			continue
		}
		if recs[0].Loc != n.rec.Loc || recs[0].Len != n.rec.Len || !recs[0].IsDir() {
			v.bad("%s: '.' is (%d,%d), the directory's extent is (%d,%d)", what, recs[0].Loc, recs[0].Len, n.rec.Loc, n.rec.Len)
		}
		if recs[1].Loc != w.parentLoc || !recs[1].IsDir() {
			v.bad("%s: '..' points at %d, the parent is at %d", what, recs[1].Loc, w.parentLoc)
		}
		i := 2
		for i < len(recs) {
			r := recs[i]
			name := decodeName(r.ID, joliet)
			if r.IsDir() {
				c := &isoNode{Name: name, Dir: true, rec: r, depth: n.depth + 1}
				n.Kids = append(n.Kids, c)
				queue = append(queue, work{c, n.rec.Loc, nil})
				i++
				continue
			}
			// a file: possibly several extents (multi-extent flag on all but the last)
			f := &isoNode{Name: name, rec: r}
			for {
				r.extentsLoc = append(r.extentsLoc, recs[i].Loc)
				r.extentsLen = append(r.extentsLen, recs[i].Len)
				f.Size += recs[i].Len
				more := recs[i].Flags&0x80 != 0
				i++
				if !more {
					break
				}
				if i >= len(recs) || !bytes.Equal(recs[i].ID, r.ID) || recs[i].IsDir() {
					v.bad("%s: multi-extent file %q has no following record", what, name)
					break
				}
			}
			for k := range r.extentsLoc {
				if r.extentsLen[k] > 0 {
					v.fileExt = append(v.fileExt, [2]int64{r.extentsLoc[k] * 2048, r.extentsLen[k]})
				}
			}
			n.Kids = append(n.Kids, f)
		}
	}
	return top
}

type pathTableEntry struct {
	ID     []byte
	Loc    int64
	Parent int
}

func (v *isoVolume) readPathTable(loc, size int64, order binary.ByteOrder, what string) []pathTableEntry {
	data := v.read(loc*2048, size)
	var out []pathTableEntry
	for p := 0; p < len(data); {
		idl := int(data[p])
		if idl == 0 {
			v.bad("%s: zero identifier length at %d", what, p)
			break
		}
		need := 8 + idl + idl%2
		if p+need > len(data) {
			v.bad("%s: entry at %d runs past the table", what, p)
			break
		}
		out = append(out, pathTableEntry{ID: append([]byte(nil), data[p+8:p+8+idl]...), Loc: int64(order.Uint32(data[p+2:])), Parent: int(order.Uint16(data[p+6:]))})
		p += need
	}
	// the rest of the last sector must be zero
	end := (size + 2047) / 2048 * 2048
	if end > size && !bytes.Equal(v.read(loc*2048+size, end-size), make([]byte, end-size)) {
		v.bad("%s: non-zero padding after the table", what)
	}
	return out
}

type isoParsed struct {
	primary, joliet *isoNode
	spaceSize       int64
	problems        []string
	vol             *isoVolume
}

// parseISO reads and validates a volume; announced is the size the server announced for it.
func parseISO(src isoSource, announced int64, ps3 bool, titleID string) *isoParsed {
	v := &isoVolume{src: src, size: announced, dirExt: map[int64]int64{}}
	res := &isoParsed{vol: v}
	if announced%2048 != 0 || announced < 20*2048 {
		v.bad("the size %d is not a whole number of sectors (or too small)", announced)
		res.problems = v.problems
		return res
	}
	for h, sector := range []int64{16, 17} {
		d := v.read(sector*2048, 2048)
		hier := []string{"primary", "joliet"}[h]
		wantType := byte(1 + h)
		if d[0] != wantType || string(d[1:6]) != "CD001" || d[6] != 1 {
			v.bad("%s descriptor at sector %d: type/identifier/version %d %q %d", hier, sector, d[0], d[1:6], d[6])
			continue
		}
		space := both32(v, d[80:88], hier+" volume space size")
		if space*2048 != announced {
			v.bad("%s volume space size %d sectors, announced size %d bytes", hier, space, announced)
		}
		res.spaceSize = space
		if both16(v, d[120:124], hier+" volume set size") != 1 || both16(v, d[124:128], hier+" volume sequence number") != 1 {
			v.bad("%s: volume set size / sequence number are not 1", hier)
		}
		if both16(v, d[128:132], hier+" logical block size") != 2048 {
			v.bad("%s: logical block size is not 2048", hier)
		}
		ptSize := both32(v, d[132:140], hier+" path table size")
		lLoc := int64(binary.LittleEndian.Uint32(d[140:144]))
		mLoc := int64(binary.BigEndian.Uint32(d[148:152]))
		if h == 1 && string(d[88:91]) != "%/@" {
			v.bad("joliet descriptor: escape sequence %q", d[88:91])
		}
		if d[881] != 1 {
			v.bad("%s: file structure version %d", hier, d[881])
		}
		root := v.parseRecord(d[156:190], sector*2048+156, hier+" root record")
		if root == nil {
			continue
		}
		if !root.IsDir() || !bytes.Equal(root.ID, []byte{0}) {
			v.bad("%s root record is not a directory record with identifier 0", hier)
		}
		before := len(v.dirExt)
		tree := v.walk(root, h == 1, hier)
		_ = before
		if h == 0 {
			res.primary = tree
		} else {
			res.joliet = tree
		}
		// path tables: L and M agree, are complete, point at the directories, parents come first
		lt := v.readPathTable(lLoc, ptSize, binary.LittleEndian, hier+" L path table")
		mt := v.readPathTable(mLoc, ptSize, binary.BigEndian, hier+" M path table")
		if len(lt) != len(mt) {
			v.bad("%s: L and M path tables have %d and %d entries", hier, len(lt), len(mt))
		} else {
			for i := range lt {
				if !bytes.Equal(lt[i].ID, mt[i].ID) || lt[i].Loc != mt[i].Loc || lt[i].Parent != mt[i].Parent {
					v.bad("%s: L and M path tables differ at entry %d", hier, i+1)
					break
				}
			}
		}
		// directories of this hierarchy, by extent
		dirs := map[int64]string{}
		var collect func(n *isoNode, path string)
		ndirs := 0
		collect = func(n *isoNode, path string) {
			if n.Dir {
				ndirs++
				dirs[n.rec.Loc] = path
				for _, k := range n.Kids {
					collect(k, path+"/"+k.Name)
				}
			}
		}
		collect(tree, "")
		if len(lt) != ndirs && ndirs <= 65536 {
			v.bad("%s: the path table has %d entries, the hierarchy has %d directories", hier, len(lt), ndirs)
		}
		for i, e := range lt {
			if _, ok := dirs[e.Loc]; !ok {
				v.bad("%s path table entry %d points at %d, which is not a directory extent", hier, i+1, e.Loc)
				break
			}
			if i == 0 {
				if e.Parent != 1 || !bytes.Equal(e.ID, []byte{0}) || e.Loc != root.Loc {
					v.bad("%s path table: first entry is not the root (parent %d)", hier, e.Parent)
				}
			} else if e.Parent < 1 || e.Parent > i {
				v.bad("%s path table entry %d has parent number %d (must be an earlier entry)", hier, i+1, e.Parent)
				break
			} else if ppath, cpath := dirs[lt[e.Parent-1].Loc], dirs[e.Loc]; len(cpath) <= len(ppath) || cpath[:len(ppath)] != ppath {
				v.bad("%s path table entry %d (%q) names %q as its parent", hier, i+1, cpath, ppath)
				break
			}
		}
	}
	// terminator
	if d := v.read(18*2048, 2048); d[0] != 255 || string(d[1:6]) != "CD001" {
		v.bad("no volume descriptor set terminator at sector 18")
	}
	// extents: inside the volume, files do not overlap each other or any directory
	type ext struct{ s, l int64 }
	var all []ext
	for loc, l := range v.dirExt {
		all = append(all, ext{loc * 2048, l})
	}
	seenFile := map[[2]int64]bool{}
	for _, f := range v.fileExt {
		if !seenFile[f] { // the same file appears in both hierarchies
			seenFile[f] = true
			all = append(all, ext{f[0], f[1]})
		}
	}
	sort.Slice(all, func(i, j int) bool { return all[i].s < all[j].s })
	for i, e := range all {
		if e.s < 19*2048 || e.s+e.l > announced {
			v.bad("extent [%d,+%d) lies outside the volume data area", e.s, e.l)
		}
		if i > 0 && all[i-1].s+all[i-1].l > e.s {
			v.bad("extents [%d,+%d) and [%d,+%d) overlap", all[i-1].s, all[i-1].l, e.s, e.l)
		}
	}
	if ps3 {
		s0 := v.read(0, 2048)
		if binary.BigEndian.Uint32(s0[0:]) != 1 || binary.BigEndian.Uint32(s0[4:]) != 0 || binary.BigEndian.Uint32(s0[8:]) != 0 ||
			int64(binary.BigEndian.Uint32(s0[12:])) != announced/2048-1 {
			v.bad("PS3 sector 0 does not declare the whole volume as one plain region: % x", s0[:16])
		}
		s1 := v.read(2048, 2048)
		wantProd := titleID
		if len(titleID) >= 4 {
			wantProd = titleID[:4] + "-" + titleID[4:]
		}
		for len(wantProd) < 32 {
			wantProd += " "
		}
		if string(s1[:16]) != "PlayStation3    " || string(s1[16:48]) != wantProd {
			v.bad("PS3 sector 1 carries %q / %q, expected PlayStation3 and %q", s1[:16], s1[16:48], wantProd)
		}
	}
	res.problems = v.problems
	return res
}
