//go:build verif

package main

import (
	"encoding/binary"
	"fmt"
	"net"
	"net/http"
	"os"
	"path/filepath"
	"strings"
	"time"
)

func init() { subcmds["config"] = runConfig }

type cfgSetting struct {
	flag    string
	env     string
	def     string
	vals    []string // two distinct test values
	bad     string   // a malformed value ("" = none)
	boolean bool
	blank   bool // an empty value is invalid for this setting (every channel must refuse it)
}

// runConfig: the real binary under the channel matrix.  One setting per start; its value arrives through
// one channel, or through two channels with conflicting values; the effective value is read off the
// behaviour of the started server and compared with the model's resolution.
func runConfig(env *Env) error {
	base, err := os.MkdirTemp("", "vcfg")
	if err != nil {
		return err
	}
	defer os.RemoveAll(base)
	table, err := readServerSettings()
	if err != nil {
		return err
	}
	envName := map[string]string{}
	defOf := map[string]string{}
	for _, s := range table {
		envName[s.Flag] = s.Env
		defOf[s.Flag] = s.Default
	}
	rootA := filepath.Join(base, "rootA")
	rootB := filepath.Join(base, "rootB")
	for _, d := range []string{rootA, rootB} {
		_ = os.MkdirAll(d, 0o755)
		_ = os.WriteFile(filepath.Join(d, "is"+filepath.Base(d)), []byte("x"), 0o644)
	}
	channels := []string{"flag", "env", "cfgfile", "envfile", "cwdini", "userini"}
	rank := map[string]int{"flag": 5, "cfgfile": 4, "envfile": 4, "cwdini": 3, "userini": 2, "env": 1}
	for i := 0; i < env.N; i++ {
		id := fmt.Sprintf("cfg-%d", i)
		p1, p2, p3 := freePort(), freePort(), freePort()
		settings := []cfgSetting{
			{flag: "root", vals: []string{rootA, rootB}, bad: filepath.Join(base, "no-such-dir")},
			{flag: "listen-addr", vals: []string{fmt.Sprintf("127.0.0.1:%d", p2), fmt.Sprintf("127.0.0.1:%d", p3)}},
			{flag: "allow-write", vals: []string{"true", "false"}, boolean: true},
			{flag: "max-clients", vals: []string{"1", "2"}, bad: "abc", blank: true},
			{flag: "client-whitelist", vals: []string{"127.0.0.1", "127.0.0.2"}, bad: "999.1.1.1", blank: true},
			{flag: "read-timeout", vals: []string{"400ms", "5s"}, bad: "fast", blank: true},
			{flag: "debug", vals: []string{"true", "false"}, boolean: true},
			{flag: "json-log", vals: []string{"true", "false"}, boolean: true},
			{flag: "debug-server-listen-addr", vals: []string{fmt.Sprintf("127.0.0.1:%d", p2), fmt.Sprintf("127.0.0.1:%d", p3)}},
		}
		s := settings[i%len(settings)]
		sweep := i < 18 // the first 18 cases: an empty value for each of the three settings through each of the six channels
		if sweep {
			s = settings[3+i%3]
		}
		// the documented name of the setting's environment variable (README: PS3NETSRV_ROOT for --root, and so on for the others);
		// that the struct tags say the same is the theorem C19_table over the regenerated table
		s.env, s.def = "PS3NETSRV_"+strings.ToUpper(strings.ReplaceAll(s.flag, "-", "_")), defOf[s.flag]
		_ = envName
		if s.flag == "root" { // spellings of the root: absolute, trailing slash, relative to the working directory
			switch env.Rnd.Intn(3) {
			case 1:
				s.vals = []string{rootA + "/", rootB + "//"}
			case 2:
				s.vals = []string{"../rootA", "./../rootB/."}
			}
			env.Count("root_spelling", s.vals[0])
		}
		if s.env == "" {
			env.OracleFail(id, fmt.Sprintf("[C19-table] setting %q has no environment variable in the struct tags", s.flag))
			continue
		}
		// channel assignment
		mode := []string{"single", "single", "pair", "malformed"}[env.Rnd.Intn(4)]
		if s.bad == "" && mode == "malformed" {
			mode = "pair"
		}
		if sweep {
			mode = "malformed"
		}
		badValue := s.bad
		if mode == "malformed" && s.blank && (sweep || env.Rnd.Intn(2) == 0) {
			badValue = "" // a key that is present but empty
			env.Count("malformed", "blank")
		}
		assign := map[string]string{}
		c1 := channels[env.Rnd.Intn(len(channels))]
		if sweep {
			c1 = channels[(i/3)%len(channels)]
		}
		switch mode {
		case "single":
			assign[c1] = s.vals[0]
		case "pair":
			c2 := channels[env.Rnd.Intn(len(channels))]
			for c2 == c1 || (rank[c1] == 4 && rank[c2] == 4) {
				c2 = channels[env.Rnd.Intn(len(channels))]
			}
			assign[c1], assign[c2] = s.vals[0], s.vals[1]
		case "malformed":
			assign[c1] = badValue
		}
		// set the scene
		cwd := filepath.Join(base, fmt.Sprintf("cwd%d", i))
		home := filepath.Join(base, fmt.Sprintf("home%d", i))
		_ = os.MkdirAll(filepath.Join(home, ".config", "ps3netsrv-go"), 0o755)
		_ = os.MkdirAll(cwd, 0o755)
		_ = os.WriteFile(filepath.Join(cwd, "iscwd"), []byte("x"), 0o644)
		envv := baseEnv(home)
		args := []string{"server"}
		listen := fmt.Sprintf("127.0.0.1:%d", p1)
		if s.flag != "listen-addr" {
			args = append(args, "--listen-addr", listen)
		}
		if s.flag != "root" { // a root we can write into, away from the cwd
			args = append(args, "--root", rootA)
		}
		for ch, v := range assign {
			switch ch {
			case "flag":
				if s.boolean {
					args = append(args, "--"+s.flag+"="+v)
				} else {
					args = append(args, "--"+s.flag, v)
				}
			case "env":
				envv = append(envv, s.env+"="+v)
			case "cfgfile":
				p := filepath.Join(base, fmt.Sprintf("explicit%d.ini", i))
				_ = iniFile(p, map[string]string{s.flag: v})
				args = append(args, "--config", p)
			case "envfile":
				p := filepath.Join(base, fmt.Sprintf("envsel%d.ini", i))
				_ = iniFile(p, map[string]string{s.flag: v})
				envv = append(envv, "PS3NETSRV_CONFIG_FILE="+p)
			case "cwdini":
				_ = iniFile(filepath.Join(cwd, "config.ini"), map[string]string{s.flag: v})
			case "userini":
				_ = iniFile(filepath.Join(home, ".config", "ps3netsrv-go", "config.ini"), map[string]string{s.flag: v})
			}
		}
		run, err := startBin(cwd, envv, args...)
		if err != nil {
			return err
		}
		// where does it listen?
		addrs := []string{listen}
		if s.flag == "listen-addr" {
			addrs = []string{s.vals[0], s.vals[1]}
		}
		up := ""
		deadline := time.Now().Add(4 * time.Second)
		for up == "" && time.Now().Before(deadline) && !run.Exited() {
			for _, a := range addrs {
				if c, err := net.DialTimeout("tcp", a, 50*time.Millisecond); err == nil {
					c.Close()
					up = a
					break
				}
			}
			if up == "" {
				time.Sleep(20 * time.Millisecond)
			}
		}
		observed := ""
		switch {
		case up == "" && run.Exited():
			observed = "ERR"
		case up == "":
			observed = "?no-listener"
		default:
			observed = classifySetting(s, up, run, rootA)
		}
		exited := run.Exited()
		run.Kill()
		out := run.Out() + run.Err()
		if strings.Contains(out, "goroutine ") && strings.Contains(out, "panic") {
			env.OracleFail(id, "[C04-cli] the binary printed a Go traceback: "+trim(out, 300))
		}
		// model input
		get := func(ch string) string {
			if v, ok := assign[ch]; ok {
				return hx([]byte(v))
			}
			return "!"
		}
		explicit := get("cfgfile")
		if explicit == "!" {
			explicit = get("envfile")
		}
		def := "!"
		if s.def != "" {
			def = hx([]byte(s.def))
		}
		fields := []string{get("flag"), get("userini"), get("cwdini"), explicit, get("env"), def, hx([]byte(badValue))}
		// observed value in the model's terms
		obs := observed
		switch observed {
		case "ERR", "?no-listener":
		case "default":
			if s.def != "" {
				obs = hx([]byte(s.def))
			} else {
				obs = "NONE"
			}
		default:
			obs = hx([]byte(observed))
		}
		// booleans: "false" and the unset default are the same behaviour
		if s.boolean && obs == hx([]byte("false")) {
			// keep as is: the model yields "false" only when some channel said so; otherwise NONE
			if len(assign) == 0 {
				obs = "NONE"
			}
		}
		env.Case(id, "CONFIG", fields, obs, true)
		// direct oracle: the documented precedence (flag first) and fail-closed
		if mode == "malformed" && observed != "ERR" {
			env.OracleFail(id, fmt.Sprintf("[C19-failclosed] %s=%q via %s: start-up did not stop (observed %s, exited=%v)", s.flag, badValue, c1, observed, exited))
		}
		if v, ok := assign["flag"]; ok && mode != "malformed" && observed != v {
			env.OracleFail(id, fmt.Sprintf("[C19-flagwins] %s: flag says %q, channels %v, effective %q", s.flag, v, assign, observed))
		}
		if mode == "pair" {
			// the documented order: command line, then the explicitly selected file (--config / PS3NETSRV_CONFIG_FILE), then
			// ./config.ini, then the file in the user configuration directory, then the environment
			best, bestRank := "", -1
			for ch := range assign {
				if rank[ch] > bestRank {
					best, bestRank = ch, rank[ch]
				}
			}
			if want := assign[best]; observed != want && !(s.boolean && want == "false" && observed == "default") {
				env.OracleFail(id, fmt.Sprintf("[C19-precedence] %s set to %v: %s should win with %q, effective %q", s.flag, assign, best, want, observed))
			}
		}
		if mode == "single" && observed != s.vals[0] {
			env.OracleFail(id, fmt.Sprintf("[C19-channel] %s=%q given via %s only: effective %q", s.flag, s.vals[0], c1, observed))
		}
		env.Count("setting", s.flag)
		env.Count("mode", mode)
		for ch := range assign {
			env.Count("channel", ch)
		}
		if i < 3 {
			env.Sample(map[string]any{"id": id, "setting": s.flag, "mode": mode, "channels": assign, "effective": observed})
		}
	}
	return nil
}

// classifySetting reads the effective value of one setting off the behaviour of the running server.
func classifySetting(s cfgSetting, addr string, run *binRun, writableRoot string) string {
	stat := func(c *wireClient, p string) bool {
		b, err := c.roundTrip(&Req{Op: opStatFile, Path: p}, 33, 500*time.Millisecond)
		return err == nil && len(b) == 33 && int64(binary.BigEndian.Uint64(b[:8])) != -1
	}
	switch s.flag {
	case "listen-addr":
		return addr
	case "root":
		c, err := dialFrom("", addr)
		if err != nil {
			return "?dial"
		}
		defer c.Close()
		switch {
		case stat(c, "/isrootA"):
			return s.vals[0]
		case stat(c, "/isrootB"):
			return s.vals[1]
		case stat(c, "/iscwd"):
			return "default"
		}
		return "?root"
	case "allow-write":
		c, err := dialFrom("", addr)
		if err != nil {
			return "?dial"
		}
		defer c.Close()
		name := fmt.Sprintf("/mk%d", time.Now().UnixNano())
		b, err := c.roundTrip(&Req{Op: opMkdir, Path: name}, 4, 500*time.Millisecond)
		if err != nil || len(b) != 4 {
			return "?mkdir"
		}
		if binary.BigEndian.Uint32(b) == 0 {
			_ = os.Remove(filepath.Join(writableRoot, name))
			return "true"
		}
		return "false"
	case "max-clients":
		var cs []*wireClient
		served := 0
		for k := 0; k < 3; k++ {
			c, err := dialFrom("", addr)
			if err != nil {
				break
			}
			cs = append(cs, c)
			if stat(c, "/isrootA") {
				served++
			}
		}
		for _, c := range cs {
			c.Close()
		}
		switch served {
		case 1:
			return "1"
		case 2:
			return "2"
		case 3:
			return "default"
		}
		return fmt.Sprintf("?served%d", served)
	case "client-whitelist":
		ok := func(local string) bool {
			c, err := dialFrom(local, addr)
			if err != nil {
				return false
			}
			defer c.Close()
			return stat(c, "/isrootA")
		}
		a, b, c3 := ok("127.0.0.1"), ok("127.0.0.2"), ok("127.0.0.3")
		switch {
		case a && b && c3:
			return "default"
		case a && !b && !c3:
			return "127.0.0.1"
		case !a && b && !c3:
			return "127.0.0.2"
		}
		return fmt.Sprintf("?wl%v%v%v", a, b, c3)
	case "read-timeout":
		c, err := dialFrom("", addr)
		if err != nil {
			return "?dial"
		}
		defer c.Close()
		start := time.Now()
		c.readAll(1500 * time.Millisecond)
		if time.Since(start) < 1200*time.Millisecond {
			return "400ms"
		}
		return "5s" // 5s and the 10m default are both "not cut within 1.2 s"
	case "debug", "json-log":
		c, err := dialFrom("", addr)
		if err == nil {
			stat(c, "/isrootA")
			c.Close()
		}
		time.Sleep(60 * time.Millisecond)
		out := run.Out()
		if s.flag == "json-log" {
			if strings.HasPrefix(strings.TrimSpace(out), "{") {
				return "true"
			}
			return "false"
		}
		if strings.Contains(out, "DBG") || strings.Contains(out, "DEBUG") {
			return "true"
		}
		return "false"
	case "debug-server-listen-addr":
		for _, a := range s.vals {
			cl := http.Client{Timeout: 400 * time.Millisecond}
			if resp, err := cl.Get("http://" + a + "/debug/pprof/cmdline"); err == nil {
				resp.Body.Close()
				return a
			}
		}
		return "default"
	}
	return "?"
}
