//go:build verif

package main

import (
	"bytes"
	"encoding/binary"
	"fmt"
	"io"
	"net"
	"os"
	"path/filepath"
	"runtime"
	"sync"
	"time"

	"github.com/spf13/afero"

	pfs "github.com/xakep666/ps3netsrv-go/pkg/fs"
)

// Job sharedimg — C12 for "the same generated image": several clients open the same directory as a generated image
// at the same moment (released together, while the tree is still being scanned for the first of them), then read
// different ranges in an interleaved order, and some of them close their file or drop the connection while the
// others go on.  Every answer must be the bytes of the image as a lone client sees it (the two volume time fields
// masked): no client's read position, open state or end of session may show in another client's answers.
// Oracle-only (the session model serves plain files).
func init() { subcmds["sharedimg"] = runSharedImg }

func runSharedImg(env *Env) error {
	base, err := os.MkdirTemp("", "vshared")
	if err != nil {
		return err
	}
	defer os.RemoveAll(base)
	for i := 0; i < env.N; i++ {
		id := fmt.Sprintf("shared-%d", i)
		top := filepath.Join(base, fmt.Sprintf("w%d", i))
		// a tree large enough for its scan to take a while: a few hundred files in a few dozen directories
		dvd := genIsoTree(env, isoShape{depth: 2, maxKids: 6, wide: 60 + env.Rnd.Intn(120), manyDirs: 20 + env.Rnd.Intn(40)}, "dvd")
		// ... and, in turn, an encrypted image with its key file and a 3k3y image: the decrypting views are per connection as well
		c := pfs.VerifConsts
		discKey := make([]byte, 16)
		env.Rnd.Read(discKey)
		key := refDeriveKey(discKey)
		nsec := 200 + env.Rnd.Intn(300)
		regs := [][2]uint32{{0, 3}, {uint32(40 + env.Rnd.Intn(30)), uint32(90 + env.Rnd.Intn(30))}, {uint32(150 + env.Rnd.Intn(40)), uint32(nsec)}}
		mkEnc := func(watermark []byte) (content, plainView []byte) {
			plain := make([]byte, nsec*2048)
			env.Rnd.Read(plain)
			copy(plain, regionTable(uint32(len(regs)), regs))
			if watermark != nil {
				copy(plain[c.MaskedDataBegin+c.WatermarkPlacement:], watermark)
				copy(plain[c.MaskedDataBegin+c.EncryptionKeyPlacement:], discKey)
			}
			content = append([]byte(nil), plain...)
			for k := 1; k < len(regs); k++ {
				for s := int(regs[k-1][1]); s < int(regs[k][0]); s++ {
					copy(content[s*2048:], refEncryptSector(key, s, plain[s*2048:(s+1)*2048]))
				}
			}
			plainView = append([]byte(nil), plain...)
			if watermark != nil {
				for p := c.MaskedDataBegin; p < c.MaskedDataBegin+c.MaskedDataSize; p++ {
					plainView[p] = 0
				}
			}
			return content, plainView
		}
		redump, redumpView := mkEnc(nil)
		k3enc, k3encView := mkEnc(c.EncWatermark)
		w := &WNode{Dir: true, MTime: 1300000000, Kids: []*WNode{{Name: "R", Dir: true, MTime: 1500000000, Kids: []*WNode{dvd,
			{Name: "PS3ISO", Dir: true, MTime: 1500000001, Kids: []*WNode{
				{Name: "g.iso", MTime: 1400000001, Content: lit(redump)}, {Name: "g.dkey", MTime: 1400000002, Content: lit([]byte(fmt.Sprintf("%x", discKey)))}}},
			{Name: "iso3k", Dir: true, MTime: 1500000004, Kids: []*WNode{{Name: "enc.iso", MTime: 1400000006, Content: lit(k3enc)}}}}}}}
		if err := w.Materialise(top); err != nil {
			env.Count("skipped", "materialise")
			continue
		}
		mode := []string{"/***DVD***/dvd", "/***DVD***/dvd", "***DVD***/dvd", "/PS3ISO/g.iso", "/iso3k/enc.iso"}[i%5]
		// the image as a lone client sees it (through the same filesystem double: the layout follows the enumeration order)
		fsys := &pfs.FS{Fs: afero.NewBasePathFs(NewDoubleFs(time.Unix(tmutUnix, 0)), filepath.Join(top, "R"))}
		var view []byte
		if f, err := fsys.Open("/***DVD***/dvd"); err == nil {
			var b bytes.Buffer
			_, _ = io.Copy(&b, struct{ io.Reader }{f})
			f.Close()
			view = b.Bytes()
		}
		if len(view) == 0 {
			env.Count("skipped", "no reference view")
			os.RemoveAll(top)
			continue
		}
		timeFields := true
		switch mode {
		case "/PS3ISO/g.iso":
			view, timeFields = redumpView, false
		case "/iso3k/enc.iso":
			view, timeFields = k3encView, false
		}
		env.Count("object", mode)
		maskTimes := func(off int64, b []byte) []byte {
			c := append([]byte(nil), b...)
			if !timeFields {
				return c
			}
			for _, s := range []int64{16, 17} {
				for p := s*2048 + 813; p < s*2048+847; p++ {
					if p >= off && p-off < int64(len(c)) {
						c[p-off] = 0
					}
				}
			}
			return c
		}
		procs := []int{2, 4, 8}[env.Rnd.Intn(3)]
		old := runtime.GOMAXPROCS(procs)
		ls := NewLibServer(filepath.Join(top, "R"), false, time.Unix(tmutUnix, 0), 0, 65536)
		k := 2 + env.Rnd.Intn(5)
		var failMu sync.Mutex
		nfail := 0
		fail := func(msg string) {
			failMu.Lock()
			defer failMu.Unlock()
			if nfail < 4 {
				env.OracleFail(id, msg)
			}
			nfail++
		}
		conns := make([]net.Conn, k)
		openAll := func(who []int) bool {
			start := make(chan struct{})
			var wg sync.WaitGroup
			okAll := true
			for _, c := range who {
				wg.Add(1)
				go func(c int) {
					defer wg.Done()
					<-start
					q := &Req{Op: opOpenFile, Path: mode, Junk: make([]byte, 14)}
					_ = conns[c].SetDeadline(time.Now().Add(30 * time.Second))
					if _, err := conns[c].Write(q.Wire()); err != nil {
						fail(fmt.Sprintf("[C12-shared] client %d: OPEN_FILE refused: %v", c, err))
						okAll = false
						return
					}
					res := make([]byte, 16)
					if _, err := io.ReadFull(conns[c], res); err != nil {
						fail(fmt.Sprintf("[C12-shared] client %d: no answer to OPEN_FILE of %s while %d other clients open it too: %v", c, mode, len(who)-1, err))
						okAll = false
						return
					}
					if sz := int64(binary.BigEndian.Uint64(res)); sz != int64(len(view)) {
						fail(fmt.Sprintf("[C12-shared] client %d: OPEN_FILE of %s announced %d bytes while %d other clients open it too; alone it is %d bytes", c, mode, sz, len(who)-1, len(view)))
						okAll = false
					}
				}(c)
			}
			close(start)
			wg.Wait()
			return okAll
		}
		read := func(c int, off, n int64) bool {
			q := &Req{Op: opReadFile, N: uint32(n), Off: uint64(off), Junk: make([]byte, 14)}
			_ = conns[c].SetDeadline(time.Now().Add(30 * time.Second))
			if _, err := conns[c].Write(q.Wire()); err != nil {
				fail(fmt.Sprintf("[C12-shared] client %d: READ_FILE refused: %v", c, err))
				return false
			}
			var hd [4]byte
			if _, err := io.ReadFull(conns[c], hd[:]); err != nil {
				fail(fmt.Sprintf("[C12-shared] client %d: READ_FILE(%d,%d) of the shared image got no answer (another client had closed its file or gone): %v", c, n, off, err))
				return false
			}
			cnt := int64(int32(binary.BigEndian.Uint32(hd[:])))
			want := []byte{}
			if off < int64(len(view)) {
				want = view[off:min(int64(len(view)), off+n)]
			}
			if cnt != int64(len(want)) {
				fail(fmt.Sprintf("[C12-shared] client %d: READ_FILE(%d,%d) of the shared image announces %d bytes, alone it has %d there", c, n, off, cnt, len(want)))
				return false
			}
			got := make([]byte, cnt)
			if _, err := io.ReadFull(conns[c], got); err != nil {
				fail(fmt.Sprintf("[C12-shared] client %d: answer cut short: %v", c, err))
				return false
			}
			if !bytes.Equal(maskTimes(off, got), maskTimes(off, want)) {
				d := firstDiff(maskTimes(off, got), maskTimes(off, want))
				fail(fmt.Sprintf("[C12-shared] client %d: READ_FILE(%d,%d) of the image %d clients have open: byte %d of the answer differs from the image a lone client reads (another client's position or state shows)", c, n, off, k, d))
				return false
			}
			return true
		}
		for c := 0; c < k; c++ {
			a, b := net.Pipe()
			ls.Connect(b)
			conns[c] = a
		}
		all := make([]int, k)
		for c := range all {
			all[c] = c
		}
		ok := openAll(all)
		alive := map[int]bool{}
		for c := 0; c < k; c++ {
			alive[c] = true
		}
		nreads, nleft, nreopen := 0, 0, 0
		size := int64(len(view))
		for rd := 0; rd < 12+env.Rnd.Intn(20) && ok; rd++ {
			for _, c := range env.Rnd.Perm(k) {
				if !alive[c] || !ok {
					continue
				}
				var off, n int64
				switch env.Rnd.Intn(4) {
				case 0:
					off, n = int64(env.Rnd.Intn(int(size/2048)+1))*2048, int64(1+env.Rnd.Intn(8))*2048
				case 1:
					off, n = size-int64(env.Rnd.Intn(5000)), int64(1+env.Rnd.Intn(9000))
				default:
					off, n = env.Rnd.Int63n(size), int64(1+env.Rnd.Intn(70000))
				}
				if off < 0 {
					off = 0
				}
				ok = read(c, off, n)
				nreads++
			}
			// now and then one client closes its file (CLOSEFILE), or drops the connection; sometimes it comes back and opens again
			if rd%4 == 1 && ok {
				var live []int
				for c := 0; c < k; c++ {
					if alive[c] {
						live = append(live, c)
					}
				}
				if len(live) > 1 {
					c := live[env.Rnd.Intn(len(live))]
					if env.Rnd.Intn(2) == 0 {
						q := &Req{Op: opOpenFile, Path: "/CLOSEFILE", Junk: make([]byte, 14)}
						_, _ = conns[c].Write(q.Wire())
						_, _ = io.ReadFull(conns[c], make([]byte, 16))
					}
					conns[c].Close()
					alive[c] = false
					nleft++
					if env.Rnd.Intn(2) == 0 { // comes back on a new connection, opening together with one more newcomer
						a, b := net.Pipe()
						ls.Connect(b)
						conns[c] = a
						alive[c] = true
						nreopen++
						ok = openAll([]int{c})
					}
				}
			}
		}
		for c := 0; c < k; c++ {
			if conns[c] != nil {
				conns[c].Close()
			}
		}
		for c := 0; c < k+nreopen; c++ {
			ls.WaitDisconnect(5 * time.Second)
		}
		if l := ls.Dfs.Live(); l != 0 {
			fail(fmt.Sprintf("[C13-leak] %d handles still open after all clients of the shared image have gone", l))
		}
		ls.Stop()
		runtime.GOMAXPROCS(old)
		env.Case(id, "NOMODEL", []string{fmt.Sprintf("%d clients, %d reads, %d left, %d came back, image of %d bytes, GOMAXPROCS %d", k, nreads, nleft, nreopen, size, procs)}, fmt.Sprintf("ok=%v", ok && nfail == 0), true)
		env.Count("clients", fmt.Sprint(k))
		env.Count("gomaxprocs", fmt.Sprint(procs))
		if i < 2 {
			env.Sample(map[string]any{"id": id, "clients": k, "reads": nreads, "left": nleft, "came_back": nreopen, "image_bytes": size, "gomaxprocs": procs})
		}
		os.RemoveAll(top)
	}
	return nil
}
