//go:build verif

package main

import (
	"bytes"
	"errors"
	"fmt"
	"io"
	"os"
	"path/filepath"
	"sort"
	"strings"

	"github.com/spf13/afero"

	pfs "github.com/xakep666/ps3netsrv-go/pkg/fs"
)

func init() { subcmds["viso"] = runViso }

var visoSizes = []int{0, 1, 2047, 2048, 2049, 100, 3000, 4096, 65535, 65536, 65537}

// a flat directory of nf files (plus optional sub-directory) with boundary sizes
func genVisoTree(env *Env, nf int, huge bool) *WNode {
	d := &WNode{Name: "img", Dir: true, MTime: 1500000000}
	for i := 0; i < nf; i++ {
		var c Content
		n := visoSizes[env.Rnd.Intn(len(visoSizes))]
		if env.Rnd.Intn(5) == 0 {
			n = env.Rnd.Intn(10000)
		}
		c = Content{{Kind: 'g', N: n, A: env.Rnd.Intn(256)}}
		if huge && i == nf/2 {
			// a sparse file past 4 GiB with data at both ends
			hole := int(int64(4)<<30) - 2048 + env.Rnd.Intn(3)*2048 + env.Rnd.Intn(3) - 1
			c = Content{{Kind: 'g', N: 3000, A: 7}, {Kind: 'z', N: hole}, {Kind: 'g', N: 1000 + env.Rnd.Intn(3000), A: 9}}
		}
		d.Kids = append(d.Kids, &WNode{Name: fmt.Sprintf("f%02d.bin", i), MTime: 1400000000 + int64(i), Content: c})
	}
	if env.Rnd.Intn(2) == 0 {
		sub := &WNode{Name: "sub", Dir: true, MTime: 1500000001}
		ns := env.Rnd.Intn(3)
		for i := 0; i < ns; i++ {
			n := visoSizes[env.Rnd.Intn(len(visoSizes))]
			sub.Kids = append(sub.Kids, &WNode{Name: fmt.Sprintf("s%d", i), MTime: 1400000100, Content: Content{{Kind: 'g', N: n, A: env.Rnd.Intn(256)}}})
		}
		d.Kids = append(d.Kids, sub)
	}
	return d
}

type visoOp struct {
	kind   byte // r, s, a
	n, off int64
	wh     int
}

func (o visoOp) String() string {
	switch o.kind {
	case 'r':
		return fmt.Sprintf("r:%d", o.n)
	case 's':
		return fmt.Sprintf("s:%d:%d", o.off, o.wh)
	default:
		return fmt.Sprintf("a:%d:%d", o.n, o.off)
	}
}

func pickLen(env *Env) int64 {
	ls := []int64{1, 2, 15, 16, 100, 512, 2047, 2048, 2049, 4096, 65536, 65537}
	switch env.Rnd.Intn(8) {
	case 0:
		return 1 + env.Rnd.Int63n(1<<20)
	case 1:
		return 1 + env.Rnd.Int63n(5000)
	default:
		return ls[env.Rnd.Intn(len(ls))]
	}
}

func runViso(env *Env) error {
	base, err := os.MkdirTemp("", "vviso")
	if err != nil {
		return err
	}
	defer os.RemoveAll(base)
	for i := 0; i < env.N; i++ {
		id := fmt.Sprintf("viso-%d", i)
		top := filepath.Join(base, fmt.Sprintf("t%d", i))
		huge := env.Tier == "thorough" && i%25 == 7 || i == 3
		nf := env.Rnd.Intn(5)
		if i%7 == 0 {
			nf = 5 + env.Rnd.Intn(20)
		}
		tree := genVisoTree(env, nf, huge)
		w := &WNode{Dir: true, MTime: 1300000000, Kids: []*WNode{tree}}
		if err := w.Materialise(top); err != nil {
			return err
		}
		fsys := &pfs.FS{Fs: afero.NewBasePathFs(afero.NewOsFs(), top)}
		f, err := fsys.Open("/***DVD***/img")
		if err != nil {
			env.OracleFail(id, "[C09-open] cannot open the generated image: "+err.Error())
			os.RemoveAll(top)
			continue
		}
		viso, ok := f.(*pfs.VirtualISO)
		if !ok {
			return fmt.Errorf("not a VirtualISO")
		}
		fsBuf, files, padStart, padSize, total := pfs.VerifVisoInternals(viso)
		st, _ := f.Stat()
		if st.Size() != total {
			env.OracleFail(id, fmt.Sprintf("[C09-size] announced size %d, total %d", st.Size(), total))
		}
		// content of each file by path
		content := map[string]Content{}
		tree.Walk(func(rel string, x *WNode) {
			if !x.Dir {
				content["/img"+rel] = x.Content
			}
		})
		// structural boundaries
		bounds := []int64{0, int64(len(fsBuf)), padStart, total, total - 1, total + 1}
		for _, vf := range files {
			s := vf.RLBA * 2048
			bounds = append(bounds, s, s+vf.Size, s+(vf.Size+2047)/2048*2048)
		}
		pickOff := func() int64 {
			b := bounds[env.Rnd.Intn(len(bounds))] + int64(env.Rnd.Intn(5)) - 2
			if env.Rnd.Intn(6) == 0 {
				b = env.Rnd.Int63n(total + 10)
			}
			if b < 0 {
				b = 0
			}
			return b
		}
		// canonical image for the direct oracle (small images only): sequential 2048-byte positional reads
		var canon []byte
		if total <= 64<<20 {
			canon = make([]byte, 0, total)
			buf := make([]byte, 2048)
			for off := int64(0); off < total; off += 2048 {
				n, err := viso.ReadAt(buf, off)
				if err != nil && !errors.Is(err, io.EOF) || n != 2048 {
					env.OracleFail(id, fmt.Sprintf("[C09-canon] sequential ReadAt(2048, %d) returned n=%d err=%v", off, n, err))
					break
				}
				canon = append(canon, buf[:n]...)
			}
			// the canonical image carries every file's bytes at its location, zero padded (also part of C07)
			for _, vf := range files {
				c := content[vf.Path]
				s := vf.RLBA * 2048
				want := c.Bytes()
				pe := s + (vf.Size+2047)/2048*2048
				if int64(len(canon)) >= pe {
					if !bytes.Equal(canon[s:s+vf.Size], want) {
						env.OracleFail(id, fmt.Sprintf("[C09-canon] bytes of %s at %d differ from the file", vf.Path, s))
					}
					if !bytes.Equal(canon[s+vf.Size:pe], make([]byte, pe-s-vf.Size)) {
						env.OracleFail(id, fmt.Sprintf("[C09-canon] padding of %s is not zero", vf.Path))
					}
				}
			}
		}
		expect := func(off, n int64) []byte { // slice of the flat image, from the canonical image or the files
			if off >= total {
				return nil
			}
			if off+n > total {
				n = total - off
			}
			if canon != nil && int64(len(canon)) == total {
				return canon[off : off+n]
			}
			out := make([]byte, n)
			for j := int64(0); j < n; j++ {
				p := off + j
				switch {
				case p < int64(len(fsBuf)):
					out[j] = fsBuf[p]
				case p < padStart:
					k := sort.Search(len(files), func(x int) bool { return files[x].RLBA*2048+(files[x].Size+2047)/2048*2048 > p })
					if k < len(files) && p-files[k].RLBA*2048 < files[k].Size {
						out[j] = content[files[k].Path].At(p - files[k].RLBA*2048)
					}
				}
			}
			return out
		}
		// operation sequence
		nops := 5 + env.Rnd.Intn(40)
		var ops []visoOp
		var obs []string
		cur := int64(0)
		touched := map[string]bool{}
		for k := 0; k < nops; k++ {
			var op visoOp
			switch env.Rnd.Intn(10) {
			case 0, 1, 2, 3:
				op = visoOp{kind: 'r', n: pickLen(env)}
			case 4, 5, 6:
				op = visoOp{kind: 'a', n: pickLen(env), off: pickOff()}
			default:
				wh := env.Rnd.Intn(3)
				if env.Rnd.Intn(15) == 0 {
					wh = 3 + env.Rnd.Intn(2)
				}
				var off int64
				switch wh {
				case 0:
					off = pickOff()
				case 1:
					off = pickOff() - cur
				default:
					off = pickOff() - total
				}
				if env.Rnd.Intn(10) == 0 {
					off = -off - 1
				}
				op = visoOp{kind: 's', off: off, wh: wh}
			}
			ops = append(ops, op)
			res, panicked := visoApply(viso, op)
			if panicked != "" {
				env.OracleFail(id, fmt.Sprintf("[C09-panic] %s panicked: %s", op, panicked))
				obs = append(obs, "PANIC")
				break
			}
			// direct oracle: reference cursor semantics over the canonical image
			var want string
			switch op.kind {
			case 'r', 'a':
				at := cur
				if op.kind == 'a' {
					at = op.off
				}
				if at >= total {
					want = "E"
				} else {
					e := expect(at, op.n)
					want = "D" + digestOut(e)
					if op.kind == 'r' {
						cur += int64(len(e))
					}
				}
				zone := func(p int64) string {
					switch {
					case p < int64(len(fsBuf)):
						return "meta"
					case p < padStart:
						return "files"
					default:
						return "pad"
					}
				}
				if at < total {
					touched[zone(at)] = true
					e := at + op.n - 1
					if e >= total {
						e = total - 1
					}
					touched[zone(e)] = true
				}
			case 's':
				var t int64
				switch op.wh {
				case 0:
					t = op.off
				case 1:
					t = cur + op.off
				case 2:
					t = total + op.off
				default:
					t = -1
				}
				if op.wh > 2 || t < 0 || t > total {
					want = "X"
				} else {
					want = fmt.Sprintf("P%d", t)
					cur = t
				}
			}
			if res != want {
				env.OracleFail(id, fmt.Sprintf("[C09-slice] %s at cursor state: got %s, the flat image says %s", op, trim(res, 60), trim(want, 60)))
			}
			obs = append(obs, res)
		}
		f.Close()
		var fl []string
		for _, vf := range files {
			fl = append(fl, fmt.Sprintf("%d:%d:%s", vf.Size, vf.RLBA, content[vf.Path].Spec()))
		}
		var os_ []string
		for _, o := range ops {
			os_ = append(os_, o.String())
		}
		fields := []string{lit(fsBuf).Spec(), strings.Join(fl, ";"), fmt.Sprint(padStart), fmt.Sprint(padSize), fmt.Sprint(total), strings.Join(os_, ",")}
		env.Case(id, "VISO", fields, strings.Join(obs, ","), len(touched) >= 2)
		env.Count("files", fmt.Sprint(len(files)))
		env.Count("zones_touched", fmt.Sprint(len(touched)))
		env.Count("huge", fmt.Sprint(huge))
		if i < 3 {
			env.Sample(map[string]any{"id": id, "files": fl, "total": total, "ops": os_[:min(len(os_), 8)], "observed": trim(strings.Join(obs, ","), 200)})
		}
		os.RemoveAll(top)
	}
	return nil
}

func visoApply(v *pfs.VirtualISO, op visoOp) (res string, panicked string) {
	defer func() {
		if r := recover(); r != nil {
			panicked = fmt.Sprint(r)
		}
	}()
	switch op.kind {
	case 'r':
		buf := make([]byte, op.n)
		n, err := v.Read(buf)
		return visoRes(buf[:n], n, err), ""
	case 'a':
		buf := make([]byte, op.n)
		n, err := v.ReadAt(buf, op.off)
		return visoRes(buf[:n], n, err), ""
	default:
		p, err := v.Seek(op.off, op.wh)
		if err != nil {
			return "X", ""
		}
		return fmt.Sprintf("P%d", p), ""
	}
}

func visoRes(b []byte, n int, err error) string {
	switch {
	case err == nil:
		return "D" + digestOut(b)
	case errors.Is(err, io.EOF) && n == 0:
		return "E"
	default:
		return "X"
	}
}
