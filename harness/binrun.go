//go:build verif

package main

import (
	"bytes"
	"fmt"
	"io"
	"net"
	"os"
	"os/exec"
	"strings"
	"sync"
	"time"
)

// binRun is one start of the real ps3netsrv-go binary.
type binRun struct {
	cmd    *exec.Cmd
	mu     sync.Mutex
	stdout bytes.Buffer
	stderr bytes.Buffer
	done   chan struct{}
	err    error
}

type lockedWriter struct {
	mu *sync.Mutex
	b  *bytes.Buffer
}

func (w lockedWriter) Write(p []byte) (int, error) {
	w.mu.Lock()
	defer w.mu.Unlock()
	return w.b.Write(p)
}

func binPath() string {
	if p := os.Getenv("VERIF_BIN"); p != "" {
		return p
	}
	return "/verif/build/ps3netsrv-go"
}

func startBin(dir string, env []string, args ...string) (*binRun, error) {
	r := &binRun{done: make(chan struct{})}
	r.cmd = exec.Command(binPath(), args...)
	r.cmd.Dir = dir
	r.cmd.Env = env
	r.cmd.Stdout = lockedWriter{&r.mu, &r.stdout}
	r.cmd.Stderr = lockedWriter{&r.mu, &r.stderr}
	if err := r.cmd.Start(); err != nil {
		return nil, err
	}
	go func() { r.err = r.cmd.Wait(); close(r.done) }()
	return r, nil
}

// startShell runs a shell command line (used to put a resource limit in front of the binary).
func startShell(dir, script string) (*binRun, error) {
	r := &binRun{done: make(chan struct{})}
	r.cmd = exec.Command("/bin/sh", "-c", script)
	r.cmd.Dir = dir
	r.cmd.Env = baseEnv(dir)
	r.cmd.Stdout = lockedWriter{&r.mu, &r.stdout}
	r.cmd.Stderr = lockedWriter{&r.mu, &r.stderr}
	if err := r.cmd.Start(); err != nil {
		return nil, err
	}
	go func() { r.err = r.cmd.Wait(); close(r.done) }()
	return r, nil
}

func (r *binRun) Out() string {
	r.mu.Lock()
	defer r.mu.Unlock()
	return r.stdout.String()
}

func (r *binRun) Err() string {
	r.mu.Lock()
	defer r.mu.Unlock()
	return r.stderr.String()
}

func (r *binRun) Exited() bool {
	select {
	case <-r.done:
		return true
	default:
		return false
	}
}

func (r *binRun) Kill() {
	if !r.Exited() {
		_ = r.cmd.Process.Kill()
		<-r.done
	}
}

// waitPort waits until something accepts on addr, the process exits, or the timeout passes.
func (r *binRun) waitPort(addr string, timeout time.Duration) bool {
	deadline := time.Now().Add(timeout)
	for time.Now().Before(deadline) {
		if r.Exited() {
			return false
		}
		c, err := net.DialTimeout("tcp", addr, 100*time.Millisecond)
		if err == nil {
			c.Close()
			return true
		}
		time.Sleep(15 * time.Millisecond)
	}
	return false
}

func freePort() int {
	l, err := net.Listen("tcp", "127.0.0.1:0")
	if err != nil {
		return 0
	}
	defer l.Close()
	return l.Addr().(*net.TCPAddr).Port
}

// wireClient is a tiny client of the protocol over real TCP.
type wireClient struct{ c net.Conn }

func dialFrom(local, addr string) (*wireClient, error) {
	d := net.Dialer{Timeout: time.Second}
	if local != "" {
		d.LocalAddr = &net.TCPAddr{IP: net.ParseIP(local)}
	}
	c, err := d.Dial("tcp", addr)
	if err != nil {
		return nil, err
	}
	return &wireClient{c}, nil
}

func (w *wireClient) Close() { w.c.Close() }

// roundTrip sends a request and reads exactly n bytes (or fewer on close/timeout).
func (w *wireClient) roundTrip(q *Req, n int, timeout time.Duration) ([]byte, error) {
	if q.Junk == nil {
		q.Junk = make([]byte, 14)
	}
	_ = w.c.SetDeadline(time.Now().Add(timeout))
	if _, err := w.c.Write(q.Wire()); err != nil {
		return nil, err
	}
	buf := make([]byte, n)
	k, err := io.ReadFull(w.c, buf)
	return buf[:k], err
}

func (w *wireClient) readAll(timeout time.Duration) []byte {
	_ = w.c.SetDeadline(time.Now().Add(timeout))
	b, _ := io.ReadAll(w.c)
	return b
}

func baseEnv(home string) []string {
	return []string{"PATH=" + os.Getenv("PATH"), "HOME=" + home, "XDG_CONFIG_HOME=" + home + "/.config", "TZ=UTC"}
}

func iniFile(path string, kv map[string]string) error {
	var sb strings.Builder
	sb.WriteString("[server]\n")
	for k, v := range kv {
		fmt.Fprintf(&sb, "%s = %s\n", k, v)
	}
	return os.WriteFile(path, []byte(sb.String()), 0o644)
}
