//go:build verif

package main

import (
	"errors"
	"io"
	"os"
	"path/filepath"
	"sort"
	"sync"
	"syscall"
	"time"

	"github.com/spf13/afero"
)

// DoubleFs is the filesystem double placed *under* afero.BasePathFs (where cmd/ps3netsrv-go
// puts afero.NewOsFs()).  It is the real OS filesystem with three normalisations that make
// runs reproducible — sorted enumeration, a frozen clock for mutations, a fixed size for
// directories — plus a ledger of open handles, a log of control operations and fault injection.
type DoubleFs struct {
	inner afero.Fs
	TMut  time.Time

	mu      sync.Mutex
	live    map[*DoubleFile]string
	Opens   int
	Closes  int
	Tick    int          // control operations seen so far
	FailAt  map[int]bool // control operation indices that fail with EIO
	CloseErr bool        // every Close reports EIO (after releasing the handle)
	BadFrom map[string]int64 // absolute file name -> first unreadable offset
	MaxRead int              // >0: reads return at most this many bytes (short reads)
	ShortAt map[string]int   // absolute file name -> positional reads of this file return at most this many bytes, without an error
	Log     []string
	LogOn   bool
}

const dirSizeConst = 4096

func NewDoubleFs(tmut time.Time) *DoubleFs {
	return &DoubleFs{inner: afero.NewOsFs(), TMut: tmut, live: map[*DoubleFile]string{}, FailAt: map[int]bool{}, BadFrom: map[string]int64{}, ShortAt: map[string]int{}}
}

var errInjected = &os.PathError{Op: "injected", Path: "", Err: syscall.EIO}

// control marks one control operation; returns true when it must fail
func (d *DoubleFs) control(op, name string) bool {
	d.mu.Lock()
	defer d.mu.Unlock()
	i := d.Tick
	d.Tick++
	if d.LogOn {
		d.Log = append(d.Log, op+" "+name)
	}
	return d.FailAt[i]
}

func (d *DoubleFs) Live() int {
	d.mu.Lock()
	defer d.mu.Unlock()
	return len(d.live)
}

func (d *DoubleFs) LiveNames() []string {
	d.mu.Lock()
	defer d.mu.Unlock()
	var out []string
	for _, n := range d.live {
		out = append(out, n)
	}
	sort.Strings(out)
	return out
}

const (
	maskedAtime = 1111111111
	maskedCtime = 1222222222
)

type normInfo struct{ os.FileInfo }

func (n normInfo) Size() int64 {
	if n.FileInfo.IsDir() {
		return dirSizeConst
	}
	return n.FileInfo.Size()
}

// Sys replaces access and change times (they cannot be set by the harness) by two fixed, distinct instants:
// masked_atime and masked_ctime of the session model.
func (n normInfo) Sys() any {
	if st, ok := n.FileInfo.Sys().(*syscall.Stat_t); ok {
		c := *st
		c.Atim = syscall.Timespec{Sec: maskedAtime}
		c.Ctim = syscall.Timespec{Sec: maskedCtime}
		return &c
	}
	return n.FileInfo.Sys()
}

func norm(fi os.FileInfo, err error) (os.FileInfo, error) {
	if err != nil || fi == nil {
		return fi, err
	}
	return normInfo{fi}, nil
}

func (d *DoubleFs) stamp(name string) { _ = d.inner.Chtimes(name, d.TMut, d.TMut) }

func (d *DoubleFs) wrap(f afero.File, err error, name string) (afero.File, error) {
	if err != nil {
		return nil, err
	}
	df := &DoubleFile{File: f, d: d, name: name}
	d.mu.Lock()
	d.live[df] = name
	d.Opens++
	d.mu.Unlock()
	return df, nil
}

func (d *DoubleFs) Create(name string) (afero.File, error) {
	return d.OpenFile(name, os.O_RDWR|os.O_CREATE|os.O_TRUNC, 0o666)
}

func (d *DoubleFs) Open(name string) (afero.File, error) {
	if d.control("open", name) {
		return nil, errInjected
	}
	f, err := d.inner.Open(name)
	return d.wrap(f, err, name)
}

func (d *DoubleFs) OpenFile(name string, flag int, perm os.FileMode) (afero.File, error) {
	if d.control("openfile", name) {
		return nil, errInjected
	}
	_, lerr := os.Lstat(name)
	existed := lerr == nil
	f, err := d.inner.OpenFile(name, flag, perm)
	if err == nil && flag&(os.O_CREATE|os.O_TRUNC) != 0 {
		d.stamp(name)
		if !existed {
			d.stamp(filepath.Dir(name))
		}
	}
	return d.wrap(f, err, name)
}

func (d *DoubleFs) Mkdir(name string, perm os.FileMode) error {
	if d.control("mkdir", name) {
		return errInjected
	}
	err := d.inner.Mkdir(name, perm)
	if err == nil {
		d.stamp(name)
		d.stamp(filepath.Dir(name))
	}
	return err
}

func (d *DoubleFs) MkdirAll(path string, perm os.FileMode) error { return d.inner.MkdirAll(path, perm) }

func (d *DoubleFs) Remove(name string) error {
	if d.control("remove", name) {
		return errInjected
	}
	err := d.inner.Remove(name)
	if err == nil {
		d.stamp(filepath.Dir(name))
	}
	return err
}

func (d *DoubleFs) RemoveAll(path string) error { return errors.New("double: RemoveAll not expected") }

func (d *DoubleFs) Rename(o, n string) error { return errors.New("double: Rename not expected") }

func (d *DoubleFs) Stat(name string) (os.FileInfo, error) {
	if d.control("stat", name) {
		return nil, errInjected
	}
	return norm(d.inner.Stat(name))
}

func (d *DoubleFs) LstatIfPossible(name string) (os.FileInfo, bool, error) {
	if d.control("lstat", name) {
		return nil, true, errInjected
	}
	fi, err := norm(os.Lstat(name))
	return fi, true, err
}

func (d *DoubleFs) Name() string { return "DoubleFs" }

func (d *DoubleFs) Chmod(name string, mode os.FileMode) error { return d.inner.Chmod(name, mode) }

func (d *DoubleFs) Chown(name string, uid, gid int) error { return d.inner.Chown(name, uid, gid) }

func (d *DoubleFs) Chtimes(name string, a, m time.Time) error { return d.inner.Chtimes(name, a, m) }

// DoubleFile wraps an *os.File.
type DoubleFile struct {
	afero.File
	d      *DoubleFs
	name   string
	names  []string
	loaded bool
	closed bool
	pos    int64 // position of sequential reads (for bad-sector faults)
}

func (f *DoubleFile) Close() error {
	f.d.mu.Lock()
	if !f.closed {
		f.closed = true
		delete(f.d.live, f)
		f.d.Closes++
	}
	closeErr := f.d.CloseErr
	f.d.mu.Unlock()
	err := f.File.Close()
	if closeErr && err == nil { // the handle is released all the same; Close only reports a failure (a deferred write-back error, say)
		return &os.PathError{Op: "close", Path: f.name, Err: syscall.EIO}
	}
	return err
}

func (f *DoubleFile) load() error {
	if f.loaded {
		return nil
	}
	names, err := f.File.Readdirnames(-1)
	if err != nil {
		return err
	}
	sort.Strings(names)
	f.names = names
	f.loaded = true
	return nil
}

func (f *DoubleFile) Readdirnames(n int) ([]string, error) {
	if f.d.control("readdirnames", f.name) {
		return nil, errInjected
	}
	if err := f.load(); err != nil {
		return nil, err
	}
	if n <= 0 {
		out := f.names
		f.names = nil
		return out, nil
	}
	if len(f.names) == 0 {
		return nil, io.EOF
	}
	if n > len(f.names) {
		n = len(f.names)
	}
	out := f.names[:n]
	f.names = f.names[n:]
	return out, nil
}

func (f *DoubleFile) Readdir(n int) ([]os.FileInfo, error) {
	if f.d.control("readdir", f.name) {
		return nil, errInjected
	}
	if err := f.load(); err != nil {
		return nil, err
	}
	names := f.names
	if n > 0 && n < len(names) {
		names = names[:n]
	}
	f.names = f.names[len(names):]
	var out []os.FileInfo
	for _, nm := range names {
		fi, err := norm(os.Lstat(filepath.Join(f.name, nm)))
		if err != nil {
			if os.IsNotExist(err) {
				continue
			}
			return out, err
		}
		out = append(out, fi)
	}
	if n > 0 && len(out) == 0 {
		return out, io.EOF
	}
	return out, nil
}

func (f *DoubleFile) Stat() (os.FileInfo, error) {
	if f.d.control("fstat", f.name) {
		return nil, errInjected
	}
	return norm(f.File.Stat())
}

func (f *DoubleFile) Seek(off int64, whence int) (int64, error) {
	if f.d.control("seek", f.name) {
		return 0, errInjected
	}
	p, err := f.File.Seek(off, whence)
	if err == nil {
		f.pos = p
	}
	return p, err
}

func (f *DoubleFile) limit(p []byte, off int64, positional bool) ([]byte, error) {
	f.d.mu.Lock()
	bad, hasBad := f.d.BadFrom[f.name]
	mr := f.d.MaxRead
	f.d.mu.Unlock()
	// short counts are legal for Read only: os.File.ReadAt retries until the buffer is full or an error occurs
	if mr > 0 && len(p) > mr && !positional {
		p = p[:mr]
	}
	if hasBad {
		if off >= bad {
			return nil, errInjected
		}
		if off+int64(len(p)) > bad {
			p = p[:bad-off]
		}
	}
	return p, nil
}

func (f *DoubleFile) Read(p []byte) (int, error) {
	q, err := f.limit(p, f.pos, false)
	if err != nil {
		return 0, err
	}
	n, err := f.File.Read(q)
	f.pos += int64(n)
	return n, err
}

func (f *DoubleFile) ReadAt(p []byte, off int64) (int, error) {
	if f.d.control("readat", f.name) {
		return 0, errInjected
	}
	q, err := f.limit(p, off, true)
	if err != nil {
		return 0, err
	}
	f.d.mu.Lock()
	sa := f.d.ShortAt[f.name]
	f.d.mu.Unlock()
	if sa > 0 && len(q) > sa {
		// a filesystem whose positional read comes back short without an error (os.File never does; a FUSE or network
		// filesystem behind afero may): only for files whose readers are written to cope (io.ReadFull over a SectionReader)
		return f.File.ReadAt(q[:sa], off)
	}
	n, err := f.File.ReadAt(q, off)
	if err == nil && n < len(p) {
		// ReadAt must return an error when it returns fewer bytes than requested
		return n, errInjected
	}
	return n, err
}

func (f *DoubleFile) Write(p []byte) (int, error) {
	n, err := f.File.Write(p)
	f.d.stamp(f.name)
	return n, err
}

func (f *DoubleFile) Name() string { return f.File.Name() }
