//go:build verif

package main

import (
	"bytes"
	"math/rand"
	"encoding/binary"
	"fmt"
	"net"
	"os"
	"path/filepath"
	"sort"
	"strings"
	"sync"
	"time"
)

func init() { subcmds["sess"] = runSess }

const tmutUnix = 1700000000

var secretMarker = []byte("OUTSIDE-SECRET-7f3a")

const secretSize = 7777

// ---------------------------------------------------------------- world generator

var namePool = []string{"a", "b", "c.txt", "d e", "GAMES", "PS3ISO", "ps3iso", "x.iso", "y.ISO", "data.bin", "é", "日本", "CLOSEFILE",
	"r-o", "UP", "new", "k.dkey", "REDKEY", "A", "zz", "DISCLOSEFILE", "save.CLOSEFILE"}

func genName(env *Env, used map[string]bool) string {
	for try := 0; try < 50; try++ {
		var n string
		switch env.Rnd.Intn(12) {
		case 0:
			n = strings.Repeat("L", []int{200 + env.Rnd.Intn(56), 254, 255}[env.Rnd.Intn(3)])
			if env.Rnd.Intn(6) == 0 {
				n = strings.Repeat("日", 85) // 255 bytes of a three-byte character
			}
		case 1:
			n = fmt.Sprintf("f%d", env.Rnd.Intn(1000))
		default:
			n = namePool[env.Rnd.Intn(len(namePool))]
		}
		if !used[n] {
			used[n] = true
			return n
		}
	}
	n := fmt.Sprintf("u%d", len(used))
	used[n] = true
	return n
}

var boundarySizes = []int{0, 1, 2, 15, 16, 17, 511, 512, 513, 2047, 2048, 2049, 4095, 4096, 65535, 65536, 65537}

func genContent(env *Env) Content {
	var n int
	switch env.Rnd.Intn(4) {
	case 0:
		n = boundarySizes[env.Rnd.Intn(len(boundarySizes))]
	case 1:
		n = env.Rnd.Intn(300)
	case 2:
		n = env.Rnd.Intn(5000)
	default:
		n = env.Rnd.Intn(70000)
	}
	if n <= 64 && env.Rnd.Intn(2) == 0 {
		b := make([]byte, n)
		env.Rnd.Read(b)
		return lit(b)
	}
	return Content{{Kind: 'g', N: n, A: env.Rnd.Intn(256)}}
}

func genDir(env *Env, name string, depth int, maxKids int) *WNode {
	d := &WNode{Name: name, Dir: true, MTime: 1500000000 + int64(env.Rnd.Intn(1000000))}
	nk := env.Rnd.Intn(maxKids + 1)
	used := map[string]bool{}
	for i := 0; i < nk; i++ {
		nm := genName(env, used)
		if depth > 0 && env.Rnd.Intn(3) == 0 {
			d.Kids = append(d.Kids, genDir(env, nm, depth-1, maxKids))
		} else {
			d.Kids = append(d.Kids, &WNode{Name: nm, MTime: 1400000000 + int64(env.Rnd.Intn(1000000)), Content: genContent(env)})
		}
	}
	return d
}

// a CD image of raw sector size S with the signature in sector 16
func genCDImage(env *Env, s int, magic2 bool, sectors int) Content {
	// sector k: 24 header bytes (pattern), 2048 user bytes (pattern keyed by k), rest pattern
	var c Content
	pre := 16*s + 24
	c = append(c, Seg{Kind: 'g', N: pre, A: env.Rnd.Intn(256)})
	var sig []byte
	if magic2 {
		sig = append(make([]byte, 8), []byte("PLAYSTATION ")...)
		sig[0] = 0xEE // not the ISO signature
	} else {
		sig = []byte("\x01CD001")
	}
	c = append(c, Seg{Kind: 'h', Data: sig})
	rest := sectors*s - pre - len(sig)
	c = append(c, Seg{Kind: 'g', N: rest, A: env.Rnd.Intn(256)})
	return c
}

// genWorld: "/" of the modelled world = a temporary directory holding the served root "R",
// and siblings whose names have the root's name as a prefix (with secrets inside).
func genWorld(env *Env, withCD bool) *WNode {
	top := &WNode{Name: "", Dir: true, MTime: 1300000000}
	depth := 1 + env.Rnd.Intn(3)
	r := genDir(env, "R", depth, 2+env.Rnd.Intn(7))
	if len(r.Kids) == 0 {
		r.Kids = append(r.Kids, &WNode{Name: "only", MTime: 1400000001, Content: lit([]byte("x"))})
	}
	if withCD {
		sizes := []int{2048, 2328, 2336, 2340, 2352, 2368, 2448}
		s := sizes[env.Rnd.Intn(len(sizes))]
		sectors := (0x200000+s-1)/s + env.Rnd.Intn(40)
		if r.Child("cd.bin") == nil {
			r.Kids = append(r.Kids, &WNode{Name: "cd.bin", MTime: 1400000002, Content: genCDImage(env, s, env.Rnd.Intn(2) == 0, sectors)})
		}
	}
	secret := append(append([]byte{}, secretMarker...), make([]byte, secretSize-len(secretMarker))...)
	mk := func(name string) *WNode {
		return &WNode{Name: name, Dir: true, MTime: 1300000001, Kids: []*WNode{
			{Name: "secret", MTime: 1300000002, Content: lit(secret)},
			{Name: "sub", Dir: true, MTime: 1300000003, Kids: []*WNode{{Name: "x.iso", MTime: 1300000004, Content: lit(secret)}}},
		}}
	}
	top.Kids = []*WNode{r, mk("R-other"), mk("Rx"), {Name: "secret", MTime: 1300000005, Content: lit(secret)}}
	return top
}

// ---------------------------------------------------------------- request generator

type sessGen struct {
	env   *Env
	root  *WNode // the R node
	files []string
	dirs  []string
	nfrag int // fragments are taken in turn (from a random start), so that every kind is used evenly
}

func newSessGen(env *Env, r *WNode) *sessGen {
	g := &sessGen{env: env, root: r, nfrag: env.Rnd.Intn(14)}
	r.Walk(func(rel string, x *WNode) {
		if rel == "" {
			g.dirs = append(g.dirs, "/")
			return
		}
		if x.Dir {
			g.dirs = append(g.dirs, rel)
		} else {
			g.files = append(g.files, rel)
		}
	})
	return g
}

// sizeOf returns the size of the file at a served path of the generated world (-1 when unknown)
func (g *sessGen) sizeOf(p string) int64 {
	var sz int64 = -1
	g.root.Walk(func(rel string, x *WNode) {
		if rel == p && !x.Dir {
			sz = x.Content.Size()
		}
	})
	return sz
}

func (g *sessGen) pick(l []string) string {
	if len(l) == 0 {
		return "/nothing"
	}
	return l[g.env.Rnd.Intn(len(l))]
}

// decorate rewrites a canonical path into an equivalent or hostile spelling
func (g *sessGen) decorate(p string) string {
	r := g.env.Rnd
	switch r.Intn(14) {
	case 0:
		return strings.TrimPrefix(p, "/") // no leading slash
	case 1:
		return strings.ReplaceAll(p, "/", "//")
	case 2:
		return strings.ReplaceAll(p, "/", "/./")
	case 3:
		return p + "/"
	case 4:
		return "/zz/.." + p
	case 5:
		return "/.." + p
	case 6:
		return "/../../.." + p
	case 7:
		return p + "/."
	case 8:
		return p + "/x/.."
	default:
		return p
	}
}

var hostilePaths = []string{"/../R-other/secret", "../R-other/secret", "/../Rx/secret", "/../secret", "..", "/..", "/../R-other", "/../R-other/sub/x.iso",
	"/a/../../R-other/secret", "", "/", ".", "/./", "//", "/\x00", "/a\x00b", "/../R/../R-other/secret", "/R-other/secret", "/...", "/..a", "/a/...",
	"/***DVD***", "/***PS3***", "/CLOSEFILE", "/a/CLOSEFILE", "CLOSEFILE", "/CLOSEFILE/x"}

func (g *sessGen) path(kind string) string {
	r := g.env.Rnd
	switch x := r.Intn(20); {
	case x == 0:
		return hostilePaths[r.Intn(len(hostilePaths))]
	case x == 1:
		return g.decorate(g.pick(g.dirs) + "/" + strings.Repeat("n", 250+r.Intn(10)))
	case x == 2:
		return "/" + strings.Repeat("p/", 1500+r.Intn(700)) + "q" // around PATH_MAX
	case x == 3:
		return g.decorate(strings.TrimSuffix(g.pick(g.dirs), "/") + "/missing")
	case x == 4:
		return g.decorate(g.pick(g.files) + "/below-a-file")
	}
	switch kind {
	case "file":
		if r.Intn(6) == 0 {
			return g.decorate(g.pick(g.dirs))
		}
		return g.decorate(g.pick(g.files))
	case "dir":
		if r.Intn(6) == 0 {
			return g.decorate(g.pick(g.files))
		}
		return g.decorate(g.pick(g.dirs))
	case "new":
		d := strings.TrimSuffix(g.pick(g.dirs), "/")
		nm := []string{"UP", "new", "n1", "n2", "GAMES"}[r.Intn(5)]
		p := d + "/" + nm
		if r.Intn(4) == 0 {
			p = g.pick(g.files) // existing file: truncate
		}
		return g.decorate(p)
	default:
		if r.Intn(2) == 0 {
			return g.decorate(g.pick(g.files))
		}
		return g.decorate(g.pick(g.dirs))
	}
}

func (g *sessGen) readArgs(sizeHint int) (uint32, uint64) {
	r := g.env.Rnd
	var off uint64
	switch r.Intn(8) {
	case 0:
		off = 0
	case 1:
		off = uint64(sizeHint)
	case 2:
		off = uint64(sizeHint) + uint64(r.Intn(3))
	case 3:
		if sizeHint > 0 {
			off = uint64(sizeHint - 1)
		}
	case 4:
		off = uint64(r.Int63n(int64(sizeHint)*2 + 10))
	case 5:
		off = 1<<63 + uint64(r.Intn(5)) // negative as int64
		if r.Intn(2) == 0 { // around what the filesystem can address (ext4: 2^44 - 4096), and far beyond
			off = []uint64{1<<44 - 4097, 1<<44 - 4096, 1<<44 - 4095, 1 << 44, 1 << 50, 1<<63 - 1, 1 << 43}[r.Intn(7)]
		}
	default:
		off = uint64(r.Int63n(int64(sizeHint) + 1))
	}
	var n uint32
	switch r.Intn(6) {
	case 0:
		n = 0
	case 1:
		n = 1
	case 2:
		n = uint32(sizeHint + 10)
	case 3:
		n = uint32(r.Intn(70000))
	default:
		n = uint32(r.Intn(3000))
	}
	return n, off
}

// scripted fragments: multi-step sequences that only matter in a particular connection state
func (g *sessGen) fragment(withCD bool) []*Req {
	r := g.env.Rnd
	payload := func() *Req {
		n := []int{0, 1, 32, 100, 3000, 65536, 65537}[r.Intn(7)]
		b := make([]byte, n)
		r.Read(b)
		return &Req{Op: opWriteFile, N: uint32(n), Payload: b}
	}
	dir := strings.TrimSuffix(g.pick(g.dirs), "/")
	newName := []string{"UP", "new", "n1", "n2"}[r.Intn(4)]
	badCreates := []string{dir + "/nodir/x", "/***DVD***/" + strings.TrimPrefix(dir, "/") + "/x", g.pick(g.files) + "/x", "/" + strings.Repeat("L", 300), dir}
	g.nfrag++
	switch g.nfrag % 14 {
	case 13: // CLOSEFILE closes the read file and nothing else: the open directory and the upload go on
		f := g.pick(g.files)
		d := g.pick(g.dirs)
		return []*Req{{Op: opOpenDir, Path: d}, {Op: opReadDirEntry}, {Op: opCreateFile, Path: dir + "/" + newName}, payload(), {Op: opOpenFile, Path: f}, {Op: opReadFile, N: 64, Off: 0},
			{Op: opOpenFile, Path: "/CLOSEFILE"}, {Op: opReadDirEntry}, payload(), {Op: opReadDir}, {Op: opStatFile, Path: dir + "/" + newName}, {Op: opOpenFile, Path: "/CLOSEFILE"}, {Op: opReadDirEntryV2}}
	case 0: // upload in several writes
		out := []*Req{{Op: opCreateFile, Path: dir + "/" + newName}}
		for k := 0; k < 1+r.Intn(3); k++ {
			out = append(out, payload())
		}
		return append(out, &Req{Op: opStatFile, Path: dir + "/" + newName})
	case 1: // a failing create after a successful one, then a write
		return []*Req{{Op: opCreateFile, Path: dir + "/" + newName}, payload(),
			{Op: opCreateFile, Path: badCreates[r.Intn(len(badCreates))]}, payload(), {Op: opStatFile, Path: dir + "/" + newName}}
	case 2: // re-create (truncate) while the write file is open, and while it is open for reading
		f := g.pick(g.files)
		return []*Req{{Op: opOpenFile, Path: f}, {Op: opCreateFile, Path: f}, payload(), {Op: opReadFile, N: 5000, Off: 0}, {Op: opCreateFile, Path: f}, {Op: opReadFile, N: 10, Off: 0}}
	case 3: // open, boundary reads, CLOSEFILE, read
		f := g.pick(g.files)
		return []*Req{{Op: opOpenFile, Path: f}, {Op: opReadFile, N: 2048, Off: 0}, {Op: opReadFileCritical, N: 0, Off: 1 << 40}, {Op: opReadFile, N: 0, Off: 0},
			{Op: opOpenFile, Path: "/CLOSEFILE"}, {Op: opReadFile, N: 1, Off: 0}}
	case 4: // enumerate a directory to the end and once more; mix both entry commands and the bulk listing
		d := g.pick(g.dirs)
		out := []*Req{{Op: opOpenDir, Path: d}}
		for k := 0; k < 2+r.Intn(12); k++ {
			out = append(out, &Req{Op: []int{opReadDirEntry, opReadDirEntryV2, opReadDirEntry, opReadDir}[r.Intn(4)]})
		}
		return out
	case 5: // a second open while one is open: directory then file, file then missing file
		return []*Req{{Op: opOpenDir, Path: g.pick(g.dirs)}, {Op: opReadDirEntry}, {Op: opOpenDir, Path: g.pick(g.files)}, {Op: opReadDirEntry}, {Op: opReadDir},
			{Op: opOpenFile, Path: g.pick(g.files)}, {Op: opOpenFile, Path: dir + "/missing"}, {Op: opReadFile, N: 10, Off: 0}}
	case 6: // mkdir, create inside, write, listing, delete, rmdir, and again
		nd := dir + "/" + newName
		// (mkdir of what exists already and below a parent that does not: refused, nothing created on the way)
		return []*Req{{Op: opMkdir, Path: nd}, {Op: opMkdir, Path: nd}, {Op: opMkdir, Path: nd + "/p/q"}, {Op: opStatFile, Path: nd + "/p"}, {Op: opMkdir, Path: g.pick(g.dirs)},
			{Op: opCreateFile, Path: nd + "/f"}, payload(), {Op: opOpenDir, Path: nd}, {Op: opReadDir}, {Op: opRmdir, Path: nd},
			{Op: opDeleteFile, Path: nd + "/f"}, {Op: opRmdir, Path: nd}, {Op: opStatFile, Path: nd}, {Op: opGetDirSize, Path: dir}}
	case 9: // critical reads that cross the end of the file: the available bytes, then the end of the connection
		f := g.pick(g.files)
		sz := g.sizeOf(f)
		if sz < 2 {
			return []*Req{{Op: opOpenFile, Path: f}, {Op: opReadFileCritical, N: 300, Off: 0}, {Op: opStatFile, Path: f}}
		}
		back := int64(1 + r.Intn(int(min(sz-1, 3000))))
		return []*Req{{Op: opOpenFile, Path: f}, {Op: opReadFileCritical, N: uint32(back), Off: uint64(sz - back)}, // exactly to the end: satisfied
			{Op: opReadFileCritical, N: uint32(back + 1 + int64(r.Intn(500))), Off: uint64(sz - back)}, // crosses the end
			{Op: opStatFile, Path: f}}
	case 10: // uploads aimed at a generated image: below a virtual prefix nothing may be created or truncated
		pre := []string{"/***PS3***", "/***DVD***"}[r.Intn(2)]
		tgt := []string{g.pick(g.files), dir + "/" + newName, g.pick(g.dirs)}[r.Intn(3)]
		real := tgt
		return []*Req{{Op: opCreateFile, Path: pre + tgt}, payload(), {Op: opStatFile, Path: real}, {Op: opOpenFile, Path: real}, {Op: opReadFile, N: 5000, Off: 0},
			{Op: opMkdir, Path: pre + dir + "/" + newName}, {Op: opDeleteFile, Path: pre + g.pick(g.files)}, {Op: opStatFile, Path: dir + "/" + newName}}
	case 11: // sector reads with a count of zero and from sector 0
		p := g.pick(g.files)
		if withCD {
			p = "/cd.bin"
		}
		return []*Req{{Op: opOpenFile, Path: p}, {Op: opReadCD, Start: 0, Cnt: 0}, {Op: opReadCD, Start: uint32(1 + r.Intn(20)), Cnt: 0}, {Op: opReadCD, Start: 0, Cnt: 1},
			{Op: opReadCD, Start: 0, Cnt: uint32(r.Intn(4))}, {Op: opStatFile, Path: p}}
	case 8: // removing the served root itself, under every spelling, then looking at it
		spell := []string{"/", "", ".", "/.", "/..", "//", dir + "/..", "/./", "/../.."}
		out := []*Req{}
		for k := 0; k < 2+r.Intn(3); k++ {
			out = append(out, &Req{Op: []int{opDeleteFile, opRmdir}[r.Intn(2)], Path: spell[r.Intn(len(spell))]})
		}
		return append(out, &Req{Op: opStatFile, Path: "/"}, &Req{Op: opOpenDir, Path: "/"}, &Req{Op: opReadDir})
	case 7: // the create-on-a-directory close idiom, then a write
		return []*Req{{Op: opCreateFile, Path: dir + "/" + newName}, payload(), {Op: opCreateFile, Path: g.pick(g.dirs)}, payload()}
	default: // open files of different kinds one after another, byte reads and sector reads interleaved
		out := []*Req{}
		for k := 0; k < 3; k++ {
			p := g.pick(g.files)
			for try := 0; try < 6 && g.sizeOf(p) < 6000; try++ { // preferably a file that holds two raw sectors, so that the sector read is served
				p = g.pick(g.files)
			}
			if withCD && r.Intn(2) == 0 {
				p = "/cd.bin"
			}
			b := uint64(r.Intn(3000))
			start, cnt := uint32(r.Intn(50)), uint32(r.Intn(3))
			if k == 0 {
				start, cnt = uint32(r.Intn(2)), 1
			}
			out = append(out, &Req{Op: opOpenFile, Path: p}, &Req{Op: opReadFile, N: 100, Off: b}, &Req{Op: opReadCD, Start: start, Cnt: cnt},
				&Req{Op: opReadFile, N: 100, Off: b + 100}, &Req{Op: opReadFileCritical, N: 10, Off: b + 200})
			if r.Intn(3) == 0 {
				out = append(out, &Req{Op: opOpenFile, Path: "CLOSEFILE"})
			}
		}
		return out
	}
}

func (g *sessGen) gen(nreq int, withCD bool) []*Req {
	r := g.env.Rnd
	var out []*Req
	lastSize := 5000
	for len(out) < nreq {
		if r.Intn(5) == 0 {
			for _, q := range g.fragment(withCD) {
				if q.Junk == nil {
					q.Junk = make([]byte, 14)
				}
				if isPathOp(q.Op) {
					q.Path = g.decorate(q.Path)
				}
				out = append(out, q)
			}
			continue
		}
		junk := make([]byte, 14)
		if r.Intn(3) == 0 {
			r.Read(junk)
		}
		q := &Req{Junk: junk}
		switch x := r.Intn(100); {
		case x < 14:
			q.Op, q.Path = opOpenFile, g.path("file")
			if withCD && r.Intn(3) == 0 {
				q.Path = "/cd.bin"
			}
			if r.Intn(12) == 0 {
				q.Path = []string{"/CLOSEFILE", "CLOSEFILE", "/x/y/CLOSEFILE", "/a/../CLOSEFILE"}[r.Intn(4)]
			}
		case x < 30:
			q.Op = opReadFile
			q.N, q.Off = g.readArgs(lastSize)
		case x < 40:
			q.Op = opReadFileCritical
			q.N, q.Off = g.readArgs(lastSize)
			if r.Intn(3) != 0 { // mostly satisfiable, so that sessions go on
				q.Off = uint64(r.Intn(3))
				q.N = uint32(r.Intn(2))
			}
		case x < 46:
			q.Op = opReadCD
			q.Start, q.Cnt = uint32(r.Intn(40)), uint32(r.Intn(4))
			if withCD {
				q.Start, q.Cnt = uint32(r.Intn(900)), uint32(r.Intn(5))
			}
		case x < 54:
			q.Op, q.Path = opStatFile, g.path("any")
		case x < 62:
			q.Op, q.Path = opOpenDir, g.path("dir")
		case x < 72:
			q.Op = opReadDirEntry
		case x < 78:
			q.Op = opReadDirEntryV2
		case x < 82:
			q.Op = opReadDir
		case x < 85:
			q.Op, q.Path = opGetDirSize, g.path("dir")
		case x < 89:
			q.Op, q.Path = opCreateFile, g.path("new")
		case x < 94:
			q.Op = opWriteFile
			n := []int{0, 1, 100, 3000, 65535, 65536, 65537, 140000}[r.Intn(8)]
			if r.Intn(3) == 0 {
				n = r.Intn(500)
			}
			q.Payload = make([]byte, n)
			r.Read(q.Payload)
			q.N = uint32(n)
		case x < 96:
			q.Op, q.Path = opDeleteFile, g.path("any")
		case x < 98:
			q.Op, q.Path = opMkdir, g.path("new")
		default:
			q.Op, q.Path = opRmdir, g.path("dir")
		}
		out = append(out, q)
	}
	return out
}

// ---------------------------------------------------------------- driver

type stepObs struct {
	out    []byte
	closed bool
	held   int
}

type sessResult struct {
	steps      []stepObs
	closedByServer bool
	leak       int
	dump       string
	dumpLines  []string
	goroutineEnded bool
}

// sessSplit, when set, cuts the wire bytes of request i into the pieces in which they reach the server (C05: chunkings).
var sessSplit func(i int, wire []byte) [][]byte

// runSession drives one connection of the real server over the tree at top.
func runSession(top string, allow bool, chunks [][]byte, ops []int, bufSize int64, after func(i int, so stepObs, ls *LibServer)) (*sessResult, error) {
	ls := NewLibServer(filepath.Join(top, "R"), allow, time.Unix(tmutUnix, 0), 0, bufSize)
	defer ls.Stop()
	if sessPrep != nil {
		sessPrep(ls)
	}
	c := newScriptConn(&net.TCPAddr{IP: net.IPv4(127, 0, 0, 1), Port: 50000})
	ls.Connect(c)
	// wait for the server to reach its first Read
	c.Feed(nil)
	res := &sessResult{}
	for i, ch := range chunks {
		var out []byte
		closed := false
		if sessSplit != nil { // the request arrives in pieces, the server has consumed each before the next is sent
			for _, piece := range sessSplit(i, ch) {
				o, cl := c.Feed(piece)
				out = append(out, o...)
				if closed = cl; closed {
					break
				}
			}
		} else {
			out, closed = c.Feed(ch)
		}
		op := 0
		if i < len(ops) {
			op = ops[i]
		}
		_ = op
		if closed { // serveConn closes the socket before the state; wait for its last deferred action
			res.goroutineEnded = ls.WaitDisconnect(10 * time.Second)
		}
		so := stepObs{out: out, closed: closed, held: ls.Dfs.Live()}
		res.steps = append(res.steps, so)
		if after != nil {
			after(i, so, ls)
		}
		if closed {
			res.closedByServer = true
			break
		}
	}
	if !res.closedByServer {
		c.EOF()
		res.goroutineEnded = ls.WaitDisconnect(10 * time.Second)
		// a request cut short by the end of the stream may still be answered (truncated upload)
		if tail, _ := c.Feed(nil); len(tail) > 0 {
			if len(res.steps) == 0 {
				res.steps = append(res.steps, stepObs{})
			}
			res.steps[len(res.steps)-1].out = append(res.steps[len(res.steps)-1].out, tail...)
		}
	}
	res.leak = ls.Dfs.Live()
	var err error
	res.dump, res.dumpLines, err = DumpDisk(top)
	return res, err
}

func obsString(res *sessResult, blob bool) string {
	var steps string
	if blob {
		var all []byte
		for _, s := range res.steps {
			all = append(all, s.out...)
		}
		steps = digestOut(all)
	} else {
		var parts []string
		for _, s := range res.steps {
			parts = append(parts, digestOut(s.out)+"/"+hxnum(int64(s.held)))
		}
		steps = strings.Join(parts, ",")
	}
	cl := 0
	if res.closedByServer {
		cl = 1
	}
	return fmt.Sprintf("%s;closed=%d;leak=%s;world=%s", steps, cl, hxnum(int64(res.leak)), res.dump)
}

// ---------------------------------------------------------------- direct oracles (model-independent)

// expected response length of a request per the protocol table (DESIGN section 5, C03);
// -1 = variable (handled by the caller), -2 = no bytes and connection closed are acceptable
func fixedLen(op int) int {
	switch op {
	case opOpenFile:
		return 16
	case opCreateFile, opWriteFile, opOpenDir, opDeleteFile, opMkdir, opRmdir:
		return 4
	case opStatFile:
		return 33
	case opGetDirSize:
		return 8
	}
	return -1
}

type oracleState struct {
	roPath  string // canonical path of the open read file ("" none)
	cwdPath string
	cwdLeft map[string]bool // names not yet returned by entry-by-entry enumeration (nil = unknown)
	cwdSeen map[string]bool // names already returned
	woPath  string          // canonical path of the file being uploaded ("" = none)
	woData  []byte          // what has been uploaded to it since it was created
	tree    map[string]byte // every path under the root after the previous request: 'd' directory, 'f' anything else
}

// walkTree lists every path under root (lstat, relative, "/"-rooted).
func walkTree(root string) map[string]byte {
	t := map[string]byte{}
	_ = filepath.Walk(root, func(p string, fi os.FileInfo, err error) error {
		if err != nil || p == root {
			return nil
		}
		k := byte('f')
		if fi.IsDir() {
			k = 'd'
		}
		t[filepath.ToSlash(strings.TrimPrefix(p, root))] = k
		return nil
	})
	return t
}

var fsLimitOnce sync.Once
var fsLimitVal int64

// fsLimit: the largest offset lseek accepts on the filesystem of the worlds (measured once; the model's fs_max_offset)
func fsLimit() int64 {
	fsLimitOnce.Do(func() { fsLimitVal = fsMaxOffset() })
	return fsLimitVal
}

func canon(p string) string { return filepath.Clean("/" + p) }

func be64(b []byte) int64 { return int64(binary.BigEndian.Uint64(b)) }

// checkStep applies the per-request oracles; top is the world directory on disk.
func checkStep(env *Env, id string, top string, allow bool, st *oracleState, q *Req, so stepObs) {
	root := filepath.Join(top, "R")
	out := so.out
	fail := func(sig, format string, a ...any) {
		env.OracleFail(id, "["+sig+"] "+fmt.Sprintf("request %s: ", q.String())+fmt.Sprintf(format, a...))
	}
	if bytes.Contains(out, secretMarker) {
		fail("C01-leak", "response carries bytes of a file outside the root")
	}
	// ---- framing (C03)
	if fl := fixedLen(q.Op); fl >= 0 {
		if q.Op == opWriteFile && allow && len(out) >= 4 && len(q.Payload) == int(q.N) {
			// (whatever else went wrong with the answer: a complete payload is stored completely or refused)
			if code := int32(binary.BigEndian.Uint32(out)); code != -1 && code != int32(len(q.Payload)) {
				fail("C05-upload", "WRITE_FILE of %d bytes answered %d (answer of %d bytes, closed=%v)", len(q.Payload), code, len(out), so.closed)
			}
		}
		if len(out) != fl || so.closed {
			fail("C03-shape", "expected a %d-byte answer and an open connection, got %d bytes closed=%v", fl, len(out), so.closed)
			return
		}
	}
	real := func(p string) string { return filepath.Join(root, canon(p)) }
	isVirtual := func(p string) bool {
		c := canon(p)
		return strings.HasPrefix(c, "/***DVD***/") || strings.HasPrefix(c, "/***PS3***/")
	}
	switch q.Op {
	case opOpenFile:
		size := be64(out[0:8])
		c := canon(q.Path)
		if filepath.Base(c) == "CLOSEFILE" {
			if !bytes.Equal(out, make([]byte, 16)) {
				fail("C03-closefile", "CLOSEFILE must answer 16 zero bytes")
			}
			st.roPath = ""
			return
		}
		if isVirtual(q.Path) {
			st.roPath = "?"
			return
		}
		fi, err := os.Stat(real(q.Path))
		switch {
		case err != nil:
			if size != -1 {
				fail("C02-open", "path does not exist but size %d was announced", size)
			}
			st.roPath = ""
		case fi.IsDir():
			st.roPath = "?dir"
			if size == secretSize {
				fail("C01-leak", "announced the size of an outside file")
			}
		default:
			if size == -1 {
				// long names: the key-file probe may legitimately fail the open (C11 decides that); do not judge here
				st.roPath = ""
				if len(filepath.Base(c)) < 250 {
					fail("C02-open", "existing file %q answered -1", c)
				}
				return
			}
			if size != fi.Size() || be64(out[8:16]) != fi.ModTime().Unix() {
				fail("C02-open", "announced size/mtime %d/%d, file has %d/%d", size, be64(out[8:16]), fi.Size(), fi.ModTime().Unix())
			}
			st.roPath = c
		}
	case opReadFile, opReadFileCritical:
		if q.Op == opReadFile && !(so.closed && len(out) == 0) {
			// framing: a 4-byte count followed by exactly that many bytes, or the connection ends without a byte
			if len(out) < 4 || int(int32(binary.BigEndian.Uint32(out[:4]))) != len(out)-4 || so.closed {
				fail("C03-shape", "READ_FILE answer of %d bytes (closed=%v) is not a count followed by that many bytes", len(out), so.closed)
			}
		}
		if st.roPath == "" {
			if len(out) != 0 || !so.closed {
				fail("C03-noread", "no open file: expected the connection to end without bytes, got %d bytes closed=%v", len(out), so.closed)
			}
			return
		}
		if strings.HasPrefix(st.roPath, "?") {
			return
		}
		data, err := os.ReadFile(filepath.Join(root, st.roPath))
		if err != nil {
			return
		}
		if int64(q.Off) < 0 {
			if len(out) != 0 || !so.closed {
				fail("C02-read", "negative offset must end the connection")
			}
			return
		}
		if int64(q.Off) > fsLimit() { // beyond what the filesystem can address: lseek refuses, the connection ends; never data
			if len(out) != 0 && !(q.Op == opReadFile && len(out) == 4 && bytes.Equal(out, make([]byte, 4))) {
				fail("C02-read", "offset %d is beyond the largest offset of the filesystem (%d): %d bytes were sent", q.Off, fsLimit(), len(out))
			}
			return
		}
		var want []byte
		if q.Off < uint64(len(data)) {
			end := q.Off + uint64(q.N)
			if end > uint64(len(data)) {
				end = uint64(len(data))
			}
			want = data[q.Off:end]
		}
		if q.Op == opReadFile {
			if so.closed || len(out) < 4 {
				fail("C02-read", "READ_FILE answered %d bytes closed=%v", len(out), so.closed)
				return
			}
			k := int(int32(binary.BigEndian.Uint32(out[:4])))
			if k != len(want) || !bytes.Equal(out[4:], want) {
				fail("C02-read", "READ_FILE(%d,%d) of %q: announced %d, sent %d bytes, expected %d bytes; content equal=%v", q.N, q.Off, st.roPath, k, len(out)-4, len(want), bytes.Equal(out[4:], want))
			}
		} else {
			if !bytes.Equal(out, want) {
				fail("C02-critical", "critical read (%d,%d) of %q sent %d bytes, expected %d; equal=%v", q.N, q.Off, st.roPath, len(out), len(want), bytes.Equal(out, want))
			}
			if (len(want) < int(q.N)) != so.closed {
				fail("C02-critical", "critical read wanted %d got %d: closed=%v", q.N, len(want), so.closed)
			}
			if so.closed {
				st.roPath = ""
			}
		}
	case opReadCD:
		// checked by the dedicated C17 job; here only: no open file => close without bytes
		if st.roPath == "" && (len(out) != 0 || !so.closed) {
			fail("C03-noread", "CD read with no open file must end the connection without bytes")
		}
	case opStatFile:
		size := be64(out[0:8])
		fi, err := os.Stat(real(q.Path))
		if err != nil {
			if size != -1 || !bytes.Equal(out[8:], make([]byte, 25)) {
				fail("C06-stat", "missing path must answer -1 and zeros")
			}
			return
		}
		wantSize := fi.Size()
		if fi.IsDir() {
			wantSize = 0
		}
		if size != wantSize || be64(out[8:16]) != fi.ModTime().Unix() || (out[32] == 1) != fi.IsDir() {
			fail("C06-stat", "stat %q: got size=%d mtime=%d dir=%d, disk has size=%d mtime=%d dir=%v", canon(q.Path), size, be64(out[8:16]), out[32], wantSize, fi.ModTime().Unix(), fi.IsDir())
		}
		if !isVirtual(q.Path) && (be64(out[16:24]) != maskedCtime || be64(out[24:32]) != maskedAtime) {
			fail("C06-times", "stat %q: change time %d, access time %d; the file has %d and %d (mtime %d)", canon(q.Path), be64(out[16:24]), be64(out[24:32]), maskedCtime, maskedAtime, fi.ModTime().Unix())
		}
	case opOpenDir:
		code := int32(binary.BigEndian.Uint32(out))
		if isVirtual(q.Path) {
			st.cwdPath, st.cwdLeft = "?", nil
			return
		}
		fi, err := os.Stat(real(q.Path))
		isDir := err == nil && fi.IsDir()
		if isDir != (code == 0) || (code != 0 && code != -1) {
			fail("C06-opendir", "OPEN_DIR %q answered %d, is a directory: %v", canon(q.Path), code, isDir)
		}
		if err == nil { // the handle is replaced whenever the open itself succeeded
			st.cwdPath, st.cwdLeft, st.cwdSeen = canon(q.Path), nil, nil
			if !isDir {
				st.cwdPath = "?file"
			} else {
				st.cwdLeft = map[string]bool{}
				es, _ := os.ReadDir(real(q.Path))
				for _, e := range es {
					st.cwdLeft[e.Name()] = true
				}
			}
		}
	case opReadDirEntry, opReadDirEntryV2:
		hl := 11
		if q.Op == opReadDirEntryV2 {
			hl = 35
		}
		if so.closed || len(out) < hl {
			fail("C03-shape", "entry answer has %d bytes closed=%v", len(out), so.closed)
			return
		}
		size := be64(out[0:8])
		nl := int(binary.BigEndian.Uint16(out[hl-3 : hl-1]))
		if len(out) != hl+nl {
			fail("C03-shape", "entry answer announces a %d-byte name but carries %d bytes", nl, len(out)-hl)
			return
		}
		if size == -1 {
			if st.cwdLeft != nil && len(st.cwdLeft) > 0 {
				// entries may have been deleted by the session itself; check against the disk
				for nm := range st.cwdLeft {
					if _, err := os.Stat(filepath.Join(root, st.cwdPath, nm)); err == nil {
						fail("C06-iter", "end marker while %q of %q was never reported", nm, st.cwdPath)
						break
					}
				}
			}
			st.cwdPath, st.cwdLeft = "", nil
			return
		}
		if st.cwdPath == "" {
			fail("C06-iter", "an entry was reported with no open directory")
			return
		}
		if st.cwdLeft == nil {
			return
		}
		nm := string(out[hl:])
		if st.cwdSeen[nm] {
			fail("C06-iter", "entry %q of %q reported twice", nm, st.cwdPath)
			return
		}
		if st.cwdSeen == nil {
			st.cwdSeen = map[string]bool{}
		}
		st.cwdSeen[nm] = true // a name created after the open may or may not be listed; it must exist (checked below)
		delete(st.cwdLeft, nm)
		fi, err := os.Stat(filepath.Join(root, st.cwdPath, nm))
		if err != nil {
			fail("C06-iter", "entry %q does not exist", nm)
			return
		}
		wantSize := fi.Size()
		if fi.IsDir() {
			wantSize = 0
		}
		if size != wantSize || (out[hl-1] == 1) != fi.IsDir() {
			fail("C06-iter", "entry %q: size=%d dir=%d, disk has size=%d dir=%v", nm, size, out[hl-1], wantSize, fi.IsDir())
		}
		if q.Op == opReadDirEntryV2 && be64(out[8:16]) != fi.ModTime().Unix() {
			fail("C06-iter", "entry %q: mtime %d, disk has %d", nm, be64(out[8:16]), fi.ModTime().Unix())
		}
		if q.Op == opReadDirEntryV2 && (be64(out[16:24]) != maskedCtime || be64(out[24:32]) != maskedAtime) {
			fail("C06-times", "entry %q: change time %d, access time %d; the file has %d and %d (mtime %d)", nm, be64(out[16:24]), be64(out[24:32]), maskedCtime, maskedAtime, fi.ModTime().Unix())
		}
	case opReadDir:
		if so.closed || len(out) < 8 {
			fail("C03-shape", "READ_DIR answer has %d bytes closed=%v", len(out), so.closed)
			return
		}
		k := be64(out[:8])
		const es = 8 + 8 + 1 + 512
		if int64(len(out)) != 8+k*es {
			fail("C03-shape", "READ_DIR announces %d entries but carries %d bytes", k, len(out)-8)
			return
		}
		if st.cwdPath == "" && k != 0 {
			fail("C06-bulk", "entries reported with no open directory")
		}
		if st.cwdLeft == nil {
			return
		}
		var got []string
		for i := int64(0); i < k; i++ {
			e := out[8+i*es : 8+(i+1)*es]
			nm := string(bytes.TrimRight(e[17:], "\x00"))
			fi, err := os.Stat(filepath.Join(root, st.cwdPath, nm))
			if err != nil {
				fail("C06-bulk", "entry %q does not exist", nm)
				continue
			}
			wantSize := fi.Size()
			if fi.IsDir() {
				wantSize = 0
			}
			if be64(e[0:8]) != wantSize || be64(e[8:16]) != fi.ModTime().Unix() || (e[16] == 1) != fi.IsDir() {
				fail("C06-bulk", "entry %q: size=%d mtime=%d dir=%d; disk: %d %d %v", nm, be64(e[0:8]), be64(e[8:16]), e[16], wantSize, fi.ModTime().Unix(), fi.IsDir())
			}
			got = append(got, nm)
		}
		gotSet := map[string]bool{}
		for _, nm := range got {
			if gotSet[nm] || st.cwdSeen[nm] {
				fail("C06-bulk", "entry %q of %q reported twice", nm, st.cwdPath)
			}
			gotSet[nm] = true
		}
		for nm := range st.cwdLeft { // every entry present at open time that still exists must be listed
			if _, err := os.Stat(filepath.Join(root, st.cwdPath, nm)); err == nil && !gotSet[nm] {
				fail("C06-bulk", "listing of %q misses %q (%d names listed)", st.cwdPath, nm, len(got))
				break
			}
		}
		if st.cwdSeen == nil {
			st.cwdSeen = map[string]bool{}
		}
		for nm := range gotSet {
			st.cwdSeen[nm] = true
		}
		st.cwdLeft = map[string]bool{}
	case opCreateFile, opDeleteFile, opMkdir, opRmdir:
		code := int32(binary.BigEndian.Uint32(out))
		if allow && st.tree != nil {
			// exactly the named effect: the set of paths under the root changes by the one named entry on success, not at all on failure
			now := walkTree(root)
			var added, removed []string
			for p, k := range now {
				if k0, ok := st.tree[p]; !ok || k0 != k {
					added = append(added, p+":"+string(k))
				}
			}
			for p, k := range st.tree {
				if k1, ok := now[p]; !ok || k1 != k {
					removed = append(removed, p+":"+string(k))
				}
			}
			sort.Strings(added)
			sort.Strings(removed)
			st.tree = now
			want := canon(q.Path)
			var wantAdd, wantRem []string
			if code == 0 {
				switch q.Op {
				case opMkdir:
					wantAdd = []string{want + ":d"}
				case opCreateFile:
					if len(added) > 0 { // (an existing file is truncated: no change of the set)
						wantAdd = []string{want + ":f"}
					}
				case opDeleteFile, opRmdir: // (which kinds each of the two accepts is the session model's business; here: nothing but the named path goes)
					wantRem = []string{want + ":f"}
					if len(removed) == 1 && removed[0] == want+":d" {
						wantRem = removed
					}
				}
			}
			if !isVirtual(q.Path) && (strings.Join(added, "|") != strings.Join(wantAdd, "|") || strings.Join(removed, "|") != strings.Join(wantRem, "|")) {
				fail("C05-exact", "answered %d; paths that appeared: %v, disappeared: %v; the named effect is +%v -%v", code, trunc(added), trunc(removed), wantAdd, wantRem)
			}
		}
		if !allow && code != -1 {
			fail("C05-gate", "writing is disabled but the request answered %d", code)
		}
		if code != 0 && code != -1 {
			fail("C03-shape", "result code %d", code)
		}
		if q.Op == opCreateFile && allow {
			// a create closes the previous upload whatever its own outcome; on success a new (empty) upload begins
			st.woPath, st.woData = "", nil
			if code == 0 && !isVirtual(q.Path) {
				if fi, err := os.Stat(real(q.Path)); err == nil && !fi.IsDir() {
					st.woPath = canon(q.Path)
					if fi.Size() != 0 {
						fail("C05-upload", "CREATE_FILE %q succeeded but the file has %d bytes", st.woPath, fi.Size())
					}
				} else if err != nil {
					fail("C05-effect", "CREATE_FILE %q answered 0 but no such file exists", canon(q.Path))
				}
			}
		}
		if allow && code == 0 {
			_, err := os.Stat(real(q.Path))
			switch q.Op {
			case opMkdir:
				if fi, e2 := os.Stat(real(q.Path)); e2 != nil || !fi.IsDir() {
					fail("C05-effect", "MKDIR %q answered 0 but there is no such directory", canon(q.Path))
				}
			case opDeleteFile, opRmdir:
				if err == nil {
					fail("C05-effect", "removal of %q answered 0 but it still exists", canon(q.Path))
				}
				if canon(q.Path) == st.woPath {
					st.woPath = "?gone"
				}
			}
		}
	case opWriteFile:
		code := int32(binary.BigEndian.Uint32(out))
		if !allow && code != -1 {
			fail("C05-gate", "writing is disabled but WRITE_FILE answered %d", code)
		}
		if code != -1 && code != int32(len(q.Payload)) {
			fail("C05-upload", "WRITE_FILE of %d bytes answered %d", len(q.Payload), code)
		}
		if allow {
			switch {
			case st.woPath == "":
				if code != -1 {
					fail("C05-upload", "WRITE_FILE answered %d although no upload is open (the last create failed or none was made)", code)
				}
			case st.woPath == "?gone":
			default:
				if code == int32(len(q.Payload)) {
					st.woData = append(st.woData, q.Payload...)
				}
				if disk, err := os.ReadFile(filepath.Join(root, st.woPath)); err == nil && !bytes.Equal(disk, st.woData) {
					fail("C05-upload", "after uploading to %q the file holds %d bytes, the accepted payloads are %d bytes; equal prefix: %v", st.woPath, len(disk), len(st.woData), bytes.HasPrefix(disk, st.woData) || bytes.HasPrefix(st.woData, disk))
				}
			}
		}
	case opGetDirSize:
		got := be64(out)
		var want int64
		_ = filepath.Walk(real(q.Path), func(p string, fi os.FileInfo, err error) error {
			if err == nil && fi.Mode().IsRegular() {
				want += fi.Size()
			}
			return nil
		})
		if got != want && len(q.Path) < 2000 {
			fail("C06-dirsize", "GET_DIR_SIZE %q answered %d, the files below it sum to %d", canon(q.Path), got, want)
		}
	}
}

func trunc(l []string) []string {
	if len(l) > 6 {
		return append(append([]string{}, l[:6]...), "...")
	}
	return l
}

// ---------------------------------------------------------------- the job

func snapshotLines(lines []string, prefixHex string, inside bool) []string {
	var out []string
	for _, l := range lines {
		f := strings.Fields(l)
		if len(f) < 2 {
			continue
		}
		in := f[1] == prefixHex || strings.HasPrefix(f[1], prefixHex+"2f")
		if in == inside {
			out = append(out, l)
		}
	}
	return out
}

func runSess(env *Env) error {
	base, err := os.MkdirTemp("", "vsess")
	if err != nil {
		return err
	}
	defer os.RemoveAll(base)
	rHex := hx([]byte("/R"))
	for i := 0; i < env.N; i++ {
		id := fmt.Sprintf("sess-%d", i)
		withCD := i%10 == 3
		top := filepath.Join(base, fmt.Sprintf("w%da", i))
		w := genWorld(env, withCD)
		// (costs about 30 s of model time: only in the runs of the properties about framing and listings)
		wantBig := os.Getenv("VERIF_BIGDIR") != "" // (off by default: the framing and completeness of very large listings are decided by job bigdir)
		if i == 8 && wantBig { // a directory with more entries than any plausible listing limit
			big := &WNode{Name: "big", Dir: true, MTime: 1500000900}
			for k := 4099; k >= 0; k-- { // (descending: the model's insertion sort is linear on this order)
				big.Kids = append(big.Kids, &WNode{Name: fmt.Sprintf("e%04d", k), MTime: 1400000000 + int64(k%7), Content: Content{{Kind: 'g', N: k % 3, A: k}}})
			}
			if w.Child("R").Child("big") == nil {
				w.Child("R").Kids = append(w.Child("R").Kids, big)
			}
			env.Count("variant", "big-directory")
		}
		bigDir := i == 8 && wantBig // (a case whose stream is sent request by request)
		emptyRoot := i%16 == 9 // an empty served root, uploads allowed: the only state in which removing "/" could succeed
		if emptyRoot {
			w.Child("R").Kids = nil
		}
		if err := w.Materialise(top); err != nil {
			return err
		}
		allow := env.Rnd.Intn(2) == 0 || emptyRoot
		var reqs []*Req
		if emptyRoot {
			spell := []string{"/", "", ".", "/.", "/..", "//", "/./", "/../..", "/x/.."}
			for k := 0; k < 2+env.Rnd.Intn(3); k++ {
				reqs = append(reqs, &Req{Op: []int{opDeleteFile, opRmdir}[env.Rnd.Intn(2)], Path: spell[env.Rnd.Intn(len(spell))]})
			}
			reqs = append(reqs, &Req{Op: opStatFile, Path: "/"}, &Req{Op: opOpenDir, Path: "/"}, &Req{Op: opReadDir},
				&Req{Op: opMkdir, Path: "/n"}, &Req{Op: opStatFile, Path: "/n"}, &Req{Op: opRmdir, Path: "/n"}, &Req{Op: opRmdir, Path: "/"}, &Req{Op: opStatFile, Path: "/"})
			for _, q := range reqs {
				q.Junk = make([]byte, 14)
			}
			env.Count("variant", "empty-root")
		} else {
			g := newSessGen(env, w.Child("R"))
			nreq := 1 + env.Rnd.Intn(40)
			if env.Rnd.Intn(10) == 0 {
				nreq = 100 + env.Rnd.Intn(100)
			}
			reqs = g.gen(nreq, withCD)
			if bigDir { // the bulk listing of the big directory, and whether the connection is still in step afterwards
				pre := []*Req{{Op: opOpenDir, Path: "/big"}, {Op: opReadDir}, {Op: opStatFile, Path: "/big/e0007"}}
				for _, q := range pre {
					q.Junk = make([]byte, 14)
				}
				reqs = append(pre, reqs[:min(len(reqs), 3)]...)
			}
		}
		mode := "steps"
		var chunks [][]byte
		var ops []int
		var stream []byte
		for _, q := range reqs {
			wb := q.Wire()
			chunks = append(chunks, wb)
			ops = append(ops, q.Op)
			stream = append(stream, wb...)
		}
		sessSplit = nil
		switch i % 8 {
		case 3: // every request reaches the server in 2..4 pieces (header / path / payload cut anywhere, incl. after the first byte)
			seed := env.Rnd.Int63()
			sessSplit = func(k int, wire []byte) [][]byte {
				r := rand.New(rand.NewSource(seed + int64(k)))
				if len(wire) < 2 {
					return [][]byte{wire}
				}
				var cuts []int
				for n := 1 + r.Intn(3); n > 0; n-- {
					switch r.Intn(4) {
					case 0:
						cuts = append(cuts, 1)
					case 1:
						cuts = append(cuts, min(16, len(wire)-1)) // between the fixed part and what follows it
					case 2:
						cuts = append(cuts, min(17, len(wire)-1))
					default:
						cuts = append(cuts, 1+r.Intn(len(wire)-1))
					}
				}
				sort.Ints(cuts)
				var out [][]byte
				prev := 0
				for _, c := range cuts {
					if c > prev {
						out = append(out, wire[prev:c])
						prev = c
					}
				}
				return append(out, wire[prev:])
			}
			env.Count("variant", "requests in pieces")
		case 5: // truncated stream: cut at a random point, sent as one blob
			cut := env.Rnd.Intn(len(stream) + 1)
			stream = stream[:cut]
			chunks, ops, mode = [][]byte{stream}, nil, "blob"
		case 6: // mutated stream
			for k := 0; k < 1+env.Rnd.Intn(4); k++ {
				if len(stream) > 0 {
					stream[env.Rnd.Intn(len(stream))] ^= byte(1 << uint(env.Rnd.Intn(8)))
				}
			}
			chunks, ops, mode = [][]byte{stream}, nil, "blob"
		case 7: // random bytes
			if i%16 == 7 {
				stream = make([]byte, env.Rnd.Intn(200))
				env.Rnd.Read(stream)
				chunks, ops, mode = [][]byte{stream}, nil, "blob"
			}
		}
		_, before, err := DumpDisk(top)
		if err != nil {
			return err
		}
		st := &oracleState{tree: walkTree(filepath.Join(top, "R"))}
		bufSize := int64(65536)
		var after func(int, stepObs, *LibServer)
		if mode == "steps" {
			after = func(k int, so stepObs, ls *LibServer) { checkStep(env, id, top, allow, st, reqs[k], so) }
		}
		res, err := runSession(top, allow, chunks, ops, bufSize, after)
		sessSplit = nil
		if err != nil {
			return err
		}
		// session-level oracles
		if res.leak != 0 || !res.goroutineEnded {
			env.OracleFail(id, fmt.Sprintf("[C13-leak] %d handles still open after the connection ended (goroutine ended: %v)", res.leak, res.goroutineEnded))
		}
		if strings.Join(snapshotLines(before, rHex, false), "\n") != strings.Join(snapshotLines(res.dumpLines, rHex, false), "\n") {
			env.OracleFail(id, "[C01-outside] the tree outside the served root changed during the session")
		}
		if st, err := os.Stat(filepath.Join(top, "R")); err != nil || !st.IsDir() {
			env.OracleFail(id, fmt.Sprintf("[C05-root] the served root directory itself no longer exists after the session: %s", trim(describeReqs(reqs), 300)))
			env.OracleFail(id, fmt.Sprintf("[C01-root] a request reached the served root directory itself (it was removed) instead of something below it: %s", trim(describeReqs(reqs), 300)))
		}
		if !allow && strings.Join(before, "\n") != strings.Join(res.dumpLines, "\n") {
			env.OracleFail(id, "[C05-readonly] writing is disabled but the served tree changed")
		}
		// non-interference oracle (C01): the same session against a world whose surroundings of the root
		// differ (other names, other contents) must produce the same bytes
		if i%4 == 1 {
			top2 := filepath.Join(base, fmt.Sprintf("w%db", i))
			w2 := &WNode{Name: "", Dir: true, MTime: 1200000000, Kids: []*WNode{
				w.Child("R"),
				{Name: "R-other", MTime: 1200000001, Content: lit([]byte("now a file"))},
				{Name: "Rx", Dir: true, MTime: 1200000002, Kids: []*WNode{{Name: "secret", Dir: true, MTime: 1200000003}}},
				{Name: "zz", MTime: 1200000004, Content: lit([]byte("zz"))},
			}}
			if err := w2.Materialise(top2); err != nil {
				return err
			}
			res2, err := runSession(top2, allow, chunks, ops, bufSize, nil)
			if err != nil {
				return err
			}
			a, b := obsString(res, true), obsString(res2, true)
			a, b = a[:strings.Index(a, ";world=")], b[:strings.Index(b, ";world=")]
			if a != b || len(res.steps) != len(res2.steps) {
				env.OracleFail(id, fmt.Sprintf("[C01-ni] the same session answered differently when only the surroundings of the root differ: %s vs %s", trim(a, 120), trim(b, 120)))
			} else {
				for k := range res.steps {
					if !bytes.Equal(res.steps[k].out, res2.steps[k].out) {
						env.OracleFail(id, fmt.Sprintf("[C01-ni] step %d answered differently when only the surroundings of the root differ", k))
						break
					}
				}
			}
			env.Count("ni_runs", "1")
			os.RemoveAll(top2)
		}
		cfg := fmt.Sprintf("%s|%s|%d|%s", hx([]byte("R")), hxnum(int64(len(top))), b2i(allow), hxnum(tmutUnix))
		var opl []string
		for _, o := range ops {
			opl = append(opl, fmt.Sprintf("%x", o))
		}
		opsField := strings.Join(opl, ",")
		if opsField == "" {
			opsField = "-"
		}
		fields := []string{cfg, w.Spec(), lit(stream).Spec(), mode, opsField}
		nontrivial := len(res.steps) >= 3 || mode == "blob"
		env.Case(id, "SESS", fields, obsString(res, mode == "blob"), nontrivial)
		env.Count("mode", mode)
		env.Count("allow_write", fmt.Sprint(allow))
		env.Count("closed_by_server", fmt.Sprint(res.closedByServer))
		for k := range res.steps {
			if mode == "steps" {
				env.Count("opcode", fmt.Sprintf("%#x", reqs[k].Op))
			}
		}
		if i < 3 {
			var rs []string
			for k, q := range reqs {
				if k < 8 {
					rs = append(rs, q.String())
				}
			}
			env.Sample(map[string]any{"id": id, "mode": mode, "allow_write": allow, "requests": rs, "observed": trim(obsString(res, mode == "blob"), 300)})
		}
		os.RemoveAll(top)
	}
	return nil
}

func b2i(b bool) int {
	if b {
		return 1
	}
	return 0
}

func trim(s string, n int) string {
	if len(s) > n {
		return s[:n] + "..."
	}
	return s
}
