//go:build verif

package main

import (
	"sync"
	"bufio"
	"crypto/sha1"
	"encoding/hex"
	"encoding/json"
	"fmt"
	"math/rand"
	"os"
	"path/filepath"
	"sort"
	"strings"
)

// Env carries the output files, the single PRNG and the statistics of one harness run.
type Env struct {
	Out    string
	Seed   int64
	N      int
	Tier   string
	Replay string
	Rnd    *rand.Rand

	cases, impl, oracle *bufio.Writer
	files               []*os.File

	oracleMu    sync.Mutex // for jobs that report from several goroutines
	nCases      int
	nOracleFail int
	distinct    map[string]bool // hashes of non-trivial canonical cases
	Dist        map[string]map[string]int
	Samples     []any
	Extra       map[string]any
}

func NewEnv(out string, seed int64, n int, tier, replay string) (*Env, error) {
	if err := os.MkdirAll(out, 0o755); err != nil {
		return nil, err
	}
	e := &Env{Out: out, Seed: seed, N: n, Tier: tier, Replay: replay, Rnd: rand.New(rand.NewSource(seed)),
		distinct: map[string]bool{}, Dist: map[string]map[string]int{}, Extra: map[string]any{}}
	for _, nm := range []string{"cases.tsv", "impl.tsv", "oracle.tsv"} {
		f, err := os.Create(filepath.Join(out, nm))
		if err != nil {
			return nil, err
		}
		e.files = append(e.files, f)
	}
	e.cases = bufio.NewWriterSize(e.files[0], 1<<20)
	e.impl = bufio.NewWriterSize(e.files[1], 1<<20)
	e.oracle = bufio.NewWriterSize(e.files[2], 1<<20)
	return e, nil
}

// Case records one case: the model input, the implementation's observation, whether it
// is non-trivial by the property's rule, and (optionally) a sample for the evidence file.
func (e *Env) Case(id, kind string, fields []string, implObs string, nontrivial bool) {
	fmt.Fprintf(e.cases, "%s\t%s\t%s\n", id, kind, strings.Join(fields, "\t"))
	fmt.Fprintf(e.impl, "%s\t%s\n", id, implObs)
	e.nCases++
	if nontrivial {
		h := sha1.Sum([]byte(kind + "\x00" + strings.Join(fields, "\x00")))
		e.distinct[hex.EncodeToString(h[:8])] = true
	}
}

// OracleFail records a violation of the property seen by the direct (model-independent) oracle.
func (e *Env) OracleFail(id, msg string) {
	fmt.Fprintf(e.oracle, "%s\t%s\n", id, strings.ReplaceAll(msg, "\n", " "))
	e.nOracleFail++
}

func (e *Env) Count(dim, key string) {
	m := e.Dist[dim]
	if m == nil {
		m = map[string]int{}
		e.Dist[dim] = m
	}
	m[key]++
}

func (e *Env) Sample(v any) {
	if len(e.Samples) < 6 {
		e.Samples = append(e.Samples, v)
	}
}

func (e *Env) Close() error {
	for _, w := range []*bufio.Writer{e.cases, e.impl, e.oracle} {
		if err := w.Flush(); err != nil {
			return err
		}
	}
	for _, f := range e.files {
		f.Close()
	}
	st := map[string]any{
		"evaluations":         e.nCases,
		"distinct_nontrivial": len(e.distinct),
		"oracle_failures":     e.nOracleFail,
		"input_distribution":  e.Dist,
		"samples":             e.Samples,
		"seed":                e.Seed,
		"tier":                e.Tier,
	}
	keys := make([]string, 0, len(e.Extra))
	for k := range e.Extra {
		keys = append(keys, k)
	}
	sort.Strings(keys)
	for _, k := range keys {
		st[k] = e.Extra[k]
	}
	b, err := json.MarshalIndent(st, "", " ")
	if err != nil {
		return err
	}
	return os.WriteFile(filepath.Join(e.Out, "stats.json"), b, 0o644)
}

func hx(b []byte) string {
	if len(b) == 0 {
		return "-"
	}
	return hex.EncodeToString(b)
}

func hxnum(v int64) string {
	if v < 0 {
		return fmt.Sprintf("-%x", -v)
	}
	return fmt.Sprintf("%x", v)
}
