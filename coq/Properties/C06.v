(* Properties/C06.v — directory listing, stat and dir-size report the true tree.  Statements only.
   Worlds of the model hold no symlinks; symlink handling is judged by the direct oracle (DESIGN). *)
From Coq Require Import Permutation.
From Verif Require Import Lib.Bytes Model.Path Model.Fs Model.Session Gen.Consts Spec.ProtoSpec
  Proofs.SessionProofs Proofs.ListingProofs Proofs.Examples.

(* OPEN_DIR succeeds exactly for existing directories *)
Theorem C06_opendir : forall c w k p,
  o_out (step c w k (ROpenDir p)) = be32 0 <->
  exists fi, fs_stat (plen c) w (abs_path c (rooted_elems p)) = Ok fi /\ fi_dir fi = true.
Proof. exact open_dir_iff. Qed.

(* bulk listing: one fixed-size record per entry of the opened directory that can be statted, a
   permutation of the directory's entries (each once), each with its true kind, size (0 for
   directories), mtime and name; the world is not changed *)
Theorem C06_bulk : forall c w k h m cs,
  cwd k = Some (VPlain h) -> hdents h = None -> hobj_ h = HDir (abs_path c (hrel h)) ->
  walk (tree w) (abs_path c (hrel h)) = Ok (Dir m cs) ->
  exists infos,
    o_out (step c w k RReadDir) =
      be64 (zlen infos) ++ concat (map (fun e => enc_dir_entry (eff_size (snd e)) (fi_mtime (snd e)) (fi_dir (snd e)) (fst e)) infos) /\
    Permutation (map fst infos) (filter (statable c w (hrel h)) (map fst cs)) /\
    (forall n fi, In (n, fi) infos -> fs_stat (plen c) w (abs_path c (hrel h ++ [n])) = Ok fi) /\
    o_world (step c w k RReadDir) = w /\ o_close (step c w k RReadDir) = false.
Proof. exact read_dir_lists. Qed.

(* entry-by-entry enumeration, any mix of the two entry commands: every entry exactly once, in
   enumeration order, then the end marker; the directory handle is closed with the end marker *)
Theorem C06_iter : forall c w es k h names flav,
  cwd k = Some (VPlain h) -> h_load_dents w h = Ok names -> entries c w (hrel h) names = es ->
  length flav = S (length es) ->
  exists k', dir_iter c w k flav = (map (fun p => enc_entry (fst p) (snd p)) (combine flav es) ++ [end_marker (last flav false)], k')
             /\ cwd k' = None /\ closes k' = closes k + 1 /\ opens k' = opens k /\ ro k' = ro k /\ wo k' = wo k.
Proof. exact dir_iter_all. Qed.

(* the names a directory handle enumerates are a permutation of the directory's entries *)
Theorem C06_names : forall l, Permutation (sort_names l) l.
Proof. exact sort_names_perm. Qed.

(* STAT reports the true kind, size (0 for directories) and times (mtime, then change time, then access time), or -1
   when the path does not resolve *)
Theorem C06_stat : forall c w k p,
  step c w k (RStatFile p) =
  match fs_stat (plen c) w (abs_path c (rooted_elems p)) with
  | Ok fi => done w k (enc_stat (eff_size fi) (fi_mtime fi) masked_ctime masked_atime (fi_dir fi))
  | Err _ => done w k (enc_stat (-1) 0 0 0 false)
  end.
Proof. exact stat_true. Qed.

(* GET_DIR_SIZE reports the sum of the sizes of the regular files beneath the requested directory *)
Theorem C06_dirsize : forall c w k p,
  step c w k (RGetDirSize p) =
  done w k (be64 (wrap64 (match resolve (plen c) w (abs_path c (rooted_elems p)) with
                          | Ok n => zsum (map (ino_size w) (files_below n))
                          | Err _ => 0 end))).
Proof. exact dir_size_true. Qed.

Print Assumptions C06_opendir.
Print Assumptions C06_bulk.
Print Assumptions C06_iter.
Print Assumptions C06_names.
Print Assumptions C06_stat.
Print Assumptions C06_dirsize.

Example C06_ex :
  let k1 := o_conn (step (ex_cfg false) ex_world conn0 (ROpenDir [47])) in
  fst (dir_iter (ex_cfg false) ex_world k1 [false; true; false])
  = [enc_dirent 11 1 false ++ ex_name_a; enc_dirent_v2 0 30 masked_ctime masked_atime 1 true ++ ex_name_d; enc_dirent (-1) 0 false]
  /\ o_out (step (ex_cfg false) ex_world conn0 (RGetDirSize [47])) = be64 14.
Proof. split; vm_compute; reflexivity. Qed.
