(* Properties/C07.v — the generated image contains the source tree byte for byte.  Statements only.
   [build_image] (Model/IsoBuild) is buildFS: from what the scan observes (the tree with every directory's
   entries in the order the filesystem returned them, names, sizes, recording times) to the metadata
   area, the ordered file table, the pad area and the announced size.  [image_of bi data] is the image
   as VirtualISO.read sees it, [data path] being the bytes of the source file at [path];
   [flat_at] is the one byte function of an image (Spec/IsoReadSpec). *)
From Verif Require Import Lib.Bytes Model.Path Model.Fs Gen.Consts Model.IsoRead Model.IsoBuild Spec.IsoReadSpec
  Proofs.IsoReadProofs Proofs.IsoBuildProofs Model.IsoDecode Proofs.IsoDecodeProofs Proofs.IsoLinksProofs Proofs.IsoChildProofs.

(* the files tile the space between the metadata area and the pad area, in scan order, each padded to a
   whole sector: exactly the precondition under which C09 proves every read to be a slice of flat_at *)
Theorem C07_layout : forall root v ps3 gc now rnd bi data,
  build_image root v ps3 gc now rnd = Ok bi -> layout_wf (image_of bi data).
Proof. exact built_layout_wf. Qed.

(* every file - empty, not a multiple of the sector size, larger than 4 GiB - has exactly its bytes at the
   location the file table gives it; any tree, any order of entries, both modes *)
Theorem C07_file_bytes : forall root v ps3 gc now rnd bi data,
  build_image root v ps3 gc now rnd = Ok bi ->
  forall path size lba, In (path, size, lba) (bi_files bi) ->
  forall i, 0 <= i < size -> flat_at (image_of bi data) (lba * sector_size + i) = data path i.
Proof. exact file_bytes_at_location. Qed.

(* the directory records: in both hierarchies the i-th directory's extent consists of ".", "..", then the
   records of exactly its files (in scan order, kept verbatim by every later step), then its sub-directories;
   the extents of a file's record(s) - one, or several of 0xFFFFF800 bytes plus the rest for files over
   4 GiB - read in order are exactly the bytes [lba*2048, lba*2048+size) where C07_file_bytes finds the
   file, and carry the mapped name of that file *)
Theorem C07_file_records : forall root v ps3 gc now rnd bi,
  build_image root v ps3 gc now rnd = Ok bi ->
  exists ds f_iso f_jol pre files_lba,
    bi_fsbuf bi = pre ++ dirs_bytes f_iso ++ dirs_bytes f_jol /\
    forall i d, nth_error ds i = Some d -> forall j : bool,
      (exists x y c, nth_error (if j then f_jol else f_iso) i
                     = Some (x :: y :: concat (map (file_recs files_lba j) (di_files d)) ++ c)) /\
      forall f, In f (di_files d) ->
        In (di_path d ++ [df_name f], df_size f, df_lba f + files_lba) (bi_files bi) /\
        extents_tile (extents (file_recs files_lba j f)) ((df_lba f + files_lba) * sector_size) (df_size f) /\
        Forall (fun e => de_id e = make_identifier (df_name f) j) (file_recs files_lba j f).
Proof. exact file_records. Qed.

(* what a client reads from the built image is the slice of that byte function (C09 applied to the builder) *)
Theorem C07_served_bytes : forall root v ps3 gc now rnd bi data,
  build_image root v ps3 gc now rnd = Ok bi ->
  forall off len, 0 <= off -> 0 <= len -> iso_read (image_of bi data) off len = ref_read (image_of bi data) off len.
Proof. exact built_image_reads. Qed.

(* names made only of portable characters (A-Z a-z 0-9 . _ -) are preserved: upper-cased in the primary
   hierarchy, verbatim (UTF-16BE) in the Joliet hierarchy *)
Theorem C07_names : forall name, forallb portable name = true ->
  make_identifier name false = map upper_byte name /\ make_identifier name true = utf16be name.
Proof. exact portable_names_preserved. Qed.

(* an independent reader (Model/IsoDecode: walk the extent record by record, a zero length byte skips to the next
   sector) applied to any directory extent the builder wrote returns exactly the builder's records - location and
   length (mod 2^32), the 7-byte recording time, flags, identifier - in order; so what C07_file_records says about
   the records is what a reader of the image bytes sees *)
Theorem C07_directory_decodes : forall es, Forall fits_byte es ->
  decode_dir (2 * length es + 2) (pad_sector (entries_encode es 0)) 0 = map to_rrec es.
Proof. exact directory_decodes. Qed.

Theorem C07_built_directories_decode : forall root v ps3 gc now rnd bi, build_image root v ps3 gc now rnd = Ok bi ->
  exists pre f_iso f_jol,
    bi_fsbuf bi = pre ++ dirs_bytes f_iso ++ dirs_bytes f_jol /\
    Forall (fun es => decode_dir (2 * length es + 2) (pad_sector (entries_encode es 0)) 0 = map to_rrec es
                      /\ exists r, map rr_id (map to_rrec es) = [0] :: [1] :: r) (f_iso ++ f_jol).
Proof. exact built_directories_decode. Qed.

(* a walk from the root reaches every directory: in both hierarchies every directory other than the root has, in the
   extent of the directory the scan found it in (which is listed earlier), a record with its mapped name, the
   directory flag, and exactly the location and length its own "." carries (C08_links says those are where the
   directory's extent really is) *)
Theorem C07_every_directory_reachable : forall root v ps3 gc now rnd bi, build_image root v ps3 gc now rnd = Ok bi ->
  exists ds f_iso f_jol pre,
    bi_fsbuf bi = pre ++ dirs_bytes f_iso ++ dirs_bytes f_jol /\
    length f_iso = length ds /\ length f_jol = length ds /\
    hier_reach ds false f_iso /\ hier_reach ds true f_jol.
Proof. exact every_directory_reachable. Qed.

Print Assumptions C07_layout.
Print Assumptions C07_file_bytes.
Print Assumptions C07_file_records.
Print Assumptions C07_served_bytes.
Print Assumptions C07_names.
Print Assumptions C07_directory_decodes.
Print Assumptions C07_built_directories_decode.
Print Assumptions C07_every_directory_reachable.

(* non-vacuity: a tree with an empty file, a 5-byte file, a sub-directory holding a 3000-byte file and a
   file of 4 GiB + 10 bytes (two extents) builds; sizes and locations as the layout rules give them *)
Definition t7 : bytes := [100; 1; 1; 0; 0; 0; 0].
Definition ex_tree : snode :=
  SDir [114] t7 [SFile [97; 46; 116; 120; 116] 5 t7; SFile [101] 0 t7;
                 SDir [115; 117; 98] t7 [SFile [98] 3000 t7];
                 SFile [104] 4294967306 t7].

Example C07_ex_builds :
  match build_image ex_tree [86] false [] [] [] with
  | Ok bi => map (fun x => (snd (fst x), snd x)) (bi_files bi) = [(5, 28); (0, 29); (4294967306, 29); (3000, 2097182)]
             /\ zlen (bi_fsbuf bi) = 28 * 2048 /\ bi_total bi = 2097216 * 2048
  | Err _ => False
  end.
Proof. vm_compute. repeat split; reflexivity. Qed.
