(* Properties/C09.v — generated ISO reads are position-independent.  Statements only.
   [flat_at img] is the one fixed byte function of an image (Spec/IsoReadSpec); [iso_read]/[iso_step]
   model VirtualISO.read / Read / ReadAt / Seek with their running counters (Model/IsoRead). *)
From Verif Require Import Lib.Bytes Model.Fs Gen.Consts Model.IsoRead Spec.IsoReadSpec Proofs.IsoReadProofs.

(* one read: for every image whose files tile the file area, every offset >= 0 and every buffer
   length, the bytes returned are exactly the slice [off, min(off+len, total)) of the flat image -
   across metadata, files, inter-file padding and the trailing pad area; files of any size, empty
   files included; end-of-file exactly at the announced size *)
Theorem C09_reader_ok : forall img off len, layout_wf img -> 0 <= off -> 0 <= len ->
  iso_read img off len = ref_read img off len.
Proof. exact iso_read_ok. Qed.

(* any history of Read(n) / Seek(off, whence) / ReadAt(n, off): the same results as plain cursor
   semantics over the flat image (data, EOF, range errors), for every sequence *)
Theorem C09_history : forall img, layout_wf img -> forall ops cur, 0 <= cur -> Forall op_ok ops ->
  iso_run img cur ops = ref_run img cur ops.
Proof. exact iso_run_ok. Qed.

(* progress: a read below the announced size returns min(n, total - off) > 0 bytes *)
Theorem C09_progress : forall img off len d, ref_read img off len = Ok d -> 0 <= off -> 0 <= len ->
  zlen d = Z.min len (total img - off) /\ 0 < zlen d.
Proof. exact ref_read_length. Qed.

Print Assumptions C09_reader_ok.
Print Assumptions C09_history.
Print Assumptions C09_progress.

(* non-vacuity: files of sizes 100, 0, 3000, 2048, 1 after 4096 bytes of metadata; a read of 4096 bytes
   starting 90 bytes into the first file crosses data, padding, an empty file and the next file *)
Definition ex_file (size lba seed : Z) : vfile := {| vsize := size; vlba := lba; vdata := fun i => (i * 7 + seed) mod 251 |}.
Definition ex_img : image :=
  {| fsbuf := repeat 5 4096;
     vfiles := [ex_file 100 2 1; ex_file 0 3 2; ex_file 3000 3 3; ex_file 2048 5 4; ex_file 1 6 5];
     pad_start := 7 * 2048; pad_size := 32 * 2048; total := 39 * 2048 |}.

Example C09_ex_wf : layout_wf ex_img.
Proof.
  assert (L : zlen (fsbuf ex_img) = 4096) by (vm_compute; reflexivity).
  constructor; rewrite ?L; cbn -[Z.mul Z.add Z.opp]; repeat split; try reflexivity; try lia.
Qed.

Example C09_ex_read :
  match iso_read ex_img (4096 + 90) 4096 with
  | Ok d => zlen d = 4096 /\ firstn 12 d = [129; 136; 143; 150; 157; 164; 171; 178; 185; 192; 0; 0]
            /\ nth 1958 d 9 = 3 /\ nth 1959 d 9 = 10
  | Err _ => False
  end.
Proof. vm_compute. repeat split; reflexivity. Qed.
