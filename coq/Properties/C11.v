(* Properties/C11.v — image-kind detection and key discovery.  Statements only.
   [open_file c w rel] is the view FS.OpenFile chooses for a path opened for reading;
   [kind_read] is what a positional read returns through that view.  Opening for writing never
   consults this chain (C05: the raw file is handed out). *)
From Verif Require Import Lib.Bytes Model.Path Model.Fs Model.Session Gen.Consts Model.IsoRead Model.Crypt
  Model.Detect Spec.CryptSpec Proofs.CryptProofs Proofs.DetectProofs.

(* the decision chain for a regular file: a redump key (if one applies) wins over the 3k3y test; without
   a key the watermark decides between decrypt+mask, mask only, and plain; a failing key read fails the open *)
Theorem C11_decision : forall c w rel i x,
  virtual_kind rel = None -> resolve (plen c) w (abs_path c rel) = Ok (File i) -> get_inode (inodes w) i = Some x ->
  open_file c w rel =
  match try_key c w rel with
  | Ok key => match new_encrypted (idata x) false with Ok v => KEnc key v | Err e => KErr e end
  | Err ENOENT =>
      match test_3k3y (idata x) with
      | Some (Some key) => match new_encrypted (idata x) false with Ok v => KEnc3k3y key v | Err e => KErr e end
      | Some None => KMask
      | None => KPlain
      end
  | Err e => KErr e
  end.
Proof. exact open_file_decision. Qed.

(* a key applies only to *.iso (any case) below a PS3ISO element (any case) *)
Theorem C11_key_scope : forall c w rel,
  list_eqb (to_lower (ext (last_elem rel))) iso_ext = false \/
  find_index (fun y => list_eqb (to_lower y) ps3iso_dir) rel 0 = None ->
  try_key c w rel = Err ENOENT.
Proof. intros c w rel [H|H]; [apply try_key_not_iso|apply try_key_no_ps3iso]; exact H. Qed.

(* precedence: the key file beside the image wins; REDKEY is consulted only when there is no such file ("no such file"
   includes a regular file where a directory of the key's path would be: key_missing); when REDKEY has none either no
   key applies; a key file that exists but cannot be opened is an error (the image is never served as if it had no key) *)
Theorem C11_precedence : forall c w rel idx,
  list_eqb (to_lower (ext (last_elem rel))) iso_ext = true ->
  find_index (fun x => list_eqb (to_lower x) ps3iso_dir) rel 0 = Some idx ->
  (forall r, open_key c w (adjacent_key rel) = Ok r -> try_key c w rel = r) /\
  (forall e1, open_key c w (adjacent_key rel) = Err e1 -> key_missing e1 = true ->
     try_key c w rel = match open_key c w (redkey_key rel idx) with
                       | Ok r => r
                       | Err e2 => if key_missing e2 then Err ENOENT else Err e2
                       end) /\
  (forall e, open_key c w (adjacent_key rel) = Err e -> key_missing e = false -> try_key c w rel = Err e).
Proof.
  intros c w rel idx H1 H2. split; [|split]; intros;
    [eapply try_key_adjacent|eapply try_key_redkey|eapply try_key_adjacent_unreadable]; eauto.
Qed.

(* key files: 32 hexadecimal digits, whatever follows *)
Theorem C11_key_file : forall key trailing, bytes_ok key -> length key = 16%nat ->
  read_key (hex_encode key ++ trailing) = Ok key.
Proof. exact read_key_roundtrip. Qed.

(* every other file is passed through byte-identically *)
Theorem C11_passthrough : forall c w rel i x,
  virtual_kind rel = None -> resolve (plen c) w (abs_path c rel) = Ok (File i) -> get_inode (inodes w) i = Some x ->
  (list_eqb (to_lower (ext (last_elem rel))) iso_ext = false \/
   find_index (fun y => list_eqb (to_lower y) ps3iso_dir) rel 0 = None) ->
  test_3k3y (idata x) = None -> open_file c w rel = KPlain.
Proof. exact plain_when_nothing_applies. Qed.

(* the mask zeroes exactly [0xF70, 0x1070) and nothing else, whatever the read window *)
Theorem C11_mask : forall d off j, (j < length d)%nat ->
  length (mask_from off d) = length d /\
  nth j (mask_from off d) 0 = if (wm_begin <=? off + Z.of_nat j) && (off + Z.of_nat j <? wm_end) then 0 else nth j d 0.
Proof. intros d off j Hj. split; [apply mask_from_length|apply mask_from_nth; exact Hj]. Qed.

Theorem C11_mask_range : wm_begin = 3952 /\ wm_end = 4208.       (* 0xF70, 0x1070 *)
Proof. split; reflexivity. Qed.

Section C11.
  Variable dec : Z -> bytes -> bytes.
  Hypothesis dec_length : forall s x, length (dec s x) = length x.

  (* with a key file: the reference plaintext of C10; with the embedded 3k3y key: decrypt, then mask *)
  Theorem C11_enc : forall key v content off n, view_wf v -> 0 <= off < zlen content -> 0 < n ->
    kind_read dec (KEnc key v) content off n = slice (plain_image dec v content) off n /\
    kind_read dec (KEnc3k3y key v) content off n = mask_from off (slice (plain_image dec v content) off n).
  Proof.
    intros key v content off n W Ho Hn. split;
      [apply (enc_reads_plaintext dec dec_length)|apply (enc3k3y_reads_masked_plaintext dec dec_length)]; auto.
  Qed.
End C11.

Print Assumptions C11_decision.
Print Assumptions C11_key_scope.
Print Assumptions C11_precedence.
Print Assumptions C11_key_file.
Print Assumptions C11_passthrough.
Print Assumptions C11_mask.
Print Assumptions C11_mask_range.
Print Assumptions C11_enc.
