(* Properties/C17.v — PSX CD sector reads.  Statements only. *)
From Verif Require Import Lib.Bytes Model.Path Model.Fs Model.Session Gen.Consts Spec.ProtoSpec
  Proofs.ProtoProofs Proofs.SessionProofs Proofs.ReadProofs Proofs.Examples.

(* the wire fields reach the handler as (start sector, sector count), in that order *)
Theorem C17_args : forall junk start cnt rest, wf_junk junk ->
  0 <= start < 2 ^ 32 -> 0 <= cnt < 2 ^ 32 ->
  parse_request ((be16 op_read_cd_2048 ++ firstn 2 junk ++ be32 start ++ be32 cnt ++ firstn 4 (skipn 2 junk)) ++ rest)
  = PReq (RReadCD start cnt) rest.
Proof. intros junk start cnt rest Hj Hs Hc. exact (parse_wire junk Hj (RReadCD start cnt) rest (conj Hs Hc)). Qed.

(* for every raw sector size S in force, every image (of a size the filesystem can hold: fs_max_offset is the largest
   offset lseek accepts there, regenerated with the other constants) and every (start, count) in range, the answer is
   exactly the 2048 user bytes [24 + (start+j)*S, +2048) of each sector j, in order, and nothing else *)
Theorem C17_read : forall c w k X start cnt,
  ro_is_file w k X -> 0 < cdsec k -> 0 <= start -> 0 <= cnt -> zlen X <= fs_max_offset ->
  psx_prefix + (start + cnt - 1) * cdsec k + cd_read_size <= zlen X \/ cnt = 0 ->
  step c w k (RReadCD start cnt) =
  done w k (cd_sectors X (cdsec k) (psx_prefix + start * cdsec k) (Z.to_nat cnt)).
Proof. exact read_cd_exact. Qed.

(* a range that cannot be served in full ends the connection; what was sent is whole sectors *)
Theorem C17_short : forall w v sec cnt off d,
  cd_read w v sec off cnt = (d, true) -> zlen d = Z.of_nat cnt * cd_read_size.
Proof. exact (fun w v sec => cd_read_shape w v sec). Qed.

(* detection: the size chosen is the first candidate (ascending) whose position 16*S+24 carries the
   ISO 9660 signature, or whose position 16*S+24+8 carries "PLAYSTATION "; -1 (keep 2352) otherwise.
   Holds for the candidate list, magics and offsets regenerated from the source on every run. *)
Theorem C17_detect : forall w h i x,
  hobj_ h = HFile i -> get_inode (inodes w) i = Some x ->
  psx_prefix + system_area_sectors * hd 0 sector_sizes + detect_buf_len <= zlen (idata x) ->
  determine_sector_size w (VPlain h) =
  match find (sig_at (idata x)) sector_sizes with Some s => s | None => -1 end.
Proof. exact detect_char. Qed.

(* the seven documented sizes, in ascending order, are the candidates *)
Theorem C17_sizes : sector_sizes = [2048; 2328; 2336; 2340; 2352; 2368; 2448] /\ default_sector_size = 2352
  /\ psx_prefix = 24 /\ cd_read_size = 2048 /\ detect_min_size = 2 * 1024 * 1024 /\ detect_max_size = 848 * 1024 * 1024.
Proof. repeat split; reflexivity. Qed.

Print Assumptions C17_args.
Print Assumptions C17_read.
Print Assumptions C17_short.
Print Assumptions C17_detect.
Print Assumptions C17_sizes.
