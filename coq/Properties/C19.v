(* Properties/C19.v — every setting works via flag, environment and INI file; flags win.
   Statements only (the proofs are a few lines each and stay here).  What is proved is the resolution
   order over the model of Model/Config; that the real binary follows this model for every setting and
   channel is the job of the correspondence check on the binary itself (kong and ini.v1 are
   dependencies: modelled, not verified). *)
From Verif Require Import Lib.Bytes Model.Fs Gen.Consts Model.Config.

(* a command-line flag always wins over every other channel *)
Theorem C19_flag_wins : forall v inis env def,
  raw_value {| ch_flag := Some v; ch_inis := inis; ch_env := env; ch_default := def |} = Some v.
Proof. reflexivity. Qed.

(* the same text through any single channel gives the same value - and therefore the same decoded setting *)
Theorem C19_channel_equiv : forall v def n m,
  raw_value {| ch_flag := Some v; ch_inis := repeat None n; ch_env := None; ch_default := def |} = Some v /\
  raw_value {| ch_flag := None; ch_inis := repeat None n ++ [Some v] ++ repeat None m; ch_env := None; ch_default := def |} = Some v /\
  raw_value {| ch_flag := None; ch_inis := repeat None n; ch_env := Some v; ch_default := def |} = Some v.
Proof.
  intros v def n m.
  assert (forall k acc, last_some (repeat None k) acc = acc) as L
    by (induction k; intros; cbn [repeat last_some]; auto).
  assert (forall k l acc, last_some (repeat None k ++ l) acc = last_some l acc) as L2
    by (induction k; intros; cbn [repeat app last_some]; auto).
  repeat split; unfold raw_value; cbn [ch_flag ch_inis ch_env ch_default]; rewrite ?L, ?L2; cbn [app last_some]; rewrite ?L; reflexivity.
Qed.

(* discovery order of INI files: a later file (--config / PS3NETSRV_CONFIG_FILE after ./config.ini after
   the user configuration directory) overrides an earlier one; INI overrides the environment *)
Theorem C19_discovery : forall a b env def before,
  raw_value {| ch_flag := None; ch_inis := before ++ [Some a; Some b]; ch_env := env; ch_default := def |} = Some b /\
  raw_value {| ch_flag := None; ch_inis := before ++ [Some a; None]; ch_env := env; ch_default := def |} = Some a.
Proof.
  intros a b env def before.
  assert (forall l acc x, last_some (l ++ [Some x]) acc = Some x) as L
    by (induction l as [|[y|] r IH]; intros; cbn [app last_some]; auto).
  split; unfold raw_value; cbn [ch_flag ch_inis].
  - replace (before ++ [Some a; Some b]) with ((before ++ [Some a]) ++ [Some b]) by (rewrite <- app_assoc; reflexivity).
    rewrite L. reflexivity.
  - replace (before ++ [Some a; None]) with ((before ++ [Some a]) ++ [None]) by (rewrite <- app_assoc; reflexivity).
    assert (forall l acc, last_some (l ++ [None]) acc = last_some l acc) as L3
      by (induction l as [|[y|] r IH]; intros; cbn [app last_some]; auto).
    rewrite L3, L. reflexivity.
Qed.

(* an invalid value stops start-up whichever channel it came through; it is never silently ignored *)
Theorem C19_fail_closed : forall (A : Type) (decode : bytes -> res A) (zero : A) ch v e,
  raw_value ch = Some v -> decode v = Err e -> effective A decode zero ch = Err e.
Proof. intros A decode zero ch v e H1 H2. unfold effective. rewrite H1. exact H2. Qed.

(* nothing given anywhere: the default *)
Theorem C19_default : forall n def,
  raw_value {| ch_flag := None; ch_inis := repeat None n; ch_env := None; ch_default := def |} = def.
Proof.
  intros n def. unfold raw_value. cbn [ch_flag ch_inis ch_env ch_default].
  assert (forall k acc, last_some (repeat None k) acc = acc) as L by (induction k; intros; cbn [repeat last_some]; auto).
  rewrite L. reflexivity.
Qed.

(* the settings table regenerated from the struct tags of serverApp: names, environment variables, defaults *)
Theorem C19_table :
  map fst server_settings = [[114;111;111;116]; [108;105;115;116;101;110;45;97;100;100;114]; [100;101;98;117;103]; [106;115;111;110;45;108;111;103];
    [100;101;98;117;103;45;115;101;114;118;101;114;45;108;105;115;116;101;110;45;97;100;100;114]; [114;101;97;100;45;116;105;109;101;111;117;116];
    [109;97;120;45;99;108;105;101;110;116;115]; [99;108;105;101;110;116;45;119;104;105;116;101;108;105;115;116]; [97;108;108;111;119;45;119;114;105;116;101];
    [98;117;102;102;101;114;45;115;105;122;101]].
Proof. reflexivity. Qed.

(* every setting's environment variable carries the documented name - PS3NETSRV_ followed by the flag name in upper case
   with '_' for '-' (README: PS3NETSRV_ROOT for --root) - and the documented defaults are the ones in the struct tags *)
Definition env_name_of (flag : list Z) : list Z :=
  [80;83;51;78;69;84;83;82;86;95] ++ map (fun ch => if ch =? 45 then 95 else if (97 <=? ch) && (ch <=? 122) then ch - 32 else ch) flag.

Theorem C19_env_names : map (fun s => fst (snd s)) server_settings = map (fun s => env_name_of (fst s)) server_settings.
Proof. reflexivity. Qed.

Theorem C19_defaults :
  map (fun s => snd (snd s)) server_settings
  = [[46]; [48;46;48;46;48;46;48;58;51;56;48;48;56]; []; []; []; [49;48;109]; []; []; []; [54;52;107]].   (* "." "0.0.0.0:38008" "10m" "64k" *)
Proof. reflexivity. Qed.

Print Assumptions C19_flag_wins.
Print Assumptions C19_env_names.
Print Assumptions C19_defaults.
Print Assumptions C19_channel_equiv.
Print Assumptions C19_discovery.
Print Assumptions C19_fail_closed.
Print Assumptions C19_default.
Print Assumptions C19_table.
