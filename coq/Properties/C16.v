(* Properties/C16.v — idle connections are cut after the read timeout, active ones never.
   Statements only.  Logical clock; [tserve fuel T t0 bytes times] runs the connection loop from
   time t0 over a byte stream whose k-th byte arrives at [times_k]; it returns the times at which
   requests were handled and how the connection ended. *)
From Verif Require Import Lib.Bytes Model.Path Model.Fs Model.Session Gen.Consts Spec.ProtoSpec
  Model.Timeout Proofs.TimeoutProofs.

(* active connections are never cut, idle ones always: for every request sequence - of any length -
   in which each request is complete within T of the moment the previous one was handled (bytes may
   trickle in, or be pipelined), every request is handled, the deadline in force is always the one
   armed at the last handled request, and when the client then goes silent or stalls inside a command,
   a path or a payload, the connection is cut exactly T after the last handled request *)
Theorem C16_alive_then_cut : forall T, 0 < T -> forall rqs junks t times tail fuel,
  Forall wf_request rqs -> Forall wf_junk junks -> length junks = length rqs ->
  (length rqs < fuel)%nat -> parse_request tail = PShort ->
  gaps_ok T t rqs times ->
  tserve fuel T t (wires rqs junks ++ tail) times =
  (completions t rqs times, TCut (last (completions t rqs times) t + T)).
Proof. exact tserve_active_then_silent. Qed.

(* a request that is complete only after the deadline is not handled: the connection is closed at
   the deadline (even if its first bytes were in time) *)
Theorem C16_late : forall T t rq junk rest times,
  wf_request rq -> wf_junk junk -> 0 < T -> t + T < Z.max t (arrival times (wire_len rq)) ->
  titer T t (wire rq junk ++ rest) times = (TCut (t + T), [], []).
Proof. exact titer_late. Qed.

(* silence - nothing at all, a command or path cut short, an upload whose payload stops arriving - is cut at the deadline *)
Theorem C16_stalled : forall T t data times, 0 < T ->
  (parse_request data = PShort \/ exists rq rest, parse_request data = PReq rq rest /\ incomplete rq = true) ->
  titer T t data times = (TCut (t + T), [], []).
Proof.
  intros T t data times HT [H|(rq & rest & H & Hi)]; [apply titer_stalled; auto|eapply titer_stalled_payload; eauto].
Qed.

(* a timeout of zero or less disables the cut *)
Theorem C16_off : forall T, T <= 0 -> forall fuel t data times,
  match snd (tserve fuel T t data times) with TCut _ => False | _ => True end.
Proof. exact tserve_no_timeout. Qed.

Print Assumptions C16_alive_then_cut.
Print Assumptions C16_late.
Print Assumptions C16_stalled.
Print Assumptions C16_off.

(* non-vacuity: three STATs at 0.5T spacing, then a stall inside the path of a fourth *)
Definition ex_stat : bytes := wire (RStatFile [47;97]) (repeat 0 14).           (* 18 bytes *)
Example C16_ex :
  tserve 10 100 0 (ex_stat ++ ex_stat ++ ex_stat ++ firstn 17 ex_stat)
         (repeat 50 18 ++ repeat 100 18 ++ repeat 150 18 ++ repeat 160 17)
  = ([50; 100; 150], TCut 250).
Proof. vm_compute. reflexivity. Qed.

(* a loop that armed the deadline only once would cut this active connection at time 100: the theorem
   above excludes it (the second request completes at 100 < 50 + 100, the third at 150 > 0 + 100) *)
