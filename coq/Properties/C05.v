(* Properties/C05.v — write gating.  Statements only. *)
From Verif Require Import Lib.Bytes Model.Path Model.Fs Model.Session Gen.Consts Spec.ProtoSpec
  Proofs.SessionProofs Proofs.Examples.

(* unless writing was enabled, no byte stream changes anything: the world after any connection,
   for any input, is the world before it *)
Theorem C05_readonly : forall c, allow_write c = false -> forall fuel w k input,
  snd (fst (serve fuel c w k input)) = w.
Proof. exact serve_readonly. Qed.

(* and every create / write / delete / mkdir / rmdir request is refused with the failure code,
   the connection stays open and its state is untouched *)
Theorem C05_refused : forall c w k rq, allow_write c = false -> mutating rq = true ->
  o_out (step c w k rq) = be32 (wrap32 (-1)) /\ o_close (step c w k rq) = false /\ o_conn (step c w k rq) = k.
Proof. exact step_refuses. Qed.

(* requests that are not mutating never change the world, in either mode *)
Theorem C05_reads_pure : forall c w k rq, mutating rq = false -> o_world (step c w k rq) = w.
Proof. exact step_nonmutating. Qed.

Print Assumptions C05_readonly.
Print Assumptions C05_refused.
Print Assumptions C05_reads_pure.

Example C05_ex_refused :
  o_out (step (ex_cfg false) ex_world conn0 (RMkdir [47;110])) = [255;255;255;255].
Proof. vm_compute. reflexivity. Qed.
