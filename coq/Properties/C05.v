(* Properties/C05.v — write gating.  Statements only. *)
From Verif Require Import Lib.Bytes Model.Path Model.Fs Model.Session Gen.Consts Spec.ProtoSpec
  Proofs.SessionProofs Proofs.Examples Proofs.UploadProofs.

(* unless writing was enabled, no byte stream changes anything: the world after any connection,
   for any input, is the world before it *)
Theorem C05_readonly : forall c, allow_write c = false -> forall fuel w k input,
  snd (fst (serve fuel c w k input)) = w.
Proof. exact serve_readonly. Qed.

(* and every create / write / delete / mkdir / rmdir request is refused with the failure code,
   the connection stays open and its state is untouched *)
Theorem C05_refused : forall c w k rq, allow_write c = false -> mutating rq = true ->
  o_out (step c w k rq) = be32 (wrap32 (-1)) /\ o_close (step c w k rq) = false /\ o_conn (step c w k rq) = k.
Proof. exact step_refuses. Qed.

(* requests that are not mutating never change the world, in either mode *)
Theorem C05_reads_pure : forall c w k rq, mutating rq = false -> o_world (step c w k rq) = w.
Proof. exact step_nonmutating. Qed.

(* with writing enabled: create leaves the connection uploading into an empty file (new, or an existing one
   truncated), or refuses and changes nothing *)
Theorem C05_create : forall c w k p, allow_write c = true ->
  let o := step c w k (RCreateFile p) in
  o_close o = false /\
  (forall h, wo (o_conn o) = Some h -> exists i, uploading (o_world o) (o_conn o) i []) /\
  (o_out o = enc_result32 false -> o_world o = w).
Proof. exact create_starts_upload. Qed.

(* ... and any number of writes of any sizes (empty ones and several transfer buffers included) store exactly the
   uploaded bytes: each is acknowledged with its length, the file holds the concatenation, the directory tree and
   every other file are untouched *)
Theorem C05_upload_exact : forall c i, allow_write c = true -> forall ds w k content, uploading w k i content ->
  exists outs w' k',
    run c w k (writes ds) = (outs, false, w', close_conn k') /\
    map fst outs = map (fun d => be32 (wrap32 (zlen d))) ds /\
    uploading w' k' i (content ++ concat ds) /\
    tree w' = tree w /\ (forall j, j <> i -> get_inode (inodes w') j = get_inode (inodes w) j).
Proof. exact upload_exact. Qed.

(* delete / mkdir / rmdir: no file's content changes, the connection state is untouched, and the failure code means
   that nothing changed at all (what a success changes is the named entry: Model/Fs.fs_remove / fs_mkdir, compared
   with the real tree after every session by the differential) *)
Theorem C05_structure_ops : forall c w k rq,
  (match rq with RDeleteFile _ | RRmdir _ | RMkdir _ => True | _ => False end) ->
  let o := step c w k rq in
  inodes (o_world o) = inodes w /\ o_close o = false /\ o_conn o = k /\ (o_out o = enc_result32 false -> o_world o = w).
Proof. exact structure_ops_frame. Qed.

Print Assumptions C05_readonly.
Print Assumptions C05_refused.
Print Assumptions C05_reads_pure.
Print Assumptions C05_create.
Print Assumptions C05_upload_exact.
Print Assumptions C05_structure_ops.

Example C05_ex_refused :
  o_out (step (ex_cfg false) ex_world conn0 (RMkdir [47;110])) = [255;255;255;255].
Proof. vm_compute. reflexivity. Qed.
