(* Properties/C05.v — write gating.  Statements only. *)
From Verif Require Import Lib.Bytes Model.Path Model.Fs Model.Session Gen.Consts Spec.ProtoSpec
  Proofs.SessionProofs Proofs.Examples Proofs.UploadProofs Proofs.ConfineProofs Proofs.EffectProofs.

(* unless writing was enabled, no byte stream changes anything: the world after any connection,
   for any input, is the world before it *)
Theorem C05_readonly : forall c, allow_write c = false -> forall fuel w k input,
  snd (fst (serve fuel c w k input)) = w.
Proof. exact serve_readonly. Qed.

(* and every create / write / delete / mkdir / rmdir request is refused with the failure code,
   the connection stays open and its state is untouched *)
Theorem C05_refused : forall c w k rq, allow_write c = false -> mutating rq = true ->
  o_out (step c w k rq) = be32 (wrap32 (-1)) /\ o_close (step c w k rq) = false /\ o_conn (step c w k rq) = k.
Proof. exact step_refuses. Qed.

(* requests that are not mutating never change the world, in either mode *)
Theorem C05_reads_pure : forall c w k rq, mutating rq = false -> o_world (step c w k rq) = w.
Proof. exact step_nonmutating. Qed.

(* with writing enabled: create leaves the connection uploading into an empty file (new, or an existing one
   truncated), or refuses and changes nothing *)
Theorem C05_create : forall c w k p, allow_write c = true ->
  let o := step c w k (RCreateFile p) in
  o_close o = false /\
  (forall h, wo (o_conn o) = Some h -> exists i, uploading (o_world o) (o_conn o) i []) /\
  (o_out o = enc_result32 false -> o_world o = w).
Proof. exact create_starts_upload. Qed.

(* ... and any number of writes of any sizes (empty ones and several transfer buffers included) store exactly the
   uploaded bytes: each is acknowledged with its length, the file holds the concatenation, the directory tree and
   every other file are untouched *)
Theorem C05_upload_exact : forall c i, allow_write c = true -> forall ds w k content, uploading w k i content ->
  exists outs w' k',
    run c w k (writes ds) = (outs, false, w', close_conn k') /\
    map fst outs = map (fun d => be32 (wrap32 (zlen d))) ds /\
    uploading w' k' i (content ++ concat ds) /\
    tree w' = tree w /\ (forall j, j <> i -> get_inode (inodes w') j = get_inode (inodes w) j).
Proof. exact upload_exact. Qed.

(* delete / mkdir / rmdir: no file's content changes, the connection state is untouched, and the failure code means
   that nothing changed at all (what a success changes is the named entry: Model/Fs.fs_remove / fs_mkdir, compared
   with the real tree after every session by the differential) *)
Theorem C05_structure_ops : forall c w k rq,
  (match rq with RDeleteFile _ | RRmdir _ | RMkdir _ => True | _ => False end) ->
  let o := step c w k rq in
  inodes (o_world o) = inodes w /\ o_close o = false /\ o_conn o = k /\ (o_out o = enc_result32 false -> o_world o = w).
Proof. exact structure_ops_frame. Qed.

(* MKDIR reports truthfully: the success code exactly when the directory was made, the failure code exactly when it
   was not - and then nothing changed; the connection is untouched either way *)
Theorem C05_mkdir_truthful : forall c w k p, allow_write c = true ->
  let o := step c w k (RMkdir p) in
  o_conn o = k /\ o_close o = false /\
  match fs_mkdir (tmut c) (plen c) w (abs_path c (rooted_elems p)) with
  | Ok w' => o_out o = enc_result32 true /\ o_world o = w'
  | Err _ => o_out o = enc_result32 false /\ o_world o = w
  end.
Proof. exact mkdir_request. Qed.

(* ... and has exactly its named effect: the entry did not exist and is an empty directory now; its parent has the new
   time and that one more name; every lookup that leaves the path at any element (beside) finds the same node as
   before; the ancestors keep their time and names; no file content and no inode number changes *)
Theorem C05_mkdir_effect : forall tm pl w p w', fs_mkdir tm pl w p = Ok w' ->
  exists par e m cs,
    p = par ++ [e] /\
    walk (tree w) par = Ok (Dir m cs) /\ find_child cs e = None /\ walk (tree w) p = Err ENOENT /\
    walk (tree w') p = Ok (Dir tm []) /\
    walk (tree w') par = Ok (Dir tm (set_child cs e (Dir tm []))) /\
    map fst (set_child cs e (Dir tm [])) = map fst cs ++ [e] /\
    (forall q, beside p q -> walk (tree w') q = walk (tree w) q) /\
    (forall l x r m0 cs0, par = l ++ x :: r -> walk (tree w) l = Ok (Dir m0 cs0) ->
       exists cs', walk (tree w') l = Ok (Dir m0 cs') /\ map fst cs' = map fst cs0) /\
    inodes w' = inodes w /\ next_ino w' = next_ino w.
Proof. exact mkdir_effect. Qed.

(* DELETE_FILE / RMDIR: the served root itself is refused; otherwise the answer is truthful in the same sense *)
Theorem C05_remove_truthful : forall c w k p rq, allow_write c = true -> rq = RDeleteFile p \/ rq = RRmdir p ->
  let o := step c w k rq in
  o_conn o = k /\ o_close o = false /\
  if is_nil (rooted_elems p) then o_out o = enc_result32 false /\ o_world o = w else
  match fs_remove (tmut c) (plen c) w (abs_path c (rooted_elems p)) with
  | Ok w' => o_out o = enc_result32 true /\ o_world o = w'
  | Err _ => o_out o = enc_result32 false /\ o_world o = w
  end.
Proof. exact remove_request. Qed.

(* ... and the named effect: the entry was a file or an empty directory; its parent has the new time and that name
   removed (the name no longer resolves when names are distinct, as in every real directory); everything beside the
   path and the ancestors as for MKDIR *)
Theorem C05_remove_effect : forall tm pl w p w', fs_remove tm pl w p = Ok w' ->
  exists par e m cs n,
    p = par ++ [e] /\
    walk (tree w) par = Ok (Dir m cs) /\ find_child cs e = Some n /\ walk (tree w) p = Ok n /\
    (match n with Dir _ (_ :: _) => False | _ => True end) /\
    walk (tree w') par = Ok (Dir tm (del_child cs e)) /\
    map fst (del_child cs e) = remove_first e (map fst cs) /\
    (NoDup (map fst cs) -> walk (tree w') p = Err ENOENT) /\
    (forall q, beside p q -> walk (tree w') q = walk (tree w) q) /\
    (forall l x r m0 cs0, par = l ++ x :: r -> walk (tree w) l = Ok (Dir m0 cs0) ->
       exists cs', walk (tree w') l = Ok (Dir m0 cs') /\ map fst cs' = map fst cs0) /\
    inodes w' = inodes w /\ next_ino w' = next_ino w.
Proof. exact remove_effect. Qed.

Print Assumptions C05_readonly.
Print Assumptions C05_mkdir_truthful.
Print Assumptions C05_mkdir_effect.
Print Assumptions C05_remove_truthful.
Print Assumptions C05_remove_effect.
Print Assumptions C05_refused.
Print Assumptions C05_reads_pure.
Print Assumptions C05_create.
Print Assumptions C05_upload_exact.
Print Assumptions C05_structure_ops.

Example C05_ex_refused :
  o_out (step (ex_cfg false) ex_world conn0 (RMkdir [47;110])) = [255;255;255;255].
Proof. vm_compute. reflexivity. Qed.

(* non-vacuity: with writing enabled MKDIR "/n" succeeds on the example world, "/n" is an empty directory afterwards and
   "/a" is the same node; RMDIR "/d" (not empty) is refused and DELETE_FILE "/a" removes it *)
Example C05_ex_effect :
  let c := ex_cfg true in
  let o := step c ex_world conn0 (RMkdir [47;110]) in
  o_out o = enc_result32 true
  /\ walk (tree (o_world o)) [ex_name_R; [110]] = Ok (Dir 999 [])
  /\ walk (tree (o_world o)) [ex_name_R; ex_name_a] = walk (tree ex_world) [ex_name_R; ex_name_a]
  /\ o_out (step c ex_world conn0 (RRmdir ex_path_d)) = enc_result32 false
  /\ walk (tree (o_world (step c ex_world conn0 (RDeleteFile ex_path_a)))) [ex_name_R; ex_name_a] = Err ENOENT.
Proof. vm_compute. repeat split; reflexivity. Qed.
