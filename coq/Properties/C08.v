(* Properties/C08.v — the generated image is a structurally valid ISO 9660 + Joliet (+PS3) volume.
   Statements only, over Model/IsoBuild.build_image (buildFS byte for byte; the differential job `iso`
   compares the model's metadata area with the real one by hash on every run). *)
From Verif Require Import Lib.Bytes Model.Path Model.Fs Gen.Consts Model.IsoRead Model.IsoBuild Spec.IsoReadSpec
  Proofs.IsoReadProofs Proofs.IsoBuildProofs Proofs.IsoLinksProofs Model.Sfo Proofs.SfoProofs.

(* sizes: the metadata area is a whole number of sectors and ends exactly where the first file starts; the
   files tile the file area; the pad area has at least 32 sectors; the announced size is metadata + files +
   pad and a multiple of 32 sectors *)
Theorem C08_sizes : forall root v ps3 gc now rnd bi data,
  build_image root v ps3 gc now rnd = Ok bi ->
  layout_wf (image_of bi data)
  /\ zlen (bi_fsbuf bi) mod sector_size = 0
  /\ bi_pad_start bi mod sector_size = 0
  /\ bi_total bi mod (base_pad_sectors * sector_size) = 0
  /\ base_pad_sectors * sector_size <= bi_pad_size bi.
Proof. exact build_layout. Qed.

(* the volume space size both descriptors' bytes carry (both-endian, at offset 80 of sector 16) is the
   announced size in sectors *)
Theorem C08_volume_space : forall root v ps3 gc now rnd bi,
  build_image root v ps3 gc now rnd = Ok bi ->
  exists P Q, bi_fsbuf bi = P ++ lsbmsb32 ((bi_total bi / sector_size) mod 2 ^ 32) ++ Q /\ zlen P = 16 * sector_size + 80.
Proof. exact primary_descriptor_space. Qed.

(* a directory record occupies exactly the length its first byte says, at least 34 bytes and even *)
Theorem C08_record_length : forall e, zlen (de_encode e) = de_size e /\ 34 <= de_size e /\ de_size e mod 2 = 0.
Proof. exact record_length. Qed.

(* every directory of both hierarchies starts with "." and ".."; every record fits its length byte
   (34..255, and the byte written is the real length) and lies inside one sector: no record straddles a
   sector boundary, whatever the number and the names of the entries *)
Theorem C08_records : forall root v ps3 gc now rnd bi,
  build_image root v ps3 gc now rnd = Ok bi ->
  exists pre f_iso f_jol,
    bi_fsbuf bi = pre ++ dirs_bytes f_iso ++ dirs_bytes f_jol /\
    Forall (fun es => dir_ok es /\ records_placed es) (f_iso ++ f_jol).
Proof. exact directories_wf. Qed.

(* the L and M path tables of each hierarchy are the little- and big-endian encodings of the same entry
   list, start at sector 20, and every identifier fits its length byte *)
Theorem C08_path_tables : forall root v ps3 gc now rnd bi,
  build_image root v ps3 gc now rnd = Ok bi ->
  exists pt ptj pre post,
    bi_fsbuf bi = pre ++ pad_sector (concat (map (pt_encode true) pt)) ++ pad_sector (concat (map (pt_encode false) pt))
                      ++ pad_sector (concat (map (pt_encode true) ptj)) ++ pad_sector (concat (map (pt_encode false) ptj)) ++ post
    /\ zlen pre = 20 * sector_size
    /\ Forall pt_short pt /\ Forall pt_short ptj.
Proof. exact path_tables_paired. Qed.

(* PS3 mode: sector 0 declares one plain region covering sectors 0 .. size-1, sector 1 starts with
   "PlayStation3" padded to 16 and the product code TITLE_ID[:4]-TITLE_ID[4:] padded to 32 *)
Theorem C08_ps3_sectors : forall root v gc now rnd bi,
  build_image root v true gc now rnd = Ok bi ->
  exists tail, bi_fsbuf bi =
    pad_to (be_enc 4 1 ++ zeros 4 ++ be_enc 4 0 ++ be_enc 4 ((bi_total bi / sector_size - 1) mod 2 ^ 32)) sector_size 0
    ++ pad_to console_id 16 32 ++ pad_to (firstn 4 gc ++ [45] ++ skipn 4 gc) 32 32 ++ tail.
Proof. exact ps3_sectors_declared. Qed.

(* "." and "..": in both hierarchies the i-th directory's extent starts at base*2048 + the extents of the
   directories before it; its "." record carries exactly that location and the extent's length; its ".." record
   carries the "." location of the directory the scan found it in, which is listed earlier; "." and ".." of the
   root are the root itself.  pre is the 2048-aligned metadata before the directory area. *)
Theorem C08_links : forall root v ps3 gc now rnd bi, build_image root v ps3 gc now rnd = Ok bi ->
  exists ds f_iso f_jol pre iso_lba jol_lba,
    bi_fsbuf bi = pre ++ dirs_bytes f_iso ++ dirs_bytes f_jol /\
    zlen pre = iso_lba * sector_size /\ zlen (pre ++ dirs_bytes f_iso) = jol_lba * sector_size /\
    length f_iso = length ds /\ length f_jol = length ds /\
    hier_links_strong ds f_iso iso_lba /\ hier_links_strong ds f_jol jol_lba.
Proof. exact built_links. Qed.

(* PARAM.SFO: for every well-formed file - any number of entries in any order, NUL-free keys, any values,
   up to 64 KiB - sfoField returns the value of the first entry with the requested key (TITLE_ID) *)
Theorem C08_sfo_field : forall es field v, sfo_wf es -> first_value es field = Some v ->
  sfo_field (encode_sfo es) field = Ok v.
Proof. exact sfo_roundtrip. Qed.

Print Assumptions C08_sizes.
Print Assumptions C08_volume_space.
Print Assumptions C08_record_length.
Print Assumptions C08_records.
Print Assumptions C08_path_tables.
Print Assumptions C08_ps3_sectors.
Print Assumptions C08_links.
Print Assumptions C08_sfo_field.

(* non-vacuity: a directory of 60 files with 30-character names spills over a sector in both hierarchies;
   it builds, and no record starts where it would cross a sector boundary *)
Definition t7 : bytes := [100; 1; 1; 0; 0; 0; 0].
Definition ex_wide : snode :=
  SDir [114] t7 (map (fun k => SFile (repeat 97 28 ++ [48 + Z.of_nat (k / 10); 48 + Z.of_nat (k mod 10)]) 1 t7) (seq 0 60)).

Example C08_ex_wide :
  match build_image ex_wide [86] true [66; 76; 69; 83; 48; 49; 50; 51; 52] [] [] with
  | Ok bi => zlen (bi_fsbuf bi) = 29 * 2048 /\ bi_pad_start bi = 89 * 2048 /\ bi_total bi = 128 * 2048
             /\ firstn 16 (skipn 2048 (bi_fsbuf bi)) = [80; 108; 97; 121; 83; 116; 97; 116; 105; 111; 110; 51; 32; 32; 32; 32]
  | Err _ => False
  end.
Proof. vm_compute. repeat split; reflexivity. Qed.
