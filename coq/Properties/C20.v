(* Properties/C20.v — the offline tools.  Statements only.
   make-iso and decrypt are io.Copy(target, view) (Model/Tools.copy_loop: Read with the 32 KiB buffer until
   io.EOF); the views are the ones the server serves from (Model/IsoRead over Model/IsoBuild, Model/Crypt,
   Model/Detect.mask_from).  [iso_flat img] is the flat image of C09, [plain_image] the reference plaintext of
   C10 (with the region map cleared, as the tools ask for). *)
From Verif Require Import Lib.Bytes Model.Path Model.Fs Model.Session Gen.Consts Model.IsoRead Model.IsoBuild Model.Crypt Model.Detect Model.Tools
  Spec.IsoReadSpec Spec.CryptSpec Proofs.IsoReadProofs Proofs.CryptProofs Proofs.DetectProofs Proofs.IsoBuildProofs Proofs.ToolsProofs.

(* make-iso writes the whole flat image, byte for byte, for every image whose files tile the file area ... *)
Theorem C20_make_iso_copy : forall img, layout_wf img -> make_iso_output img = Ok (iso_flat img).
Proof. exact make_iso_writes_image. Qed.

(* ... in particular for every image the builder produces: the same build_image the server's view reads from
   (same directory, same mode => same function of the scan; C18 says what may differ between two builds) *)
Theorem C20_make_iso : forall root v ps3 gc now rnd bi data,
  build_image root v ps3 gc now rnd = Ok bi ->
  make_iso_output (image_of bi data) = Ok (iso_flat (image_of bi data)).
Proof. intros. apply make_iso_writes_image. eapply built_layout_wf; eauto. Qed.

Section C20.
  Variable dec : Z -> bytes -> bytes.
  Hypothesis dec_length : forall s x, length (dec s x) = length x.

  (* decrypt redump (mask = false) writes the reference plaintext; decrypt 3k3y (mask = true) the reference
     plaintext with the 3k3y area [0xF70, 0x1070) zeroed - for every image with an acceptable region table,
     every key (every length-preserving per-sector cipher) and every file length *)
  Theorem C20_decrypt : forall content mask v, new_encrypted content true = Ok v ->
    decrypt_output dec content mask
    = Ok (if mask then mask_from 0 (plain_image dec v content) else plain_image dec v content).
  Proof. exact (decrypt_writes_plaintext dec dec_length). Qed.
End C20.

(* the output of decrypt 3k3y is not detected as a 3k3y image again *)
Theorem C20_3k3y_output_clean : forall P, test_3k3y (mask_from 0 P) = None.
Proof. exact masked_not_3k3y. Qed.

(* an output that carries no 3k3y watermark, placed below a served root where no key file applies to it
   (outside PS3ISO, or inside without a .dkey of its name), is served back as it is: no second transformation *)
Theorem C20_served_back : forall c w rel i x dec,
  virtual_kind rel = None -> resolve (plen c) w (abs_path c rel) = Ok (File i) -> get_inode (inodes w) i = Some x ->
  try_key c w rel = Err ENOENT -> test_3k3y (idata x) = None ->
  open_file c w rel = KPlain /\ forall off n, kind_read dec KPlain (idata x) off n = slice (idata x) off n.
Proof. exact output_served_back. Qed.

(* the output argument: "-" and an existing path leave the directory as it is; otherwise exactly one new entry
   appears; no existing entry changes in any case *)
Theorem C20_no_clobber : forall existing name is_dash out,
  (forall n d, In (n, d) existing -> In (n, d) (after_tool existing name is_dash out)) /\
  (forall n d, In (n, d) (after_tool existing name is_dash out) -> In (n, d) existing \/
               (n = name /\ d = out /\ is_dash = false /\ forall d', ~ In (name, d') existing)).
Proof. exact tool_keeps_existing_files. Qed.

Print Assumptions C20_make_iso_copy.
Print Assumptions C20_make_iso.
Print Assumptions C20_decrypt.
Print Assumptions C20_3k3y_output_clean.
Print Assumptions C20_served_back.
Print Assumptions C20_no_clobber.

(* non-vacuity: an image of 40 sectors + 100 bytes whose sectors 3..4 are encrypted, "decrypted" by a cipher that
   adds the sector number to every byte: the copy is the plaintext, 82020 bytes, with the region map cleared *)
Definition ex_hdr : bytes := be_enc 4 2 ++ be_enc 4 0 ++ be_enc 4 0 ++ be_enc 4 3 ++ be_enc 4 5 ++ be_enc 4 41.
Definition ex_content : bytes := ex_hdr ++ repeatz 7 (82020 - 24).
Definition ex_dec (s : Z) (x : bytes) : bytes := map (fun b => (b + s) mod 256) x.

Example C20_ex_decrypt :
  match decrypt_output ex_dec ex_content true with
  | Ok out => zlen out = 82020 /\ firstn 24 out = repeat 0 24 /\ slice out 6144 1 = [10] /\ slice out 3952 1 = [0] /\ slice out 4208 1 = [7]
  | Err _ => False
  end.
Proof. vm_compute. repeat split; reflexivity. Qed.
