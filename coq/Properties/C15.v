(* Properties/C15.v — admission control.  Statements only.
   [lrun limit events] is the state of the listener stack (limit listener inside, whitelist filter
   outside, accept loop on top) after a history of arrivals (with their whitelist verdict) and closes;
   limit = 0 means no limiter.  Whitelist membership itself is C14. *)
From Verif Require Import Lib.Bytes Gen.Consts Model.Listener Proofs.ListenerProofs.

(* the model follows the wiring that the translator read from cmd/ps3netsrv-go/server.go *)
Theorem C15_wiring : limit_listener_present = true /\ filter_listener_present = true /\ filter_is_outermost = true.
Proof. repeat split; reflexivity. Qed.

(* with a client limit N, at most N connections are served at any moment, for every history *)
Theorem C15_bound : forall limit es, 0 < limit -> zlen (served (lrun limit es)) <= limit.
Proof. exact served_bound. Qed.

(* only whitelisted arrivals are ever served; what the filter rejected was not whitelisted (it was
   closed before the server saw it: no request read, no byte sent); nothing appears from nowhere *)
Theorem C15_filter : forall limit es, finv (arrivals es) (lrun limit es).
Proof. exact lrun_finv. Qed.

(* every ended or rejected connection frees its slot: the slots held are exactly the served
   connections plus the one of the waiting accept loop *)
Theorem C15_conserve : forall limit es, 0 <= limit ->
  sem (lrun limit es) = zlen (served (lrun limit es)) + hold_z (lrun limit es).
Proof. exact slots_conserved. Qed.

(* capacity is never lost: whenever arrivals are still waiting, the limit is exactly reached *)
Theorem C15_progress : forall limit es, 0 < limit ->
  let s := lrun limit es in backlog s = [] \/ zlen (served s) = limit.
Proof. exact no_lost_capacity. Qed.

Print Assumptions C15_wiring.
Print Assumptions C15_bound.
Print Assumptions C15_filter.
Print Assumptions C15_conserve.
Print Assumptions C15_progress.

(* non-vacuity: N = 2, five arrivals of which two are outside the whitelist, one close *)
Example C15_ex :
  let s := lrun 2 [Arrive 1 true; Arrive 2 false; Arrive 3 true; Arrive 4 true; Arrive 5 false; CloseConn 1] in
  (served s, rejected s, map fst (backlog s), sem s) = ([3; 4]%nat, [2]%nat, [5]%nat, 2).
Proof. vm_compute. reflexivity. Qed.
