(* Properties/C10.v — on-the-fly decryption equals the reference plaintext.  Statements only.
   [dec s x] stands for AES-128-CBC decryption of the 2048-byte sector x with the key derived from
   the disc key and the IV that holds the sector number s; the theorems hold for every such function
   that preserves lengths (so for every key).  [plain_image] (Spec/CryptSpec) is the whole-file
   reference: every whole sector inside an encrypted region is replaced by dec of that sector with
   its own number, nothing else changes except the region map when clearing is requested. *)
From Verif Require Import Lib.Bytes Model.Fs Gen.Consts Model.IsoRead Model.Crypt Spec.CryptSpec Proofs.CryptProofs.

Section C10.
  Variable dec : Z -> bytes -> bytes.
  Hypothesis dec_length : forall s x, length (dec s x) = length x.

  (* a positional read of the view, for every offset, every buffer length, every content: exactly the
     slice of the reference plaintext (and io.EOF exactly when the slice is short) *)
  Theorem C10_reader_ok : forall v content off len, view_wf v -> 0 <= off -> 0 < len ->
    crypt_read_at dec v content off len = ref_crypt_read_at dec v content off len.
  Proof. exact (crypt_read_ok dec dec_length). Qed.

  (* any history of Read(n) / Seek / ReadAt, aligned or not: cursor semantics over the reference plaintext *)
  Theorem C10_history : forall v content ops, view_wf v -> Forall cop_ok ops ->
    crypt_run dec v content ops = ref_crypt_run dec v content ops.
  Proof. exact (crypt_run_ok dec dec_length). Qed.
End C10.

(* a region table accepted by the constructor gives a well-formed view: sector 0 is never decrypted,
   encrypted regions are disjoint and increasing, the map fits the first sector *)
Theorem C10_regions_wf : forall content clear v, new_encrypted content clear = Ok v -> view_wf v.
Proof. exact new_encrypted_wf. Qed.

Print Assumptions C10_reader_ok.
Print Assumptions C10_history.
Print Assumptions C10_regions_wf.

(* invalid tables are rejected (count < 2, first region not at 0, end <= start, overlap, count beyond the sector) *)
Definition tbl (count : Z) (rs : list (Z * Z)) : bytes :=
  be_enc 4 count ++ [0;0;0;0] ++ concat (map (fun r => be_enc 4 (fst r) ++ be_enc 4 (snd r)) rs) ++ repeat 0 64.

Example C10_rejects :
  new_encrypted (tbl 1 [(0, 4)]) false = Err EINVAL /\
  new_encrypted (tbl 2 [(1, 4); (6, 9)]) false = Err EINVAL /\
  new_encrypted (tbl 2 [(0, 4); (9, 9)]) false = Err EINVAL /\
  new_encrypted (tbl 2 [(0, 4); (3, 9)]) false = Err EINVAL /\
  new_encrypted (tbl 256 []) false = Err EINVAL /\
  (exists v, new_encrypted (tbl 3 [(0, 4); (6, 9); (9, 12)]) true = Ok v /\ ev_regions v = [(4, 6); (9, 9)]).
Proof. repeat split; try (vm_compute; reflexivity). eexists. split; vm_compute; reflexivity. Qed.
