(* Properties/C02.v — served bytes equal stored bytes.  Statements only.
   [slice X off n] is the sub-string [off, min(off+n, |X|)) (Proofs/ReadProofs: slice_length_eq, slice_nth). *)
From Verif Require Import Lib.Bytes Model.Path Model.Fs Model.Session Gen.Consts Spec.ProtoSpec
  Proofs.SessionProofs Proofs.ReadProofs Proofs.Examples.

(* what a slice is, pointwise *)
Theorem C02_slice_spec : forall (X : bytes) off n, 0 <= off ->
  zlen (slice X off n) = Z.max 0 (Z.min n (zlen X - off)) /\
  forall j, 0 <= j < zlen (slice X off n) -> nth (Z.to_nat j) (slice X off n) 0 = nth (Z.to_nat (off + j)) X 0.
Proof. intros X off n H. split; [apply slice_length_eq; exact H | intros j Hj; apply slice_nth; assumption]. Qed.

(* OPEN_FILE announces exactly the size and modification time of the file it opened *)
Theorem C02_open : forall c w k p h i x,
  list_eqb (last_elem (rooted_elems p)) closefile_name = false ->
  os_open c w (rooted_elems p) = Ok h -> hobj_ h = HFile i -> get_inode (inodes w) i = Some x ->
  o_out (step c w k (ROpenFile p)) = be64 (wrap64 (zlen (idata x))) ++ be64 (wrap64 (imtime x)) /\
  ro_is_file w (o_conn (step c w k (ROpenFile p))) (idata x) /\
  o_close (step c w k (ROpenFile p)) = false.
Proof. exact open_file_announces. Qed.

(* READ_FILE: for every content, every offset the filesystem can address (fs_max_offset is the largest offset lseek
   accepts on the filesystem of the harness, regenerated with the other constants: 2^44 - 4096 on ext4) and every limit,
   first the exact count, then exactly those bytes; nothing else changes *)
Theorem C02_read : forall c w k X n off,
  ro_is_file w k X -> 0 <= n -> 0 <= off <= fs_max_offset ->
  step c w k (RReadFile n off) = done w k (be32 (wrap32 (zlen (slice X off n))) ++ slice X off n).
Proof. exact read_file_exact. Qed.

(* READ_FILE_CRITICAL: the raw bytes; when they cannot all be delivered the connection ends after
   the correct prefix *)
Theorem C02_critical : forall c w k X n off,
  ro_is_file w k X -> 0 <= n -> 0 <= off <= fs_max_offset ->
  step c w k (RReadFileCritical n off) =
  if (n =? 0) || (off + n <=? zlen X) then done w k (slice X off n) else hangup w k (slice X off n).
Proof. exact read_critical_exact. Qed.

(* an offset lseek refuses (negative as int64, or beyond fs_max_offset) ends the connection without a byte: never data *)
Theorem C02_offset_refused : forall c w k X n off,
  ro_is_file w k X -> 0 <= off < 2 ^ 64 -> 2 ^ 63 <= off \/ fs_max_offset < off ->
  step c w k (RReadFile n off) = hangup w k [] /\ step c w k (RReadFileCritical n off) = hangup w k [].
Proof. exact read_offset_refused. Qed.

(* any other request in between leaves the opened object (and its sector size) in place *)
Theorem C02_interleave : forall c w k rq,
  (match rq with ROpenFile _ => False | _ => True end) ->
  ro (o_conn (step c w k rq)) = ro k /\ cdsec (o_conn (step c w k rq)) = cdsec k.
Proof. exact step_keeps_ro. Qed.

Print Assumptions C02_slice_spec.
Print Assumptions C02_open.
Print Assumptions C02_read.
Print Assumptions C02_offset_refused.
Print Assumptions C02_critical.
Print Assumptions C02_interleave.

Example C02_ex :
  let o := step (ex_cfg false) ex_world conn0 (ROpenFile ex_path_a) in
  ro_is_file ex_world (o_conn o) ex_hello /\
  o_out (step (ex_cfg false) ex_world (o_conn o) (RReadFileCritical 5 9)) = [108;100] /\
  o_close (step (ex_cfg false) ex_world (o_conn o) (RReadFileCritical 5 9)) = true.
Proof. split; [|split]; [|vm_compute; reflexivity|vm_compute; reflexivity].
  eexists _, _, _. repeat split; reflexivity. Qed.
