(* Properties/C03.v — request/response framing and the per-connection state machine.
   Statements only.  [serve] is the byte-level loop of pkg/server over pkg/proto; [run] is the
   request-level semantics; [wire]/[resp_ok] are the documented layouts (Spec/ProtoSpec). *)
From Verif Require Import Lib.Bytes Model.Path Model.Fs Model.Session Gen.Consts Spec.ProtoSpec
  Proofs.ProtoProofs Proofs.SessionProofs Proofs.Examples.

(* the server consumes exactly the bytes of each request: 16 + the announced path or payload,
   whatever follows and whatever the ignored bytes of the command hold *)
Theorem C03_consumes : forall rq junk rest,
  wf_request rq -> wf_junk junk ->
  parse_request (wire rq junk ++ rest) = PReq rq rest /\ zlen (wire rq junk) = wire_len rq.
Proof. intros rq junk rest H1 H2. split; [exact (parse_wire junk H2 rq rest H1) | exact (wire_length rq junk H1 H2)]. Qed.

(* for every sequence of requests, every world and every connection state, the byte-level server
   answers the requests in order, one response each, exactly as the handlers applied in sequence;
   a tail that is not a complete request (fewer than 16 bytes, or a path cut short) produces no byte *)
Theorem C03_stream : forall c rqs junks fuel w k tail,
  Forall wf_request rqs -> Forall wf_junk junks -> length junks = length rqs ->
  (length rqs < fuel)%nat -> parse_request tail = PShort ->
  serve fuel c w k (wires rqs junks ++ tail) = run c w k rqs.
Proof. exact serve_stream. Qed.

(* every response has the documented layout for its command in whatever state the connection is;
   length and framing can be decoded from the request and the response's own header, so client and
   server never lose synchronisation.  (READ_CD_2048's shape is C17_read.) *)
Theorem C03_shape : forall c w k rq,
  (match rq with RReadCD _ _ => False | _ => True end) ->
  resp_ok rq (o_out (step c w k rq)) (o_close (step c w k rq)).
Proof. exact step_shape. Qed.

(* malformed input only ever ends the connection without stray bytes: an unknown opcode or a
   stream that ends inside a request yields no output for it *)
Theorem C03_malformed : forall fuel c w k input,
  parse_request input = PUnknown \/ parse_request input = PShort ->
  fst (fst (fst (serve (S fuel) c w k input))) = [].
Proof. intros fuel c w k input [H|H]; cbn [serve]; rewrite H; reflexivity. Qed.

Print Assumptions C03_consumes.
Print Assumptions C03_stream.
Print Assumptions C03_shape.
Print Assumptions C03_malformed.

(* non-vacuity: a three-request session on a concrete world *)
Example C03_ex :
  let rqs := [ROpenFile ex_path_a; RReadFile 4 2; RStatFile ex_path_d] in
  map fst (fst (fst (fst (serve 10 (ex_cfg false) ex_world conn0 (wires rqs [ex_junk; ex_junk; ex_junk])))))
  = [be64 11 ++ be64 100; be32 4 ++ [108;108;111;32]; be64 0 ++ be64 30 ++ be64 masked_ctime ++ be64 masked_atime ++ [1]].
Proof. vm_compute. reflexivity. Qed.
