(* Properties/C14.v — IP range specifications denote exactly the documented address set.
   Statements only; proofs are in Proofs/IPRange*.v.  net.ParseIP / strconv.Atoi are
   section variables; the two hypotheses on ParseIP are checked by the harness on every
   differential case (16-byte results, no '/' or '-' in an accepted address). *)
From Verif Require Import Lib.Bytes Model.IPRange Spec.IPSpec Proofs.IPRangeProofs Proofs.IPRangeMain.

Section C14.
  Variable parse_ip : bytes -> option bytes.
  Variable atoi : bytes -> option Z.
  Hypothesis parse_ip_ok : forall s a, parse_ip s = Some a -> length a = 16%nat /\ bytes_ok a.
  Hypothesis parse_ip_nosep : forall s a, parse_ip s = Some a -> find_sep s 0 = None.

  (* every accepted specification reads as a documented form and Contains decides exactly
     the documented set, for every 4- or 16-byte probe address *)
  Theorem C14_sound_complete : forall s r,
    parse_range parse_ip atoi s = Some r ->
    exists sp, reads_as parse_ip atoi s sp /\
      forall ip, probe_ok ip -> (contains r ip = true <-> denote sp (val16 ip)).
  Proof. exact (parse_range_sound_complete parse_ip atoi parse_ip_ok parse_ip_nosep). Qed.

  (* anything else is rejected: bad address, non-contiguous mask, out-of-range prefix,
     reversed or mixed-family bounds are exactly the strings with no reading *)
  Theorem C14_reject : forall s,
    (forall sp, ~ reads_as parse_ip atoi s sp) -> parse_range parse_ip atoi s = None.
  Proof. exact (parse_range_rejects parse_ip atoi parse_ip_ok parse_ip_nosep). Qed.

  (* every documented specification is accepted *)
  Theorem C14_accepts : forall s sp,
    reads_as parse_ip atoi s sp -> exists r, parse_range parse_ip atoi s = Some r.
  Proof. exact (parse_range_accepts parse_ip atoi parse_ip_ok parse_ip_nosep). Qed.
End C14.

(* an IPv4 address and its IPv4-mapped IPv6 form are treated alike *)
Theorem C14_mapped : forall r ip4, length ip4 = 4%nat ->
  contains r ip4 = contains r (v4prefix ++ ip4).
Proof.
  intros r ip4 H. unfold contains. rewrite to16_4 by exact H.
  rewrite to16_16 by (rewrite app_length, H; reflexivity). reflexivity.
Qed.

Print Assumptions C14_sound_complete.
Print Assumptions C14_reject.
Print Assumptions C14_accepts.
Print Assumptions C14_mapped.

(* non-vacuity: concrete specifications, with a toy ParseIP that knows two addresses *)
Definition ex_a : bytes := v4prefix ++ [192;0;2;77].
Definition ex_ip (s : bytes) : option bytes :=
  if list_eqb s [49] then Some ex_a else None.               (* "1" stands for 192.0.2.77 *)
Definition ex_atoi (s : bytes) : option Z := if list_eqb s [50;52] then Some 24 else None.  (* "24" *)

Example C14_ex_block :
  match parse_range ex_ip ex_atoi [49;47;50;52] with            (* "1/24" *)
  | Some r => (contains r [192;0;2;0], contains r [192;0;2;1], contains r [192;0;2;254],
               contains r [192;0;2;255], contains r (v4prefix ++ [192;0;2;9]), contains r [192;0;3;1])
              = (false, true, true, false, true, false)
  | None => False
  end.
Proof. vm_compute. reflexivity. Qed.
