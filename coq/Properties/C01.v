(* Properties/C01.v — root confinement.  Statements only.
   The served root is the element list [root c] below "/" of the modelled world; everything else
   in the world is "outside".  Symlinks are not part of the model (the property excludes them). *)
From Verif Require Import Lib.Bytes Model.Path Model.Fs Model.Session Gen.Consts Spec.ProtoSpec
  Proofs.PathProofs Proofs.SessionProofs Proofs.ConfineProofs Proofs.Examples.

(* clamping: whatever bytes a client sends as a path ("..", ".", empty elements, doubled separators,
   NUL, 64 KiB, "../root-other"), what reaches the filesystem layer is a list of real entry names -
   never "", "." or "..", never containing a separator - appended to the root *)
Theorem C01_clamp : forall p, Forall (fun e => real_elem e = true) (rooted_elems p).
Proof. exact rooted_elems_real. Qed.

(* cleaning is idempotent: a clamped path is its own canonical spelling *)
Theorem C01_clamp_idem : forall p, rooted_elems (render (rooted_elems p)) = rooted_elems p.
Proof. exact rooted_elems_idem. Qed.

(* non-interference, one request: two worlds with the same subtree at the root (and the same file
   contents) but arbitrary different surroundings answer every request, from every connection state,
   with the same bytes, the same closing decision and the same new connection state; afterwards they
   still agree inside, and each world's tree differs from its old one at most below the root *)
Theorem C01_noninterference : forall c w1 w2 k rq, agree c w1 w2 -> conn_ok c k ->
  obs (step c w1 k rq) = obs (step c w2 k rq) /\
  agree c (o_world (step c w1 k rq)) (o_world (step c w2 k rq)) /\
  stays_below c w1 (o_world (step c w1 k rq)) /\ stays_below c w2 (o_world (step c w2 k rq)).
Proof. exact step_ni. Qed.

(* the same for whole connections at the byte level: any input stream, any history *)
Theorem C01_noninterference_stream : forall c fuel w1 w2 k input, agree c w1 w2 -> conn_ok c k ->
  let '(outs1, cl1, w1', k1) := serve fuel c w1 k input in
  let '(outs2, cl2, w2', k2) := serve fuel c w2 k input in
  outs1 = outs2 /\ cl1 = cl2 /\ k1 = k2 /\ agree c w1' w2' /\ stays_below c w1 w1' /\ stays_below c w2 w2'.
Proof. exact serve_ni. Qed.

(* the invariant on connection states used above is established by the empty state and kept by every request *)
Theorem C01_conn_ok : forall c w k rq, conn_ok c k -> conn_ok c (o_conn (step c w k rq)).
Proof. exact step_conn_ok. Qed.

(* what "differs at most below the root" gives an observer: any lookup that leaves the root's own path
   at some element (a sibling, a sibling of an ancestor, ...) finds exactly what it found before *)
Theorem C01_outside_untouched : forall l p' q' a b t t',
  list_eqb b a = false -> only_below (l ++ b :: p') t t' -> walk t' (l ++ a :: q') = walk t (l ++ a :: q').
Proof. exact only_below_lookup. Qed.

Print Assumptions C01_clamp.
Print Assumptions C01_clamp_idem.
Print Assumptions C01_noninterference.
Print Assumptions C01_noninterference_stream.
Print Assumptions C01_conn_ok.
Print Assumptions C01_outside_untouched.

(* non-vacuity: the example world agrees with a world whose sibling "R-o" holds something else *)
Definition ex_world2 : world :=
  {| tree := Dir 77 [(ex_name_R, Dir 20 [(ex_name_a, File 0); (ex_name_d, Dir 30 [(ex_name_a, File 1)])]);
                     ([82;45;111], Dir 41 [([116], File 1)]); ([120], Dir 5 [])];
     inodes := inodes ex_world; next_ino := 3 |}.

Example C01_ex_agree : agree (ex_cfg true) ex_world ex_world2 /\ conn_ok (ex_cfg true) conn0.
Proof.
  split; [constructor; [reflexivity|reflexivity|]|repeat split].
  eexists _, _. split; vm_compute; reflexivity.
Qed.

Example C01_ex_hostile :
  rooted_elems [47;46;46;47;82;45;111;47;115] = [[82;45;111]; [115]]     (* "/../R-o/s" is clamped to "/R-o/s" below the root *)
  /\ o_out (step (ex_cfg false) ex_world conn0 (RStatFile [47;46;46;47;82;45;111;47;115])) = enc_stat (-1) 0 0 0 false.
Proof. split; vm_compute; reflexivity. Qed.
