(* Properties/C04.v — no client input and no on-disk content can crash the server.  Statements only.
   The models are total functions with explicit error outcomes (an error reply, the end of that one connection,
   a refused open, an error exit).  A Go panic has no counterpart in a model: the differential jobs run the
   real server and the real tools on hostile inputs and any crash, hang or traceback is a violation (job crash).
   What is proved is that the points where the Go code would panic or allocate without bound are unreachable
   in the byte-exact models: *)
From Verif Require Import Lib.Bytes Model.Path Model.Fs Model.Session Gen.Consts Model.IsoRead Model.Crypt Model.IsoBuild
  Spec.IsoReadSpec Spec.CryptSpec Spec.ProtoSpec Proofs.ProtoProofs Proofs.SessionProofs Proofs.IsoReadProofs Proofs.CryptProofs
  Proofs.IsoBuildProofs Proofs.RobustProofs Proofs.ConcProofs Model.Conc.

(* any byte stream of any length: the connection loop handles it to its end (or to the closing of that
   connection) within length/16 + 1 steps - more fuel changes nothing; the result is always a list of responses,
   a closed flag, a world and a released connection state *)
Theorem C04_any_stream : forall c f1 f2 w k input,
  (length input / 16 < f1)%nat -> (length input / 16 < f2)%nat -> serve f1 c w k input = serve f2 c w k input.
Proof. exact serve_fuel_enough. Qed.

(* what is not a complete known request produces no byte and ends only this connection *)
Theorem C04_malformed : forall fuel c w k input,
  parse_request input = PUnknown \/ parse_request input = PShort ->
  fst (fst (fst (serve (S fuel) c w k input))) = [].
Proof. intros fuel c w k input [H|H]; cbn [serve]; rewrite H; reflexivity. Qed.

(* every positional read of a generated image, for every offset and length, is a slice of the flat image or
   end-of-file: the bounds arithmetic of VirtualISO.read never leaves the buffers (C09, restated for C04) *)
Theorem C04_image_reads : forall img off len, layout_wf img -> 0 <= off -> 0 <= len ->
  iso_read img off len = ref_read img off len.
Proof. exact iso_read_ok. Qed.

(* image creation fails only with one of three errors (not a directory, unusable TITLE_ID, name too long) ... *)
Theorem C04_builder_errors : forall root v ps3 gc now rnd e, build_image root v ps3 gc now rnd = Err e ->
  e = ENOTDIR \/ e = EINVAL \/ e = ENAMETOOLONG.
Proof. exact build_image_errors. Qed.

(* ... and when it succeeds every value handed to a fixed-width encoder fits its field, for every tree and
   every name: directory records (length byte and identifier length byte), path-table identifiers, the root
   records in the descriptors, the volume identifiers, and the PS3 product code TITLE_ID[:4]-TITLE_ID[4:] *)
Theorem C04_builder_fields : forall root v ps3 gc now rnd bi, build_image root v ps3 gc now rnd = Ok bi ->
  exists ds fsec b_iso b_jol,
    scan_loop (snode_count root) [([], root)] 0 = (ds, fsec) /\
    Forall dir_ok b_iso /\ Forall dir_ok b_jol /\
    Forall pt_short (make_path_table ds false ds b_iso 0) /\ Forall pt_short (make_path_table ds true ds b_jol 0) /\
    (forall a c, zlen (root_record (map (map (fix_entry a c)) b_iso)) <= 34 /\ zlen (root_record (map (map (fix_entry a c)) b_jol)) <= 34) /\
    (ps3 = true -> 4 <= zlen gc /\ zlen (firstn 4 gc ++ [45] ++ skipn 4 gc) <= 32) /\
    zlen (fit (mangle_set d_characters v false) 32) <= 32 /\ zlen (fit (mangle_set d_characters v true) 32) <= 32.
Proof. exact builder_fields_fit. Qed.

(* an accepted region table has at most 255 entries, lies inside the first sector and inside the file: the
   count-driven allocation and the header-clearing loop are bounded whatever the file declares *)
Theorem C04_region_table : forall content clear v, new_encrypted content clear = Ok v ->
  (length (ev_regions v) <= 255)%nat /\ 24 <= ev_hdr v <= sector_size /\ ev_hdr v <= zlen content.
Proof. exact new_encrypted_bounded. Qed.

Section C04.
  Variable dec : Z -> bytes -> bytes.
  Hypothesis dec_length : forall s x, length (dec s x) = length x.
  (* every positional read of a decrypting view, unaligned offsets and odd lengths included, is a slice of the
     reference plaintext or end-of-file (C10, restated): the sector-window slicing never leaves the window *)
  Theorem C04_encrypted_reads : forall v content off len, view_wf v -> 0 <= off -> 0 < len ->
    crypt_read_at dec v content off len = ref_crypt_read_at dec v content off len.
  Proof. exact (crypt_read_ok dec dec_length). Qed.
End C04.

Print Assumptions C04_any_stream.
Print Assumptions C04_malformed.
Print Assumptions C04_image_reads.
Print Assumptions C04_builder_errors.
Print Assumptions C04_builder_fields.
Print Assumptions C04_region_table.
Print Assumptions C04_encrypted_reads.

(* non-vacuity: a TITLE_ID of 32 characters is refused (error, not an over-wide product code); 31 is accepted *)
Definition t7 : bytes := [100; 1; 1; 0; 0; 0; 0].
Example C04_ex_title_id :
  build_image (SDir [114] t7 []) [86] true (repeat 84 32) [] [] = Err EINVAL /\
  match build_image (SDir [114] t7 []) [86] true (repeat 84 31) [] [] with Ok bi => bi_total bi = 64 * 2048 | Err _ => False end.
Proof. vm_compute. split; reflexivity. Qed.
