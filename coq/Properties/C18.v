(* Properties/C18.v — re-opening an unchanged directory yields the same image layout.  Statements only.
   The model's build_image takes the two things that differ between opens as explicit arguments: the
   descriptor timestamp [now] (time.Now(), 17 bytes) and the PS3 filler [rnd] (crypto/rand, 0x1C0 bytes);
   everything else is a function of what the scan of the directory observes. *)
From Verif Require Import Lib.Bytes Model.Path Model.Fs Gen.Consts Model.IsoRead Model.IsoBuild Spec.IsoReadSpec
  Proofs.IsoReadProofs Proofs.IsoBuildProofs.

(* for every tree, volume name, mode and product code: either every open fails with the same error, or
   there are fixed byte strings A B C D and a fixed file table, pad area and size such that every open -
   whatever the clock and the random source give - produces
        A ++ rnd ++ B ++ now now ++ C ++ now now ++ D
   with rnd at offset 2048+64 (PS3 mode only, 0x1C0 bytes) and the two timestamp pairs at offset 813 of
   sectors 16 and 17 (the creation and modification time fields of the two descriptors) *)
Theorem C18_varies_only_in_fields : forall root v ps3 gc,
  (exists e, forall now rnd, build_image root v ps3 gc now rnd = Err e) \/
  exists A B C D files pstart psize tot,
    zlen A = (if ps3 then sector_size + 64 else 0) /\
    zlen A + (if ps3 then 448 else 0) + zlen B = 16 * sector_size + 813 /\
    zlen C = sector_size - 34 /\
    forall now rnd, build_image root v ps3 gc now rnd =
      Ok {| bi_fsbuf := A ++ (if ps3 then fitn 448 rnd else []) ++ B ++ (fitn 17 now ++ fitn 17 now) ++ C
                          ++ (fitn 17 now ++ fitn 17 now) ++ D;
            bi_files := files; bi_pad_start := pstart; bi_pad_size := psize; bi_total := tot |}.
Proof. exact build_varies_only_in_fields. Qed.

Print Assumptions C18_varies_only_in_fields.

(* non-vacuity: two opens of one PS3 tree with different clocks and fillers differ, and only there *)
Definition t7 : bytes := [100; 1; 1; 0; 0; 0; 0].
Definition ex_tree : snode := SDir [114] t7 [SFile [97] 5 t7; SDir [115] t7 [SFile [98] 3000 t7]].
Definition gc : bytes := [66; 76; 69; 83; 48; 49; 50; 51; 52].

Example C18_ex_two_opens :
  match build_image ex_tree [86] true gc (repeat 49 17) (repeat 7 448), build_image ex_tree [86] true gc (repeat 50 17) (repeat 9 448) with
  | Ok a, Ok b => list_eqb (bi_fsbuf a) (bi_fsbuf b) = false /\ bi_files a = bi_files b /\ bi_total a = bi_total b
                  /\ firstn 2112 (bi_fsbuf a) = firstn 2112 (bi_fsbuf b)
                  /\ skipn (17 * 2048 + 847) (bi_fsbuf a) = skipn (17 * 2048 + 847) (bi_fsbuf b)
  | _, _ => False
  end.
Proof. vm_compute. repeat split; reflexivity. Qed.
