(* Properties/C12.v — connections are isolated from each other under concurrency.  Statements only.
   Request handling is the atomic step of a schedule; the Go memory model (data races) is outside
   the model and is watched by the -race differential (DESIGN section 5, C12). *)
From Verif Require Import Lib.Bytes Model.Path Model.Fs Model.Session Gen.Consts Spec.ProtoSpec
  Proofs.SessionProofs Model.Conc Proofs.ConcProofs Proofs.Examples.

(* any number of connections, any interleaving of their requests: as long as nothing writes (writing
   disabled, or only reading requests), each connection receives exactly the responses it would
   receive alone - open files, open directory, sector size of one connection never influence another *)
Theorem C12_isolation : forall c i sched w ks, quiet c sched ->
  project i (grun c (w, ks) sched) = solo c w (ks i) (requests_of i sched).
Proof. exact isolation. Qed.

(* a step of one connection leaves every other connection's state as it was, in every mode *)
Theorem C12_state_private : forall c w ks j rq i, i <> j ->
  snd (fst (gstep c (w, ks) (j, rq))) i = ks i.
Proof. exact other_conn_untouched. Qed.

(* transfer buffers come from a shared pool: whatever the previous user left in the buffer and however
   the source chunks its reads, exactly the source's bytes are sent *)
Theorem C12_pool : forall chunks buf, Forall (fun ch => (length ch <= length buf)%nat) chunks ->
  fst (copy_buffer buf chunks) = concat chunks.
Proof. exact copy_buffer_clean. Qed.

Print Assumptions C12_isolation.
Print Assumptions C12_state_private.
Print Assumptions C12_pool.

(* non-vacuity: two connections reading the same file at different offsets, interleaved *)
Example C12_ex :
  let sched := [(1%nat, ROpenFile ex_path_a); (2%nat, ROpenFile ex_path_a); (1%nat, RReadFile 3 0); (2%nat, RReadFile 3 6); (1%nat, RReadFile 2 3)] in
  project 2 (grun (ex_cfg false) (ex_world, fun _ => conn0) sched)
  = [(be64 11 ++ be64 100, false); (be32 3 ++ [119;111;114], false)].
Proof. vm_compute. reflexivity. Qed.
