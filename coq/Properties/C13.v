(* Properties/C13.v — handles are always released.  Statements only.
   [opens]/[closes] count the OS-level opens and closes made on behalf of the connection. *)
From Verif Require Import Lib.Bytes Model.Path Model.Fs Model.Session Gen.Consts Spec.ProtoSpec
  Proofs.SessionProofs Proofs.Examples.

(* ledger invariant: what was opened and not yet closed is exactly what the connection state holds *)
Theorem C13_owned : forall c w k rq, balanced k -> balanced (o_conn (step c w k rq)).
Proof. exact step_balanced. Qed.

(* however the connection ends - end of stream, truncated or unknown request, a handler error -
   for every input byte stream and every world, every handle it opened has been closed *)
Theorem C13_released : forall c fuel w input,
  let k' := snd (serve fuel c w conn0 input) in opens k' = closes k'.
Proof. intros c fuel w input. apply serve_released. exact conn0_balanced. Qed.

Print Assumptions C13_owned.
Print Assumptions C13_released.

(* non-vacuity: a session that holds a read file and a directory when the stream ends *)
Example C13_ex :
  let '(_, _, _, k') := serve 10 (ex_cfg false) ex_world conn0
                          (wires [ROpenFile ex_path_a; ROpenDir ex_path_d] [ex_junk; ex_junk]) in
  (opens k', closes k') = (2, 2).
Proof. vm_compute. reflexivity. Qed.
