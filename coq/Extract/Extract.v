(* Extract/Extract.v — extraction of the executable models for the correspondence check.
   ExtrOcamlBasic only (bool, option, list, prod, unit, sumbool -> OCaml natives);
   Z/N/positive/nat stay Coq datatypes.  No Extract Constant / Extract Inductive of our own. *)
Require Extraction.
Require Import ExtrOcamlBasic.
From Verif Require Import Lib.Bytes Model.IPRange Model.Path Model.Fs Model.Session Model.IsoRead Model.Crypt Model.Listener Model.Timeout Model.Detect Model.Config Model.IsoBuild Model.Tools Model.Sfo.

Extraction Language OCaml.
Extraction "model.ml"
  IPRange.parse_range IPRange.contains IPRange.find_sep
  Path.rooted_elems Path.render
  Fs.get_inode Fs.walk Fs.sort_names
  IsoRead.iso_run IsoRead.iso_read
  Listener.lrun
  Timeout.tserve
  Detect.open_file Detect.kind_read
  Config.raw_value
  IsoBuild.build_image
  Tools.decrypt_output Tools.make_iso_output Tools.after_tool
  Sfo.sfo_field
  Crypt.new_encrypted Crypt.crypt_run Crypt.crypt_read_at
  Session.serve_all Session.step Session.parse_request Session.held.
