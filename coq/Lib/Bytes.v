(* Lib/Bytes.v — byte strings as lists of Z, big-endian values, lexicographic compare.
   Shared by every model.  No property content here. *)
From Coq Require Export List ZArith Lia Bool.
From Coq Require Import ZifyBool.
Export ListNotations.
Open Scope Z_scope.

Definition byte := Z.
Definition bytes := list Z.

Definition is_byte (b : Z) : Prop := 0 <= b < 256.
Definition bytes_ok (l : bytes) : Prop := Forall is_byte l.

Definition is_byteb (b : Z) : bool := (0 <=? b) && (b <? 256).
Definition bytes_okb (l : bytes) : bool := forallb is_byteb l.

Lemma bytes_okb_ok l : bytes_okb l = true <-> bytes_ok l.
Proof.
  unfold bytes_okb, bytes_ok. rewrite forallb_forall, Forall_forall.
  split; intros H x Hx; specialize (H x Hx); unfold is_byteb, is_byte in *; lia.
Qed.

Definition zlen {A} (l : list A) : Z := Z.of_nat (length l).

Lemma zlen_nonneg {A} (l : list A) : 0 <= zlen l.
Proof. unfold zlen; lia. Qed.

Lemma zlen_app {A} (a b : list A) : zlen (a ++ b) = zlen a + zlen b.
Proof. unfold zlen; rewrite app_length; lia. Qed.

Lemma zlen_cons {A} (x : A) l : zlen (x :: l) = 1 + zlen l.
Proof. unfold zlen; cbn [length]; lia. Qed.

Lemma zlen_nil {A} : zlen (@nil A) = 0.
Proof. reflexivity. Qed.

(* big-endian value of a byte string *)
Fixpoint val (l : bytes) : Z :=
  match l with
  | [] => 0
  | b :: r => b * 256 ^ zlen r + val r
  end.

Lemma pow256_pos n : 0 <= n -> 0 < 256 ^ n.
Proof. intros; apply Z.pow_pos_nonneg; lia. Qed.

Lemma val_bound l : bytes_ok l -> 0 <= val l < 256 ^ zlen l.
Proof.
  induction 1 as [|b r Hb Hr IH]; cbn [val].
  - unfold zlen; simpl; lia.
  - rewrite zlen_cons. unfold is_byte in Hb.
    rewrite Z.pow_add_r by (pose proof (zlen_nonneg r); lia).
    pose proof (pow256_pos (zlen r) (zlen_nonneg r)). nia.
Qed.

Lemma val_app a b : val (a ++ b) = val a * 256 ^ zlen b + val b.
Proof.
  induction a as [|x a IH]; cbn [val app]; [lia|].
  rewrite IH, zlen_app, Z.pow_add_r by apply zlen_nonneg. ring.
Qed.

(* bytes.Compare *)
Fixpoint lexcmp (a b : bytes) : comparison :=
  match a, b with
  | [], [] => Eq
  | [], _ :: _ => Lt
  | _ :: _, [] => Gt
  | x :: a', y :: b' =>
      match x ?= y with
      | Eq => lexcmp a' b'
      | c => c
      end
  end.

Lemma lexcmp_val a : forall b, bytes_ok a -> bytes_ok b -> length a = length b ->
  lexcmp a b = (val a ?= val b).
Proof.
  induction a as [|x a IH]; intros [|y b] Ha Hb Hl; cbn [length] in Hl; try discriminate.
  - reflexivity.
  - inversion Ha as [|? ? Hx Ha']; inversion Hb as [|? ? Hy Hb']; subst.
    cbn [lexcmp val].
    assert (Hzl : zlen a = zlen b) by (unfold zlen; lia).
    pose proof (val_bound a Ha') as Ba. pose proof (val_bound b Hb') as Bb.
    rewrite Hzl in *. unfold is_byte in *.
    set (P := 256 ^ zlen b) in *.
    destruct (Z.compare_spec x y) as [E|L|G].
    + subst. rewrite IH by (auto; lia).
      destruct (Z.compare_spec (val a) (val b)); symmetry;
        [apply Z.compare_eq_iff | apply Z.compare_lt_iff | apply Z.compare_gt_iff]; lia.
    + symmetry; apply Z.compare_lt_iff. nia.
    + symmetry; apply Z.compare_gt_iff. nia.
Qed.

Definition list_eqb (a b : bytes) : bool :=
  match lexcmp a b with Eq => true | _ => false end.

Lemma lexcmp_eq a : forall b, lexcmp a b = Eq <-> a = b.
Proof.
  induction a as [|x a IH]; intros [|y b]; cbn [lexcmp]; split; intro H; try discriminate; auto.
  - destruct (Z.compare_spec x y); try discriminate. subst. f_equal. apply IH; auto.
  - inversion H; subst. rewrite Z.compare_refl. apply IH; auto.
Qed.

Lemma list_eqb_eq a b : list_eqb a b = true <-> a = b.
Proof.
  unfold list_eqb. rewrite <- lexcmp_eq. destruct (lexcmp a b); split; intro; congruence.
Qed.

Lemma list_eqb_refl a : list_eqb a a = true.
Proof. apply list_eqb_eq; reflexivity. Qed.

(* fixed-width big-endian encoders *)
Fixpoint be_enc (n : nat) (v : Z) : bytes :=
  match n with
  | O => []
  | S k => ((v / 256 ^ Z.of_nat k) mod 256) :: be_enc k v
  end.

Lemma be_enc_length n v : length (be_enc n v) = n.
Proof. induction n; cbn [be_enc length]; auto. Qed.

Lemma be_enc_ok n v : bytes_ok (be_enc n v).
Proof.
  induction n; cbn [be_enc]; constructor; auto.
  unfold is_byte. apply Z.mod_pos_bound; lia.
Qed.

Definition repeatz {A} (x : A) (n : Z) : list A := repeat x (Z.to_nat n).

Lemma repeatz_length {A} (x : A) n : zlen (repeatz x n) = Z.max 0 n.
Proof. unfold zlen, repeatz. rewrite repeat_length. lia. Qed.

(* slice [off, off+n) of a list, Z-indexed *)
(* clamped first, so that hostile offsets and lengths never build large unary numbers *)
Definition slice {A} (l : list A) (off n : Z) : list A :=
  if (off <? 0) || (zlen l <=? off) then []
  else firstn (Z.to_nat (Z.min n (zlen l - off))) (skipn (Z.to_nat off) l).
