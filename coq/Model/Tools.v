(* Model/Tools.v — cmd/ps3netsrv-go makeiso.go / decrypt.go and internal/kongutil/outputfile.go.
   Both tools are io.Copy(target, view): Read the view with the generic 32 KiB buffer until io.EOF
   and write what was read.  The views are the ones the server serves from: VirtualISO (Model/IsoRead
   over Model/IsoBuild) and EncryptedISO with the region map cleared (Model/Crypt), for 3k3y images
   wrapped in ISO3k3y (Model/Detect.mask_from). *)
From Verif Require Import Lib.Bytes Model.Path Model.Fs Model.Session Gen.Consts Model.IsoRead Model.Crypt Model.Detect.

Definition copy_chunk : Z := 32768.

(* io.Copy over a reader that is positional underneath (Read = ReadAt at the running offset, offset += n) *)
Fixpoint copy_loop (fuel : nat) (rd : Z -> Z -> res bytes) (chunk cur : Z) : res bytes :=
  match fuel with
  | O => Err EIO                                   (* out of fuel: excluded by the theorems *)
  | S k =>
      match rd cur chunk with
      | Ok d => rest <- copy_loop k rd chunk (cur + zlen d) ;; Ok (d ++ rest)
      | Err EOFk => Ok []
      | Err e => Err e
      end
  end.

Definition copy_fuel (size : Z) : nat := S (S (Z.to_nat (size / copy_chunk))).

(* make-iso: the bytes written for an image *)
Definition make_iso_output (img : image) : res bytes :=
  copy_loop (copy_fuel (total img)) (iso_read img) copy_chunk 0.

Section Cipher.
  Variable dec : Z -> bytes -> bytes.

  Definition enc_reader (v : enc_view) (content : bytes) (mask : bool) (cur n : Z) : res bytes :=
    match crypt_read_at dec v content cur n with
    | Ok (d, _) => Ok (if mask then mask_from cur d else d)
    | Err e => Err e
    end.

  (* decrypt redump (mask = false) / decrypt 3k3y (mask = true): NewEncryptedISO(image, key, clearRegions = true) *)
  Definition decrypt_output (content : bytes) (mask : bool) : res bytes :=
    v <- new_encrypted content true ;;
    copy_loop (copy_fuel (zlen content)) (enc_reader v content mask) copy_chunk 0.
End Cipher.

(* the "outputfile" mapper: "-" is standard output; an existing path is refused before anything is opened;
   otherwise the file is created (O_WRONLY|O_CREATE) *)
Inductive target := TStdout | TRefused | TCreated.

Definition output_target (is_dash path_exists : bool) : target :=
  if is_dash then TStdout else if path_exists then TRefused else TCreated.

(* the files of a directory after a tool ran with the given output argument: a created file is added,
   nothing that existed is touched *)
Definition after_tool (existing : list (bytes * bytes)) (name : bytes) (is_dash : bool) (out : bytes) : list (bytes * bytes) :=
  match output_target is_dash (existsb (fun e => list_eqb (fst e) name) existing) with
  | TCreated => existing ++ [(name, out)]
  | _ => existing
  end.
