(* Model/Detect.v — pkg/fs.FS.OpenFile for reading: which view a path is served through.
   translatePath (virtual prefixes) -> raw open -> directory? -> redump key lookup
   (tryGetRedumpKey, ReadKeyFile) -> 3k3y watermark test (Test3k3yImage) -> plain.
   Works over Model/Fs worlds; paths are rooted element lists below the served root. *)
From Verif Require Import Lib.Bytes Model.Path Model.Fs Model.Session Gen.Consts Model.IsoRead Model.Crypt.

Inductive kind :=
| KErr (e : errk)                       (* the open fails *)
| KVirtual (ps3 : bool) (dir : list bytes)     (* ***DVD*** / ***PS3***: a generated image of dir *)
| KDir                                  (* a directory handle, untouched *)
| KPlain                                (* the file as it is *)
| KEnc (key : bytes) (v : enc_view)     (* decrypting view with a redump key file *)
| KEnc3k3y (key : bytes) (v : enc_view) (* decrypting view with the embedded 3k3y key, watermark area masked *)
| KMask.                                (* decrypted 3k3y image: watermark area masked *)

Definition is_hex (c : Z) : bool :=
  ((48 <=? c) && (c <=? 57)) || ((97 <=? c) && (c <=? 102)) || ((65 <=? c) && (c <=? 70)).
Definition hex_val (c : Z) : Z :=
  if c <=? 57 then c - 48 else if c <=? 70 then c - 55 else c - 87.

Fixpoint hex_pairs (l : bytes) : bytes :=
  match l with
  | a :: b :: r => (hex_val a * 16 + hex_val b) :: hex_pairs r
  | _ => []
  end.

(* ReadKeyFile: the first 32 bytes must be hex digits *)
Definition read_key (content : bytes) : res bytes :=
  let h := firstn 32 content in
  if (length h =? 32)%nat && forallb is_hex h then Ok (hex_pairs h) else Err EINVAL.

Fixpoint find_index (f : bytes -> bool) (l : list bytes) (i : nat) : option nat :=
  match l with [] => None | x :: r => if f x then Some i else find_index f r (S i) end.

Fixpoint replace_nth (l : list bytes) (i : nat) (x : bytes) : list bytes :=
  match l, i with
  | [], _ => []
  | _ :: r, O => x :: r
  | y :: r, S k => y :: replace_nth r k x
  end.

(* open a key file candidate and read the key: Err ENOENT-class errors of the open itself are reported as such *)
Definition open_key (c : cfg) (w : world) (rel : list bytes) : res (res bytes) :=
  match resolve (plen c) w (abs_path c rel) with
  | Err e => Err e                                   (* the open failed *)
  | Ok (Dir _ _) => Ok (Err EISDIR)                  (* opens, but cannot be read *)
  | Ok (File i) => match get_inode (inodes w) i with
                   | Some x => Ok (read_key (idata x))
                   | None => Ok (Err EIO)
                   end
  end.

(* keyFileMissing: "there is no such key file" - also when a regular file sits where a directory of the key's path
   would be (ENOTDIR, e.g. a file named REDKEY) *)
Definition key_missing (e : errk) : bool := match e with ENOENT | ENOTDIR => true | _ => false end.

(* tryGetRedumpKey: Err ENOENT = "no key applies" (afero.ErrFileNotFound), any other Err = failure *)
Definition try_key (c : cfg) (w : world) (rel : list bytes) : res bytes :=
  let lst := last_elem rel in
  let e := ext lst in
  if negb (list_eqb (to_lower e) iso_ext) then Err ENOENT else
  match find_index (fun x => list_eqb (to_lower x) ps3iso_dir) rel 0 with
  | None => Err ENOENT
  | Some idx =>
      let keyname := trim_ext lst ++ dkey_ext in
      let cand1 := removelast rel ++ [keyname] in
      match open_key c w cand1 with
      | Ok r => r                                     (* the adjacent key file opened: its verdict is final *)
      | Err e1 =>
          if key_missing e1 then                      (* there is none: the REDKEY directory is consulted *)
            let cand2 := removelast (replace_nth rel idx redkey_dir) ++ [keyname] in
            match open_key c w cand2 with
            | Ok r => r
            | Err e2 => if key_missing e2 then Err ENOENT else Err e2
            end
          else Err e1                                 (* it exists but cannot be opened: an error, not "no key" *)
      end
  end.

Definition wm_begin : Z := masked_data_begin.
Definition wm_end : Z := masked_data_begin + masked_data_size.

(* Test3k3yImage: Some (Some key) encrypted, Some None decrypted, None not a 3k3y image *)
Definition test_3k3y (content : bytes) : option (option bytes) :=
  if zlen content <? wm_end then None else
  let wm := slice content (wm_begin + watermark_placement) watermark_size in
  if list_eqb wm enc_watermark then Some (Some (slice content (wm_begin + encryption_key_placement) encryption_key_size))
  else if list_eqb wm dec_watermark then Some None
  else None.

Definition virtual_kind (rel : list bytes) : option kind :=
  match rel with
  | first :: ((_ :: _) as rest) =>
      if list_eqb first virtual_iso_name then Some (KVirtual false rest)
      else if list_eqb first virtual_ps3iso_name then Some (KVirtual true rest)
      else None
  | _ => None
  end.

Definition open_file (c : cfg) (w : world) (rel : list bytes) : kind :=
  match virtual_kind rel with
  | Some k => k
  | None =>
      match resolve (plen c) w (abs_path c rel) with
      | Err e => KErr e
      | Ok (Dir _ _) => KDir
      | Ok (File i) =>
          match get_inode (inodes w) i with
          | None => KErr EIO
          | Some x =>
              let content := idata x in
              match try_key c w rel with
              | Ok key => match new_encrypted content false with Ok v => KEnc key v | Err e => KErr e end
              | Err ENOENT =>
                  match test_3k3y content with
                  | Some (Some key) => match new_encrypted content false with Ok v => KEnc3k3y key v | Err e => KErr e end
                  | Some None => KMask
                  | None => KPlain
                  end
              | Err e => KErr e
              end
          end
      end
  end.

(* ISO3k3y.clear3k3yData on bytes that start at absolute offset off *)
Fixpoint mask_from (off : Z) (d : bytes) : bytes :=
  match d with
  | [] => []
  | b :: r => (if (wm_begin <=? off) && (off <? wm_end) then 0 else b) :: mask_from (off + 1) r
  end.

Section Cipher.
  Variable dec : Z -> bytes -> bytes.

  (* what a positional read of n > 0 bytes at off >= 0 returns from the opened object *)
  Definition kind_read (k : kind) (content : bytes) (off n : Z) : bytes :=
    match k with
    | KPlain => slice content off n
    | KEnc _ v => match crypt_read_at dec v content off n with Ok (d, _) => d | Err _ => [] end
    | KEnc3k3y _ v => mask_from off (match crypt_read_at dec v content off n with Ok (d, _) => d | Err _ => [] end)
    | KMask => mask_from off (slice content off n)
    | _ => []
    end.
End Cipher.
