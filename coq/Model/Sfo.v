(* Model/Sfo.v — pkg/fs/sfo.go sfoField: the value of one key of a PARAM.SFO file.
   Header (20 bytes, little endian): magic, version, key table start, data table start, entry count.
   Index entries (16 bytes each): key offset u16, format u16, data length u32, data max length u32, data offset u32.
   Every read that runs past the end of the file is an error; nothing is allocated from a declared count. *)
From Verif Require Import Lib.Bytes Model.Fs Gen.Consts Model.IsoRead.

Definition le_at (l : bytes) (off n : Z) : Z := val (rev (slice l off n)).

(* bufio.Reader.ReadBytes(0): the bytes before the first NUL; an end of input before any NUL is an error *)
Fixpoint until_nul (l : bytes) : option bytes :=
  match l with
  | [] => None
  | b :: r => if b =? 0 then Some [] else option_map (cons b) (until_nul r)
  end.

Record sfo_entry := { se_key_off : Z; se_len : Z; se_data_off : Z }.

Definition read_entry (content : bytes) (i : Z) : option sfo_entry :=
  let off := 20 + 16 * i in
  if zlen content <? off + 16 then None
  else Some {| se_key_off := le_at content off 2; se_len := le_at content (off + 4) 4; se_data_off := le_at content (off + 12) 4 |}.

(* the index loop: first entry whose key is the field *)
Fixpoint find_entry (fuel : nat) (content field : bytes) (key_tab count i : Z) : res sfo_entry :=
  match fuel with
  | O => Err EOFk                                      (* unreachable: entry i lies past the end of the file *)
  | S k =>
      if count <=? i then Err ENOENT else              (* "field was not found" *)
      match read_entry content i with
      | None => Err EOFk
      | Some e =>
          let key_off := (key_tab + se_key_off e) mod 2 ^ 32 in      (* uint32 addition *)
          match until_nul (skipn (Z.to_nat (Z.min key_off (zlen content))) content) with
          | None => Err EOFk
          | Some key => if list_eqb key field then Ok e else find_entry k content field key_tab count (i + 1)
          end
      end
  end.

Definition sfo_field (content field : bytes) : res bytes :=
  if zlen content <? 20 then Err EOFk else
  if negb (list_eqb (slice content 0 4) sfo_magic) then Err EINVAL else
  let key_tab := le_at content 8 4 in
  let data_tab := le_at content 12 4 in
  let count := le_at content 16 4 in
  e <- find_entry (S (Z.to_nat (zlen content / 16))) content field key_tab count 0 ;;
  let off := data_tab + se_data_off e in                              (* int64 addition: no wrap *)
  let n := se_len e - 1 in                                            (* the value is NUL-terminated *)
  if n <=? 0 then Ok [] else                                          (* io.CopyN(_, _, n <= 0) copies nothing *)
  if zlen content <? off + n then Err EOFk
  else Ok (slice content off n).

(* ---------- the writer's side, for the round-trip theorem: a well-formed file with the given entries ---------- *)
Definition le_bytes (n : nat) (v : Z) : bytes := rev (be_enc n v).

Definition sfo_index_entry (koff dlen doff : Z) : bytes :=
  le_bytes 2 koff ++ le_bytes 2 516 ++ le_bytes 4 dlen ++ le_bytes 4 dlen ++ le_bytes 4 doff.

(* (key offset, data length, data offset) of every entry; values are stored NUL-terminated *)
Fixpoint sfo_layout (es : list (bytes * bytes)) (koff doff : Z) : list (Z * Z * Z) :=
  match es with
  | [] => []
  | (k, v) :: r => (koff, zlen v + 1, doff) :: sfo_layout r (koff + zlen k + 1) (doff + zlen v + 1)
  end.

Definition sfo_key_table (es : list (bytes * bytes)) : bytes := concat (map (fun e => fst e ++ [0]) es).
Definition sfo_data_table (es : list (bytes * bytes)) : bytes := concat (map (fun e => snd e ++ [0]) es).

Definition encode_sfo (es : list (bytes * bytes)) : bytes :=
  let n := Z.of_nat (length es) in
  let ktab := sfo_key_table es in
  sfo_magic ++ [1; 1; 0; 0] ++ le_bytes 4 (20 + 16 * n) ++ le_bytes 4 (20 + 16 * n + zlen ktab) ++ le_bytes 4 n
  ++ concat (map (fun t => sfo_index_entry (fst (fst t)) (snd (fst t)) (snd t)) (sfo_layout es 0 0))
  ++ ktab ++ sfo_data_table es.
