(* Model/IPRange.v — executable model of pkg/iprange/iprange.go
   (ParseIPRange, parseCIDRorMask, lastByMask, parseTwo, Contains) and of the
   net.IP helpers it uses (To4, To16, Mask, CIDRMask, IPMask.Size), byte for byte.
   net.ParseIP and strconv.Atoi are external: section variables. *)
From Verif Require Import Lib.Bytes.

Definition v4prefix : bytes := [0;0;0;0;0;0;0;0;0;0;255;255].

(* net.IP.To4 *)
Definition to4 (ip : bytes) : option bytes :=
  if (length ip =? 4)%nat then Some ip
  else if ((length ip =? 16)%nat && list_eqb (firstn 12 ip) v4prefix)%bool then Some (skipn 12 ip)
  else None.

(* net.IP.To16 *)
Definition to16 (ip : bytes) : option bytes :=
  if (length ip =? 4)%nat then Some (v4prefix ++ ip)
  else if (length ip =? 16)%nat then Some ip
  else None.

(* net.CIDRMask(ones, bits) for bits = 8 * nbytes *)
Definition mask_byte (ones : Z) : Z :=          (* leading [ones] bits of a byte set, clamp to 0..8 *)
  if ones <=? 0 then 0 else if 8 <=? ones then 255 else 256 - 2 ^ (8 - ones).

Fixpoint cidr_mask_bytes (ones : Z) (n : nat) : bytes :=
  match n with
  | O => []
  | S k => mask_byte ones :: cidr_mask_bytes (ones - 8) k
  end.

Definition cidr_mask (ones : Z) (nbytes : nat) : option bytes :=
  if (ones <? 0) || (8 * Z.of_nat nbytes <? ones) then None
  else Some (cidr_mask_bytes ones nbytes).

(* leading-one count of a single byte, None if its ones are not contiguous from the top *)
Definition byte_ones (v : Z) : option Z :=
  if v =? 0 then Some 0 else if v =? 128 then Some 1 else if v =? 192 then Some 2
  else if v =? 224 then Some 3 else if v =? 240 then Some 4 else if v =? 248 then Some 5
  else if v =? 252 then Some 6 else if v =? 254 then Some 7 else None.

(* net.IPMask.Size via simpleMaskLength: Some ones for a canonical mask, None for (0,0) *)
Fixpoint mask_ones (m : bytes) : option Z :=
  match m with
  | [] => Some 0
  | v :: r =>
      if v =? 255 then option_map (Z.add 8) (mask_ones r)
      else match byte_ones v with
           | Some k => if forallb (Z.eqb 0) r then Some k else None
           | None => None
           end
  end.

Definition allFF (l : bytes) : bool := forallb (Z.eqb 255) l.

(* net.IP.Mask *)
Definition ip_mask (ip mask : bytes) : option bytes :=
  let mask := if ((length mask =? 16)%nat && (length ip =? 4)%nat && allFF (firstn 12 mask))%bool
              then skipn 12 mask else mask in
  let ip := if ((length mask =? 4)%nat && (length ip =? 16)%nat && list_eqb (firstn 12 ip) v4prefix)%bool
            then skipn 12 ip else ip in
  if (length ip =? length mask)%nat
  then Some (map (fun p => Z.land (fst p) (snd p)) (combine ip mask))
  else None.

(* lastByMask: ip[i] | ^mask[i] on uint8 *)
Definition last_by_mask (ip mask : bytes) : bytes :=
  map (fun p => Z.lor (fst p) (255 - snd p)) (combine ip mask).

(* x[len-1] |= 1 ; x[len-1] &^= 1 *)
Definition set_last_bit (l : bytes) : bytes :=
  match rev l with [] => [] | b :: r => rev (Z.lor b 1 :: r) end.
Definition clear_last_bit (l : bytes) : bytes :=
  match rev l with [] => [] | b :: r => rev (Z.land b 254 :: r) end.

Record iprange := { left : bytes; right : bytes }.

Fixpoint find_sep (s : bytes) (i : nat) : option (nat * Z) :=
  match s with
  | [] => None
  | c :: r => if (c =? 47) || (c =? 45) then Some (i, c) else find_sep r (S i)
  end.

Section Ext.
  Variable parse_ip : bytes -> option bytes.   (* net.ParseIP: 16-byte form or nil *)
  Variable atoi : bytes -> option Z.           (* strconv.Atoi: value or error *)

  Definition parse_cidr_or_mask (s : bytes) (sep : nat) : option iprange :=
    if (S sep =? length s)%nat then None else
    match parse_ip (firstn sep s) with
    | None => None
    | Some addr =>
        let rest := skipn (S sep) s in
        let addr_len : nat := match to4 addr with Some _ => 4%nat | None => length addr end in
        let mask_pl : option (bytes * Z) :=
          match parse_ip rest with
          | Some mask_as_ip =>
              match to4 mask_as_ip with
              | Some mask4 =>
                  if (addr_len =? 4)%nat
                  then match mask_ones mask4 with Some pl => Some (mask4, pl) | None => None end
                  else None
              | None => None
              end
          | None =>
              match atoi rest with
              | Some pl => match cidr_mask pl addr_len with Some m => Some (m, pl) | None => None end
              | None => None
              end
          end in
        match mask_pl with
        | None => None
        | Some (mask, prefix_len) =>
            match ip_mask addr mask with
            | None => None                      (* Go: left == nil; then lastByMask(nil) … To16(nil) = nil; never happens *)
            | Some l0 =>
                let r0 := last_by_mask l0 mask in
                let excl := ((addr_len =? 4)%nat && (prefix_len <? 31))
                            || ((addr_len =? 16)%nat && (prefix_len <? 127)) in
                let l1 := if excl then set_last_bit l0 else l0 in
                let r1 := if excl then clear_last_bit r0 else r0 in
                match to16 l1, to16 r1 with
                | Some l, Some r => Some {| left := l; right := r |}
                | _, _ => None
                end
            end
        end
    end.

  Definition parse_two (s : bytes) (sep : nat) : option iprange :=
    if (S sep =? length s)%nat then None else
    match parse_ip (firstn sep s), parse_ip (skipn (S sep) s) with
    | Some l, Some r =>
        match to4 l, to4 r with
        | None, Some _ | Some _, None => None
        | _, _ => match lexcmp l r with Gt => None | _ => Some {| left := l; right := r |} end
        end
    | _, _ => None
    end.

  Definition parse_range (s : bytes) : option iprange :=
    let sub := match find_sep s 0 with
               | Some (i, c) => if c =? 47 then parse_cidr_or_mask s i else parse_two s i
               | None => None
               end in
    match sub with
    | Some r => Some r
    | None => match parse_ip s with
              | Some a => Some {| left := a; right := a |}
              | None => None
              end
    end.
End Ext.

(* IPRange.Contains; bytes.Compare(nil, x) < 0 for non-empty x *)
Definition contains (r : iprange) (ip : bytes) : bool :=
  match to16 ip with
  | None => false
  | Some x =>
      match lexcmp x (left r), lexcmp x (right r) with
      | Lt, _ => false
      | _, Gt => false
      | _, _ => true
      end
  end.
