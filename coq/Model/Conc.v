(* Model/Conc.v — several connections over one world.  The server runs one goroutine with one
   Context/State per connection; what they share is the filesystem and the pool of transfer buffers.
   A schedule is an interleaving of (connection id, request) steps; connection states are values
   keyed by id.  The pooled copy loop (internal/copier over io.CopyBuffer) is modelled on its own. *)
From Verif Require Import Lib.Bytes Model.Path Model.Fs Model.Session Gen.Consts.

Definition conns := nat -> conn.
Definition set_conn (ks : conns) (i : nat) (k : conn) : conns := fun j => if (j =? i)%nat then k else ks j.

(* one scheduled step *)
Definition gstep (c : cfg) (st : world * conns) (ev : nat * request) : (world * conns) * (nat * bytes * bool) :=
  let (w, ks) := st in
  let (i, rq) := ev in
  let o := step c w (ks i) rq in
  ((o_world o, set_conn ks i (o_conn o)), (i, o_out o, o_close o)).

Fixpoint grun (c : cfg) (st : world * conns) (sched : list (nat * request)) : list (nat * bytes * bool) :=
  match sched with
  | [] => []
  | ev :: r => let (st', ob) := gstep c st ev in ob :: grun c st' r
  end.

(* what connection i sees *)
Definition project (i : nat) (obs : list (nat * bytes * bool)) : list (bytes * bool) :=
  map (fun o => (snd (fst o), snd o)) (filter (fun o => (fst (fst o) =? i)%nat) obs).

(* connection i alone, same requests, same initial world and state *)
Fixpoint solo (c : cfg) (w : world) (k : conn) (rqs : list request) : list (bytes * bool) :=
  match rqs with
  | [] => []
  | rq :: r => let o := step c w k rq in (o_out o, o_close o) :: solo c (o_world o) (o_conn o) r
  end.

Definition requests_of (i : nat) (sched : list (nat * request)) : list request :=
  map snd (filter (fun ev => (fst ev =? i)%nat) sched).

(* ---- the pooled transfer buffer: io.CopyBuffer(dst, src, buf) ----
   each round reads a chunk of 1..len(buf) bytes into the front of the buffer and writes exactly that front *)
Fixpoint copy_buffer (buf : bytes) (chunks : list bytes) : bytes * bytes :=      (* bytes written, buffer afterwards *)
  match chunks with
  | [] => ([], buf)
  | ch :: r =>
      let k := length ch in
      let buf' := ch ++ skipn k buf in            (* Read(buf) overwrites buf[0..k) *)
      let (out, bufe) := copy_buffer buf' r in
      (firstn k buf' ++ out, bufe)                (* Write(buf[0..k)) *)
  end.
