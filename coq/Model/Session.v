(* Model/Session.v — one connection of the server: pkg/proto (wire), pkg/server (loop and
   the fifteen handle* functions) and internal/handler (the Handle* state machine), branch
   by branch, over Model/Fs.  Opened objects are [view]s (pkg/fs.FS.OpenFile decides which).

   serve cfg w conn input = (output bytes per request, final world, final conn, closed?) *)
From Verif Require Import Lib.Bytes Model.Path Model.Fs Gen.Consts.

Record cfg := {
  root : list bytes;        (* served root, as elements below "/" of the modelled world *)
  plen : Z;                 (* length of the absolute name of that "/" on the real disk *)
  allow_write : bool;
  tmut : Z;                 (* the frozen clock of mutations *)
}.

(* ---- handles on OS files (afero.BasePathFs files) ---- *)
Inductive hobj := HFile (ino : nat) | HDir (abs : list bytes).

Record handle := {
  hobj_ : hobj;
  hpos : Z;
  hdents : option (list bytes);   (* directory entries still to be returned, read lazily *)
  hrel : list bytes;              (* Name(): path below the served root *)
}.

(* what FS.OpenFile hands out; more constructors for generated and decrypting views *)
Inductive view :=
| VPlain (h : handle).

Record conn := {
  cwd : option view;
  ro : option view;
  cdsec : Z;
  wo : option handle;
  opens : Z;                (* ledger: OS-level opens / closes made on behalf of this connection *)
  closes : Z;
}.

Definition conn0 : conn := {| cwd := None; ro := None; cdsec := 0; wo := None; opens := 0; closes := 0 |}.

Definition abs_path (c : cfg) (rel : list bytes) : list bytes := root c ++ rel.

(* ---- BasePathFs operations used by the handlers ---- *)
Definition os_open (c : cfg) (w : world) (rel : list bytes) : res handle :=
  n <- resolve (plen c) w (abs_path c rel) ;;
  match n with
  | File i => Ok {| hobj_ := HFile i; hpos := 0; hdents := None; hrel := rel |}
  | Dir _ _ => Ok {| hobj_ := HDir (abs_path c rel); hpos := 0; hdents := None; hrel := rel |}
  end.

Definition h_stat (c : cfg) (w : world) (h : handle) : res finfo :=
  match hobj_ h with
  | HFile i => node_info w (File i)
  | HDir p => n <- walk (tree w) p ;; node_info w n
  end.

(* Readdirnames(1) on the filesystem double: first call snapshots the sorted names *)
Definition h_load_dents (w : world) (h : handle) : res (list bytes) :=
  match hdents h with
  | Some l => Ok l
  | None => match hobj_ h with
            | HFile _ => Err ENOTDIR
            | HDir p => n <- walk (tree w) p ;; dir_names n
            end
  end.

Definition with_dents (h : handle) (l : list bytes) : handle :=
  {| hobj_ := hobj_ h; hpos := hpos h; hdents := Some l; hrel := hrel h |}.

(* read up to n bytes at pos from a handle (regular files return everything available) *)
Definition h_read_at (w : world) (h : handle) (pos n : Z) : res bytes :=
  if n <=? 0 then Ok [] else         (* LimitReader(_, 0) never reaches the file *)
  match hobj_ h with
  | HFile i => fs_read w i pos n
  | HDir _ => Err EISDIR
  end.

(* ---- views ---- *)
Definition view_stat (c : cfg) (w : world) (v : view) : res finfo :=
  match v with VPlain h => h_stat c w h end.

Definition view_closes (v : view) : Z := match v with VPlain _ => 1 end.

(* Seek(off, SeekStart) followed by reading until n bytes or end of data *)
Definition view_read (w : world) (v : view) (off n : Z) : res bytes :=
  match v with
  | VPlain h => if (off <? 0) || (fs_max_offset <? off) then Err EINVAL else h_read_at w h off n    (* lseek refuses both *)
  end.

(* pkg/fs.FS.OpenFile for reading (flags = O_RDONLY) *)
Definition fs_open_view (c : cfg) (w : world) (rel : list bytes) : res (view * Z * Z) :=   (* view, opens, closes *)
  h <- os_open c w rel ;; Ok (VPlain h, 1, 0).

(* ---- wire encodings (pkg/proto/write.go; widths checked against Gen.Consts in Proofs/ConstsCheck) ---- *)
Definition be16 v := be_enc 2 v.
Definition be32 v := be_enc 4 v.
Definition be64 v := be_enc 8 v.
Definition wrap32 (v : Z) : Z := v mod 2 ^ 32.
Definition wrap64 (v : Z) : Z := v mod 2 ^ 64.
Definition bool_byte (b : bool) : bytes := [if b then 1 else 0].

Definition enc_result32 (ok : bool) : bytes := be32 (if ok then 0 else wrap32 (-1)).
Definition enc_open_file (size mtime : Z) : bytes := be64 (wrap64 size) ++ be64 (wrap64 mtime).
Definition enc_stat (size mtime ctime atime : Z) (isdir : bool) : bytes :=
  be64 (wrap64 size) ++ be64 (wrap64 mtime) ++ be64 (wrap64 ctime) ++ be64 (wrap64 atime) ++ bool_byte isdir.
Definition enc_dirent (size : Z) (namelen : Z) (isdir : bool) : bytes :=
  be64 (wrap64 size) ++ be16 (namelen mod 2 ^ 16) ++ bool_byte isdir.
Definition enc_dirent_v2 (size mtime ctime atime namelen : Z) (isdir : bool) : bytes :=
  be64 (wrap64 size) ++ be64 (wrap64 mtime) ++ be64 (wrap64 ctime) ++ be64 (wrap64 atime)
  ++ be16 (namelen mod 2 ^ 16) ++ bool_byte isdir.
Definition pad_name (name : bytes) : bytes :=
  firstn (Z.to_nat max_dir_entry_name) name ++ repeatz 0 (max_dir_entry_name - zlen name).
Definition enc_dir_entry (size mtime : Z) (isdir : bool) (name : bytes) : bytes :=
  be64 (wrap64 size) ++ be64 (wrap64 mtime) ++ bool_byte isdir ++ pad_name name.

(* fileInfoTimes: a harness cannot set a change time and the kernel moves access times, so the filesystem double
   reports two fixed, distinct instants for them on every file (harness/dfs.go: normInfo.Sys); the model carries the
   same two constants, so that an exchange of the two fields, or of either with mtime, shows *)
Definition masked_ctime : Z := 1222222222.
Definition masked_atime : Z := 1111111111.

Definition eff_size (fi : finfo) : Z := if fi_dir fi then 0 else fi_size fi.

(* ---- requests ---- *)
Inductive request :=
| ROpenFile (p : bytes) | RReadFileCritical (n off : Z) | RReadCD (start cnt : Z) | RReadFile (n off : Z)
| RCreateFile (p : bytes) | RWriteFile (n : Z) (payload : bytes) | ROpenDir (p : bytes) | RReadDirEntry
| RDeleteFile (p : bytes) | RMkdir (p : bytes) | RRmdir (p : bytes) | RReadDirEntryV2
| RStatFile (p : bytes) | RGetDirSize (p : bytes) | RReadDir.

Definition is_nil {A} (l : list A) : bool := match l with [] => true | _ => false end.

Definition closefile_name : bytes := [67;76;79;83;69;70;73;76;69].   (* "CLOSEFILE" *)

Record outcome := { o_world : world; o_conn : conn; o_out : bytes; o_close : bool }.

Definition done (w : world) (k : conn) (out : bytes) : outcome :=
  {| o_world := w; o_conn := k; o_out := out; o_close := false |}.
Definition hangup (w : world) (k : conn) (out : bytes) : outcome :=
  {| o_world := w; o_conn := k; o_out := out; o_close := true |}.

Definition set_cwd (k : conn) (v : option view) (o cl : Z) : conn :=
  {| cwd := v; ro := ro k; cdsec := cdsec k; wo := wo k; opens := opens k + o; closes := closes k + cl |}.
Definition set_ro (k : conn) (v : option view) (sec : Z) (o cl : Z) : conn :=
  {| cwd := cwd k; ro := v; cdsec := sec; wo := wo k; opens := opens k + o; closes := closes k + cl |}.
Definition set_wo (k : conn) (h : option handle) (o cl : Z) : conn :=
  {| cwd := cwd k; ro := ro k; cdsec := cdsec k; wo := h; opens := opens k + o; closes := closes k + cl |}.
Definition bump (k : conn) (o cl : Z) : conn :=
  {| cwd := cwd k; ro := ro k; cdsec := cdsec k; wo := wo k; opens := opens k + o; closes := closes k + cl |}.

Definition opt_closes (v : option view) : Z := match v with Some x => view_closes x | None => 0 end.

(* determineSectorSize (internal/handler): one ReadAt, candidates in ascending order *)
Definition sector_probe (buf : bytes) (s : Z) : bool :=
  let idx := system_area_sectors * (s - hd 0 sector_sizes) in
  list_eqb (slice buf idx (zlen magic1)) magic1
  || list_eqb (slice buf (idx + zlen magic1 + magic_extra) (zlen magic2)) magic2.

Definition detect_buf_len : Z :=
  system_area_sectors * (last sector_sizes 0 - hd 0 sector_sizes) + zlen magic1 + magic_extra + zlen magic2.

Definition determine_sector_size (w : world) (v : view) : Z :=
  match view_read w v (psx_prefix + system_area_sectors * hd 0 sector_sizes) detect_buf_len with
  | Ok buf =>
      if zlen buf =? detect_buf_len
      then match find (sector_probe buf) sector_sizes with Some s => s | None => -1 end
      else -1
  | Err _ => -1
  end.

(* READ_DIR_ENTRY loop: pop names until one can be statted *)
Fixpoint next_entry (c : cfg) (w : world) (rel : list bytes) (names : list bytes)
  : option (bytes * finfo) * list bytes :=
  match names with
  | [] => (None, [])
  | n :: r =>
      if list_eqb n [dot] || list_eqb n [dot; dot] then next_entry c w rel r
      else match fs_stat (plen c) w (abs_path c (rel ++ [n])) with
           | Ok fi => (Some (n, fi), r)
           | Err _ => next_entry c w rel r
           end
  end.

(* Readdir(-1): the remaining names that still exist *)
Fixpoint readdir_infos (c : cfg) (w : world) (rel : list bytes) (names : list bytes) : list (bytes * finfo) :=
  match names with
  | [] => []
  | n :: r => match fs_stat (plen c) w (abs_path c (rel ++ [n])) with
              | Ok fi => (n, fi) :: readdir_infos c w rel r
              | Err _ => readdir_infos c w rel r
              end
  end.

Definition dir_size (c : cfg) (w : world) (rel : list bytes) : Z :=
  match resolve (plen c) w (abs_path c rel) with
  | Ok n => tree_size w n
  | Err _ => 0
  end.

(* the per-sector loop of HandleReadCD2048Critical: output so far, and whether it completed *)
Fixpoint cd_read (w : world) (v : view) (sec : Z) (off : Z) (cnt : nat) : bytes * bool :=
  match cnt with
  | O => ([], true)
  | S k =>
      match view_read w v off cd_read_size with
      | Ok d => if zlen d =? cd_read_size
                then let (rest, ok) := cd_read w v sec (off + sec) k in (d ++ rest, ok)
                else (d, false)
      | Err _ => ([], false)
      end
  end.

Definition step (c : cfg) (w : world) (k : conn) (rq : request) : outcome :=
  match rq with
  | ROpenFile p =>
      let rel := rooted_elems p in
      if list_eqb (last_elem rel) closefile_name then
        (* HandleCloseFile *)
        match ro k with
        | None => done w k (enc_open_file 0 0)
        | Some v => done w (set_ro k None 0 0 (view_closes v)) (enc_open_file 0 0)
        end
      else
        let k1 := match ro k with Some v => set_ro k None (cdsec k) 0 (view_closes v) | None => k end in
        match fs_open_view c w rel with
        | Err _ => done w k1 (enc_open_file (-1) 0)
        | Ok (v, o, cl) =>
            match view_stat c w v with
            | Err _ => done w (set_ro k1 (Some v) default_sector_size o cl) (enc_open_file (-1) 0)
            | Ok fi =>
                let sec :=
                  if (detect_min_size <=? fi_size fi) && (fi_size fi <=? detect_max_size)
                  then let s := determine_sector_size w v in if 0 <? s then s else default_sector_size
                  else default_sector_size in
                done w (set_ro k1 (Some v) sec o cl) (enc_open_file (fi_size fi) (fi_mtime fi))
            end
        end
  | RReadFile n off =>
      match ro k with
      | None => hangup w k []
      | Some v =>
          let off' := if off <? 2 ^ 63 then off else off - 2 ^ 64 in      (* int64(offset) *)
          match view_read w v off' n with
          | Err _ => hangup w k []
          | Ok d => done w k (be32 (wrap32 (zlen d)) ++ d)
          end
      end
  | RReadFileCritical n off =>
      match ro k with
      | None => hangup w k []
      | Some v =>
          let off' := if off <? 2 ^ 63 then off else off - 2 ^ 64 in
          match view_read w v off' n with
          | Err _ => hangup w k []
          | Ok d => if zlen d =? n then done w k d else hangup w k d
          end
      end
  | RReadCD start cnt =>
      match ro k with
      | None => hangup w k []
      | Some v =>
          if cdsec k <=? 0 then hangup w k [] else
          (* the loop stops at the first short read, so it never runs more often than the file has sectors *)
          let bound := match view_stat c w v with Ok fi => fi_size fi / cdsec k + 2 | Err _ => 0 end in
          let (d, ok) := cd_read w v (cdsec k) (psx_prefix + start * cdsec k) (Z.to_nat (Z.min cnt bound)) in
          if ok then done w k d else hangup w k d
      end
  | RCreateFile p =>
      let rel := rooted_elems p in
      if negb (allow_write c) then done w k (enc_result32 false) else
      let k1 := match wo k with Some _ => set_wo k None 0 1 | None => k end in
      match fs_stat (plen c) w (abs_path c rel) with
      | Ok {| fi_dir := true |} => done w k1 (enc_result32 true)
      | _ =>
          let virt := match rel with
                      | first :: _ :: _ => list_eqb first virtual_iso_name || list_eqb first virtual_ps3iso_name
                      | _ => false
                      end in
          let r := if virt then Err EPERM else fs_create (tmut c) (plen c) w (abs_path c rel) in
          match r with
          | Err _ => done w k1 (enc_result32 false)
          | Ok (w', i) =>
              done w' (set_wo k1 (Some {| hobj_ := HFile i; hpos := 0; hdents := None; hrel := rel |}) 1 0)
                   (enc_result32 true)
          end
      end
  | RWriteFile n payload =>
      if negb (allow_write c) then done w k (be32 (wrap32 (-1))) else
      match wo k with
      | None => done w k (be32 (wrap32 (-1)))
      | Some h =>
          match hobj_ h with
          | HDir _ => done w k (be32 (wrap32 (-1)))
          | HFile i =>
              if zlen payload =? 0 then done w k (be32 0) else      (* no Write call reaches the file *)
              match fs_write (tmut c) w i (hpos h) payload with
              | Err _ => done w k (be32 (wrap32 (-1)))
              | Ok w' =>
                  let h' := {| hobj_ := hobj_ h; hpos := hpos h + zlen payload; hdents := hdents h; hrel := hrel h |} in
                  done w' (set_wo k (Some h') 0 0) (be32 (wrap32 (zlen payload)))
              end
          end
      end
  | ROpenDir p =>
      let rel := rooted_elems p in
      match fs_open_view c w rel with
      | Err _ => done w k (enc_result32 false)
      | Ok (v, o, cl) =>
          match view_stat c w v with
          | Err _ => done w (bump k o (cl + view_closes v)) (enc_result32 false)
          | Ok fi =>
              done w (set_cwd k (Some v) o (cl + opt_closes (cwd k))) (enc_result32 (fi_dir fi))
          end
      end
  | RReadDirEntry | RReadDirEntryV2 =>
      let v2 := match rq with RReadDirEntryV2 => true | _ => false end in
      let endmark := if v2 then enc_dirent_v2 (-1) 0 0 0 0 false else enc_dirent (-1) 0 false in
      match cwd k with
      | None => done w k endmark
      | Some (VPlain h) =>
          match h_load_dents w h with
          | Err _ => done w (set_cwd k None 0 1) endmark
          | Ok names =>
              match next_entry c w (hrel h) names with
              | (None, _) => done w (set_cwd k None 0 1) endmark
              | (Some (nm, fi), rest) =>
                  let k' := set_cwd k (Some (VPlain (with_dents h rest))) 0 0 in
                  let hdr := if v2
                             then enc_dirent_v2 (eff_size fi) (fi_mtime fi) masked_ctime masked_atime (zlen nm) (fi_dir fi)
                             else enc_dirent (eff_size fi) (zlen nm) (fi_dir fi) in
                  done w k' (hdr ++ (if zlen nm mod 2 ^ 16 =? 0 then [] else nm))
              end
          end
      end
  | RReadDir =>
      match cwd k with
      | None => done w k (be64 0)
      | Some (VPlain h) =>
          match h_load_dents w h with
          | Err _ => done w k (be64 0)
          | Ok names =>
              let infos := readdir_infos c w (hrel h) names in
              let k' := set_cwd k (Some (VPlain (with_dents h []))) 0 0 in
              done w k' (be64 (zlen infos)
                         ++ concat (map (fun e => enc_dir_entry (eff_size (snd e)) (fi_mtime (snd e)) (fi_dir (snd e)) (fst e)) infos))
          end
      end
  | RStatFile p =>
      match fs_stat (plen c) w (abs_path c (rooted_elems p)) with
      | Err _ => done w k (enc_stat (-1) 0 0 0 false)
      | Ok fi => done w k (enc_stat (eff_size fi) (fi_mtime fi) masked_ctime masked_atime (fi_dir fi))
      end
  | RDeleteFile p | RRmdir p =>
      if is_nil (rooted_elems p) then done w k (enc_result32 false) else     (* the served root itself is refused *)
      if negb (allow_write c) then done w k (enc_result32 false) else
      match fs_remove (tmut c) (plen c) w (abs_path c (rooted_elems p)) with
      | Err _ => done w k (enc_result32 false)
      | Ok w' => done w' k (enc_result32 true)
      end
  | RMkdir p =>
      if negb (allow_write c) then done w k (enc_result32 false) else
      match fs_mkdir (tmut c) (plen c) w (abs_path c (rooted_elems p)) with
      | Err _ => done w k (enc_result32 false)
      | Ok w' => done w' k (enc_result32 true)
      end
  | RGetDirSize p =>
      done w k (be64 (wrap64 (dir_size c w (rooted_elems p))))
  end.

(* Context.Close -> State.Close *)
Definition close_conn (k : conn) : conn :=
  {| cwd := None; ro := None; cdsec := 0; wo := None; opens := opens k;
     closes := closes k + opt_closes (ro k) + opt_closes (cwd k) + (match wo k with Some _ => 1 | None => 0 end) |}.

Definition held (k : conn) : Z :=
  opt_closes (ro k) + opt_closes (cwd k) + (match wo k with Some _ => 1 | None => 0 end).

(* ---- wire parsing (pkg/proto/read.go) ---- *)
Definition be_dec (l : bytes) : Z := val l.

Inductive parsed :=
| PReq (rq : request) (rest : bytes)     (* a complete request and what follows it *)
| PShort                                 (* the stream ends inside the request: the read fails, connection ends *)
| PUnknown.                              (* unknown opcode: connection ends *)

Definition take_path (data rest : bytes) (mk : bytes -> request) : parsed :=
  let n := be_dec (firstn 2 data) in
  if zlen rest <? n then PShort else PReq (mk (firstn (Z.to_nat n) rest)) (skipn (Z.to_nat n) rest).

Definition parse_request (input : bytes) : parsed :=
  if zlen input <? 16 then PShort else
  let op := be_dec (firstn 2 input) in
  let data := firstn 14 (skipn 2 input) in
  let rest := skipn 16 input in
  let u32 (o : nat) := be_dec (firstn 4 (skipn o data)) in
  let u64 (o : nat) := be_dec (firstn 8 (skipn o data)) in
  if op =? op_open_file then take_path data rest ROpenFile
  else if op =? op_read_file_critical then PReq (RReadFileCritical (u32 2%nat) (u64 6%nat)) rest
  else if op =? op_read_cd_2048 then PReq (RReadCD (u32 2%nat) (u32 6%nat)) rest
  else if op =? op_read_file then PReq (RReadFile (u32 2%nat) (u64 6%nat)) rest
  else if op =? op_create_file then take_path data rest RCreateFile
  else if op =? op_write_file then
    let n := u32 2%nat in
    (* LimitReader: a payload cut short by the end of the stream is written as far as it goes *)
    let m := Z.min n (zlen rest) in
    PReq (RWriteFile n (firstn (Z.to_nat m) rest)) (skipn (Z.to_nat m) rest)
  else if op =? op_open_dir then take_path data rest ROpenDir
  else if op =? op_read_dir_entry then PReq RReadDirEntry rest
  else if op =? op_delete_file then take_path data rest RDeleteFile
  else if op =? op_mkdir then take_path data rest RMkdir
  else if op =? op_rmdir then take_path data rest RRmdir
  else if op =? op_read_dir_entry_v2 then PReq RReadDirEntryV2 rest
  else if op =? op_stat_file then take_path data rest RStatFile
  else if op =? op_get_dir_size then take_path data rest RGetDirSize
  else if op =? op_read_dir then PReq RReadDir rest
  else PUnknown.

(* the connection loop; fuel = number of requests that can still start (>= length input / 16 + 1) *)
Fixpoint serve (fuel : nat) (c : cfg) (w : world) (k : conn) (input : bytes)
  : list (bytes * Z) * bool * world * conn :=          (* per request: output, handles held; closed by the server? *)
  match fuel with
  | O => ([], false, w, close_conn k)
  | S f =>
      match parse_request input with
      | PShort => ([], false, w, close_conn k)
      | PUnknown => ([], true, w, close_conn k)
      | PReq rq rest =>
          let o := step c w k rq in
          if o_close o then ([(o_out o, 0)], true, o_world o, close_conn (o_conn o))
          else let '(outs, cl, w', k') := serve f c (o_world o) (o_conn o) rest in
               ((o_out o, held (o_conn o)) :: outs, cl, w', k')
      end
  end.

Definition serve_all (c : cfg) (w : world) (input : bytes) :=
  serve (S (length input / 16)) c w conn0 input.
