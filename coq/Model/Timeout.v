(* Model/Timeout.v — the read deadline of pkg/server.serveConn on a logical clock.
   At the top of every loop iteration the deadline is set to now + T (T <= 0: no deadline); the
   whole request (16-byte command, then path or payload) must have arrived before it, otherwise the
   pending read fails and the connection is closed at the deadline.  Handling a request takes no
   logical time.  Input: every byte with its arrival time (non-decreasing). *)
From Verif Require Import Lib.Bytes Model.Path Model.Fs Model.Session Gen.Consts.

Inductive tres :=
| TDone (t : Z)            (* request complete at time t (it is then handled and the loop re-arms) *)
| TCut (t : Z)             (* the deadline passed first: connection closed at t *)
| TWait                    (* incomplete request and no deadline: the server waits *)
| TEnd.                    (* unknown opcode: the server ends the connection itself *)

(* arrival time of the k-th byte (1-based count k >= 1) *)
Definition arrival (times : list Z) (k : Z) : Z := nth (Z.to_nat (k - 1)) times 0.

(* one iteration starting at time t over the not yet consumed (byte, time) stream *)
(* an upload whose announced payload has not arrived in full is still being read *)
Definition incomplete (rq : request) : bool :=
  match rq with RWriteFile n d => zlen d <? n | _ => false end.

Definition titer (T : Z) (t : Z) (data : bytes) (times : list Z) : tres * bytes * list Z :=
  match parse_request data with
  | PReq rq rest =>
      if incomplete rq then (if 0 <? T then (TCut (t + T), [], []) else (TWait, [], [])) else
      let used := zlen data - zlen rest in
      let c := Z.max t (arrival times used) in               (* already buffered bytes are read at once *)
      if (0 <? T) && (t + T <? c) then (TCut (t + T), [], [])
      else (TDone c, rest, skipn (Z.to_nat used) times)
  | PShort => if 0 <? T then (TCut (t + T), [], []) else (TWait, [], [])
  | PUnknown =>
      (* the 16 command bytes must still arrive in time *)
      let c := Z.max t (arrival times 16) in
      if (0 <? T) && (t + T <? c) then (TCut (t + T), [], []) else (TEnd, [], [])
  end.

(* completion times of the handled requests, and how the connection ended *)
Fixpoint tserve (fuel : nat) (T : Z) (t : Z) (data : bytes) (times : list Z) : list Z * tres :=
  match fuel with
  | O => ([], TWait)
  | S k =>
      match titer T t data times with
      | (TDone c, rest, times') => let (cs, e) := tserve k T c rest times' in (c :: cs, e)
      | (r, _, _) => ([], r)
      end
  end.
