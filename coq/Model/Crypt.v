(* Model/Crypt.v — pkg/fs/encrypted_iso.go: region table parsing (NewEncryptedISO), the decrypting
   ReadAt (sector-aligned window, header clearing, per-region per-sector decryption), Read and Seek.
   AES-128-CBC of one sector with the derived key and the sector-number IV is the section variable
   [dec]; the model only decides to which (sector number, 2048 ciphertext bytes) it is applied. *)
From Verif Require Import Lib.Bytes Model.Fs Gen.Consts Model.IsoRead.

Definition be32_at (l : bytes) (off : Z) : Z := val (slice l off 4).

(* unencrypted regions as stored: (start, end) sector numbers *)
Fixpoint read_regions (hdr : bytes) (off : Z) (n : nat) : list (Z * Z) :=
  match n with
  | O => []
  | S k => (be32_at hdr off, be32_at hdr (off + 4)) :: read_regions hdr (off + 8) k
  end.

(* the monotonicity checks of the constructor loop *)
Fixpoint regions_sane (rs : list (Z * Z)) (prev_end : Z) : bool :=
  match rs with
  | [] => true
  | (s, e) :: r => if e <=? s then false else if s <? prev_end then false else regions_sane r e
  end.

(* encrypted regions: the gaps between consecutive unencrypted regions *)
Fixpoint gaps (rs : list (Z * Z)) : list (Z * Z) :=
  match rs with
  | (_, e0) :: (((s1, _) :: _) as r) => (e0, s1) :: gaps r
  | _ => []
  end.

Record enc_view := { ev_regions : list (Z * Z);    (* encrypted sector ranges [start, end) *)
                     ev_hdr : Z;                    (* size of the region map in bytes *)
                     ev_clear : bool }.

(* NewEncryptedISO(f, key, clear) on a file with content [content] *)
Definition new_encrypted (content : bytes) (clear : bool) : res enc_view :=
  if zlen content <? 8 then Err EOFk else
  let count := be32_at content 0 in
  if (count <? 2) || (sector_size <? 8 + count * 8) then Err EINVAL else
  if zlen content <? 8 + count * 8 then Err EOFk else
  let rs := read_regions content 8 (Z.to_nat count) in
  match rs with
  | (s0, _) :: _ => if negb (s0 =? 0) then Err EINVAL
                    else if regions_sane rs 0 then Ok {| ev_regions := gaps rs; ev_hdr := 8 + count * 8; ev_clear := clear |}
                    else Err EINVAL
  | [] => Err EINVAL
  end.

Section Cipher.
  Variable dec : Z -> bytes -> bytes.

  (* split into whole sectors and the remaining partial one *)
  Fixpoint chunk_sectors (fuel : nat) (l : bytes) : list bytes * bytes :=
    match fuel with
    | O => ([], l)
    | S k => if zlen l <? sector_size then ([], l)
             else let (ws, t) := chunk_sectors k (skipn (Z.to_nat sector_size) l) in
                  (firstn (Z.to_nat sector_size) l :: ws, t)
    end.

  (* map over the whole sectors with their absolute sector numbers *)
  Fixpoint map_sectors (f : Z -> bytes -> bytes) (s : Z) (ws : list bytes) : list bytes :=
    match ws with [] => [] | x :: r => f s x :: map_sectors f (s + 1) r end.

  (* one iteration of the region loop of decryptData on a window that starts at sector a_sec, holds
     nwhole whole sectors and ends (rounded up) at sector end_ceil *)
  Definition dec_region (a_sec nwhole end_ceil : Z) (ws : list bytes) (r : Z * Z) : list bytes :=
    let (rs, re) := r in
    if (re <=? a_sec) || (end_ceil <? rs) then ws
    else let s0 := Z.max rs a_sec in
         let s1 := Z.min re (a_sec + nwhole) in
         map_sectors (fun s x => if (s0 <=? s) && (s <? s1) then dec s x else x) a_sec ws.

  Definition clear_header (v : enc_view) (a : Z) (w : bytes) : bytes :=
    if (ev_hdr v <=? a) || negb (ev_clear v) then w
    else let k := Z.min (ev_hdr v - a) (zlen w) in zeros k ++ skipn (Z.to_nat k) w.

  (* EncryptedISO.ReadAt(b, off) with len(b) = len > 0, off >= 0: data and whether io.EOF accompanies it *)
  Definition crypt_read_at (v : enc_view) (content : bytes) (off len : Z) : res (bytes * bool) :=
    let a := off / sector_size * sector_size in
    let b := sectors (off + len) * sector_size in
    let raw := slice content a (b - a) in
    let cleared := clear_header v a raw in
    let (ws, tail) := chunk_sectors (S (Z.to_nat (zlen cleared / sector_size))) cleared in
    let a_sec := a / sector_size in
    let nwhole := zlen ws in
    let end_ceil := sectors (a + zlen cleared) in
    let ws' := fold_left (dec_region a_sec nwhole end_ceil) (ev_regions v) ws in
    let window := concat ws' ++ tail in
    if zlen window <=? off - a then Err EOFk
    else let d := slice window (off - a) len in Ok (d, zlen d <? len).

  (* ---- the io.Reader / io.Seeker / io.ReaderAt face of EncryptedISO ---- *)
  Inductive cres := CData (d : bytes) (eof : bool) | CEOF | CErr | CPos (p : Z).

  Definition crypt_step_with (rd : Z -> Z -> res (bytes * bool)) (size : Z) (cur : Z) (op : iso_op) : cres * Z :=
    match op with
    | OpRead n =>
        if n =? 0 then (CData [] false, cur) else
        match rd cur n with
        | Ok (d, _) => (CData d false, cur + zlen d)      (* a short read at the end is not an error for Read *)
        | Err EOFk => (CEOF, cur)
        | Err _ => (CErr, cur)
        end
    | OpReadAt n off =>
        if off <? 0 then (CErr, cur) else
        if n =? 0 then (CData [] false, cur) else
        match rd off n with
        | Ok (d, e) => (CData d e, cur)
        | Err EOFk => (CEOF, cur)
        | Err _ => (CErr, cur)
        end
    | OpSeek off whence =>
        let target := if whence =? 0 then Some off
                      else if whence =? 1 then Some (off + cur)
                      else if whence =? 2 then Some (off + size)
                      else None in
        match target with
        | None => (CErr, cur)
        | Some t => if t <? 0 then (CErr, cur) else (CPos t, t)      (* os.File.Seek: positions past the end are fine *)
        end
    end.

  Fixpoint crypt_run_with (rd : Z -> Z -> res (bytes * bool)) (size : Z) (cur : Z) (ops : list iso_op) : list cres :=
    match ops with
    | [] => []
    | op :: r => let (o, cur') := crypt_step_with rd size cur op in o :: crypt_run_with rd size cur' r
    end.

  Definition crypt_run (v : enc_view) (content : bytes) (ops : list iso_op) : list cres :=
    crypt_run_with (crypt_read_at v content) (zlen content) 0 ops.
End Cipher.
