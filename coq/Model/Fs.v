(* Model/Fs.v — the filesystem as the server sees it through afero.BasePathFs(OsFs):
   a tree of directories and inodes, POSIX-shaped where the handlers can tell the
   difference (an unlinked or truncated file that is still open, error kinds that
   decide the key-file lookup).  No symlinks (DESIGN section 5, C06).
   Paths are lists of elements below "/" of the modelled world; the served root is a
   prefix [root] of such a list.  The clock is frozen: every mutation stamps [tmut]. *)
From Verif Require Import Lib.Bytes Model.Path.

Inductive errk := ENOENT | ENOTDIR | EISDIR | EEXIST | ENOTEMPTY | EINVAL | ENAMETOOLONG | EIO | EPERM | EBADF | EOFk.

Inductive res (A : Type) := Ok (a : A) | Err (e : errk).
Arguments Ok {A} a.
Arguments Err {A} e.

Definition bind {A B} (r : res A) (f : A -> res B) : res B :=
  match r with Ok a => f a | Err e => Err e end.
Notation "x <- r ;; k" := (bind r (fun x => k)) (at level 61, r at next level, right associativity).

Inductive node :=
| File (ino : nat)
| Dir (mtime : Z) (children : list (bytes * node)).

Record inode := { idata : bytes; imtime : Z }.

Record world := { tree : node; inodes : list (nat * inode); next_ino : nat }.

Definition dir_size_const : Z := 4096.     (* size reported for directories (normalised by the harness' filesystem double) *)

(* ---- inodes ---- *)
Fixpoint get_inode (tbl : list (nat * inode)) (i : nat) : option inode :=
  match tbl with
  | [] => None
  | (j, x) :: r => if (i =? j)%nat then Some x else get_inode r i
  end.

Fixpoint set_inode (tbl : list (nat * inode)) (i : nat) (x : inode) : list (nat * inode) :=
  match tbl with
  | [] => [(i, x)]
  | (j, y) :: r => if (i =? j)%nat then (i, x) :: r else (j, y) :: set_inode r i x
  end.

(* ---- tree ---- *)
Fixpoint find_child (cs : list (bytes * node)) (name : bytes) : option node :=
  match cs with
  | [] => None
  | (n, c) :: r => if list_eqb n name then Some c else find_child r name
  end.

Fixpoint set_child (cs : list (bytes * node)) (name : bytes) (c : node) : list (bytes * node) :=
  match cs with
  | [] => [(name, c)]
  | (n, x) :: r => if list_eqb n name then (n, c) :: r else (n, x) :: set_child r name c
  end.

Fixpoint del_child (cs : list (bytes * node)) (name : bytes) : list (bytes * node) :=
  match cs with
  | [] => []
  | (n, x) :: r => if list_eqb n name then r else (n, x) :: del_child r name
  end.

Definition name_max : Z := 255.
Definition path_max : Z := 4096.

Definition has_nul (e : bytes) : bool := existsb (Z.eqb 0) e.

(* walk from a node; element checks in the order the kernel applies them *)
Fixpoint walk (n : node) (p : list bytes) : res node :=
  match p with
  | [] => Ok n
  | e :: r =>
      match n with
      | File _ => Err ENOTDIR
      | Dir _ cs =>
          if name_max <? zlen e then Err ENAMETOOLONG
          else match find_child cs e with
               | None => Err ENOENT
               | Some c => walk c r
               end
      end
  end.

(* checks made before the walk starts: NUL bytes (Go's syscall layer), PATH_MAX (kernel).
   [plen] is the length of the absolute name of "/" of the modelled world on the real disk. *)
Definition path_precheck (plen : Z) (p : list bytes) : res unit :=
  if existsb has_nul p then Err EINVAL
  else if path_max <=? plen + zlen (join_slash p) then Err ENAMETOOLONG
  else Ok tt.

Definition resolve (plen : Z) (w : world) (p : list bytes) : res node :=
  _ <- path_precheck plen p ;; walk (tree w) p.

(* replace the node at path p by f(node) *)
Fixpoint update (n : node) (p : list bytes) (f : node -> res node) : res node :=
  match p with
  | [] => f n
  | e :: r =>
      match n with
      | File _ => Err ENOTDIR
      | Dir m cs =>
          if name_max <? zlen e then Err ENAMETOOLONG
          else match find_child cs e with
               | None => Err ENOENT
               | Some c => c' <- update c r f ;; Ok (Dir m (set_child cs e c'))
               end
      end
  end.

Definition split_last (p : list bytes) : option (list bytes * bytes) :=
  match rev p with
  | [] => None
  | e :: r => Some (rev r, e)
  end.

(* ---- stat ---- *)
Record finfo := { fi_dir : bool; fi_size : Z; fi_mtime : Z }.

Definition node_info (w : world) (n : node) : res finfo :=
  match n with
  | Dir m _ => Ok {| fi_dir := true; fi_size := dir_size_const; fi_mtime := m |}
  | File i => match get_inode (inodes w) i with
              | Some x => Ok {| fi_dir := false; fi_size := zlen (idata x); fi_mtime := imtime x |}
              | None => Err EIO
              end
  end.

Definition fs_stat (plen : Z) (w : world) (p : list bytes) : res finfo :=
  n <- resolve plen w p ;; node_info w n.

(* ---- mutations (clock frozen at tmut) ---- *)
Section Mut.
  Variable tmut : Z.
  Variable plen : Z.

  (* O_CREATE|O_TRUNC|O_WRONLY *)
  Definition fs_create (w : world) (p : list bytes) : res (world * nat) :=
    _ <- path_precheck plen p ;;
    match split_last p with
    | None => Err EISDIR                                   (* "/" itself *)
    | Some (par, e) =>
        pn <- walk (tree w) par ;;
        match pn with
        | File _ => Err ENOTDIR
        | Dir _ cs =>
            if name_max <? zlen e then Err ENAMETOOLONG else
            match find_child cs e with
            | Some (Dir _ _) => Err EISDIR
            | Some (File i) =>                             (* truncate the existing inode *)
                Ok ({| tree := tree w; inodes := set_inode (inodes w) i {| idata := []; imtime := tmut |};
                       next_ino := next_ino w |}, i)
            | None =>
                let i := next_ino w in
                t' <- update (tree w) par (fun n => match n with
                                                    | Dir _ cs' => Ok (Dir tmut (set_child cs' e (File i)))
                                                    | File _ => Err ENOTDIR end) ;;
                Ok ({| tree := t'; inodes := set_inode (inodes w) i {| idata := []; imtime := tmut |};
                       next_ino := S i |}, i)
            end
        end
    end.

  Definition fs_mkdir (w : world) (p : list bytes) : res world :=
    _ <- path_precheck plen p ;;
    match split_last p with
    | None => Err EEXIST
    | Some (par, e) =>
        pn <- walk (tree w) par ;;
        match pn with
        | File _ => Err ENOTDIR
        | Dir _ cs =>
            if name_max <? zlen e then Err ENAMETOOLONG else
            match find_child cs e with
            | Some _ => Err EEXIST
            | None =>
                t' <- update (tree w) par (fun n => match n with
                                                    | Dir _ cs' => Ok (Dir tmut (set_child cs' e (Dir tmut [])))
                                                    | File _ => Err ENOTDIR end) ;;
                Ok {| tree := t'; inodes := inodes w; next_ino := next_ino w |}
            end
        end
    end.

  (* os.Remove: unlink a file or rmdir an empty directory *)
  Definition fs_remove (w : world) (p : list bytes) : res world :=
    _ <- path_precheck plen p ;;
    match split_last p with
    | None => Err EINVAL                                    (* removing "/" of the world *)
    | Some (par, e) =>
        pn <- walk (tree w) par ;;
        match pn with
        | File _ => Err ENOTDIR
        | Dir _ cs =>
            if name_max <? zlen e then Err ENAMETOOLONG else
            match find_child cs e with
            | None => Err ENOENT
            | Some (Dir _ (_ :: _)) => Err ENOTEMPTY
            | Some _ =>
                t' <- update (tree w) par (fun n => match n with
                                                    | Dir _ cs' => Ok (Dir tmut (del_child cs' e))
                                                    | File _ => Err ENOTDIR end) ;;
                Ok {| tree := t'; inodes := inodes w; next_ino := next_ino w |}
            end
        end
    end.

  (* write d at position pos of inode i (zero fill if pos is past the end) *)
  Definition fs_write (w : world) (i : nat) (pos : Z) (d : bytes) : res world :=
    match get_inode (inodes w) i with
    | None => Err EIO
    | Some x =>
        let old := idata x in
        let pre := firstn (Z.to_nat pos) old ++ repeatz 0 (pos - zlen old) in
        let post := skipn (Z.to_nat (pos + zlen d)) old in
        Ok {| tree := tree w; inodes := set_inode (inodes w) i {| idata := pre ++ d ++ post; imtime := tmut |};
              next_ino := next_ino w |}
    end.
End Mut.

(* ---- reading ---- *)
Definition fs_read (w : world) (i : nat) (pos n : Z) : res bytes :=
  match get_inode (inodes w) i with
  | None => Err EIO
  | Some x => Ok (slice (idata x) pos n)
  end.

(* sorted enumeration (the harness' filesystem double enumerates in byte order) *)
Fixpoint insert_sorted (x : bytes) (l : list bytes) : list bytes :=
  match l with
  | [] => [x]
  | y :: r => match lexcmp x y with Gt => y :: insert_sorted x r | _ => x :: l end
  end.
Definition sort_names (l : list bytes) : list bytes := fold_right insert_sorted [] l.

Definition dir_names (n : node) : res (list bytes) :=
  match n with
  | Dir _ cs => Ok (sort_names (map fst cs))
  | File _ => Err ENOTDIR
  end.

(* total size of the regular files beneath a node: afero.Walk summing Size() of non-directories *)
Fixpoint tree_size (w : world) (n : node) : Z :=
  match n with
  | File i => match get_inode (inodes w) i with Some x => zlen (idata x) | None => 0 end
  | Dir _ cs => (fix go (l : list (bytes * node)) : Z :=
                   match l with [] => 0 | (_, c) :: r => tree_size w c + go r end) cs
  end.
