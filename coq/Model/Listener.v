(* Model/Listener.v — admission control as wired in cmd/ps3netsrv-go/server.go:
   netutil.LimitListener(socket, N) inside, iprange.FilterListener(.., whitelist) outside,
   server.Serve's accept loop on top.  A transition system over connection ids.

   LimitListener.Accept acquires a slot first (blocking while N are held), then accepts from the
   socket; closing the accepted connection releases the slot exactly once.  FilterListener.Accept
   loops: inner Accept, then close-and-continue when the peer is not whitelisted.  Serve starts one
   goroutine per accepted connection. *)
From Verif Require Import Lib.Bytes Gen.Consts.

Record lstate := {
  backlog : list (nat * bool);     (* arrived, not yet accepted: (id, whitelisted?) in arrival order *)
  served : list nat;               (* handed to the server, still open *)
  rejected : list nat;             (* closed by the filter: no byte was sent, no request read *)
  holding : bool;                  (* the accept loop holds a slot and waits for the socket *)
  sem : Z;                         (* slots held *)
}.

Definition linit : lstate := {| backlog := []; served := []; rejected := []; holding := false; sem := 0 |}.

Inductive levent := Arrive (c : nat) (ok : bool) | CloseConn (c : nat).

(* one step of the accept loop, if it can move; limit = 0 means no limiter *)
Definition loop_step (limit : Z) (s : lstate) : option lstate :=
  if negb (holding s) then
    (* LimitListener.Accept: acquire *)
    if (limit =? 0) || (sem s <? limit)
    then Some {| backlog := backlog s; served := served s; rejected := rejected s; holding := true; sem := sem s + 1 |}
    else None
  else
    match backlog s with
    | [] => None                                            (* blocked in the socket's Accept *)
    | (c, ok) :: r =>
        if ok
        then Some {| backlog := r; served := served s ++ [c]; rejected := rejected s; holding := false; sem := sem s |}
        else (* filter: conn.Close() releases the slot, continue *)
             Some {| backlog := r; served := served s; rejected := rejected s ++ [c]; holding := false; sem := sem s - 1 |}
    end.

Fixpoint settle (fuel : nat) (limit : Z) (s : lstate) : lstate :=
  match fuel with
  | O => s
  | S k => match loop_step limit s with Some s' => settle k limit s' | None => s end
  end.

Fixpoint remove_nat (c : nat) (l : list nat) : list nat :=
  match l with [] => [] | x :: r => if (x =? c)%nat then r else x :: remove_nat c r end.

Definition apply_event (s : lstate) (e : levent) : lstate :=
  match e with
  | Arrive c ok => {| backlog := backlog s ++ [(c, ok)]; served := served s; rejected := rejected s; holding := holding s; sem := sem s |}
  | CloseConn c =>
      if existsb (Nat.eqb c) (served s)
      then {| backlog := backlog s; served := remove_nat c (served s); rejected := rejected s; holding := holding s; sem := sem s - 1 |}
      else s
  end.

(* the loop runs to quiescence after every event (fuel: each step consumes a backlog entry or toggles holding) *)
Definition lstep (limit : Z) (s : lstate) (e : levent) : lstate :=
  let s1 := apply_event s e in settle (2 * length (backlog s1) + 2) limit s1.

Definition lrun (limit : Z) (es : list levent) : lstate := fold_left (lstep limit) es (settle 2 limit linit).
