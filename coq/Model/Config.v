(* Model/Config.v — how a server setting gets its value (cmd/ps3netsrv-go/main.go + server.go tags +
   pkg/kongini, on top of kong): command-line flag, else the last INI file that has the key
   (discovery order: user configuration directory, ./config.ini, the file named by --config or
   PS3NETSRV_CONFIG_FILE), else the environment variable, else the default; then the setting's
   decoder.  kong, ini.v1 and the decoders are external: the decoder is a section variable. *)
From Verif Require Import Lib.Bytes Model.Fs Gen.Consts.

Record channels := {
  ch_flag : option bytes;
  ch_inis : list (option bytes);      (* value of the key in each discovered INI file, in discovery order *)
  ch_env : option bytes;
  ch_default : option bytes;
}.

Fixpoint last_some (l : list (option bytes)) (acc : option bytes) : option bytes :=
  match l with
  | [] => acc
  | Some v :: r => last_some r (Some v)
  | None :: r => last_some r acc
  end.

Definition raw_value (ch : channels) : option bytes :=
  match ch_flag ch with
  | Some v => Some v
  | None =>
      match last_some (ch_inis ch) None with
      | Some v => Some v
      | None => match ch_env ch with Some v => Some v | None => ch_default ch end
      end
  end.

Section Decode.
  Variable A : Type.
  Variable decode : bytes -> res A.        (* the mapper of the setting's type; Err = start-up stops *)
  Variable zero : A.                       (* Go zero value when nothing is given and there is no default *)

  Definition effective (ch : channels) : res A :=
    match raw_value ch with
    | Some v => decode v
    | None => Ok zero
    end.
End Decode.
