(* Model/IsoBuild.v — pkg/fs VirtualISO.buildFS: scanDirectory, makeDirEntries, makePathTable,
   calculateSizes, makeVolumeDescriptors, writeFSStructures and the encoders of iso9660.go /
   iso9660_encoder.go / virtual_iso_items.go, byte for byte.
   Input = what the scan observes: the tree with every directory's entries in the order the
   filesystem returned them, names, sizes and the 7-byte recording times; plus the volume name,
   the PS3 flag and product code, and the two things that vary between opens: the descriptor
   timestamp [now] (17 bytes) and the PS3 random filler [rnd]. *)
From Verif Require Import Lib.Bytes Model.Path Model.Fs Gen.Consts Model.IsoRead.

Inductive snode :=
| SFile (name : bytes) (size : Z) (time : bytes)
| SDir (name : bytes) (time : bytes) (items : list snode).

(* ---------- identifiers ---------- *)

(* number of bytes of the UTF-8 sequence starting with lead byte b (1 for anything invalid: one RuneError) *)
Definition utf8_len (l : bytes) : nat :=
  match l with
  | [] => 0%nat
  | b :: r =>
      let cont c := (128 <=? c) && (c <? 192) in
      if b <? 128 then 1%nat
      else if (194 <=? b) && (b <? 224) then
        match r with c1 :: _ => if cont c1 then 2%nat else 1%nat | _ => 1%nat end
      else if (224 <=? b) && (b <? 240) then
        match r with c1 :: c2 :: _ => if cont c1 && cont c2 then 3%nat else 1%nat | _ => 1%nat end
      else if (240 <=? b) && (b <? 245) then
        match r with c1 :: c2 :: c3 :: _ => if cont c1 && cont c2 && cont c3 then 4%nat else 1%nat | _ => 1%nat end
      else 1%nat
  end.

Definition upper_byte (c : Z) : Z := if (97 <=? c) && (c <=? 122) then c - 32 else c.
Definition in_set (set : bytes) (c : Z) : bool := existsb (Z.eqb c) set.

(* strings.Map over the runes of s: ASCII runes go through f, every other rune (or invalid byte) becomes '_' *)
Fixpoint map_runes (fuel : nat) (f : Z -> Z) (s : bytes) : bytes :=
  match fuel with
  | O => []
  | S k =>
      match s with
      | [] => []
      | b :: _ => let n := utf8_len s in
                  (if b <? 128 then f b else 95) :: map_runes k f (skipn n s)
      end
  end.

Definition utf16be (s : bytes) : bytes := concat (map (fun c => [0; c]) s).

(* strings.ToUpper maps exactly two non-ASCII runes to ASCII letters: U+017F (long s, bytes C5 BF) to 'S' and
   U+0131 (dotless i, bytes C4 B1) to 'I'.  0xC4/0xC5 are never continuation bytes, so the byte patterns
   are the runes.  Every other non-ASCII rune stays non-ASCII and is mangled to '_' afterwards. *)
Fixpoint upper_special (s : bytes) : bytes :=
  match s with
  | [] => []
  | b :: r =>
      match r with
      | c :: r' => if (b =? 197) && (c =? 191) then 83 :: upper_special r'
                   else if (b =? 196) && (c =? 177) then 73 :: upper_special r'
                   else b :: upper_special r
      | [] => [b]
      end
  end.

(* makeIdentifier: ToUpper (primary only) then mangleStrD1, UTF-16BE for Joliet *)
Definition make_identifier (name : bytes) (joliet : bool) : bytes :=
  let up := if joliet then (fun c => c) else upper_byte in
  let name := if joliet then name else upper_special name in
  let m := map_runes (length name) (fun c => let c' := up c in if in_set d1_characters c' then c' else 95) name in
  if joliet then utf16be m else m.

(* mangleStrD / mangleStrA: keep characters of the set, upper-case those whose upper case is in it, else '_' *)
Definition mangle_set (set : bytes) (name : bytes) (joliet : bool) : bytes :=
  let m := map_runes (length name) (fun c => if in_set set c then c else if in_set set (upper_byte c) then upper_byte c else 95) name in
  if joliet then utf16be m else m.

(* ---------- fixed-width encoders ---------- *)
Definition le_enc (n : nat) (v : Z) : bytes := rev (be_enc n v).
Definition lsbmsb16 (v : Z) : bytes := le_enc 2 v ++ be_enc 2 v.
Definition lsbmsb32 (v : Z) : bytes := le_enc 4 v ++ be_enc 4 v.

(* appendString(s, fixedLen, padding): s then padding bytes up to fixedLen (Go panics when s is longer) *)
Definition pad_to (s : bytes) (n : Z) (p : Z) : bytes := s ++ repeatz p (n - zlen s).
Definition fit (s : bytes) (n : Z) : bytes := firstn (Z.to_nat n) s.
(* a field whose width the Go type fixes (a [7]byte recording time, the %04d%02d.. timestamp, a [N]byte array):
   exactly n bytes whatever the model is given *)
Definition fitn (n : nat) (l : bytes) : bytes := firstn n (l ++ repeat 0 n).

(* ---------- directory records ---------- *)
Record dentry := { de_loc : Z; de_len : Z; de_time : bytes; de_flags : Z; de_id : bytes }.

Definition de_size (e : dentry) : Z := 33 + zlen (de_id e) + (zlen (de_id e) + 1) mod 2.

Definition de_encode (e : dentry) : bytes :=
  [de_size e mod 256; 0] ++ lsbmsb32 (de_loc e mod 2 ^ 32) ++ lsbmsb32 (de_len e mod 2 ^ 32) ++ fitn 7 (de_time e)
  ++ [de_flags e; 0; 0] ++ lsbmsb16 1 ++ [zlen (de_id e) mod 256] ++ de_id e
  ++ (if (zlen (de_id e) + 1) mod 2 =? 1 then [0] else []).

(* dirEntriesSize: a record that does not fit the rest of its sector starts the next one *)
Fixpoint entries_size (es : list dentry) (acc : Z) : Z :=
  match es with
  | [] => acc
  | e :: r => let acc' := if sector_size <? acc mod sector_size + de_size e then sectors acc * sector_size else acc in
              entries_size r (acc' + de_size e)
  end.

Fixpoint entries_encode (es : list dentry) (pos : Z) : bytes :=     (* pos: bytes already written in this directory *)
  match es with
  | [] => []
  | e :: r => let padn := if sector_size <? pos mod sector_size + de_size e then sectors pos * sector_size - pos else 0 in
              zeros padn ++ de_encode e ++ entries_encode r (pos + padn + de_size e)
  end.

Definition pad_sector (l : bytes) : bytes := l ++ zeros (sectors (zlen l) * sector_size - zlen l).

(* ---------- scan ---------- *)
Record dfile := { df_name : bytes; df_size : Z; df_lba : Z; df_time : bytes }.
Record ditem := { di_path : list bytes; di_name : bytes; di_time : bytes; di_files : list dfile }.

(* processDirectory: files get consecutive locations, sub-directories are pushed on the stack *)
Fixpoint scan_items (items : list snode) (path : list bytes) (lba : Z)
  : list dfile * list (list bytes * snode) * Z :=
  match items with
  | [] => ([], [], lba)
  | SFile n sz t :: r =>
      let '(fs, ds, lba') := scan_items r path (lba + sectors (Z.max 0 sz)) in   (* sizeBytes is unsigned *)
      ({| df_name := n; df_size := Z.max 0 sz; df_lba := lba; df_time := t |} :: fs, ds, lba')
  | SDir n t its :: r =>
      let '(fs, ds, lba') := scan_items r path lba in
      (fs, (path ++ [n], SDir n t its) :: ds, lba')
  end.

(* the stack walk of scanDirectory: pop the LAST element of the queue *)
Fixpoint scan_loop (fuel : nat) (queue : list (list bytes * snode)) (lba : Z) : list ditem * Z :=
  match fuel with
  | O => ([], lba)
  | S k =>
      match rev queue with
      | [] => ([], lba)
      | (path, SDir n t items) :: rest_rev =>
          let '(fs, subdirs, lba') := scan_items items path lba in
          let '(ds, lba'') := scan_loop k (rev rest_rev ++ subdirs) lba' in
          ({| di_path := path; di_name := n; di_time := t; di_files := fs |} :: ds, lba'')
      | (_, SFile _ _ _) :: _ => ([], lba)
      end
  end.

Fixpoint snode_count (n : snode) : nat :=
  match n with
  | SFile _ _ _ => 1%nat
  | SDir _ _ items => S ((fix go (l : list snode) : nat := match l with [] => 0%nat | x :: r => (snode_count x + go r)%nat end) items)
  end.

(* ---------- directory entries ---------- *)
Definition path_eqb (a b : list bytes) : bool :=
  (length a =? length b)%nat && forallb (fun p => list_eqb (fst p) (snd p)) (combine a b).

Fixpoint index_of_path (ds : list ditem) (p : list bytes) (i : nat) : option nat :=
  match ds with [] => None | d :: r => if path_eqb (di_path d) p then Some i else index_of_path r p (S i) end.

Definition parent_index (ds : list ditem) (d : ditem) : option nat :=
  match di_path d with [] => None | _ => index_of_path ds (removelast (di_path d)) 0 end.

Definition dir_flag : Z := dir_flag_dir.

(* records of the files of a directory, multi-extent parts included *)
Fixpoint file_parts (id time : bytes) (size lba : Z) (i parts : nat) : list dentry :=
  match parts with
  | O => []
  | S k =>
      let last := match k with O => true | _ => false end in
      if last
      then [{| de_loc := lba; de_len := size - Z.of_nat i * multi_extent_part_size; de_time := time; de_flags := 0; de_id := id |}]
      else {| de_loc := lba; de_len := multi_extent_part_size; de_time := time; de_flags := dir_flag_multi_extent; de_id := id |}
           :: file_parts id time size (lba + sectors multi_extent_part_size) (S i) k
  end.

Definition file_entries (joliet : bool) (f : dfile) : list dentry :=
  let id := make_identifier (df_name f) joliet in
  if max_part_size <? df_size f then
    let parts := df_size f / multi_extent_part_size + (if 0 <? df_size f mod multi_extent_part_size then 1 else 0) in
    file_parts id (df_time f) (df_size f) (df_lba f) 0 (Z.to_nat parts)
  else [{| de_loc := df_lba f; de_len := df_size f; de_time := df_time f; de_flags := 0; de_id := id |}].

(* the built directories so far: each a list of records *)
Definition built := list (list dentry).

Definition built_size (b : built) : Z :=
  fold_left (fun acc es => sectors (acc + (entries_size es 0)) * sector_size) b 0.

(* patch the first not yet linked directory record with this identifier *)
Fixpoint link_child (es : list dentry) (id : bytes) (loc len : Z) : list dentry :=
  match es with
  | [] => []
  | e :: r => if list_eqb (de_id e) id && negb (Z.land (de_flags e) dir_flag =? 0) && (de_len e =? 0)
              then {| de_loc := loc; de_len := len; de_time := de_time e; de_flags := de_flags e; de_id := de_id e |} :: r
              else e :: link_child r id loc len
  end.

Fixpoint update_nth {A} (l : list A) (i : nat) (f : A -> A) : list A :=
  match l, i with
  | [], _ => []
  | x :: r, O => f x :: r
  | x :: r, S k => x :: update_nth r k f
  end.

Definition too_long (es : list dentry) : bool := existsb (fun e => 255 <? de_size e) es.

(* makeDirEntries for the directory with index i, given the records of the directories built before it *)
Definition make_dir_entries (ds : list ditem) (joliet : bool) (b : built) (d : ditem) : res built :=
  let dot_loc := built_size b / sector_size in
  let pidx := parent_index ds d in
  let dotdot :=
    match pidx with
    | Some pi => match nth_error ds pi, nth_error b pi with
                 | Some pd, Some (pdot :: _) => {| de_loc := de_loc pdot; de_len := 0; de_time := di_time pd; de_flags := dir_flag; de_id := [1] |}
                 | _, _ => {| de_loc := 0; de_len := 0; de_time := di_time d; de_flags := dir_flag; de_id := [1] |}
                 end
    | None => {| de_loc := 0; de_len := 0; de_time := di_time d; de_flags := dir_flag; de_id := [1] |}
    end in
  let files := concat (map (file_entries joliet) (di_files d)) in
  let children := filter (fun c => match di_path c with [] => false | _ => path_eqb (removelast (di_path c)) (di_path d) end) (tl ds) in
  let child_es := map (fun c => {| de_loc := 0; de_len := 0; de_time := di_time c; de_flags := dir_flag;
                                   de_id := make_identifier (di_name c) joliet |}) children in
  if too_long (files ++ child_es) then Err ENAMETOOLONG else
  let dot0 := {| de_loc := dot_loc; de_len := 0; de_time := di_time d; de_flags := dir_flag; de_id := [0] |} in
  let total := sectors (entries_size (dot0 :: dotdot :: files ++ child_es) 0) * sector_size in
  let dot := {| de_loc := dot_loc; de_len := total; de_time := di_time d; de_flags := dir_flag; de_id := [0] |} in
  match pidx with
  | None =>
      let dotdot' := {| de_loc := dot_loc; de_len := total; de_time := de_time dotdot; de_flags := dir_flag; de_id := [1] |} in
      Ok (b ++ [dot :: dotdot' :: files ++ child_es])
  | Some pi =>
      let b' := update_nth b pi (fun es => link_child es (make_identifier (di_name d) joliet) dot_loc total) in
      Ok (b' ++ [dot :: dotdot :: files ++ child_es])
  end.

Fixpoint build_dirs (ds_all : list ditem) (joliet : bool) (todo : list ditem) (b : built) : res built :=
  match todo with
  | [] => Ok b
  | d :: r => b' <- make_dir_entries ds_all joliet b d ;; build_dirs ds_all joliet r b'
  end.

(* ---------- path tables ---------- *)
Record ptentry := { pt_loc : Z; pt_parent : Z; pt_id : bytes }.

Definition pt_size (e : ptentry) : Z := 8 + zlen (pt_id e) mod 256 + (zlen (pt_id e) mod 256) mod 2.

Definition pt_encode (little : bool) (e : ptentry) : bytes :=
  [zlen (pt_id e) mod 256; 0]
  ++ (if little then le_enc 4 (pt_loc e mod 2 ^ 32) else be_enc 4 (pt_loc e mod 2 ^ 32))
  ++ (if little then le_enc 2 (pt_parent e mod 2 ^ 16) else be_enc 2 (pt_parent e mod 2 ^ 16))
  ++ pt_id e ++ (if zlen (pt_id e) mod 2 =? 1 then [0] else []).

Fixpoint make_path_table (ds_all : list ditem) (joliet : bool) (ds : list ditem) (b : built) (i : nat) : list ptentry :=
  match ds, b with
  | d :: r, (dot :: _) :: br =>
      if (Z.to_nat path_table_items_limit <=? i)%nat then [] else
      {| pt_loc := de_loc dot;
         pt_parent := match i with O => 1 | _ => match parent_index ds_all d with Some p => Z.of_nat p + 1 | None => 0 end end;
         pt_id := match i with O => [0] | _ => make_identifier (di_name d) joliet end |}
      :: make_path_table ds_all joliet r br (S i)
  | _, _ => []
  end.

Definition pt_total (t : list ptentry) : Z := fold_left (fun a e => a + pt_size e) t 0.

(* ---------- relocation (fixLBA) ---------- *)
Definition fix_entry (dir_lba files_lba : Z) (e : dentry) : dentry :=
  {| de_loc := de_loc e + (if Z.land (de_flags e) dir_flag =? 0 then files_lba else dir_lba);
     de_len := de_len e; de_time := de_time e; de_flags := de_flags e; de_id := de_id e |}.

(* ---------- volume descriptors ---------- *)
Definition zero_ts : bytes := repeat 48 16 ++ [0].       (* "0000000000000000" and offset 0 *)

Definition vd_body (joliet : bool) (volname : bytes) (space ptsize ptl ptm : Z) (root_rec : bytes) (now : bytes) : bytes :=
  [0]
  ++ pad_to (mangle_set a_characters [108;105;110;117;120] joliet) 32 32          (* runtime.GOOS = "linux" *)
  ++ pad_to (fit (mangle_set d_characters volname joliet) 32) 32 32
  ++ zeros 8
  ++ lsbmsb32 (space mod 2 ^ 32)
  ++ pad_to (if joliet then [37;47;64] else []) 32 0                                (* escape sequences "%/@" *)
  ++ lsbmsb16 1 ++ lsbmsb16 1 ++ lsbmsb16 (sector_size mod 2 ^ 16)
  ++ lsbmsb32 (ptsize mod 2 ^ 32)
  ++ le_enc 4 (ptl mod 2 ^ 32) ++ le_enc 4 0 ++ be_enc 4 (ptm mod 2 ^ 32) ++ be_enc 4 0
  ++ pad_to root_rec 34 0
  ++ pad_to (fit (mangle_set d_characters volname joliet) 128) 128 32
  ++ pad_to [] 128 32 ++ pad_to [] 128 32
  ++ pad_to [112;115;51;110;101;116;115;114;118] 128 32                              (* "ps3netsrv" *)
  ++ pad_to [] 37 32 ++ pad_to [] 37 32 ++ pad_to [] 37 32
  ++ fitn 17 now ++ fitn 17 now ++ zero_ts ++ zero_ts
  ++ [1; 0] ++ zeros 512.

Definition vd_header (typ ver : Z) : bytes := [typ] ++ standard_identifier ++ [ver].

Definition vd_sector (typ ver : Z) (body : bytes) : bytes := pad_to (vd_header typ ver ++ body) sector_size 0.

(* ---------- the whole image ---------- *)
Record built_image := {
  bi_fsbuf : bytes;
  bi_files : list (list bytes * Z * Z);     (* path elements, size, first sector - in location order *)
  bi_pad_start : Z; bi_pad_size : Z; bi_total : Z;
}.

Definition ps3_sectors (space : Z) (game_code rnd : bytes) : bytes :=
  pad_to (be_enc 4 1 ++ zeros 4 ++ be_enc 4 0 ++ be_enc 4 ((space - 1) mod 2 ^ 32)) sector_size 0
  ++ pad_to (pad_to console_id 16 32
             ++ pad_to (firstn 4 game_code ++ [45] ++ skipn 4 game_code) 32 32
             ++ zeros 16 ++ fitn 448 rnd) sector_size 0.           (* Info [0x1B0] and Hash [0x10] from crypto/rand *)

(* writeFSStructures: the metadata area, given the relocated tables and directories *)
Definition sys_area (ps3 : bool) (space : Z) (game_code rnd : bytes) : bytes :=
  if ps3 then ps3_sectors space game_code rnd ++ zeros ((sectors system_area_size - 2) * sector_size)
  else zeros system_area_size.

Definition root_record (b : built) : bytes := match b with (dot :: _) :: _ => de_encode dot | _ => [] end.

Definition dirs_bytes (b : built) : bytes := concat (map (fun es => pad_sector (entries_encode es 0)) b).

Definition fsbuf_of (ps3 : bool) (volname game_code now rnd : bytes) (space : Z)
    (pt ptj : list ptentry) (f_iso f_jol : built) (ptl ptm ptjl ptjm : Z) : bytes :=
  sys_area ps3 space game_code rnd
  ++ vd_sector volume_type_primary 1 (vd_body false volname space (pt_total pt) ptl ptm (root_record f_iso) now)
  ++ vd_sector volume_type_supplementary 1 (vd_body true volname space (pt_total ptj) ptjl ptjm (root_record f_jol) now)
  ++ vd_sector volume_type_terminator 0 []
  ++ zeros sector_size
  ++ pad_sector (concat (map (pt_encode true) pt)) ++ pad_sector (concat (map (pt_encode false) pt))
  ++ pad_sector (concat (map (pt_encode true) ptj)) ++ pad_sector (concat (map (pt_encode false) ptj))
  ++ dirs_bytes f_iso ++ dirs_bytes f_jol.

Definition reloc_pt (base : Z) (pt : list ptentry) : list ptentry :=
  map (fun e => {| pt_loc := pt_loc e + base; pt_parent := pt_parent e; pt_id := pt_id e |}) pt.

Definition pad_sectors_for (volume : Z) : Z :=
  base_pad_sectors + (if 0 <? volume mod base_pad_sectors then base_pad_sectors - volume mod base_pad_sectors else 0).

(* buildFSStructures after the directories are built: layout numbers, relocation, the bytes *)
Definition assemble (ds : list ditem) (files_sectors : Z) (b_iso b_jol : built)
    (volname : bytes) (ps3 : bool) (game_code now rnd : bytes) : built_image :=
  let pt := make_path_table ds false ds b_iso 0 in
  let ptj := make_path_table ds true ds b_jol 0 in
  let iso_lba := sectors system_area_size + volume_descriptors_count + 1 + sectors (pt_total pt) * 2 + sectors (pt_total ptj) * 2 in
  let jol_lba := iso_lba + sectors (built_size b_iso) in
  let files_lba := jol_lba + sectors (built_size b_jol) in
  let volume := files_lba + files_sectors in
  let pad := pad_sectors_for volume in
  let space := volume + pad in
  let desc_lba := sectors system_area_size in
  let ptl := desc_lba + volume_descriptors_count + 1 in
  let ptm := ptl + sectors (pt_total pt) in
  let ptjl := ptm + sectors (pt_total pt) in
  let ptjm := ptjl + sectors (pt_total ptj) in
  let f_iso := map (map (fix_entry iso_lba files_lba)) b_iso in
  let f_jol := map (map (fix_entry jol_lba files_lba)) b_jol in
  let fsbuf := fsbuf_of ps3 volname game_code now rnd space (reloc_pt iso_lba pt) (reloc_pt jol_lba ptj) f_iso f_jol ptl ptm ptjl ptjm in
  let files := concat (map (fun d => map (fun f => (di_path d ++ [df_name f], df_size f, df_lba f + files_lba)) (di_files d)) ds) in
  {| bi_fsbuf := fsbuf; bi_files := files;
     bi_pad_start := volume * sector_size; bi_pad_size := pad * sector_size; bi_total := space * sector_size |}.

Definition build_image (root : snode) (volname : bytes) (ps3 : bool) (game_code now rnd : bytes) : res built_image :=
  match root with
  | SFile _ _ _ => Err ENOTDIR
  | SDir _ _ _ =>
      if ps3 && ((zlen game_code <? 4) || (31 <? zlen game_code)) then Err EINVAL else
      let '(ds, files_sectors) := scan_loop (snode_count root) [([], root)] 0 in
      b_iso <- build_dirs ds false ds [] ;;
      b_jol <- build_dirs ds true ds [] ;;
      Ok (assemble ds files_sectors b_iso b_jol volname ps3 game_code now rnd)
  end.
