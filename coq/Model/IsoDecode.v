(* Model/IsoDecode.v — the reader's side of a directory extent (ECMA-119 9.1), independent of the builder:
   walk the extent record by record; a zero length byte means "the rest of this sector is unused". *)
From Verif Require Import Lib.Bytes Model.Fs Gen.Consts Model.IsoRead.

Definition le_val (l : bytes) : Z := val (rev l).

Record rrec := { rr_loc : Z; rr_len : Z; rr_time : bytes; rr_flags : Z; rr_id : bytes }.

(* one record at the front of l: the record and its length *)
Definition parse_record (l : bytes) : option (rrec * Z) :=
  match l with
  | [] => None
  | n :: _ =>
      if (n <? 34) || (zlen l <? n) then None else
      let idl := nth 32 l 0 in
      if n <? 33 + idl then None else
      Some ({| rr_loc := le_val (slice l 2 4); rr_len := le_val (slice l 10 4); rr_time := slice l 18 7;
               rr_flags := nth 25 l 0; rr_id := slice l 33 idl |}, n)
  end.

(* l = what is left of the extent, pos = offset of l inside the extent *)
Fixpoint decode_dir (fuel : nat) (l : bytes) (pos : Z) : list rrec :=
  match fuel with
  | O => []
  | S k =>
      match l with
      | [] => []
      | b :: _ =>
          if b =? 0 then
            let skip := sector_size - pos mod sector_size in
            decode_dir k (skipn (Z.to_nat skip) l) (pos + skip)
          else match parse_record l with
               | None => []
               | Some (r, n) => r :: decode_dir k (skipn (Z.to_nat n) l) (pos + n)
               end
      end
  end.
