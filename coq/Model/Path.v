(* Model/Path.v — byte-string paths as the server treats them (Unix).
   rooted_elems p  = the elements of  filepath.Clean("/" + p)   (pkg/server rootedPath)
   render es       = "/" ++ es joined by "/"                     ("/" for no element)
   plus the string helpers used by pkg/fs: Ext, ASCII lower-casing, prefix tests. *)
From Verif Require Import Lib.Bytes.

Definition slash : Z := 47.
Definition dot : Z := 46.

(* strings.Split(p, "/") *)
Fixpoint split_slash_aux (p : bytes) (cur : bytes) : list bytes :=
  match p with
  | [] => [rev cur]
  | c :: r => if c =? slash then rev cur :: split_slash_aux r [] else split_slash_aux r (c :: cur)
  end.
Definition split_slash (p : bytes) : list bytes := split_slash_aux p [].

Definition is_dot (e : bytes) : bool := list_eqb e [dot].
Definition is_dotdot (e : bytes) : bool := list_eqb e [dot; dot].
Definition is_empty (e : bytes) : bool := match e with [] => true | _ => false end.

(* one step of Clean on a rooted path; the stack holds the kept elements, last first *)
Definition clean_step (st : list bytes) (e : bytes) : list bytes :=
  if is_empty e || is_dot e then st
  else if is_dotdot e then tl st          (* ".." at the root is dropped *)
  else e :: st.

Definition rooted_elems (p : bytes) : list bytes :=
  rev (fold_left clean_step (split_slash p) []).

Fixpoint join_slash (es : list bytes) : bytes :=
  match es with
  | [] => []
  | e :: r => slash :: e ++ join_slash r
  end.

Definition render (es : list bytes) : bytes :=
  match es with [] => [slash] | _ => join_slash es end.

(* an element that names a directory entry: non-empty, not "." / "..", no separator *)
Definition real_elem (e : bytes) : bool :=
  negb (is_empty e) && negb (is_dot e) && negb (is_dotdot e) && forallb (fun c => negb (c =? slash)) e.

(* ASCII lower-casing (strings.ToLower restricted to ASCII; see DESIGN section 6) *)
Definition lower_byte (c : Z) : Z := if (65 <=? c) && (c <=? 90) then c + 32 else c.
Definition to_lower (s : bytes) : bytes := map lower_byte s.

(* filepath.Ext of a single element: from the last '.' (may be the whole element) *)
Fixpoint ext_aux (s : bytes) (acc : option bytes) : option bytes :=
  match s with
  | [] => acc
  | c :: r => if c =? dot then ext_aux r (Some (c :: r)) else ext_aux r acc
  end.
Definition ext (e : bytes) : bytes := match ext_aux e None with Some x => x | None => [] end.
Definition trim_ext (e : bytes) : bytes := firstn (length e - length (ext e)) e.

Fixpoint has_prefix (p s : bytes) : bool :=
  match p, s with
  | [], _ => true
  | _ :: _, [] => false
  | a :: p', b :: s' => (a =? b) && has_prefix p' s'
  end.

Definition last_elem (es : list bytes) : bytes := last es [].
