(* Model/IsoRead.v — pkg/fs VirtualISO.read / Read / ReadAt / Seek and filesList.filesToRead.
   The image as read() sees it: the in-memory metadata [fsbuf], the files in location order
   (size, first sector, content as a function so that multi-GiB files are expressible), the
   trailing pad area.  Reading is modelled zone by zone with the running (buf, remain, offset)
   of the Go code, including the iterator's own (toRead, offset) copy. *)
From Verif Require Import Lib.Bytes Model.Fs Gen.Consts.

Record vfile := { vsize : Z; vlba : Z; vdata : Z -> Z }.

Record image := { fsbuf : bytes; vfiles : list vfile; pad_start : Z; pad_size : Z; total : Z }.

Definition sectors (b : Z) : Z := (b + sector_size - 1) / sector_size.      (* sizeBytes.sectors (ceil) *)
Definition vstart (f : vfile) : Z := vlba f * sector_size.
Definition vpadded (f : vfile) : Z := sectors (vsize f) * sector_size.

(* the integers off, off+1, ..., off+n-1 *)
Fixpoint zrange_nat (off : Z) (n : nat) : list Z :=
  match n with O => [] | S k => off :: zrange_nat (off + 1) k end.
Definition zrange (off n : Z) : list Z := zrange_nat off (Z.to_nat n).

Definition zeros (n : Z) : bytes := repeatz 0 n.

(* slices.BinarySearchFunc with the comparator of filesToRead: first file whose end lies beyond the
   target sector; found iff the target is not before its start.  Returns the files from there on. *)
Fixpoint bsearch (fs : list vfile) (sec : Z) : option (list vfile) :=
  match fs with
  | [] => None
  | f :: r => if sec <? vlba f + sectors (vsize f)
              then (if vlba f <=? sec then Some (f :: r) else None)
              else bsearch r sec
  end.

(* the loop over the files yielded by the iterator; (it_rem, it_off) are the iterator's own copies *)
Fixpoint read_files (fs : list vfile) (it_rem it_off : Z) (off remain : Z) (acc : bytes) : res (bytes * Z * Z) :=
  match fs with
  | [] => Ok (acc, off, remain)
  | f :: r =>
      if it_rem <=? 0 then Ok (acc, off, remain) else
      let it_read := vpadded f - (it_off - vstart f) in
      if vsize f =? 0 then read_files r (it_rem - it_read) (it_off + it_read) off remain acc
      else if off <? vstart f then Err EIO
      else if vstart f + vpadded f <=? off then Err EIO
      else
        let fo := off - vstart f in
        let n := if fo <? vsize f then Z.min remain (vsize f - fo) else 0 in
        let d := map (vdata f) (zrange fo n) in
        let off1 := off + n in
        let rem1 := remain - n in
        let pend := vstart f + vpadded f in
        let z := if (off1 <? pend) && (0 <? rem1) then Z.min rem1 (pend - off1) else 0 in
        read_files r (it_rem - it_read) (it_off + it_read) (off1 + z) (rem1 - z) (acc ++ d ++ zeros z)
  end.

(* VirtualISO.read(buf, off) for len(buf) = len; 0 <= off *)
Definition iso_read (img : image) (off len : Z) : res bytes :=
  if (total img <=? off) || (len =? 0) then Err EOFk else
  let fl := zlen (fsbuf img) in
  let d1 := if off <? fl then slice (fsbuf img) off len else [] in
  let off1 := off + zlen d1 in
  let rem1 := len - zlen d1 in
  if (total img <=? off1) || (rem1 =? 0) then Ok d1 else
  r2 <- (if off1 <? pad_start img
         then match bsearch (vfiles img) (off1 / sector_size) with
              | Some suffix => read_files suffix rem1 off1 off1 rem1 []
              | None => Ok ([], off1, rem1)
              end
         else Ok ([], off1, rem1)) ;;
  let '(d2, off2, rem2) := r2 in
  let d3 := if (pad_start img <=? off2) && (off2 <? total img)
            then let to_read := pad_size img - (off2 - pad_start img) in
                 if to_read =? 0 then [] else zeros (Z.min to_read rem2)
            else [] in
  Ok (d1 ++ d2 ++ d3).

(* ---- the io.Reader / io.Seeker / io.ReaderAt face ---- *)
Inductive iso_op := OpRead (n : Z) | OpSeek (off whence : Z) | OpReadAt (n off : Z).
Inductive iso_res := RData (d : bytes) | REOF | RErr (e : errk) | RPos (p : Z).

Definition iso_step (img : image) (cur : Z) (op : iso_op) : iso_res * Z :=
  match op with
  | OpRead n =>
      match iso_read img cur n with
      | Ok d => (RData d, cur + zlen d)
      | Err EOFk => (REOF, cur)
      | Err e => (RErr e, cur)
      end
  | OpReadAt n off =>
      match iso_read img off n with
      | Ok d => (RData d, cur)
      | Err EOFk => (REOF, cur)
      | Err e => (RErr e, cur)
      end
  | OpSeek off whence =>
      let target := if whence =? 0 then Some off
                    else if whence =? 1 then Some (off + cur)
                    else if whence =? 2 then Some (off + total img)
                    else None in
      match target with
      | None => (RErr EINVAL, cur)
      | Some t => if (t <? 0) || (total img <? t) then (RErr EINVAL, cur) else (RPos t, t)
      end
  end.

Fixpoint iso_run (img : image) (cur : Z) (ops : list iso_op) : list iso_res :=
  match ops with
  | [] => []
  | op :: r => let (o, cur') := iso_step img cur op in o :: iso_run img cur' r
  end.
