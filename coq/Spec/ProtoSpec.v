(* Spec/ProtoSpec.v — the wire format of requests as documented in pkg/proto/types.go:
   a 16-byte command (2-byte opcode, 14 data bytes of which each command uses a documented
   part; the rest is ignored), followed by the announced path or payload.
   [junk] are the ignored bytes, arbitrary. *)
From Verif Require Import Lib.Bytes Model.Path Model.Fs Model.Session Gen.Consts.

Definition path_cmd (op : Z) (p junk : bytes) : bytes := be16 op ++ be16 (zlen p) ++ firstn 12 junk ++ p.
Definition bare_cmd (op : Z) (junk : bytes) : bytes := be16 op ++ firstn 14 junk.

Definition wire (rq : request) (junk : bytes) : bytes :=
  match rq with
  | ROpenFile p => path_cmd op_open_file p junk
  | RReadFileCritical n off => be16 op_read_file_critical ++ firstn 2 junk ++ be32 n ++ be64 off
  | RReadCD s c => be16 op_read_cd_2048 ++ firstn 2 junk ++ be32 s ++ be32 c ++ firstn 4 (skipn 2 junk)
  | RReadFile n off => be16 op_read_file ++ firstn 2 junk ++ be32 n ++ be64 off
  | RCreateFile p => path_cmd op_create_file p junk
  | RWriteFile n d => be16 op_write_file ++ firstn 2 junk ++ be32 n ++ firstn 8 (skipn 2 junk) ++ d
  | ROpenDir p => path_cmd op_open_dir p junk
  | RReadDirEntry => bare_cmd op_read_dir_entry junk
  | RDeleteFile p => path_cmd op_delete_file p junk
  | RMkdir p => path_cmd op_mkdir p junk
  | RRmdir p => path_cmd op_rmdir p junk
  | RReadDirEntryV2 => bare_cmd op_read_dir_entry_v2 junk
  | RStatFile p => path_cmd op_stat_file p junk
  | RGetDirSize p => path_cmd op_get_dir_size p junk
  | RReadDir => bare_cmd op_read_dir junk
  end.

(* a request that fits the wire format *)
Definition wf_request (rq : request) : Prop :=
  match rq with
  | ROpenFile p | RCreateFile p | ROpenDir p | RDeleteFile p | RMkdir p | RRmdir p | RStatFile p | RGetDirSize p =>
      zlen p < 2 ^ 16 /\ bytes_ok p
  | RReadFileCritical n off | RReadFile n off => 0 <= n < 2 ^ 32 /\ 0 <= off < 2 ^ 64
  | RReadCD s c => 0 <= s < 2 ^ 32 /\ 0 <= c < 2 ^ 32
  | RWriteFile n d => 0 <= n < 2 ^ 32 /\ zlen d = n /\ bytes_ok d
  | RReadDirEntry | RReadDirEntryV2 | RReadDir => True
  end.

Definition wf_junk (junk : bytes) : Prop := length junk = 14%nat /\ bytes_ok junk.

(* number of bytes a request occupies on the wire: 16 plus the announced path / payload *)
Definition wire_len (rq : request) : Z :=
  match rq with
  | ROpenFile p | RCreateFile p | ROpenDir p | RDeleteFile p | RMkdir p | RRmdir p | RStatFile p | RGetDirSize p => 16 + zlen p
  | RWriteFile n _ => 16 + n
  | _ => 16
  end.

(* request-level semantics of a connection: the handlers applied in order until one ends it *)
Fixpoint run (c : cfg) (w : world) (k : conn) (rqs : list request) : list (bytes * Z) * bool * world * conn :=
  match rqs with
  | [] => ([], false, w, close_conn k)
  | rq :: r =>
      let o := step c w k rq in
      if o_close o then ([(o_out o, 0)], true, o_world o, close_conn (o_conn o))
      else let '(outs, cl, w', k') := run c (o_world o) (o_conn o) r in
           ((o_out o, held (o_conn o)) :: outs, cl, w', k')
  end.

Fixpoint wires (rqs : list request) (junks : list bytes) : bytes :=
  match rqs, junks with
  | rq :: r, j :: js => wire rq j ++ wires r js
  | _, _ => []
  end.

(* documented response shapes (the table of DESIGN section 5, C03).  [closed] = the server ended the connection. *)
Definition code32 (out : bytes) : Prop := out = be32 0 \/ out = be32 (wrap32 (-1)).

Definition resp_ok (rq : request) (out : bytes) (closed : bool) : Prop :=
  match rq with
  | ROpenFile _ => closed = false /\ zlen out = 16
  | RStatFile _ => closed = false /\ zlen out = 33
  | RGetDirSize _ => closed = false /\ zlen out = 8
  | RCreateFile _ | RDeleteFile _ | RMkdir _ | RRmdir _ | ROpenDir _ => closed = false /\ code32 out
  | RWriteFile n d => closed = false /\ (out = be32 (wrap32 (zlen d)) \/ out = be32 (wrap32 (-1)))
  | RReadFile n off =>
      (closed = true /\ out = []) \/
      (closed = false /\ exists d, out = be32 (wrap32 (zlen d)) ++ d /\ zlen d <= Z.max 0 n)
  | RReadFileCritical n off =>
      zlen out <= Z.max 0 n /\ (closed = false -> zlen out = n)
  | RReadCD s cnt =>
      (closed = false -> zlen out = Z.max 0 cnt * cd_read_size)
  | RReadDirEntry =>
      closed = false /\ exists size nm isdir, out = enc_dirent size (zlen nm) isdir ++ (if zlen nm mod 2 ^ 16 =? 0 then [] else nm)
  | RReadDirEntryV2 =>
      closed = false /\ exists size mt ct at_ nm isdir,
        out = enc_dirent_v2 size mt ct at_ (zlen nm) isdir ++ (if zlen nm mod 2 ^ 16 =? 0 then [] else nm)
  | RReadDir =>
      closed = false /\ exists es : list bytes, out = be64 (zlen es) ++ concat es /\
                                                Forall (fun e => zlen e = 8 + 8 + 1 + max_dir_entry_name) es
  end.
