(* Spec/IsoReadSpec.v — a generated image is one fixed byte function [flat_at], and reading it
   has plain cursor semantics over that function.  No zones, no iterator, no running counters. *)
From Verif Require Import Lib.Bytes Model.Fs Gen.Consts Model.IsoRead.

(* byte i of the file area *)
Fixpoint files_at (fs : list vfile) (i : Z) : Z :=
  match fs with
  | [] => 0
  | f :: r => if (vstart f <=? i) && (i <? vstart f + vpadded f)
              then (if i - vstart f <? vsize f then vdata f (i - vstart f) else 0)
              else files_at r i
  end.

(* byte i of the image: metadata, then each file padded with zeros to a sector, then zeros *)
Definition flat_at (img : image) (i : Z) : Z :=
  if i <? zlen (fsbuf img) then nth (Z.to_nat i) (fsbuf img) 0
  else if i <? pad_start img then files_at (vfiles img) i
  else 0.

(* what read() relies on from the builder: files tile the space between the metadata and the pad area *)
Fixpoint contiguous (fs : list vfile) (start : Z) : Prop :=
  match fs with
  | [] => True
  | f :: r => 0 <= vsize f /\ vstart f = start /\ contiguous r (start + vpadded f)
  end.

Fixpoint files_end (fs : list vfile) (start : Z) : Z :=
  match fs with [] => start | f :: r => files_end r (start + vpadded f) end.

Record layout_wf (img : image) : Prop := {
  wf_contig : contiguous (vfiles img) (zlen (fsbuf img));
  wf_pad_start : pad_start img = files_end (vfiles img) (zlen (fsbuf img));
  wf_pad_size : 0 <= pad_size img;
  wf_total : total img = pad_start img + pad_size img;
}.

(* reference semantics: slices of the one byte function *)
Definition ref_read (img : image) (off len : Z) : res bytes :=
  if (total img <=? off) || (len =? 0) then Err EOFk
  else Ok (map (flat_at img) (zrange off (Z.min len (total img - off)))).

Definition ref_step (img : image) (cur : Z) (op : iso_op) : iso_res * Z :=
  match op with
  | OpRead n =>
      match ref_read img cur n with
      | Ok d => (RData d, cur + zlen d)
      | Err EOFk => (REOF, cur)
      | Err e => (RErr e, cur)
      end
  | OpReadAt n off =>
      match ref_read img off n with
      | Ok d => (RData d, cur)
      | Err EOFk => (REOF, cur)
      | Err e => (RErr e, cur)
      end
  | OpSeek off whence =>
      let target := if whence =? 0 then Some off
                    else if whence =? 1 then Some (off + cur)
                    else if whence =? 2 then Some (off + total img)
                    else None in
      match target with
      | None => (RErr EINVAL, cur)
      | Some t => if (t <? 0) || (total img <? t) then (RErr EINVAL, cur) else (RPos t, t)
      end
  end.

Fixpoint ref_run (img : image) (cur : Z) (ops : list iso_op) : list iso_res :=
  match ops with
  | [] => []
  | op :: r => let (o, cur') := ref_step img cur op in o :: ref_run img cur' r
  end.

(* operations the property quantifies over: positive lengths, non-negative positional offsets *)
Definition op_ok (op : iso_op) : Prop :=
  match op with
  | OpRead n => 0 < n
  | OpReadAt n off => 0 < n /\ 0 <= off
  | OpSeek _ _ => True
  end.
