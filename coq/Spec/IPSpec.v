(* Spec/IPSpec.v — what the documentation of ParseIPRange says a specification denotes,
   as a set of 128-bit numbers.  Independent of the implementation-shaped model: no
   byte masks, no "touch the last bit". *)
From Verif Require Import Lib.Bytes Model.IPRange.

Inductive spec :=
| Single (a : bytes)                       (* 16-byte address *)
| Range (a b : bytes)                      (* inclusive, 16-byte addresses *)
| Block (a : bytes) (nbytes : nat) (len : Z).  (* a: 4- or 16-byte address, /len *)

Definition v4base : Z := 65535 * 2 ^ 32.    (* ::ffff:0.0.0.0 *)

Definition embed (nbytes : nat) (v : Z) : Z := if (nbytes =? 4)%nat then v4base + v else v.

(* numeric denotation: block = all addresses sharing the first len bits with a;
   network (lowest) and broadcast (highest) addresses are excluded unless the block has
   at most two addresses *)
Definition denote (sp : spec) (v : Z) : Prop :=
  match sp with
  | Single a => v = val a
  | Range a b => val a <= v <= val b
  | Block a n len =>
      let bits := 8 * Z.of_nat n in
      let sz := 2 ^ (bits - len) in
      let lo := embed n ((val a / sz) * sz) in
      let hi := lo + sz - 1 in
      if bits - 1 <=? len then lo <= v <= hi else lo < v < hi
  end.

(* effective family of a parsed address, as Go's To4 decides it *)
Definition eff (a : bytes) : bytes * nat :=
  match to4 a with Some a4 => (a4, 4%nat) | None => (a, 16%nat) end.

Definition same_family (a b : bytes) : Prop :=
  (to4 a = None <-> to4 b = None).

Section Grammar.
  Variable parse_ip : bytes -> option bytes.
  Variable atoi : bytes -> option Z.

  (* the documented grammar, cut at the first '/' (47) or '-' (45) *)
  Inductive reads_as (s : bytes) : spec -> Prop :=
  | RA_single a :
      find_sep s 0 = None -> parse_ip s = Some a -> reads_as s (Single a)
  | RA_range i a b :
      find_sep s 0 = Some (i, 45) -> S i <> length s ->
      parse_ip (firstn i s) = Some a -> parse_ip (skipn (S i) s) = Some b ->
      same_family a b -> val a <= val b -> reads_as s (Range a b)
  | RA_cidr i a a' n len :
      find_sep s 0 = Some (i, 47) -> S i <> length s ->
      parse_ip (firstn i s) = Some a -> parse_ip (skipn (S i) s) = None ->
      atoi (skipn (S i) s) = Some len -> eff a = (a', n) ->
      0 <= len <= 8 * Z.of_nat n -> reads_as s (Block a' n len)
  | RA_mask i a a' m m4 len :
      find_sep s 0 = Some (i, 47) -> S i <> length s ->
      parse_ip (firstn i s) = Some a -> parse_ip (skipn (S i) s) = Some m ->
      to4 m = Some m4 -> eff a = (a', 4%nat) ->
      0 <= len <= 32 -> m4 = cidr_mask_bytes len 4 ->      (* contiguous mask with len ones *)
      reads_as s (Block a' 4 len).
End Grammar.
