(* Spec/CryptSpec.v — the reference plaintext of an encrypted image: the file cut into 2048-byte
   sectors, every whole sector that lies in an encrypted region replaced by its decryption with
   that sector's number, everything else (plain regions, a trailing partial sector) unchanged;
   optionally the region map at the start zeroed.  No windows, no offsets. *)
From Verif Require Import Lib.Bytes Model.Fs Gen.Consts Model.IsoRead Model.Crypt.

Definition enc_sector (regions : list (Z * Z)) (s : Z) : bool :=
  existsb (fun r => (fst r <=? s) && (s <? snd r)) regions.

Section Cipher.
  Variable dec : Z -> bytes -> bytes.

  Definition xform (regions : list (Z * Z)) (s : Z) (x : bytes) : bytes :=
    if enc_sector regions s then dec s x else x.

  Definition plain_image (v : enc_view) (content : bytes) : bytes :=
    let c0 := clear_header v 0 content in
    let (ws, tail) := chunk_sectors (S (Z.to_nat (zlen c0 / sector_size))) c0 in
    concat (map_sectors (xform (ev_regions v)) 0 ws) ++ tail.

  (* reading the view = slicing the reference plaintext *)
  Definition ref_crypt_read_at (v : enc_view) (content : bytes) (off len : Z) : res (bytes * bool) :=
    if zlen content <=? off then Err EOFk
    else let d := slice (plain_image v content) off len in Ok (d, zlen d <? len).

  (* any Read/Seek/ReadAt history: plain cursor semantics over the reference plaintext *)
  Definition ref_crypt_run (v : enc_view) (content : bytes) (ops : list iso_op) : list cres :=
    crypt_run_with (ref_crypt_read_at v content) (zlen content) 0 ops.
End Cipher.

(* what a valid region table guarantees about the encrypted regions *)
Fixpoint ordered (rs : list (Z * Z)) (lo : Z) : Prop :=
  match rs with
  | [] => True
  | (s, e) :: r => lo <= s /\ s <= e /\ ordered r e
  end.

Record view_wf (v : enc_view) : Prop := {
  vw_ordered : ordered (ev_regions v) 1;         (* sector 0 is never encrypted; regions disjoint and increasing *)
  vw_hdr : 0 <= ev_hdr v <= sector_size;
}.
