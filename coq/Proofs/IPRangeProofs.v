(* Proofs/IPRangeProofs.v — the byte-level range construction of pkg/iprange denotes
   the numeric set of Spec/IPSpec, for every address, prefix length and mask. *)
From Coq Require Import ZifyBool ZifyNat.
From Verif Require Import Lib.Bytes Model.IPRange Spec.IPSpec.

Ltac Zify.zify_post_hook ::= Z.div_mod_to_equations.

(* ---------- finite facts about single bytes, by exhaustive computation ---------- *)

Definition all_bytes : list Z := map Z.of_nat (seq 0 256).

Lemma all_bytes_in b : is_byte b -> In b all_bytes.
Proof.
  intros [H0 H1]. unfold all_bytes. apply in_map_iff. exists (Z.to_nat b). split; [lia|].
  apply in_seq. lia.
Qed.

Lemma byte_forall (P : Z -> bool) :
  forallb P all_bytes = true -> forall b, is_byte b -> P b = true.
Proof. intros H b Hb. rewrite forallb_forall in H. apply H, all_bytes_in, Hb. Qed.

Definition all_ones : list Z := [0;1;2;3;4;5;6;7;8].

Lemma ones_forall (P : Z -> bool) :
  forallb P all_ones = true -> forall j, 0 <= j <= 8 -> P j = true.
Proof.
  intros H j Hj. rewrite forallb_forall in H. apply H. unfold all_ones.
  assert (j = 0 \/ j = 1 \/ j = 2 \/ j = 3 \/ j = 4 \/ j = 5 \/ j = 6 \/ j = 7 \/ j = 8) by lia.
  cbn [In]. intuition.
Qed.

Lemma byte_ones_forall (P : Z -> Z -> bool) :
  forallb (fun j => forallb (P j) all_bytes) all_ones = true ->
  forall j b, 0 <= j <= 8 -> is_byte b -> P j b = true.
Proof.
  intros H j b Hj Hb.
  pose proof (ones_forall (fun j => forallb (P j) all_bytes) H j Hj) as H1. cbv beta in H1.
  exact (byte_forall (P j) H1 b Hb).
Qed.

Lemma land_mask_byte j b : 0 <= j <= 8 -> is_byte b ->
  Z.land b (mask_byte j) = (b / 2 ^ (8 - j)) * 2 ^ (8 - j).
Proof.
  intros Hj Hb.
  pose proof (byte_ones_forall (fun j b => Z.land b (mask_byte j) =? (b / 2 ^ (8 - j)) * 2 ^ (8 - j))) as H.
  specialize (H ltac:(vm_compute; reflexivity) j b Hj Hb). cbv beta in H. lia.
Qed.

Lemma lor_mask_byte j b : 0 <= j <= 8 -> is_byte b ->
  Z.lor (Z.land b (mask_byte j)) (255 - mask_byte j) = Z.land b (mask_byte j) + (255 - mask_byte j).
Proof.
  intros Hj Hb.
  pose proof (byte_ones_forall (fun j b => Z.lor (Z.land b (mask_byte j)) (255 - mask_byte j)
                                          =? Z.land b (mask_byte j) + (255 - mask_byte j))) as H.
  specialize (H ltac:(vm_compute; reflexivity) j b Hj Hb). cbv beta in H. lia.
Qed.

Lemma land_byte_is_byte b m : is_byte b -> is_byte m -> is_byte (Z.land b m).
Proof.
  intros Hb Hm.
  pose proof (byte_forall (fun b => forallb (fun m => is_byteb (Z.land b m)) all_bytes)
                ltac:(vm_compute; reflexivity) b Hb) as H. cbv beta in H.
  pose proof (byte_forall _ H m Hm) as H2. cbv beta in H2. unfold is_byteb, is_byte in *. lia.
Qed.

Lemma mask_byte_is_byte j : is_byte (mask_byte j).
Proof.
  unfold mask_byte, is_byte. destruct (j <=? 0) eqn:E0; [lia|]. destruct (8 <=? j) eqn:E8; [lia|].
  assert (j = 1 \/ j = 2 \/ j = 3 \/ j = 4 \/ j = 5 \/ j = 6 \/ j = 7) as Hc by lia.
  destruct Hc as [->|[->|[->|[->|[->|[->| ->]]]]]]; cbn; lia.
Qed.

Lemma mask_byte_clamp j : mask_byte j = mask_byte (Z.max 0 (Z.min 8 j)).
Proof.
  unfold mask_byte.
  destruct (j <=? 0) eqn:E0.
  - replace (Z.max 0 (Z.min 8 j)) with 0 by lia. reflexivity.
  - destruct (8 <=? j) eqn:E8.
    + replace (Z.max 0 (Z.min 8 j)) with 8 by lia. reflexivity.
    + replace (Z.max 0 (Z.min 8 j)) with j by lia. rewrite E0, E8. reflexivity.
Qed.

Lemma lor1_even b : is_byte b -> b mod 2 = 0 -> Z.lor b 1 = b + 1 /\ is_byte (Z.lor b 1).
Proof.
  intros Hb He.
  pose proof (byte_forall (fun b => if b mod 2 =? 0 then (Z.lor b 1 =? b + 1) && is_byteb (Z.lor b 1) else true)
                ltac:(vm_compute; reflexivity) b Hb) as H. cbv beta in H.
  replace (b mod 2 =? 0) with true in H by lia. unfold is_byteb, is_byte in *. lia.
Qed.

Lemma land254_odd b : is_byte b -> b mod 2 = 1 -> Z.land b 254 = b - 1 /\ is_byte (Z.land b 254).
Proof.
  intros Hb He.
  pose proof (byte_forall (fun b => if b mod 2 =? 1 then (Z.land b 254 =? b - 1) && is_byteb (Z.land b 254) else true)
                ltac:(vm_compute; reflexivity) b Hb) as H. cbv beta in H.
  replace (b mod 2 =? 1) with true in H by lia. unfold is_byteb, is_byte in *. lia.
Qed.

(* ---------- pointwise operations on byte strings ---------- *)

Definition land2 (a m : bytes) : bytes := map (fun p => Z.land (fst p) (snd p)) (combine a m).

Lemma land2_length a : forall m, length a = length m -> length (land2 a m) = length a.
Proof. intros m H. unfold land2. rewrite map_length, combine_length. lia. Qed.

Lemma last_by_mask_length a m : length a = length m -> length (last_by_mask a m) = length a.
Proof. intros H. unfold last_by_mask. rewrite map_length, combine_length. lia. Qed.

Lemma cidr_mask_bytes_length ones n : length (cidr_mask_bytes ones n) = n.
Proof. revert ones; induction n; intros; cbn [cidr_mask_bytes length]; auto. Qed.

Lemma cidr_mask_bytes_ok ones n : bytes_ok (cidr_mask_bytes ones n).
Proof. revert ones; induction n; intros; cbn [cidr_mask_bytes]; constructor; [apply mask_byte_is_byte | apply IHn]. Qed.

Lemma land2_ok a : forall m, bytes_ok a -> bytes_ok m -> bytes_ok (land2 a m).
Proof.
  induction a as [|x a IH]; intros [|y m] Ha Hm; cbn; try constructor.
  - inversion Ha; inversion Hm; subst. apply land_byte_is_byte; auto.
  - inversion Ha; inversion Hm; subst. apply IH; auto.
Qed.

(* all-zero mask *)
Lemma land2_zero_mask a : forall ones, ones <= 0 ->
  val (land2 a (cidr_mask_bytes ones (length a))) = 0.
Proof.
  induction a as [|x a IH]; intros ones H; cbn [length cidr_mask_bytes]; [reflexivity|].
  unfold land2. cbn [combine map fst snd val].
  fold (land2 a (cidr_mask_bytes (ones - 8) (length a))).
  rewrite IH by lia. unfold mask_byte. replace (ones <=? 0) with true by lia.
  rewrite Z.land_0_r. lia.
Qed.

Lemma pow256 k : 0 <= k -> 256 ^ k = 2 ^ (8 * k).
Proof. intros. change 256 with (2 ^ 8). rewrite <- Z.pow_mul_r by lia. reflexivity. Qed.

(* L1: masking keeps the top [ones] bits *)
Lemma val_land_mask a : forall ones, bytes_ok a -> 0 <= ones <= 8 * zlen a ->
  val (land2 a (cidr_mask_bytes ones (length a))) =
  (val a / 2 ^ (8 * zlen a - ones)) * 2 ^ (8 * zlen a - ones).
Proof.
  induction a as [|x a IH]; intros ones Ha Hones.
  - unfold zlen in Hones; cbn in Hones. assert (ones = 0) by lia. subst. reflexivity.
  - inversion Ha as [|? ? Hx Ha']; subst. rewrite zlen_cons in *.
    cbn [length cidr_mask_bytes]. unfold land2. cbn [combine map fst snd val].
    fold (land2 a (cidr_mask_bytes (ones - 8) (length a))).
    assert (zlen (land2 a (cidr_mask_bytes (ones - 8) (length a))) = zlen a) as ->
      by (unfold zlen; rewrite land2_length by (rewrite cidr_mask_bytes_length; reflexivity); reflexivity).
    pose proof (zlen_nonneg a) as Hk. set (k := zlen a) in *.
    pose proof (val_bound a Ha') as Hva. fold k in Hva.
    destruct (Z_le_gt_dec 8 ones) as [Hge|Hlt].
    + (* whole first byte kept *)
      unfold mask_byte at 1. replace (ones <=? 0) with false by lia. replace (8 <=? ones) with true by lia.
      assert (Z.land x 255 = x) as ->.
      { pose proof (land_mask_byte 8 x ltac:(lia) Hx) as E. unfold mask_byte in E. cbn in E.
        rewrite Z.div_1_r in E. lia. }
      rewrite IH by (auto; lia).
      replace (8 * (1 + k) - ones) with (8 * k - (ones - 8)) by lia.
      set (e := 8 * k - (ones - 8)). assert (0 <= e <= 8 * k) by lia.
      rewrite (pow256 k Hk).
      replace (2 ^ (8 * k)) with (2 ^ (8 * k - e) * 2 ^ e)
        by (rewrite <- Z.pow_add_r by lia; f_equal; lia).
      rewrite Z.mul_assoc.
      rewrite Z.div_add_l by (apply Z.pow_nonzero; lia).
      ring.
    + (* mask ends inside the first byte *)
      rewrite land2_zero_mask by lia.
      rewrite land_mask_byte by (auto; lia).
      set (j := 8 - ones). assert (0 <= j <= 8) by lia.
      replace (8 * (1 + k) - ones) with (8 * k + j) by lia.
      rewrite Z.pow_add_r by lia. rewrite <- (pow256 k Hk).
      set (P := 256 ^ k) in *. assert (0 < P) by (apply pow256_pos; auto).
      assert (0 < 2 ^ j) by (apply Z.pow_pos_nonneg; lia).
      rewrite <- Z.div_div by lia.
      rewrite Z.div_add_l by lia.
      rewrite (Z.div_small (val a) P) by lia.
      rewrite !Z.add_0_r. ring.
Qed.

Lemma val_add2 a : forall b, length a = length b ->
  val (map (fun p => fst p + snd p) (combine a b)) = val a + val b.
Proof.
  induction a as [|x a IH]; intros [|y b] H; cbn [length] in H; try discriminate; [reflexivity|].
  cbn [combine map fst snd val]. rewrite IH by lia.
  assert (zlen (map (fun p => fst p + snd p) (combine a b)) = zlen a) as ->
    by (unfold zlen; rewrite map_length, combine_length; lia).
  assert (zlen b = zlen a) as -> by (unfold zlen; lia). ring.
Qed.

Lemma val_cidr_mask n : forall ones, 0 <= ones <= 8 * Z.of_nat n ->
  val (cidr_mask_bytes ones n) = 256 ^ Z.of_nat n - 2 ^ (8 * Z.of_nat n - ones).
Proof.
  intros ones H.
  pose proof (val_land_mask (repeat 255 n) ones) as L.
  assert (bytes_ok (repeat 255 n)) as Hok
    by (apply Forall_forall; intros x Hx; apply repeat_spec in Hx; subst; unfold is_byte; lia).
  assert (zlen (repeat 255 n) = Z.of_nat n) as Hz by (unfold zlen; rewrite repeat_length; reflexivity).
  rewrite repeat_length, Hz in L. specialize (L Hok H).
  assert (land2 (repeat 255 n) (cidr_mask_bytes ones n) = cidr_mask_bytes ones n) as E.
  { clear. revert ones. induction n; intros; cbn [repeat cidr_mask_bytes]; [reflexivity|].
    unfold land2. cbn [combine map fst snd]. fold (land2 (repeat 255 n) (cidr_mask_bytes (ones - 8) n)).
    rewrite IHn. f_equal.
    rewrite mask_byte_clamp. set (j := Z.max 0 (Z.min 8 ones)).
    pose proof (ones_forall (fun j => Z.land 255 (mask_byte j) =? mask_byte j) ltac:(vm_compute; reflexivity) j ltac:(lia)).
    cbv beta in *. lia. }
  rewrite E in L. rewrite L.
  assert (val (repeat 255 n) = 256 ^ Z.of_nat n - 1) as ->.
  { clear. induction n; [reflexivity|]. cbn [repeat val]. rewrite IHn.
    unfold zlen. rewrite repeat_length. rewrite Nat2Z.inj_succ, Z.pow_succ_r by lia. ring. }
  set (e := 8 * Z.of_nat n - ones). assert (0 <= e <= 8 * Z.of_nat n) by lia.
  rewrite (pow256 (Z.of_nat n)) by lia.
  replace (2 ^ (8 * Z.of_nat n)) with (2 ^ (8 * Z.of_nat n - e) * 2 ^ e)
    by (rewrite <- Z.pow_add_r by lia; f_equal; lia).
  assert (0 < 2 ^ e) by (apply Z.pow_pos_nonneg; lia).
  assert (0 < 2 ^ (8 * Z.of_nat n - e)) by (apply Z.pow_pos_nonneg; lia).
  set (A := 2 ^ (8 * Z.of_nat n - e)) in *. set (B := 2 ^ e) in *.
  replace (A * B - 1) with ((A - 1) * B + (B - 1)) by ring.
  rewrite Z.div_add_l by lia. rewrite (Z.div_small (B - 1) B) by lia. ring.
Qed.

(* L2: the last address of the block *)
Lemma last_by_mask_add a : forall ones, bytes_ok a ->
  last_by_mask (land2 a (cidr_mask_bytes ones (length a))) (cidr_mask_bytes ones (length a)) =
  map (fun p => fst p + snd p)
      (combine (land2 a (cidr_mask_bytes ones (length a)))
               (map (fun m => 255 - m) (cidr_mask_bytes ones (length a)))).
Proof.
  induction a as [|x a IH]; intros ones Ha; [reflexivity|].
  inversion Ha; subst. cbn [length cidr_mask_bytes]. unfold land2, last_by_mask.
  cbn [combine map fst snd]. f_equal.
  - rewrite mask_byte_clamp. apply lor_mask_byte; [lia|auto].
  - apply IH; auto.
Qed.

Lemma val_compl m : bytes_ok m -> val (map (fun x => 255 - x) m) = 256 ^ zlen m - 1 - val m.
Proof.
  induction m as [|x m IH]; intros H; [reflexivity|]. inversion H; subst.
  cbn [map val]. rewrite IH by auto. rewrite zlen_cons.
  assert (zlen (map (fun x => 255 - x) m) = zlen m) as -> by (unfold zlen; rewrite map_length; reflexivity).
  rewrite Z.pow_add_r by (pose proof (zlen_nonneg m); lia). ring.
Qed.

Lemma val_last_by_mask a ones : bytes_ok a -> 0 <= ones <= 8 * zlen a ->
  val (last_by_mask (land2 a (cidr_mask_bytes ones (length a))) (cidr_mask_bytes ones (length a))) =
  val (land2 a (cidr_mask_bytes ones (length a))) + 2 ^ (8 * zlen a - ones) - 1.
Proof.
  intros Ha Ho. rewrite last_by_mask_add by auto.
  rewrite val_add2 by (rewrite map_length, land2_length, cidr_mask_bytes_length; rewrite ?cidr_mask_bytes_length; reflexivity).
  rewrite val_compl by apply cidr_mask_bytes_ok.
  assert (zlen (cidr_mask_bytes ones (length a)) = zlen a) as -> by (unfold zlen; rewrite cidr_mask_bytes_length; reflexivity).
  rewrite val_cidr_mask by (fold (zlen a); lia). fold (zlen a). ring.
Qed.

Lemma last_by_mask_ok a ones : bytes_ok a ->
  bytes_ok (last_by_mask (land2 a (cidr_mask_bytes ones (length a))) (cidr_mask_bytes ones (length a))).
Proof.
  revert ones. induction a as [|x a IH]; intros ones Ha; [constructor|].
  inversion Ha; subst. cbn [length cidr_mask_bytes]. unfold land2, last_by_mask. cbn [combine map fst snd].
  constructor; [|apply IH; auto].
  rewrite mask_byte_clamp. set (j := Z.max 0 (Z.min 8 ones)).
  rewrite lor_mask_byte by (auto; lia).
  rewrite land_mask_byte by (auto; lia).
  pose proof (byte_ones_forall (fun j b => is_byteb ((b / 2 ^ (8 - j)) * 2 ^ (8 - j) + (255 - mask_byte j)))
                ltac:(vm_compute; reflexivity) j x ltac:(lia) ltac:(auto)) as Hb.
  cbv beta in Hb. unfold is_byteb, is_byte in *. lia.
Qed.

(* L3: touching the last bit *)
Lemma val_snoc l b : val (l ++ [b]) = val l * 256 + b.
Proof. rewrite val_app. cbn [val]. unfold zlen; cbn. lia. Qed.

Lemma set_last_bit_val l : l <> [] -> bytes_ok l -> val l mod 2 = 0 ->
  val (set_last_bit l) = val l + 1 /\ bytes_ok (set_last_bit l) /\ length (set_last_bit l) = length l.
Proof.
  intros Hne Hok Hev. unfold set_last_bit.
  destruct (rev l) as [|b r] eqn:E.
  - apply (f_equal (@rev Z)) in E. rewrite rev_involutive in E. cbn in E. congruence.
  - assert (l = rev r ++ [b]) as -> by (rewrite <- (rev_involutive l), E; reflexivity).
    cbn [rev]. apply Forall_app in Hok as [Hr Hb]. inversion Hb; subst.
    rewrite val_snoc in *.
    destruct (lor1_even b ltac:(auto) ltac:(lia)) as [E1 E2].
    rewrite !val_snoc, E1. repeat split; [ring| |].
    + apply Forall_app; split; auto. constructor; [rewrite <- E1; exact E2 | constructor].
    + rewrite !app_length; reflexivity.
Qed.

Lemma clear_last_bit_val l : l <> [] -> bytes_ok l -> val l mod 2 = 1 ->
  val (clear_last_bit l) = val l - 1 /\ bytes_ok (clear_last_bit l) /\ length (clear_last_bit l) = length l.
Proof.
  intros Hne Hok Hev. unfold clear_last_bit.
  destruct (rev l) as [|b r] eqn:E.
  - apply (f_equal (@rev Z)) in E. rewrite rev_involutive in E. cbn in E. congruence.
  - assert (l = rev r ++ [b]) as -> by (rewrite <- (rev_involutive l), E; reflexivity).
    cbn [rev]. apply Forall_app in Hok as [Hr Hb]. inversion Hb; subst.
    rewrite val_snoc in *.
    destruct (land254_odd b ltac:(auto) ltac:(lia)) as [E1 E2].
    rewrite !val_snoc, E1. repeat split; [ring| |].
    + apply Forall_app; split; auto. constructor; [rewrite <- E1; exact E2 | constructor].
    + rewrite !app_length; reflexivity.
Qed.

Lemma set_last_bit_length l : length (set_last_bit l) = length l.
Proof.
  unfold set_last_bit. destruct (rev l) as [|b r] eqn:E.
  - rewrite <- (rev_length l), E. reflexivity.
  - rewrite <- (rev_length l), E, rev_length. reflexivity.
Qed.

Lemma clear_last_bit_length l : length (clear_last_bit l) = length l.
Proof.
  unfold clear_last_bit. destruct (rev l) as [|b r] eqn:E.
  - rewrite <- (rev_length l), E. reflexivity.
  - rewrite <- (rev_length l), E, rev_length. reflexivity.
Qed.

(* ---------- To4 / To16 ---------- *)

Lemma val_v4prefix : val v4prefix = 65535.
Proof. vm_compute. reflexivity. Qed.

Lemma v4prefix_val x : length x = 4%nat -> val (v4prefix ++ x) = v4base + val x.
Proof.
  intros H. rewrite val_app, val_v4prefix. unfold zlen. rewrite H.
  unfold v4base. change (Z.of_nat 4) with 4. change (256 ^ 4) with 4294967296.
  change (2 ^ 32) with 4294967296. ring.
Qed.

Lemma to4_some ip a4 : length ip = 16%nat -> to4 ip = Some a4 ->
  ip = v4prefix ++ a4 /\ length a4 = 4%nat.
Proof.
  intros Hl H. unfold to4 in H. rewrite Hl in H. cbn [Nat.eqb andb] in H.
  destruct (list_eqb (firstn 12 ip) v4prefix) eqn:E; [|discriminate].
  apply list_eqb_eq in E. assert (a4 = skipn 12 ip) as -> by congruence. split.
  - rewrite <- E. symmetry; apply firstn_skipn.
  - rewrite skipn_length. lia.
Qed.

Lemma to16_4 x : length x = 4%nat -> to16 x = Some (v4prefix ++ x).
Proof. intros H. unfold to16. rewrite H. reflexivity. Qed.

Lemma to16_16 x : length x = 16%nat -> to16 x = Some x.
Proof. intros H. unfold to16. rewrite H. reflexivity. Qed.

(* numeric value of an address as Contains normalises it *)
Definition val16 (ip : bytes) : Z :=
  match to16 ip with Some x => val x | None => -1 end.

Lemma contains_num r ip :
  bytes_ok ip -> (length ip = 4%nat \/ length ip = 16%nat) ->
  bytes_ok (left r) -> bytes_ok (right r) -> length (left r) = 16%nat -> length (right r) = 16%nat ->
  (contains r ip = true <-> val (left r) <= val16 ip <= val (right r)).
Proof.
  intros Hok Hl Hlo Hro Hll Hrl. unfold contains, val16.
  assert (exists x, to16 ip = Some x /\ bytes_ok x /\ length x = 16%nat) as (x & -> & Hx & Hxl).
  { destruct Hl as [H|H].
    - rewrite to16_4 by auto. eexists; split; [reflexivity|]. split.
      + apply Forall_app; split; auto. repeat constructor; unfold is_byte; lia.
      + rewrite app_length, H. reflexivity.
    - rewrite to16_16 by auto. eauto. }
  rewrite !lexcmp_val by (auto; congruence).
  destruct (Z.compare_spec (val x) (val (left r))); destruct (Z.compare_spec (val x) (val (right r)));
    split; intro; try discriminate; try reflexivity; lia.
Qed.
