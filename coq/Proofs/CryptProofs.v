(* Proofs/CryptProofs.v — the decrypting view returns slices of the reference plaintext (C10). *)
From Coq Require Import ZifyBool ZifyNat.
From Verif Require Import Lib.Bytes Model.Fs Gen.Consts Model.IsoRead Model.Crypt Spec.CryptSpec
  Proofs.ProtoProofs Proofs.SessionProofs Proofs.ReadProofs Proofs.IsoReadProofs.

Ltac Zify.zify_post_hook ::= Z.div_mod_to_equations.

Definition sec_ok (x : bytes) : Prop := length x = 2048%nat.

(* ---- uniform sector lists ---- *)
Lemma concat_sec_length ws : Forall sec_ok ws -> length (concat ws) = (length ws * 2048)%nat.
Proof.
  induction 1 as [|x r Hx Hr IH]; cbn [concat length]; [reflexivity|].
  rewrite app_length, IH, Hx. lia.
Qed.

Lemma skipn_concat_sec ws t : forall j, Forall sec_ok ws -> (j <= length ws)%nat ->
  skipn (j * 2048) (concat ws ++ t) = concat (skipn j ws) ++ t.
Proof.
  induction ws as [|x r IH]; intros j H Hj.
  - assert (j = 0)%nat by (cbn in Hj; lia). subst. reflexivity.
  - inversion H as [|? ? Hx Hr]; subst. unfold sec_ok in Hx. destruct j; [reflexivity|].
    cbn [concat skipn]. rewrite <- app_assoc.
    replace (S j * 2048)%nat with (2048 + j * 2048)%nat by lia.
    rewrite skipn_add. rewrite skipn_app_exact by exact Hx. apply IH; auto. cbn [length] in Hj. lia.
Qed.

Lemma firstn_concat_sec ws t : forall m, Forall sec_ok ws -> (m <= length ws)%nat ->
  firstn (m * 2048) (concat ws ++ t) = concat (firstn m ws).
Proof.
  induction ws as [|x r IH]; intros m H Hm.
  - assert (m = 0)%nat by (cbn in Hm; lia). subst. reflexivity.
  - inversion H as [|? ? Hx Hr]; subst. unfold sec_ok in Hx. destruct m; [reflexivity|].
    cbn [concat firstn]. rewrite <- app_assoc.
    replace (S m * 2048)%nat with (2048 + m * 2048)%nat by lia.
    rewrite firstn_app. rewrite Hx. replace (2048 + m * 2048 - 2048)%nat with (m * 2048)%nat by lia.
    rewrite firstn_all2 by lia. f_equal. apply IH; auto. cbn [length] in Hm. lia.
Qed.

(* chunk_sectors recovers the decomposition *)
Lemma chunk_unique : forall ws t fuel, Forall sec_ok ws -> zlen t < 2048 -> (length ws < fuel)%nat ->
  chunk_sectors fuel (concat ws ++ t) = (ws, t).
Proof.
  induction ws as [|x r IH]; intros t fuel H Ht Hf; (destruct fuel; [lia|]); cbn [chunk_sectors concat app].
  - change sector_size with 2048. replace (zlen t <? 2048) with true by lia. reflexivity.
  - inversion H as [|? ? Hx Hr]; subst. unfold sec_ok in Hx. change sector_size with 2048.
    rewrite <- app_assoc.
    replace (zlen (x ++ concat r ++ t) <? 2048) with false
      by (rewrite zlen_app; unfold zlen at 1; rewrite Hx; pose proof (zlen_nonneg (concat r ++ t)); lia).
    change (Z.to_nat 2048) with 2048%nat.
    rewrite skipn_app_exact, firstn_app_exact by exact Hx.
    rewrite IH; auto. cbn [length] in Hf. lia.
Qed.

Lemma chunk_decomp : forall fuel l, (Z.to_nat (zlen l / 2048) < fuel)%nat ->
  let (ws, t) := chunk_sectors fuel l in
  l = concat ws ++ t /\ Forall sec_ok ws /\ zlen t < 2048 /\ Z.of_nat (length ws) = zlen l / 2048.
Proof.
  induction fuel as [|k IH]; intros l Hf; [lia|]. cbn [chunk_sectors]. change sector_size with 2048.
  destruct (zlen l <? 2048) eqn:E.
  - cbn [concat app length]. pose proof (zlen_nonneg l). repeat split; auto; try lia.
  - change (Z.to_nat 2048) with 2048%nat.
    assert (zlen (skipn 2048 l) = zlen l - 2048) as Ls by (unfold zlen in *; rewrite skipn_length; lia).
    specialize (IH (skipn 2048 l)).
    assert (zlen (skipn 2048 l) / 2048 = zlen l / 2048 - 1) as Hd by (rewrite Ls; lia).
    destruct (chunk_sectors k (skipn 2048 l)) as [ws t].
    destruct IH as (I1 & I2 & I3 & I4); [lia|].
    cbn [concat length]. repeat split; auto.
    + rewrite <- app_assoc, <- I1. symmetry. apply firstn_skipn.
    + constructor; auto. unfold sec_ok. rewrite firstn_length. unfold zlen in *. lia.
    + lia.
Qed.

(* window of whole sectors out of a decomposed list *)
Lemma slice_sec_window ws t (j k : nat) : Forall sec_ok ws -> zlen t < 2048 -> (j < k)%nat -> (j <= length ws)%nat ->
  Z.of_nat j * 2048 < zlen (concat ws ++ t) ->
  slice (concat ws ++ t) (Z.of_nat j * 2048) (Z.of_nat (k - j) * 2048) =
  concat (firstn (k - j) (skipn j ws)) ++ (if (k <=? length ws)%nat then [] else t).
Proof.
  intros H Ht Hjk Hj Hlt. unfold slice.
  replace ((Z.of_nat j * 2048 <? 0) || (zlen (concat ws ++ t) <=? Z.of_nat j * 2048)) with false by lia.
  replace (Z.to_nat (Z.of_nat j * 2048)) with (j * 2048)%nat by lia.
  rewrite skipn_concat_sec by auto.
  assert (Forall sec_ok (skipn j ws)) as Hs.
  { apply Forall_forall. intros x Hx. rewrite Forall_forall in H. apply H.
    rewrite <- (firstn_skipn j ws). apply in_or_app. right; auto. }
  assert (zlen (concat ws ++ t) = Z.of_nat (length ws) * 2048 + zlen t) as Lt
    by (rewrite zlen_app; unfold zlen; rewrite concat_sec_length by auto; lia).
  rewrite Lt. pose proof (zlen_nonneg t) as Ht0.
  destruct (k <=? length ws)%nat eqn:Ek.
  - replace (Z.to_nat (Z.min (Z.of_nat (k - j) * 2048) (Z.of_nat (length ws) * 2048 + zlen t - Z.of_nat j * 2048)))
      with ((k - j) * 2048)%nat by lia.
    rewrite firstn_concat_sec by (auto; rewrite skipn_length; lia). rewrite app_nil_r. reflexivity.
  - replace (Z.to_nat (Z.min (Z.of_nat (k - j) * 2048) (Z.of_nat (length ws) * 2048 + zlen t - Z.of_nat j * 2048)))
      with ((length ws - j) * 2048 + length t)%nat by (unfold zlen in *; lia).
    rewrite firstn_all2 by (rewrite app_length, concat_sec_length by auto; rewrite skipn_length; lia).
    rewrite (firstn_all2 (skipn j ws)) by (rewrite skipn_length; lia). reflexivity.
Qed.

  (* ---- header clearing commutes with taking the window ---- *)
Lemma clear_header_window v content a n : 0 <= ev_hdr v <= 2048 -> 0 <= a -> a mod 2048 = 0 -> 2048 <= n ->
  clear_header v a (slice content a n) = slice (clear_header v 0 content) a n.
Proof.
  intros Hh Ha Hm Hn. unfold clear_header.
  destruct (negb (ev_clear v)) eqn:Ec.
  - rewrite !orb_true_r. reflexivity.
  - rewrite !orb_false_r.
    destruct (Z.eq_dec a 0) as [->|Hne].
    + destruct (ev_hdr v <=? 0) eqn:E0; [reflexivity|].
      rewrite Z.sub_0_r.
      set (k := Z.min (ev_hdr v) (zlen content)).
      pose proof (zlen_nonneg content) as Hc0.
      destruct (Z.eq_dec (zlen content) 0) as [Hz|Hnz].
      { assert (content = []) as -> by (destruct content; [reflexivity|unfold zlen in Hz; cbn in Hz; lia]).
        subst k. change (slice (@nil Z) 0 n) with (@nil Z). change (zlen (@nil Z)) with 0.
        replace (Z.min (ev_hdr v) 0) with 0 by lia. reflexivity. }
      assert (zlen (slice content 0 n) = Z.min n (zlen content)) as Ls by (rewrite slice_length_eq by lia; lia).
      replace (Z.min (ev_hdr v) (zlen (slice content 0 n))) with k by (subst k; lia).
      assert (0 <= k <= zlen content) by (subst k; lia).
      (* both sides: k zeros, then content[k, min(n, |content|)) *)
      unfold slice at 2.
      assert (zlen (zeros k ++ skipn (Z.to_nat k) content) = zlen content) as Lz.
      { rewrite zlen_app, zeros_length. unfold zlen. rewrite skipn_length. unfold zlen in *. lia. }
      rewrite Lz. replace ((0 <? 0) || (zlen content <=? 0)) with false by lia.
      cbn [Z.to_nat skipn]. rewrite Z.sub_0_r.
      unfold slice. replace ((0 <? 0) || (zlen content <=? 0)) with false by lia. cbn [Z.to_nat skipn]. rewrite Z.sub_0_r.
      set (m := Z.to_nat (Z.min n (zlen content))).
      assert (length (zeros k) = Z.to_nat k) as Lk by (unfold zeros, repeatz; apply repeat_length).
      rewrite firstn_app, Lk. rewrite (firstn_all2 (zeros k)) by (rewrite Lk; subst m; lia).
      f_equal.
      (* skipn k (firstn m content) = firstn (m - k) (skipn k content) *)
      apply skipn_firstn_comm.
    + (* the window starts at or after sector 1: nothing to clear on either side *)
      assert (2048 <= a) by lia.
      replace (ev_hdr v <=? a) with true by lia. cbn [orb].
      destruct (ev_hdr v <=? 0) eqn:E0; [reflexivity|].
      rewrite Z.sub_0_r. set (k := Z.min (ev_hdr v) (zlen content)).
      pose proof (zlen_nonneg content).
      assert (0 <= k <= 2048) by (subst k; lia).
      unfold slice.
      assert (zlen (zeros k ++ skipn (Z.to_nat k) content) = zlen content) as Lz.
      { rewrite zlen_app, zeros_length. unfold zlen. rewrite skipn_length. unfold zlen in *. lia. }
      rewrite Lz. destruct ((a <? 0) || (zlen content <=? a)) eqn:E; [reflexivity|].
      f_equal.
      assert (length (zeros k) = Z.to_nat k) as Lk by (unfold zeros, repeatz; apply repeat_length).
      replace (Z.to_nat a) with (Z.to_nat k + (Z.to_nat a - Z.to_nat k))%nat by lia.
      rewrite !skipn_add. rewrite skipn_app_exact by exact Lk. reflexivity.
Qed.

Lemma map_sectors_length f s ws : length (map_sectors f s ws) = length ws.
Proof. revert s; induction ws; intros; cbn [map_sectors length]; auto. Qed.

Lemma map_sectors_ext f g ws : forall s, (forall i x, s <= i < s + zlen ws -> f i x = g i x) ->
  map_sectors f s ws = map_sectors g s ws.
Proof.
  induction ws as [|x r IH]; intros s H; cbn [map_sectors]; [reflexivity|].
  rewrite zlen_cons in H. pose proof (zlen_nonneg r). f_equal; [apply H; lia|apply IH; intros; apply H; lia].
Qed.

Lemma map_sectors_compose f g ws : forall s,
  map_sectors f s (map_sectors g s ws) = map_sectors (fun i x => f i (g i x)) s ws.
Proof. induction ws as [|x r IH]; intros s; cbn [map_sectors]; [reflexivity|]. rewrite IH. reflexivity. Qed.

Lemma map_sectors_id ws : forall s, map_sectors (fun _ x => x) s ws = ws.
Proof. induction ws as [|x r IH]; intros s; cbn [map_sectors]; [reflexivity|]. rewrite IH. reflexivity. Qed.

Lemma map_sectors_skipn f ws : forall j s, map_sectors f (s + Z.of_nat j) (skipn j ws) = skipn j (map_sectors f s ws).
Proof.
  induction ws as [|x r IH]; intros j s; [rewrite !skipn_nil; reflexivity|].
  destruct j; cbn [skipn map_sectors]; [replace (s + Z.of_nat 0) with s by lia; reflexivity|].
  rewrite <- IH. f_equal. lia.
Qed.

Lemma map_sectors_firstn f ws : forall m s, map_sectors f s (firstn m ws) = firstn m (map_sectors f s ws).
Proof.
  induction ws as [|x r IH]; intros m s; [rewrite !firstn_nil; reflexivity|].
  destruct m; cbn [firstn map_sectors]; [reflexivity|]. rewrite IH. reflexivity.
Qed.

Lemma map_sectors_ok f s ws : (forall i x, length (f i x) = length x) -> Forall sec_ok ws -> Forall sec_ok (map_sectors f s ws).
Proof.
  intros Hf H. revert s. induction H as [|x r Hx Hr IH]; intros s; cbn [map_sectors]; constructor; auto.
  unfold sec_ok in *. rewrite Hf. exact Hx.
Qed.


(* ---- the decryption layer on sector lists ---- *)
Section Cipher.
  Variable dec : Z -> bytes -> bytes.
  Hypothesis dec_length : forall s x, length (dec s x) = length x.

  Lemma xform_length rs i x : length (xform dec rs i x) = length x.
  Proof. unfold xform. destruct (enc_sector rs i); auto. Qed.

  (* sector s, inside the window, is touched by region r iff r contains it *)
  Lemma dec_region_as_map a_sec nwhole end_ceil ws r :
    zlen ws = nwhole -> a_sec + nwhole <= end_ceil ->
    dec_region dec a_sec nwhole end_ceil ws r =
    map_sectors (fun s x => if (fst r <=? s) && (s <? snd r) then dec s x else x) a_sec ws.
  Proof.
    intros Hn He. destruct r as [rs re]. unfold dec_region. cbn [fst snd].
    destruct ((re <=? a_sec) || (end_ceil <? rs)) eqn:Esk.
    - rewrite <- (map_sectors_id ws a_sec) at 1. apply map_sectors_ext. intros i x Hi.
      replace ((rs <=? i) && (i <? re)) with false by lia. reflexivity.
    - apply map_sectors_ext. intros i x Hi.
      replace ((Z.max rs a_sec <=? i) && (i <? Z.min re (a_sec + nwhole))) with ((rs <=? i) && (i <? re)) by lia.
      reflexivity.
  Qed.

  (* disjoint increasing regions: the loop over the regions applies dec exactly to the encrypted sectors *)
  Lemma fold_regions rs : forall lo a_sec nwhole end_ceil ws,
    ordered rs lo -> zlen ws = nwhole -> a_sec + nwhole <= end_ceil ->
    fold_left (dec_region dec a_sec nwhole end_ceil) rs ws = map_sectors (xform dec rs) a_sec ws.
  Proof.
    induction rs as [|[s e] r IH]; intros lo a_sec nwhole end_ceil ws Ho Hn He; cbn [fold_left].
    - rewrite <- (map_sectors_id ws a_sec) at 1. apply map_sectors_ext. intros; reflexivity.
    - cbn [ordered] in Ho. destruct Ho as (H1 & H2 & H3).
      rewrite (dec_region_as_map a_sec nwhole end_ceil ws (s, e) Hn He). cbn [fst snd].
      rewrite (IH e a_sec nwhole end_ceil) by (auto; unfold zlen in *; rewrite map_sectors_length; auto).
      rewrite map_sectors_compose. apply map_sectors_ext. intros i x Hi.
      unfold xform, enc_sector. cbn [existsb fst snd].
      destruct ((s <=? i) && (i <? e)) eqn:E1; cbn [orb].
      + (* later regions start at or after e: they do not contain i *)
        assert (existsb (fun r0 => (fst r0 <=? i) && (i <? snd r0)) r = false) as ->.
        { clear -H3 E1. assert (i < e) as Hi by lia. clear E1. revert e H3 Hi.
          induction r as [|[s' e'] r' IHr]; intros e H3 Hi; cbn [existsb]; [reflexivity|].
          cbn [ordered] in H3. destruct H3 as (A & B & C). cbn [fst snd].
          replace ((s' <=? i) && (i <? e')) with false by lia. cbn [orb]. apply (IHr e'); auto. lia. }
        reflexivity.
      + reflexivity.
  Qed.

End Cipher.

Section Main.
  Variable dec : Z -> bytes -> bytes.
  Hypothesis dec_length : forall s x, length (dec s x) = length x.

  Lemma clear_header_length v (content : bytes) : 0 <= ev_hdr v -> zlen (clear_header v 0 content) = zlen content.
  Proof.
    intros Hh. unfold clear_header. destruct ((ev_hdr v <=? 0) || negb (ev_clear v)); [reflexivity|].
    rewrite Z.sub_0_r. rewrite zlen_app, zeros_length. unfold zlen. rewrite skipn_length.
    pose proof (zlen_nonneg content). unfold zlen in *. lia.
  Qed.

  Lemma Forall_sub {A} (P : A -> Prop) (l : list A) j m : Forall P l -> Forall P (firstn m (skipn j l)).
  Proof.
    intros H. apply Forall_forall. intros x Hx. rewrite Forall_forall in H. apply H.
    assert (In x (skipn j l)) as Hx2.
    { rewrite <- (firstn_skipn m (skipn j l)). apply in_or_app. left; exact Hx. }
    rewrite <- (firstn_skipn j l). apply in_or_app. right; exact Hx2.
  Qed.

  (* ReadAt of the decrypting view = the slice of the reference plaintext, for every offset and length *)
  Theorem crypt_read_ok v content off len : view_wf v -> 0 <= off -> 0 < len ->
    crypt_read_at dec v content off len = ref_crypt_read_at dec v content off len.
  Proof.
    intros [Hord Hhdr] Ho Hl. unfold crypt_read_at, ref_crypt_read_at.
    change sector_size with 2048 in *. unfold sectors. change sector_size with 2048.
    set (a := off / 2048 * 2048). set (b := (off + len + 2048 - 1) / 2048 * 2048).
    assert (0 <= a <= off) as Ha by (subst a; lia).
    assert (off + len <= b) as Hb by (subst b; lia).
    assert (a mod 2048 = 0) as Ham by (subst a; apply Z.mod_mul; lia).
    assert (b mod 2048 = 0) as Hbm by (subst b; apply Z.mod_mul; lia).
    assert (2048 <= b - a) as Hba by lia.
    rewrite (clear_header_window v content a (b - a)) by lia.
    set (c0 := clear_header v 0 content).
    assert (zlen c0 = zlen content) as Lc0 by (apply clear_header_length; lia).
    pose proof (zlen_nonneg content) as Hc0.
    (* decomposition of the (header-cleared) file *)
    pose proof (chunk_decomp (S (Z.to_nat (zlen c0 / 2048))) c0 ltac:(lia)) as CD.
    unfold plain_image. fold c0. change sector_size with 2048.
    destruct (chunk_sectors (S (Z.to_nat (zlen c0 / 2048))) c0) as [W T] eqn:EC.
    destruct CD as (D1 & D2 & D3 & D4).
    set (X := xform dec (ev_regions v)).
    set (W' := map_sectors X 0 W).
    assert (Forall sec_ok W') as HW' by (apply map_sectors_ok; [intros; apply xform_length; auto|exact D2]).
    assert (length W' = length W) as LW' by apply map_sectors_length.
    assert (zlen (concat W' ++ T) = zlen c0) as LP.
    { rewrite D1. rewrite !zlen_app. unfold zlen. rewrite !concat_sec_length by auto. lia. }
    destruct (zlen content <=? off) eqn:Eeof.
    - (* at or past the end: the window is too short to reach the requested offset *)
      set (cleared := slice c0 a (b - a)).
      assert (zlen cleared <= off - a) as Lcl.
      { subst cleared. rewrite slice_length_eq by lia. lia. }
      pose proof (chunk_decomp (S (Z.to_nat (zlen cleared / 2048))) cleared ltac:(lia)) as CD2.
      destruct (chunk_sectors (S (Z.to_nat (zlen cleared / 2048))) cleared) as [ws t].
      destruct CD2 as (E1 & E2 & E3 & E4).
      set (ws' := fold_left _ _ ws).
      assert (ws' = map_sectors X (a / 2048) ws) as ->.
      { subst ws'. apply (fold_regions dec dec_length (ev_regions v) 1); auto. pose proof (zlen_nonneg cleared). unfold zlen in *. lia. }
      assert (zlen (concat (map_sectors X (a / 2048) ws) ++ t) = zlen cleared) as LW.
      { rewrite E1. rewrite !zlen_app. unfold zlen. rewrite !concat_sec_length; auto.
        - rewrite map_sectors_length. reflexivity.
        - apply map_sectors_ok; [intros; apply xform_length; auto|exact E2]. }
      rewrite LW. replace (zlen cleared <=? off - a) with true by lia. reflexivity.
    - (* inside the file *)
      assert (off < zlen c0) as Hin by lia.
      set (j := Z.to_nat (a / 2048)). set (k := Z.to_nat (b / 2048)).
      assert (Z.of_nat j * 2048 = a) as Ej by (subst j; lia).
      assert (Z.of_nat (k - j) * 2048 = b - a) as Ekj by (subst j k; lia).
      assert (j < k)%nat as Hjk by (subst j k; lia).
      assert (zlen c0 = Z.of_nat (length W) * 2048 + zlen T) as LD
        by (rewrite D1 at 1; rewrite zlen_app; unfold zlen; rewrite concat_sec_length by auto; lia).
      pose proof (zlen_nonneg T) as HT0.
      assert (j <= length W)%nat as HjW by lia.
      (* the window, as a sub-list of the decomposition *)
      assert (slice c0 a (b - a) = concat (firstn (k - j) (skipn j W)) ++ (if (k <=? length W)%nat then [] else T)) as SW.
      { rewrite D1 at 1. rewrite <- Ekj, <- Ej. apply slice_sec_window; auto. rewrite <- D1. lia. }
      rewrite SW.
      set (Wsub := firstn (k - j) (skipn j W)). set (Tsub := if (k <=? length W)%nat then [] else T).
      assert (Forall sec_ok Wsub) as HWs by (apply Forall_sub; exact D2).
      assert (zlen Tsub < 2048) as HTs by (subst Tsub; destruct (k <=? length W)%nat; [unfold zlen; cbn; lia|exact D3]).
      assert (zlen (concat Wsub ++ Tsub) = Z.of_nat (length Wsub) * 2048 + zlen Tsub) as LWs
        by (rewrite zlen_app; unfold zlen; rewrite concat_sec_length by auto; lia).
      pose proof (zlen_nonneg Tsub) as HTs0.
      rewrite chunk_unique by (auto; rewrite LWs; lia).
      set (ws' := fold_left _ _ Wsub).
      assert (ws' = map_sectors X (a / 2048) Wsub) as ->.
      { subst ws'. apply (fold_regions dec dec_length (ev_regions v) 1); auto. rewrite LWs. unfold zlen. lia. }
      (* push the transformation through the sub-list *)
      assert (map_sectors X (a / 2048) Wsub = firstn (k - j) (skipn j W')) as ->.
      { subst Wsub W'. rewrite map_sectors_firstn. f_equal.
        replace (a / 2048) with (0 + Z.of_nat j) by (subst j; lia). apply map_sectors_skipn. }
      assert (concat (firstn (k - j) (skipn j W')) ++ Tsub = slice (concat W' ++ T) a (b - a)) as ->.
      { rewrite <- Ekj, <- Ej. subst Tsub. rewrite <- LW'. symmetry. apply slice_sec_window; auto; try lia. }
      rewrite slice_length_eq by lia. rewrite LP.
      replace (Z.max 0 (Z.min (b - a) (zlen c0 - a)) <=? off - a) with false by lia.
      rewrite slice_slice by lia. replace (a + (off - a)) with off by lia. reflexivity.
  Qed.
End Main.

Definition cop_ok (op : iso_op) : Prop :=
  match op with OpRead n => 0 <= n | OpReadAt n _ => 0 <= n | OpSeek _ _ => True end.

Lemma crypt_run_with_ext (f g : Z -> Z -> res (bytes * bool)) size :
  (forall off n, 0 <= off -> 0 < n -> f off n = g off n) ->
  forall ops cur, 0 <= cur -> Forall cop_ok ops ->
  crypt_run_with f size cur ops = crypt_run_with g size cur ops.
Proof.
  intros Hfg. induction ops as [|op r IH]; intros cur Hc Hops; cbn [crypt_run_with]; [reflexivity|].
  inversion Hops as [|? ? Hop Hr]; subst.
  assert (crypt_step_with f size cur op = crypt_step_with g size cur op /\ 0 <= snd (crypt_step_with g size cur op)) as [E Hn].
  { destruct op as [n|off wh|n off]; cbn [crypt_step_with cop_ok] in *.
    - destruct (n =? 0) eqn:En; [split; [reflexivity|cbn [snd]; lia]|].
      rewrite Hfg by lia. split; [reflexivity|].
      destruct (g cur n) as [[d e]|[]]; cbn [snd]; try lia. pose proof (zlen_nonneg d). lia.
    - split; [reflexivity|].
      destruct (wh =? 0); [|destruct (wh =? 1); [|destruct (wh =? 2)]]; try (cbn [snd]; lia);
        match goal with |- context [?t <? 0] => destruct (t <? 0) eqn:E end; cbn [snd]; lia.
    - destruct (off <? 0) eqn:Eo; [split; [reflexivity|cbn [snd]; lia]|].
      destruct (n =? 0) eqn:En; [split; [reflexivity|cbn [snd]; lia]|].
      rewrite Hfg by lia. split; [reflexivity|].
      destruct (g off n) as [[d e]|[]]; cbn [snd]; lia. }
  rewrite E. destruct (crypt_step_with g size cur op) as [o cur']. cbn [snd] in Hn. rewrite IH by auto. reflexivity.
Qed.

(* any history of Read / Seek / ReadAt on the decrypting view = cursor semantics over the reference plaintext *)
Theorem crypt_run_ok dec (dec_length : forall s x, length (dec s x) = length x) v content ops :
  view_wf v -> Forall cop_ok ops -> crypt_run dec v content ops = ref_crypt_run dec v content ops.
Proof.
  intros W Hops. unfold crypt_run, ref_crypt_run. apply crypt_run_with_ext; auto; try lia.
  intros off n Ho Hn. apply crypt_read_ok; auto.
Qed.

(* ---- region tables ---- *)
Lemma ordered_weaken g : forall lo lo', lo' <= lo -> ordered g lo -> ordered g lo'.
Proof. destruct g as [|[s e] r]; intros lo lo' H Ho; cbn [ordered] in *; [exact I|]. destruct Ho as (A & B & C). repeat split; auto; lia. Qed.

Lemma gaps_ordered : forall rs prev, regions_sane rs prev = true ->
  match rs with
  | [] => True
  | (s0, e0) :: r => ordered (gaps rs) e0
  end.
Proof.
  induction rs as [|[s0 e0] r IH]; intros prev H; [exact I|].
  cbn [regions_sane] in H. destruct (e0 <=? s0) eqn:E1; [discriminate|]. destruct (s0 <? prev) eqn:E2; [discriminate|].
  destruct r as [|[s1 e1] r']; [exact I|].
  specialize (IH e0 H). cbn [regions_sane] in H.
  destruct (e1 <=? s1) eqn:E3; [discriminate|]. destruct (s1 <? e0) eqn:E4; [discriminate|].
  change (gaps ((s0, e0) :: (s1, e1) :: r')) with ((e0, s1) :: gaps ((s1, e1) :: r')). cbn [ordered].
  split; [lia|]. split; [lia|]. apply (ordered_weaken _ e1); [lia|exact IH].
Qed.

(* a table accepted by the constructor yields a well-formed view: sector 0 plain, encrypted regions disjoint and increasing *)
Theorem new_encrypted_wf content clear v : new_encrypted content clear = Ok v -> view_wf v.
Proof.
  unfold new_encrypted. destruct (zlen content <? 8); [discriminate|].
  set (count := be32_at content 0).
  destruct ((count <? 2) || (sector_size <? 8 + count * 8)) eqn:E1; [discriminate|].
  destruct (zlen content <? 8 + count * 8); [discriminate|].
  destruct (read_regions content 8 (Z.to_nat count)) as [|[s0 e0] r] eqn:ER; [discriminate|].
  destruct (negb (s0 =? 0)) eqn:E2; [discriminate|].
  destruct (regions_sane ((s0, e0) :: r) 0) eqn:E3; [|discriminate].
  intro H.
  assert (v = {| ev_regions := gaps ((s0, e0) :: r); ev_hdr := 8 + count * 8; ev_clear := clear |}) as -> by congruence.
  constructor; cbn [ev_regions ev_hdr].
  - pose proof (gaps_ordered _ _ E3) as G. cbn [regions_sane] in E3.
    destruct (e0 <=? s0) eqn:E4; [discriminate|].
    apply (ordered_weaken _ e0); [lia|exact G].
  - change sector_size with 2048 in *. lia.
Qed.
