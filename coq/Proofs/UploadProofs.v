(* Proofs/UploadProofs.v — with writing enabled, create followed by writes stores exactly the uploaded bytes;
   delete / mkdir / rmdir report truthfully and touch nothing else's content (C05). *)
From Coq Require Import ZifyBool ZifyNat.
From Verif Require Import Lib.Bytes Model.Path Model.Fs Model.Session Gen.Consts Spec.ProtoSpec
  Proofs.ProtoProofs Proofs.SessionProofs.

Ltac Zify.zify_post_hook ::= Z.div_mod_to_equations.

Lemma get_set_same tbl : forall i x, get_inode (set_inode tbl i x) i = Some x.
Proof.
  induction tbl as [|[j y] r IH]; intros i x; cbn [set_inode get_inode].
  - rewrite Nat.eqb_refl. reflexivity.
  - destruct (i =? j)%nat eqn:E; cbn [get_inode]; [rewrite Nat.eqb_refl; reflexivity|rewrite E; apply IH].
Qed.

Lemma get_set_other tbl : forall i j x, i <> j -> get_inode (set_inode tbl i x) j = get_inode tbl j.
Proof.
  induction tbl as [|[k y] r IH]; intros i j x H; cbn [set_inode get_inode].
  - replace (j =? i)%nat with false by lia. reflexivity.
  - destruct (i =? k)%nat eqn:E; cbn [get_inode].
    + assert (i = k) by lia. subst k. replace (j =? i)%nat with false by lia. reflexivity.
    + destruct (j =? k)%nat; [reflexivity|apply IH; exact H].
Qed.

(* the connection is uploading into inode i, which holds [content] so far, and the cursor is at its end *)
Definition uploading (w : world) (k : conn) (i : nat) (content : bytes) : Prop :=
  exists h x, wo k = Some h /\ hobj_ h = HFile i /\ get_inode (inodes w) i = Some x /\ idata x = content /\ hpos h = zlen content.

Lemma write_appends c w k i content n d : allow_write c = true -> uploading w k i content ->
  let o := step c w k (RWriteFile n d) in
  o_close o = false /\ o_out o = be32 (wrap32 (zlen d)) /\
  uploading (o_world o) (o_conn o) i (content ++ d) /\
  tree (o_world o) = tree w /\
  (forall j, j <> i -> get_inode (inodes (o_world o)) j = get_inode (inodes w) j).
Proof.
  intros Ha (h & x & Hwo & Hobj & Hget & Hdata & Hpos). cbn [step]. rewrite Ha. cbn [negb]. rewrite Hwo, Hobj.
  destruct (zlen d =? 0) eqn:Ez.
  - assert (d = []) by (destruct d; [reflexivity|rewrite zlen_cons in Ez; pose proof (zlen_nonneg d); lia]). subst d.
    cbn [done o_close o_out o_world o_conn]. rewrite app_nil_r. repeat split; auto.
    exists h, x. auto.
  - unfold fs_write. rewrite Hget. cbn [done o_close o_out o_world o_conn tree inodes].
    assert (Hnew : firstn (Z.to_nat (hpos h)) (idata x) ++ repeatz 0 (hpos h - zlen (idata x)) ++ d
                     ++ skipn (Z.to_nat (hpos h + zlen d)) (idata x) = content ++ d).
    { rewrite Hpos, Hdata. pose proof (zlen_nonneg d). pose proof (zlen_nonneg content).
      rewrite firstn_all2 by (unfold zlen in *; lia).
      replace (zlen content - zlen content) with 0 by lia. cbn [repeatz Z.to_nat repeat app].
      rewrite skipn_all2 by (unfold zlen in *; lia). rewrite app_nil_r. reflexivity. }
    repeat split; auto.
    + eexists _, _. split; [reflexivity|]. cbn [hobj_ hpos]. split; [reflexivity|].
      split; [apply get_set_same|]. cbn [idata]. split.
      * rewrite <- app_assoc. exact Hnew.
      * rewrite zlen_app, Hpos. reflexivity.
    + intros j Hj. apply get_set_other. lia.
Qed.

Fixpoint writes (ds : list bytes) : list request :=
  match ds with [] => [] | d :: r => RWriteFile (zlen d) d :: writes r end.

(* any number of writes of any sizes (empty ones included): every one is acknowledged with its length, the file ends
   up holding exactly the concatenation, the tree and every other file are untouched *)
Theorem upload_exact c i : allow_write c = true -> forall ds w k content, uploading w k i content ->
  exists outs w' k',
    run c w k (writes ds) = (outs, false, w', close_conn k') /\
    map fst outs = map (fun d => be32 (wrap32 (zlen d))) ds /\
    uploading w' k' i (content ++ concat ds) /\
    tree w' = tree w /\ (forall j, j <> i -> get_inode (inodes w') j = get_inode (inodes w) j).
Proof.
  intros Ha. induction ds as [|d r IH]; intros w k content Hup; cbn [writes run concat map].
  - exists [], w, k. rewrite app_nil_r. repeat split; auto.
  - destruct (write_appends c w k i content (zlen d) d Ha Hup) as (Hc & Ho & Hup' & Ht & Hoth).
    rewrite Hc.
    destruct (IH _ _ _ Hup') as (outs & w' & k' & Hrun & Houts & Hup'' & Ht' & Hoth').
    rewrite Hrun. eexists _, w', k'. split; [reflexivity|]. cbn [map fst]. rewrite Ho, Houts.
    split; [reflexivity|]. split; [rewrite <- app_assoc in Hup''; exact Hup''|].
    split; [congruence|]. intros j Hj. rewrite Hoth', Hoth by exact Hj. reflexivity.
Qed.

Lemma fs_create_fresh tm pl w p w' i : fs_create tm pl w p = Ok (w', i) ->
  get_inode (inodes w') i = Some {| idata := []; imtime := tm |}.
Proof.
  unfold fs_create, bind. intros H.
  destruct (path_precheck pl p); [|discriminate].
  destruct (split_last p) as [[par e]|]; [|discriminate].
  destruct (walk (tree w) par) as [[ino|m cs]|]; try discriminate.
  destruct (name_max <? zlen e); [discriminate|].
  destruct (find_child cs e) as [[ino|m' cs']|].
  - injection H as <- <-. cbn [inodes]. apply get_set_same.
  - discriminate.
  - destruct (update (tree w) par _); [|discriminate]. injection H as <- <-. cbn [inodes]. apply get_set_same.
Qed.

(* create: when it leaves an upload open, the file is empty and the cursor at 0, whether the path was new or an
   existing file (truncated); when it answers with the failure code the world is untouched *)
Theorem create_starts_upload c w k p : allow_write c = true ->
  let o := step c w k (RCreateFile p) in
  o_close o = false /\
  (forall h, wo (o_conn o) = Some h -> exists i, uploading (o_world o) (o_conn o) i []) /\
  (o_out o = enc_result32 false -> o_world o = w).
Proof.
  intros Ha. cbn [step]. rewrite Ha. cbn [negb].
  set (k1 := match wo k with Some _ => set_wo k None 0 1 | None => k end).
  assert (Hk1 : wo k1 = None) by (subst k1; destruct (wo k) eqn:E; [reflexivity|exact E]).
  destruct (fs_stat (plen c) w (abs_path c (rooted_elems p))) as [[[|] sz mt]|e] eqn:Es;
    try (cbn [done o_close o_conn o_world o_out]; split; [reflexivity|]; split; [intros h Hh; congruence|reflexivity]).
  all: match goal with |- context [if ?b then Err EPERM else ?f] => destruct (if b then Err EPERM else f) as [[w' i]|e'] eqn:Er end;
    cbn [done o_close o_conn o_world o_out]; (split; [reflexivity|]); (split; [|try reflexivity]).
  all: try (intros h Hh; congruence).
  all: try (intros h Hh; exists i; eexists _, _; split; [reflexivity|]; cbn [hobj_ hpos]; split; [reflexivity|];
            match type of Er with (if ?b then _ else _) = _ => destruct b; [discriminate|] end;
            split; [eapply fs_create_fresh; exact Er|split; reflexivity]).
  all: try (intros Hout; exfalso; revert Hout; vm_compute; discriminate).
Qed.

(* delete / mkdir / rmdir never touch the content of any file, and a failure answer means nothing changed *)
Theorem structure_ops_frame c w k rq :
  (match rq with RDeleteFile _ | RRmdir _ | RMkdir _ => True | _ => False end) ->
  let o := step c w k rq in
  inodes (o_world o) = inodes w /\ o_close o = false /\ o_conn o = k /\ (o_out o = enc_result32 false -> o_world o = w).
Proof.
  intros Hrq. destruct rq; try contradiction; cbn [step].
  - destruct (is_nil (rooted_elems p)); [cbn; auto|]. destruct (negb (allow_write c)); [cbn; auto|].
    unfold fs_remove, bind.
    destruct (path_precheck (plen c) _); [|cbn; auto]. destruct (split_last _) as [[par e]|]; [|cbn; auto].
    destruct (walk (tree w) par) as [[ino|m cs]|]; try (cbn; auto; fail).
    destruct (name_max <? zlen e); [cbn; auto|].
    destruct (find_child cs e) as [[ino|m' [|c1 cr]]|]; try (cbn; auto; fail);
      (destruct (update (tree w) par _); cbn [done o_world o_close o_conn o_out inodes]; repeat split; auto;
       intros Hout; exfalso; revert Hout; vm_compute; discriminate).
  - destruct (negb (allow_write c)); [cbn; auto|].
    unfold fs_mkdir, bind.
    destruct (path_precheck (plen c) _); [|cbn; auto]. destruct (split_last _) as [[par e]|]; [|cbn; auto].
    destruct (walk (tree w) par) as [[ino|m cs]|]; try (cbn; auto; fail).
    destruct (name_max <? zlen e); [cbn; auto|].
    destruct (find_child cs e); [cbn; auto|].
    destruct (update (tree w) par _); cbn [done o_world o_close o_conn o_out inodes]; repeat split; auto.
    intros Hout; exfalso; revert Hout; vm_compute; discriminate.
  - destruct (is_nil (rooted_elems p)); [cbn; auto|]. destruct (negb (allow_write c)); [cbn; auto|].
    unfold fs_remove, bind.
    destruct (path_precheck (plen c) _); [|cbn; auto]. destruct (split_last _) as [[par e]|]; [|cbn; auto].
    destruct (walk (tree w) par) as [[ino|m cs]|]; try (cbn; auto; fail).
    destruct (name_max <? zlen e); [cbn; auto|].
    destruct (find_child cs e) as [[ino|m' [|c1 cr]]|]; try (cbn; auto; fail);
      (destruct (update (tree w) par _); cbn [done o_world o_close o_conn o_out inodes]; repeat split; auto;
       intros Hout; exfalso; revert Hout; vm_compute; discriminate).
Qed.
