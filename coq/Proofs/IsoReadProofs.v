(* Proofs/IsoReadProofs.v — VirtualISO.read returns exactly the slice of the flat image (C09). *)
From Coq Require Import ZifyBool ZifyNat.
From Verif Require Import Lib.Bytes Model.Fs Gen.Consts Model.IsoRead Spec.IsoReadSpec Proofs.ProtoProofs Proofs.SessionProofs Proofs.ReadProofs.

Ltac Zify.zify_post_hook ::= Z.div_mod_to_equations.

(* ---- ranges ---- *)
Lemma zrange_nat_app off a b : zrange_nat off (a + b) = zrange_nat off a ++ zrange_nat (off + Z.of_nat a) b.
Proof.
  revert off. induction a as [|a IH]; intros off; cbn [zrange_nat Nat.add app].
  - f_equal. lia.
  - f_equal. rewrite IH. f_equal. f_equal. lia.
Qed.

Lemma zrange_app off a b : 0 <= a -> 0 <= b -> zrange off (a + b) = zrange off a ++ zrange (off + a) b.
Proof.
  intros Ha Hb. unfold zrange. rewrite Z2Nat.inj_add by lia. rewrite zrange_nat_app. f_equal. f_equal. lia.
Qed.

Lemma zrange_nil off n : n <= 0 -> zrange off n = [].
Proof. intros H. unfold zrange. replace (Z.to_nat n) with O by lia. reflexivity. Qed.

Lemma zrange_nat_length off n : length (zrange_nat off n) = n.
Proof. revert off; induction n; intros; cbn [zrange_nat length]; auto. Qed.

Lemma zrange_length off n : zlen (zrange off n) = Z.max 0 n.
Proof. unfold zlen, zrange. rewrite zrange_nat_length. lia. Qed.

Lemma map_ext_zrange_nat (f g : Z -> Z) n : forall off,
  (forall i, off <= i < off + Z.of_nat n -> f i = g i) -> map f (zrange_nat off n) = map g (zrange_nat off n).
Proof.
  induction n as [|n IH]; intros off H; cbn [zrange_nat map]; [reflexivity|].
  f_equal; [apply H; lia|apply IH; intros i Hi; apply H; lia].
Qed.

Lemma map_ext_zrange (f g : Z -> Z) off n :
  (forall i, off <= i < off + n -> f i = g i) -> map f (zrange off n) = map g (zrange off n).
Proof. intros H. unfold zrange. apply map_ext_zrange_nat. intros i Hi. apply H. lia. Qed.

Lemma map_const_zrange_nat (f : Z -> Z) n : forall off,
  (forall i, off <= i < off + Z.of_nat n -> f i = 0) -> map f (zrange_nat off n) = repeat 0 n.
Proof.
  induction n as [|n IH]; intros off H; cbn [zrange_nat map repeat]; [reflexivity|].
  f_equal; [apply H; lia|apply IH; intros i Hi; apply H; lia].
Qed.

Lemma map_zero_zrange (f : Z -> Z) off n :
  (forall i, off <= i < off + n -> f i = 0) -> map f (zrange off n) = zeros n.
Proof.
  intros H. unfold zrange, zeros, repeatz. apply map_const_zrange_nat. intros i Hi. apply H. lia.
Qed.

Lemma zeros_length n : zlen (zeros n) = Z.max 0 n.
Proof. apply repeatz_length. Qed.

(* a slice of a list is the list's nth function mapped over a range *)
Lemma firstn_skipn_map (l : bytes) : forall off n, (off + n <= length l)%nat ->
  firstn n (skipn off l) = map (fun i => nth (Z.to_nat i) l 0) (zrange_nat (Z.of_nat off) n).
Proof.
  intros off n. revert off. induction n as [|n IH]; intros off H; cbn [zrange_nat map firstn]; [destruct (skipn off l); reflexivity|].
  destruct (skipn off l) as [|x r] eqn:E.
  - assert (length (skipn off l) = 0%nat) as L by (rewrite E; reflexivity). rewrite skipn_length in L. lia.
  - f_equal.
    + rewrite Nat2Z.id. rewrite <- (Nat.add_0_r off). rewrite <- nth_skipn_add. rewrite E. reflexivity.
    + assert (r = skipn (S off) l) as ->.
      { replace (S off) with (off + 1)%nat by lia. rewrite skipn_add, E. reflexivity. }
      rewrite IH by lia. f_equal. f_equal. lia.
Qed.

Lemma slice_as_map (l : bytes) off n : 0 <= off < zlen l -> 0 <= n ->
  slice l off n = map (fun i => nth (Z.to_nat i) l 0) (zrange off (Z.min n (zlen l - off))).
Proof.
  intros Ho Hn. unfold slice. replace ((off <? 0) || (zlen l <=? off)) with false by lia.
  unfold zrange. rewrite firstn_skipn_map by (unfold zlen in *; lia). f_equal. f_equal. lia.
Qed.

(* ---- sector arithmetic ---- *)
Lemma sector_size_val : sector_size = 2048.
Proof. reflexivity. Qed.

Lemma vpadded_bounds f : 0 <= vsize f -> vsize f <= vpadded f < vsize f + sector_size /\ (vsize f = 0 -> vpadded f = 0).
Proof.
  intros H. unfold vpadded, sectors. rewrite sector_size_val. split; [lia|]. intros ->. reflexivity.
Qed.

Lemma vpadded_pos f : 0 < vsize f -> 0 < vpadded f.
Proof. intros H. pose proof (vpadded_bounds f ltac:(lia)). lia. Qed.

(* ---- the file area ---- *)
Lemma files_end_ge fs : forall s, contiguous fs s -> s <= files_end fs s.
Proof.
  induction fs as [|f r IH]; intros s H; cbn [files_end contiguous] in *; [lia|].
  destruct H as (Hs & Hst & Hc). pose proof (vpadded_bounds f Hs). specialize (IH _ Hc). lia.
Qed.

Lemma files_at_before fs : forall s i, contiguous fs s -> i < s -> files_at fs i = 0.
Proof.
  induction fs as [|f r IH]; intros s i H Hi; cbn [files_at contiguous] in *; [reflexivity|].
  destruct H as (Hs & Hst & Hc). replace ((vstart f <=? i) && (i <? vstart f + vpadded f)) with false by lia.
  apply (IH (s + vpadded f)); auto. pose proof (vpadded_bounds f Hs). lia.
Qed.

Lemma files_at_after fs : forall s i, contiguous fs s -> files_end fs s <= i -> files_at fs i = 0.
Proof.
  induction fs as [|f r IH]; intros s i H Hi; cbn [files_at contiguous files_end] in *; [reflexivity|].
  destruct H as (Hs & Hst & Hc). pose proof (files_end_ge r _ Hc).
  replace ((vstart f <=? i) && (i <? vstart f + vpadded f)) with false by lia.
  apply (IH (s + vpadded f)); auto.
Qed.

Lemma data_part f r s : vstart f = s -> forall k off, s <= off -> vsize f <= vpadded f ->
  off - s + Z.of_nat k <= vsize f ->
  map (vdata f) (zrange_nat (off - s) k) = map (files_at (f :: r)) (zrange_nat off k).
Proof.
  intros Hst. induction k as [|k IHk]; intros off Hso Hpb Hk; cbn [zrange_nat map]; [reflexivity|].
  f_equal.
  - cbn [files_at]. rewrite Hst. replace ((s <=? off) && (off <? s + vpadded f)) with true by lia.
    replace (off - s <? vsize f) with true by lia. reflexivity.
  - replace (off - s + 1) with (off + 1 - s) by lia. apply IHk; lia.
Qed.

(* the loop: from a state where the consumer's and the iterator's counters coincide *)
Lemma read_files_ok fs : forall s off remain acc,
  contiguous fs s -> 0 < remain -> s <= off ->
  match fs with
  | [] => off = s
  | f :: _ => (vsize f = 0 -> off = s) /\ (0 < vsize f -> off < s + vpadded f)
  end ->
  let m := Z.min remain (files_end fs s - off) in
  read_files fs remain off off remain acc = Ok (acc ++ map (files_at fs) (zrange off m), off + m, remain - m).
Proof.
  induction fs as [|f r IH]; intros s off remain acc Hc Hr Hso Hhead; cbv zeta.
  - cbn [read_files files_end]. subst off. rewrite zrange_nil by lia. cbn [map]. rewrite app_nil_r.
    replace (Z.min remain (s - s)) with 0 by lia. match goal with |- Ok (?a, ?b, ?c) = Ok (?a', ?b', ?c') => replace b' with b by lia; replace c' with c by lia; reflexivity end.
  - cbn [contiguous files_end] in *. destruct Hc as (Hs & Hst & Hc). destruct Hhead as (He & Hne).
    pose proof (vpadded_bounds f Hs) as (Hpb & Hp0). pose proof (files_end_ge r _ Hc) as Hfe.
    cbn [read_files]. replace (remain <=? 0) with false by lia.
    destruct (vsize f =? 0) eqn:Ez.
    + (* empty file: skipped, nothing consumed *)
      assert (vsize f = 0) as Hz by lia. specialize (He Hz). specialize (Hp0 Hz). subst off.
      rewrite Hst, Hp0. replace (0 - (s - s)) with 0 by lia. rewrite !Z.sub_0_r, !Z.add_0_r.
      assert (contiguous r s) as Hc' by (rewrite Hp0, Z.add_0_r in Hc; exact Hc).
      rewrite (IH s s remain acc Hc' Hr ltac:(lia)).
      * rewrite (map_ext_zrange (files_at (f :: r)) (files_at r)); [reflexivity|].
        intros i Hi. cbn [files_at]. rewrite Hst, Hp0. replace ((s <=? i) && (i <? s + 0)) with false by lia. reflexivity.
      * destruct r as [|g r']; [reflexivity|]. cbn [contiguous] in Hc'. destruct Hc' as (Hgs & Hgst & _).
        split; [auto|]. intros Hg. pose proof (vpadded_pos g Hg). lia.
    + assert (0 < vsize f) as Hpos by lia. specialize (Hne Hpos).
      rewrite Hst. replace (off <? s) with false by lia. replace (s + vpadded f <=? off) with false by lia.
      set (pend := s + vpadded f) in *. set (fo := off - s).
      set (n := if fo <? vsize f then Z.min remain (vsize f - fo) else 0).
      set (z := if (off + n <? pend) && (0 <? remain - n) then Z.min (remain - n) (pend - (off + n)) else 0).
      assert (0 <= n) as Hn0 by (subst n fo; destruct (off - s <? vsize f) eqn:?; lia).
      assert (0 <= z) as Hz0 by (subst z; destruct ((off + n <? pend) && (0 <? remain - n)) eqn:?; lia).
      assert (n + z = Z.min remain (pend - off)) as Hnz.
      { subst z n fo pend. destruct (off - s <? vsize f) eqn:E1.
        - destruct ((off + Z.min remain (vsize f - (off - s)) <? s + vpadded f) && (0 <? remain - Z.min remain (vsize f - (off - s)))) eqn:E2; lia.
        - destruct ((off + 0 <? s + vpadded f) && (0 <? remain - 0)) eqn:E2; lia. }
      (* the data produced for this file *)
      assert (map (vdata f) (zrange fo n) ++ zeros z = map (files_at (f :: r)) (zrange off (n + z))) as Hdata.
      { rewrite zrange_app by lia. rewrite map_app. f_equal.
        - (* data part *)
          unfold zrange. subst n fo.
          destruct (off - s <? vsize f) eqn:E1; [|reflexivity].
          apply (data_part f r s Hst); lia.
        - (* zero part *)
          symmetry. apply map_zero_zrange. intros i Hi. cbn [files_at]. rewrite Hst.
          assert (s + vsize f <= off + n \/ z = 0) as [Hge|Hz].
          { subst z n fo pend. destruct (off - s <? vsize f) eqn:E1.
            - destruct ((off + Z.min remain (vsize f - (off - s)) <? s + vpadded f) && (0 <? remain - Z.min remain (vsize f - (off - s)))) eqn:E2; lia.
            - lia. }
          + replace ((s <=? i) && (i <? s + vpadded f)) with true by (subst pend; lia).
            replace (i - s <? vsize f) with false by lia. reflexivity.
          + lia. }
      rewrite Hdata.
      replace (vpadded f - fo) with (pend - off) by (subst pend fo; lia).
      destruct (Z_le_gt_dec remain (pend - off)) as [Hle|Hgt].
      * (* the buffer ends inside this file's sectors: the iterator stops *)
        assert (n + z = remain) as E by lia.
        replace (remain - n - z) with 0 by lia. replace (off + n + z) with (off + remain) by lia.
        assert (forall r0 a b c acc0, read_files r0 (remain - (pend - off)) a b c acc0 = Ok (acc0, b, c)) as Stop.
        { intros r0 a b c0 acc0. destruct r0; cbn [read_files]; [reflexivity|]. replace (remain - (pend - off) <=? 0) with true by lia. reflexivity. }
        rewrite Stop. rewrite E.
        replace (Z.min remain (files_end r pend - off)) with remain by (subst pend; lia).
        match goal with |- Ok (?a, ?b, ?c) = Ok (?a', ?b', ?c') => replace b' with b by lia; replace c' with c by lia; reflexivity end.
      * (* continue with the next file at its first byte *)
        assert (n + z = pend - off) as E by lia.
        replace (off + n + z) with pend by lia. replace (remain - n - z) with (remain - (pend - off)) by lia.
        replace (off + (pend - off)) with pend by lia.
        rewrite (IH pend pend (remain - (pend - off)) _ Hc ltac:(lia) ltac:(lia)).
        -- rewrite <- app_assoc. rewrite E.
           set (m2 := Z.min (remain - (pend - off)) (files_end r pend - pend)).
           assert (0 <= m2) by (subst m2; lia).
           replace (Z.min remain (files_end r pend - off)) with ((pend - off) + m2) by (subst m2 pend; lia).
           rewrite (zrange_app off (pend - off) m2) by lia. rewrite map_app.
           replace (off + (pend - off)) with pend by lia.
           rewrite (map_ext_zrange (files_at (f :: r)) (files_at r) pend m2).
           2:{ intros i Hi. cbn [files_at]. rewrite Hst. replace ((s <=? i) && (i <? s + vpadded f)) with false by (subst pend; lia). reflexivity. }
           match goal with |- Ok (?a, ?b, ?c) = Ok (?a', ?b', ?c') => replace b' with b by lia; replace c' with c by lia; reflexivity end.
        -- destruct r as [|g r']; [reflexivity|]. cbn [contiguous] in Hc. destruct Hc as (Hgs & Hgst & _).
           split; [auto|]. intros Hg. pose proof (vpadded_pos g Hg). lia.
Qed.

(* the binary search lands on the file whose sectors cover the offset *)
Lemma bsearch_ok fs : forall s off, contiguous fs s -> s <= off < files_end fs s ->
  exists suffix s', bsearch fs (off / sector_size) = Some suffix /\ contiguous suffix s' /\ s <= s' /\ s' <= off /\
    files_end suffix s' = files_end fs s /\
    (forall i, s' <= i -> files_at fs i = files_at suffix i) /\
    match suffix with [] => False | f :: _ => 0 < vsize f /\ off < s' + vpadded f end.
Proof.
  induction fs as [|f r IH]; intros s off Hc Ho; cbn [contiguous files_end bsearch] in *; [lia|].
  destruct Hc as (Hs & Hst & Hc). pose proof (vpadded_bounds f Hs) as (Hpb & Hp0).
  assert (vlba f * sector_size = s) as Hl by exact Hst.
  assert (vpadded f = sectors (vsize f) * sector_size) as Hpd by reflexivity.
  rewrite sector_size_val in *.
  destruct (off / 2048 <? vlba f + sectors (vsize f)) eqn:E1.
  - replace (vlba f <=? off / 2048) with true by lia.
    exists (f :: r), s. cbn [contiguous files_end]. repeat split; auto; try lia.
  - destruct (IH (s + vpadded f) off Hc ltac:(lia)) as (suffix & s' & B1 & B2 & B3 & B4 & B5 & B6 & B7).
    exists suffix, s'. repeat split; auto; try lia.
    intros i Hi. cbn [files_at]. rewrite <- B6 by auto.
    rewrite Hst. replace ((s <=? i) && (i <? s + vpadded f)) with false by lia. reflexivity.
Qed.

(* ---- the whole read ---- *)
Theorem iso_read_ok img off len : layout_wf img -> 0 <= off -> 0 <= len ->
  iso_read img off len = ref_read img off len.
Proof.
  intros [Hc Hps Hpz Ht] Ho Hl. unfold iso_read, ref_read.
  destruct ((total img <=? off) || (len =? 0)) eqn:E0; [reflexivity|].
  set (fl := zlen (fsbuf img)) in *.
  pose proof (files_end_ge _ _ Hc) as Hfe. rewrite <- Hps in Hfe.
  pose proof (zlen_nonneg (fsbuf img)) as Hfl0. fold fl in Hfl0.
  (* zone 1 *)
  set (a := if off <? fl then Z.min len (fl - off) else 0).
  assert (0 <= a) as Ha0 by (subst a; destruct (off <? fl) eqn:?; lia).
  assert ((if off <? fl then slice (fsbuf img) off len else []) = map (flat_at img) (zrange off a)) as D1.
  { subst a. destruct (off <? fl) eqn:E1.
    - rewrite slice_as_map by (fold fl; lia). fold fl.
      apply map_ext_zrange. intros i Hi. unfold flat_at. fold fl. replace (i <? fl) with true by lia. reflexivity.
    - reflexivity. }
  rewrite D1. clear D1.
  assert (zlen (map (flat_at img) (zrange off a)) = a) as La
    by (unfold zlen; rewrite map_length; fold (zlen (zrange off a)); rewrite zrange_length; lia).
  rewrite La.
  set (off1 := off + a). set (rem1 := len - a).
  assert (0 <= rem1) as Hr1 by (subst rem1 a; destruct (off <? fl) eqn:?; lia).
  assert (rem1 = 0 \/ fl <= off1) as Hz1 by (subst rem1 off1 a; destruct (off <? fl) eqn:?; lia).
  destruct ((total img <=? off1) || (rem1 =? 0)) eqn:E1.
  { f_equal. f_equal. f_equal. subst off1 rem1 a. destruct (off <? fl) eqn:?; lia. }
  assert (fl <= off1) as Hf1 by lia.
  (* zone 2 *)
  set (m := if off1 <? pad_start img then Z.min rem1 (pad_start img - off1) else 0).
  assert (0 <= m) as Hm0 by (subst m; destruct (off1 <? pad_start img) eqn:?; lia).
  assert ((if off1 <? pad_start img
           then match bsearch (vfiles img) (off1 / sector_size) with
                | Some suffix => read_files suffix rem1 off1 off1 rem1 []
                | None => Ok ([], off1, rem1)
                end
           else Ok ([], off1, rem1)) = Ok (map (flat_at img) (zrange off1 m), off1 + m, rem1 - m)) as D2.
  { subst m. destruct (off1 <? pad_start img) eqn:E2.
    - destruct (bsearch_ok (vfiles img) fl off1 Hc ltac:(lia)) as (suffix & s' & B1 & B2 & B3 & B4 & B5 & B6 & B7).
      rewrite B1. destruct suffix as [|g suffix']; [contradiction|].
      rewrite (read_files_ok (g :: suffix') s' off1 rem1 [] B2 ltac:(lia) B4).
      + cbn [app]. rewrite B5, <- Hps.
        rewrite (map_ext_zrange (files_at (g :: suffix')) (flat_at img)); [reflexivity|].
        intros i Hi. unfold flat_at. fold fl. replace (i <? fl) with false by lia.
        replace (i <? pad_start img) with true by lia. symmetry. apply B6. lia.
      + destruct B7 as (B7a & B7b). split; [lia|auto].
    - rewrite zrange_nil by lia. cbn [map]. repeat f_equal; lia. }
  rewrite D2. clear D2. cbn [bind].
  set (off2 := off1 + m). set (rem2 := rem1 - m).
  (* zone 3 *)
  set (p := if (pad_start img <=? off2) && (off2 <? total img) then Z.min (total img - off2) rem2 else 0).
  assert ((if (pad_start img <=? off2) && (off2 <? total img)
           then if pad_size img - (off2 - pad_start img) =? 0 then [] else zeros (Z.min (pad_size img - (off2 - pad_start img)) rem2)
           else []) = map (flat_at img) (zrange off2 p)) as D3.
  { subst p. destruct ((pad_start img <=? off2) && (off2 <? total img)) eqn:E3.
    - replace (pad_size img - (off2 - pad_start img)) with (total img - off2) by lia.
      replace (total img - off2 =? 0) with false by lia.
      symmetry. apply map_zero_zrange. intros i Hi. unfold flat_at. fold fl.
      replace (i <? fl) with false by lia. replace (i <? pad_start img) with false by lia. reflexivity.
    - rewrite zrange_nil by lia. reflexivity. }
  rewrite D3. clear D3.
  f_equal. rewrite <- !map_app. f_equal.
  assert (m <= rem1) as Hm1 by (subst m; destruct (off1 <? pad_start img) eqn:?; lia).
  assert (0 <= p) as Hp0 by (subst p; destruct ((pad_start img <=? off2) && (off2 <? total img)) eqn:?; unfold rem2 in *; lia).
  replace (Z.min len (total img - off)) with (a + (m + p)).
  - rewrite (zrange_app off a (m + p)) by lia. fold off1.
    rewrite (zrange_app off1 m p) by lia. reflexivity.
  - subst p off2 rem2 m off1 rem1 a.
    destruct (off <? fl) eqn:Ea; destruct (off + _ <? pad_start img) eqn:Eb;
      match goal with |- context [(pad_start img <=? ?x) && (?x <? total img)] => destruct ((pad_start img <=? x) && (x <? total img)) eqn:Ec end;
      lia.
Qed.

(* ---- cursor semantics: any history of Read / Seek / ReadAt ---- *)
Lemma iso_step_ok img cur op : layout_wf img -> 0 <= cur -> op_ok op ->
  iso_step img cur op = ref_step img cur op /\ 0 <= snd (iso_step img cur op).
Proof.
  intros W Hc Hop. destruct op as [n|off wh|n off]; cbn [iso_step ref_step op_ok] in *.
  - rewrite iso_read_ok by (auto; lia). split; [reflexivity|].
    destruct (ref_read img cur n) as [d|[]]; cbn [snd]; try lia. pose proof (zlen_nonneg d). lia.
  - split; [reflexivity|].
    destruct (wh =? 0); [|destruct (wh =? 1); [|destruct (wh =? 2)]];
      try (cbn [snd]; lia);
      match goal with |- context [(?t <? 0) || (total img <? ?t)] => destruct ((t <? 0) || (total img <? t)) eqn:E end; cbn [snd]; lia.
  - destruct Hop. rewrite iso_read_ok by (auto; lia). split; [reflexivity|].
    destruct (ref_read img off n) as [d|[]]; cbn [snd]; lia.
Qed.

Theorem iso_run_ok img : layout_wf img -> forall ops cur, 0 <= cur -> Forall op_ok ops ->
  iso_run img cur ops = ref_run img cur ops.
Proof.
  intros W. induction ops as [|op r IH]; intros cur Hc Hops; cbn [iso_run ref_run]; [reflexivity|].
  inversion Hops; subst. destruct (iso_step_ok img cur op W Hc H1) as [E Hn]. rewrite E in *.
  destruct (ref_step img cur op) as [o cur']. cbn [snd] in Hn. rewrite IH by auto. reflexivity.
Qed.

(* progress: a read below the end always returns at least one byte, and exactly min(n, total - cur) *)
Lemma ref_read_length img off len d : ref_read img off len = Ok d -> 0 <= off -> 0 <= len ->
  zlen d = Z.min len (total img - off) /\ 0 < zlen d.
Proof.
  unfold ref_read. destruct ((total img <=? off) || (len =? 0)) eqn:E; [discriminate|].
  intros H Ho Hl; inversion H; subst.
  assert (zlen (map (flat_at img) (zrange off (Z.min len (total img - off)))) = Z.max 0 (Z.min len (total img - off))) as L
    by (unfold zlen; rewrite map_length; fold (zlen (zrange off (Z.min len (total img - off)))); apply zrange_length).
  rewrite L. lia.
Qed.
