(* Proofs/PathProofs.v — what rootedPath (Clean("/" + p)) guarantees for every byte string. *)
From Verif Require Import Lib.Bytes Model.Path.

Lemma split_aux_noslash p : forall cur,
  Forall (fun c => (c =? slash) = false) cur ->
  Forall (fun e => Forall (fun c => (c =? slash) = false) e) (split_slash_aux p cur).
Proof.
  induction p as [|c r IH]; intros cur Hc; cbn [split_slash_aux].
  - constructor; [|constructor]. apply Forall_rev. exact Hc.
  - destruct (c =? slash) eqn:E.
    + constructor; [apply Forall_rev; exact Hc|]. apply IH. constructor.
    + apply IH. constructor; auto.
Qed.

Lemma split_noslash p : Forall (fun e => Forall (fun c => (c =? slash) = false) e) (split_slash p).
Proof. apply split_aux_noslash. constructor. Qed.

Lemma real_elem_intro e :
  is_empty e = false -> is_dot e = false -> is_dotdot e = false ->
  Forall (fun c => (c =? slash) = false) e -> real_elem e = true.
Proof.
  intros H1 H2 H3 H4. unfold real_elem. rewrite H1, H2, H3. cbn [negb andb].
  apply forallb_forall. intros c Hc. rewrite Forall_forall in H4. rewrite (H4 c Hc). reflexivity.
Qed.

Lemma clean_step_real st e :
  Forall (fun x => real_elem x = true) st -> Forall (fun c => (c =? slash) = false) e ->
  Forall (fun x => real_elem x = true) (clean_step st e).
Proof.
  intros Hst He. unfold clean_step.
  destruct (is_empty e) eqn:E1; cbn [orb]; [exact Hst|].
  destruct (is_dot e) eqn:E2; [exact Hst|].
  destruct (is_dotdot e) eqn:E3.
  - destruct st; cbn [tl]; [constructor|]. inversion Hst; auto.
  - constructor; [apply real_elem_intro; auto|exact Hst].
Qed.

Lemma fold_clean_real es : forall st,
  Forall (fun x => real_elem x = true) st ->
  Forall (fun e => Forall (fun c => (c =? slash) = false) e) es ->
  Forall (fun x => real_elem x = true) (fold_left clean_step es st).
Proof.
  induction es as [|e r IH]; intros st Hst Hes; cbn [fold_left]; [exact Hst|].
  inversion Hes; subst. apply IH; [apply clean_step_real; auto|auto].
Qed.

(* every element of a path taken from the wire names a directory entry: no "", ".", "..", no '/' *)
Theorem rooted_elems_real p : Forall (fun x => real_elem x = true) (rooted_elems p).
Proof.
  unfold rooted_elems. apply Forall_rev. apply fold_clean_real; [constructor|apply split_noslash].
Qed.

(* a list of real elements is its own cleaning: Clean is idempotent on what rootedPath returns *)
Lemma split_aux_app_noslash e : forall cur r,
  Forall (fun c => (c =? slash) = false) e ->
  split_slash_aux (e ++ r) cur = split_slash_aux r (rev e ++ cur).
Proof.
  induction e as [|c e IH]; intros cur r H; cbn [app split_slash_aux rev]; [reflexivity|].
  inversion H as [|? ? Hc He]; subst. rewrite Hc. rewrite IH by auto.
  rewrite <- app_assoc. reflexivity.
Qed.

Lemma real_elem_parts e : real_elem e = true ->
  is_empty e = false /\ is_dot e = false /\ is_dotdot e = false /\ Forall (fun c => (c =? slash) = false) e.
Proof.
  unfold real_elem. intro H.
  apply andb_true_iff in H as [H H4]. apply andb_true_iff in H as [H H3]. apply andb_true_iff in H as [H1 H2].
  repeat split.
  - destruct (is_empty e); [discriminate|reflexivity].
  - destruct (is_dot e); [discriminate|reflexivity].
  - destruct (is_dotdot e); [discriminate|reflexivity].
  - apply Forall_forall. intros c Hc. rewrite forallb_forall in H4. specialize (H4 c Hc).
    destruct (c =? slash); [discriminate|reflexivity].
Qed.

Lemma split_join es : forall cur,
  Forall (fun x => real_elem x = true) es ->
  split_slash_aux (join_slash es) cur = match es with [] => [rev cur] | _ => rev cur :: es end.
Proof.
  induction es as [|e r IH]; intros cur H; cbn [join_slash split_slash_aux]; [reflexivity|].
  inversion H as [|? ? He Hr]; subst.
  unfold slash at 1. change (47 =? slash) with true. cbv iota.
  destruct (real_elem_parts e He) as (_ & _ & _ & Hns).
  rewrite split_aux_app_noslash by auto. rewrite app_nil_r.
  rewrite IH by auto. rewrite rev_involutive.
  destruct r; reflexivity.
Qed.

Lemma fold_clean_real_id es : forall st,
  Forall (fun x => real_elem x = true) es ->
  fold_left clean_step es st = rev es ++ st.
Proof.
  induction es as [|e r IH]; intros st H; cbn [fold_left rev app]; [reflexivity|].
  inversion H as [|? ? He Hr]; subst. rewrite IH by auto.
  destruct (real_elem_parts e He) as (E1 & E2 & E3 & _).
  unfold clean_step. rewrite E1, E2, E3. cbn [orb]. rewrite <- app_assoc. reflexivity.
Qed.

Theorem rooted_elems_render es :
  Forall (fun x => real_elem x = true) es -> rooted_elems (render es) = es.
Proof.
  intros H. unfold rooted_elems, render, split_slash.
  destruct es as [|e r].
  - cbn. reflexivity.
  - rewrite split_join by auto. cbn [rev].
    change (fold_left clean_step ([] :: e :: r) []) with (fold_left clean_step (e :: r) []).
    rewrite fold_clean_real_id by auto. rewrite app_nil_r. apply rev_involutive.
Qed.

Corollary rooted_elems_idem p : rooted_elems (render (rooted_elems p)) = rooted_elems p.
Proof. apply rooted_elems_render, rooted_elems_real. Qed.
