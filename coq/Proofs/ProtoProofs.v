(* Proofs/ProtoProofs.v — parse_request inverts the documented wire format and consumes
   exactly the bytes of one request. *)
From Coq Require Import ZifyBool ZifyNat.
From Verif Require Import Lib.Bytes Model.Path Model.Fs Model.Session Gen.Consts Spec.ProtoSpec.

Ltac Zify.zify_post_hook ::= Z.div_mod_to_equations.

Lemma val_be_enc n v : val (be_enc n v) = v mod 256 ^ Z.of_nat n.
Proof.
  induction n as [|k IH]; cbn [be_enc val].
  - change (256 ^ Z.of_nat 0) with 1. rewrite Z.mod_1_r. reflexivity.
  - rewrite IH. unfold zlen. rewrite be_enc_length.
    rewrite Nat2Z.inj_succ, Z.pow_succ_r by lia.
    assert (0 < 256 ^ Z.of_nat k) by (apply pow256_pos; lia).
    rewrite (Z.mul_comm 256). rewrite Z.rem_mul_r by lia. ring.
Qed.

Lemma be_dec_enc n v : 0 <= v < 256 ^ Z.of_nat n -> be_dec (be_enc n v) = v.
Proof. intros H. unfold be_dec. rewrite val_be_enc. apply Z.mod_small. exact H. Qed.

Lemma firstn_app_exact {A} (a b : list A) n : length a = n -> firstn n (a ++ b) = a.
Proof. intros <-. rewrite firstn_app, Nat.sub_diag, firstn_all. cbn. apply app_nil_r. Qed.

Lemma skipn_app_exact {A} (a b : list A) n : length a = n -> skipn n (a ++ b) = b.
Proof. intros <-. rewrite skipn_app, Nat.sub_diag, skipn_all. reflexivity. Qed.

Lemma skipn_add {A} (l : list A) : forall a b, skipn (a + b) l = skipn b (skipn a l).
Proof.
  induction l as [|x l IH]; intros a b.
  - rewrite !skipn_nil. reflexivity.
  - destruct a; cbn [Nat.add skipn]; [reflexivity|apply IH].
Qed.

(* the generic shape: opcode, 14 data bytes, the rest *)
Lemma parse_split op D tail :
  length D = 14%nat ->
  zlen (be16 op ++ D ++ tail) <? 16 = false /\
  firstn 2 (be16 op ++ D ++ tail) = be16 op /\
  firstn 14 (skipn 2 (be16 op ++ D ++ tail)) = D /\
  skipn 16 (be16 op ++ D ++ tail) = tail.
Proof.
  intros HD.
  assert (length (be16 op) = 2%nat) as H2 by apply be_enc_length.
  split; [|split; [|split]].
  - unfold zlen. rewrite !app_length, H2, HD. lia.
  - apply firstn_app_exact; auto.
  - rewrite skipn_app_exact by auto. apply firstn_app_exact; auto.
  - change 16%nat with (2 + 14)%nat. rewrite skipn_add.
    rewrite skipn_app_exact by auto. apply skipn_app_exact; auto.
Qed.

Lemma opcode_dec op : 0 <= op < 2 ^ 16 -> be_dec (be16 op) = op.
Proof. intros. unfold be16. apply be_dec_enc. change (256 ^ Z.of_nat 2) with (2 ^ 16). lia. Qed.

Lemma take_path_ok p junk12 tail mk :
  zlen p < 2 ^ 16 -> length junk12 = 12%nat ->
  take_path (be16 (zlen p) ++ junk12) (p ++ tail) mk = PReq (mk p) tail.
Proof.
  intros Hp Hj. unfold take_path.
  rewrite firstn_app_exact by apply be_enc_length.
  rewrite opcode_dec by (pose proof (zlen_nonneg p); lia).
  rewrite zlen_app. replace (zlen p + zlen tail <? zlen p) with false by (pose proof (zlen_nonneg tail); lia).
  unfold zlen. rewrite Nat2Z.id. rewrite firstn_app_exact, skipn_app_exact by reflexivity. reflexivity.
Qed.

(* evaluate the opcode dispatch chain on a concrete opcode *)
Ltac eval_eqb :=
  repeat match goal with
         | |- context [?a =? ?b] =>
             let v := eval vm_compute in (a =? b) in
             match v with true => idtac | false => idtac end;
             change (a =? b) with v
         end; cbv iota.

Ltac start op D tail :=
  let P1 := fresh "P1" in let P2 := fresh "P2" in let P3 := fresh "P3" in let P4 := fresh "P4" in
  destruct (parse_split op D tail) as (P1 & P2 & P3 & P4);
  [ 
  | unfold parse_request; rewrite P1, P2, P3, P4; cbv zeta;
    rewrite opcode_dec by (vm_compute; split; [discriminate|reflexivity]); eval_eqb ].

Section Parse.
  Variable junk : bytes.
  Hypothesis Hj : wf_junk junk.

  Lemma J12 : length (firstn 12 junk) = 12%nat.
  Proof. destruct Hj as [H _]. rewrite firstn_length. lia. Qed.
  Lemma J14 : length (firstn 14 junk) = 14%nat.
  Proof. destruct Hj as [H _]. rewrite firstn_length. lia. Qed.
  Lemma J2 : length (firstn 2 junk) = 2%nat.
  Proof. destruct Hj as [H _]. rewrite firstn_length. lia. Qed.
  Lemma J4 : length (firstn 4 (skipn 2 junk)) = 4%nat.
  Proof. destruct Hj as [H _]. rewrite firstn_length, skipn_length. lia. Qed.
  Lemma J8 : length (firstn 8 (skipn 2 junk)) = 8%nat.
  Proof. destruct Hj as [H _]. rewrite firstn_length, skipn_length. lia. Qed.

  Lemma data_len_path (p : bytes) : length (be16 (zlen p) ++ firstn 12 junk) = 14%nat.
  Proof. unfold be16. rewrite app_length, be_enc_length, J12. reflexivity. Qed.

  Ltac len14 := rewrite ?app_length; unfold be16, be32, be64; rewrite ?be_enc_length, ?J2, ?J4, ?J8, ?J12, ?J14; reflexivity.

  Ltac path_case op p rest :=
    replace (path_cmd op p junk ++ rest) with (be16 op ++ (be16 (zlen p) ++ firstn 12 junk) ++ (p ++ rest))
      by (unfold path_cmd; rewrite <- !app_assoc; reflexivity);
    start op (be16 (zlen p) ++ firstn 12 junk) (p ++ rest);
    [ apply data_len_path | apply take_path_ok; [tauto | apply J12] ].

  Lemma u32_at2 (a : bytes) n t : length a = 2%nat -> 0 <= n < 2 ^ 32 ->
    be_dec (firstn 4 (skipn 2 (a ++ be32 n ++ t))) = n.
  Proof.
    intros Ha Hn. rewrite skipn_app_exact by auto. rewrite firstn_app_exact by apply be_enc_length.
    unfold be32. apply be_dec_enc. change (256 ^ Z.of_nat 4) with (2 ^ 32). lia.
  Qed.

  Lemma u64_at6 (a : bytes) n v t : length a = 2%nat -> 0 <= v < 2 ^ 64 ->
    be_dec (firstn 8 (skipn 6 (a ++ be32 n ++ be64 v ++ t))) = v.
  Proof.
    intros Ha Hv. change 6%nat with (2 + 4)%nat. rewrite skipn_add.
    rewrite skipn_app_exact by auto. rewrite skipn_app_exact by apply be_enc_length.
    rewrite firstn_app_exact by apply be_enc_length.
    unfold be64. apply be_dec_enc. change (256 ^ Z.of_nat 8) with (2 ^ 64). lia.
  Qed.

  Lemma u32_at6 (a : bytes) n v t : length a = 2%nat -> 0 <= v < 2 ^ 32 ->
    be_dec (firstn 4 (skipn 6 (a ++ be32 n ++ be32 v ++ t))) = v.
  Proof.
    intros Ha Hv. change 6%nat with (2 + 4)%nat. rewrite skipn_add.
    rewrite skipn_app_exact by auto. rewrite skipn_app_exact by apply be_enc_length.
    rewrite firstn_app_exact by apply be_enc_length.
    unfold be32. apply be_dec_enc. change (256 ^ Z.of_nat 4) with (2 ^ 32). lia.
  Qed.

  Theorem parse_wire rq rest :
    wf_request rq -> parse_request (wire rq junk ++ rest) = PReq rq rest.
  Proof.
    intros Hwf. destruct rq; cbn [wire wf_request] in *.
    - path_case op_open_file p rest.
    - (* READ_FILE_CRITICAL *)
      replace ((be16 op_read_file_critical ++ firstn 2 junk ++ be32 n ++ be64 off) ++ rest)
        with (be16 op_read_file_critical ++ (firstn 2 junk ++ be32 n ++ be64 off ++ []) ++ rest)
        by (rewrite <- !app_assoc; reflexivity).
      start op_read_file_critical (firstn 2 junk ++ be32 n ++ be64 off ++ []) rest.
      + len14.
      + rewrite u32_at2, u64_at6 by (try apply J2; tauto). reflexivity.
    - (* READ_CD *)
      replace ((be16 op_read_cd_2048 ++ firstn 2 junk ++ be32 start ++ be32 cnt ++ firstn 4 (skipn 2 junk)) ++ rest)
        with (be16 op_read_cd_2048 ++ (firstn 2 junk ++ be32 start ++ be32 cnt ++ firstn 4 (skipn 2 junk)) ++ rest)
        by (rewrite <- !app_assoc; reflexivity).
      start op_read_cd_2048 (firstn 2 junk ++ be32 start ++ be32 cnt ++ firstn 4 (skipn 2 junk)) rest.
      + len14.
      + rewrite u32_at2, u32_at6 by (try apply J2; tauto). reflexivity.
    - (* READ_FILE *)
      replace ((be16 op_read_file ++ firstn 2 junk ++ be32 n ++ be64 off) ++ rest)
        with (be16 op_read_file ++ (firstn 2 junk ++ be32 n ++ be64 off ++ []) ++ rest)
        by (rewrite <- !app_assoc; reflexivity).
      start op_read_file (firstn 2 junk ++ be32 n ++ be64 off ++ []) rest.
      + len14.
      + rewrite u32_at2, u64_at6 by (try apply J2; tauto). reflexivity.
    - path_case op_create_file p rest.
    - (* WRITE_FILE *)
      destruct Hwf as (Hn & Hd & _).
      replace ((be16 op_write_file ++ firstn 2 junk ++ be32 n ++ firstn 8 (skipn 2 junk) ++ payload) ++ rest)
        with (be16 op_write_file ++ (firstn 2 junk ++ be32 n ++ firstn 8 (skipn 2 junk)) ++ (payload ++ rest))
        by (rewrite <- !app_assoc; reflexivity).
      start op_write_file (firstn 2 junk ++ be32 n ++ firstn 8 (skipn 2 junk)) (payload ++ rest).
      + len14.
      + rewrite u32_at2 by (try apply J2; tauto).
        rewrite zlen_app. replace (Z.min n (zlen payload + zlen rest)) with (zlen payload)
          by (pose proof (zlen_nonneg rest); lia).
        unfold zlen. rewrite Nat2Z.id. rewrite firstn_app_exact, skipn_app_exact by reflexivity. reflexivity.
    - path_case op_open_dir p rest.
    - replace (bare_cmd op_read_dir_entry junk ++ rest) with (be16 op_read_dir_entry ++ firstn 14 junk ++ rest)
        by (unfold bare_cmd; rewrite <- !app_assoc; reflexivity).
      start op_read_dir_entry (firstn 14 junk) rest; [apply J14|reflexivity].
    - path_case op_delete_file p rest.
    - path_case op_mkdir p rest.
    - path_case op_rmdir p rest.
    - replace (bare_cmd op_read_dir_entry_v2 junk ++ rest) with (be16 op_read_dir_entry_v2 ++ firstn 14 junk ++ rest)
        by (unfold bare_cmd; rewrite <- !app_assoc; reflexivity).
      start op_read_dir_entry_v2 (firstn 14 junk) rest; [apply J14|reflexivity].
    - path_case op_stat_file p rest.
    - path_case op_get_dir_size p rest.
    - replace (bare_cmd op_read_dir junk ++ rest) with (be16 op_read_dir ++ firstn 14 junk ++ rest)
        by (unfold bare_cmd; rewrite <- !app_assoc; reflexivity).
      start op_read_dir (firstn 14 junk) rest; [apply J14|reflexivity].
  Qed.
End Parse.
