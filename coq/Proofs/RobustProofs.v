(* Proofs/RobustProofs.v — C04: every input has an outcome that is a reply, an error or the end of that one
   connection.  The models are total functions whose error outcomes are explicit; what is proved here is
   that the places where the Go code would panic or allocate without bound are never reached:
   the connection loop consumes any byte stream in a bounded number of steps, the fixed-width encoders of the
   image builder never receive a value wider than their field, the region table of an accepted image is
   bounded by one sector. *)
From Coq Require Import ZifyBool ZifyNat.
From Verif Require Import Lib.Bytes Model.Path Model.Fs Model.Session Gen.Consts Model.IsoRead Model.Crypt Model.IsoBuild
  Spec.IsoReadSpec Proofs.ProtoProofs Proofs.SessionProofs Proofs.IsoBuildProofs.

Ltac Zify.zify_post_hook ::= Z.div_mod_to_equations.

(* ---------- the connection loop ---------- *)
Lemma parse_consumes input rq rest : parse_request input = PReq rq rest -> (length rest + 16 <= length input)%nat.
Proof.
  unfold parse_request. intros H. destruct (zlen input <? 16) eqn:E; [discriminate|].
  assert (L : (length (skipn 16 input) + 16 = length input)%nat) by (clear H; rewrite skipn_length; unfold zlen in E; lia).
  remember (skipn 16 input) as tl eqn:Etl. clear Etl.
  repeat match type of H with (if ?b then _ else _) = _ => destruct b end; try discriminate;
    try (unfold take_path in H; match type of H with (if ?b then _ else _) = _ => destruct b end; [discriminate|]);
    injection H as <- <-; rewrite ?skipn_length; lia.
Qed.

(* any stream, any content: once the fuel exceeds length/16 the result no longer depends on it - the loop
   always reaches the end of the stream or the closing of the connection *)
Theorem serve_fuel_enough c : forall f1 f2 w k input,
  (length input / 16 < f1)%nat -> (length input / 16 < f2)%nat -> serve f1 c w k input = serve f2 c w k input.
Proof.
  induction f1 as [|f1 IH]; intros f2 w k input H1 H2; [lia|].
  destruct f2 as [|f2]; [lia|]. cbn [serve].
  destruct (parse_request input) as [rq rest| |] eqn:P; try reflexivity.
  destruct (o_close (step c w k rq)); [reflexivity|].
  pose proof (parse_consumes _ _ _ P) as Hc.
  assert (length rest / 16 < length input / 16)%nat.
  { apply Nat.div_lt_upper_bound; [lia|]. pose proof (Nat.div_mod (length input) 16 ltac:(lia)).
    pose proof (Nat.mod_upper_bound (length input) 16 ltac:(lia)). lia. }
  rewrite (IH f2) by lia. reflexivity.
Qed.

(* ---------- the image builder ---------- *)
Lemma build_dirs_errors ds j : forall todo b e, build_dirs ds j todo b = Err e -> e = ENAMETOOLONG.
Proof.
  induction todo as [|d r IH]; intros b e H; cbn [build_dirs] in H; [discriminate|].
  unfold bind in H. destruct (make_dir_entries ds j b d) as [b1|e1] eqn:E1.
  - eapply IH; eauto.
  - injection H as <-. unfold make_dir_entries in E1.
    repeat match type of E1 with context [if ?b then _ else _] => destruct b end; try discriminate.
    + injection E1 as <-. reflexivity.
    + destruct (parent_index ds d); discriminate.
Qed.

(* image creation fails only in the three documented ways *)
Theorem build_image_errors root v ps3 gc now rnd e : build_image root v ps3 gc now rnd = Err e ->
  e = ENOTDIR \/ e = EINVAL \/ e = ENAMETOOLONG.
Proof.
  unfold build_image. intros H. destruct root as [n sz t|n t items]; [injection H as <-; auto|].
  destruct (ps3 && ((zlen gc <? 4) || (31 <? zlen gc))); [injection H as <-; auto|].
  destruct (scan_loop _ _ _) as [ds fsec]. unfold bind in H.
  destruct (build_dirs ds false ds []) as [b_iso|e1] eqn:Ei.
  - destruct (build_dirs ds true ds []) as [b_jol|e2] eqn:Ej; [discriminate|].
    injection H as <-. right. right. eapply build_dirs_errors; eauto.
  - injection H as <-. right. right. eapply build_dirs_errors; eauto.
Qed.

(* when it succeeds, every value handed to a fixed-width encoder fits its field: directory records (length byte,
   identifier length byte), path-table identifiers, the root records inside the descriptors, the product code *)
Theorem builder_fields_fit root v ps3 gc now rnd bi : build_image root v ps3 gc now rnd = Ok bi ->
  exists ds fsec b_iso b_jol,
    scan_loop (snode_count root) [([], root)] 0 = (ds, fsec) /\
    Forall dir_ok b_iso /\ Forall dir_ok b_jol /\
    Forall pt_short (make_path_table ds false ds b_iso 0) /\ Forall pt_short (make_path_table ds true ds b_jol 0) /\
    (forall a c, zlen (root_record (map (map (fix_entry a c)) b_iso)) <= 34 /\ zlen (root_record (map (map (fix_entry a c)) b_jol)) <= 34) /\
    (ps3 = true -> 4 <= zlen gc /\ zlen (firstn 4 gc ++ [45] ++ skipn 4 gc) <= 32) /\
    zlen (fit (mangle_set d_characters v false) 32) <= 32 /\ zlen (fit (mangle_set d_characters v true) 32) <= 32.
Proof.
  intros H. apply build_image_inv in H as (ds & fsec & b_iso & b_jol & Hscan & Hi & Hj & Hgc & _).
  pose proof (build_dirs_ok _ _ _ Hi) as [_ Hoki]. pose proof (build_dirs_ok _ _ _ Hj) as [_ Hokj].
  exists ds, fsec, b_iso, b_jol. repeat split; auto.
  - apply make_path_table_short. eapply dir_ids_short; eauto.
  - apply make_path_table_short. eapply dir_ids_short; eauto.
  - apply root_record_short, dir_ok_fix, Hoki.
  - apply root_record_short, dir_ok_fix, Hokj.
  - specialize (Hgc H). lia.
  - specialize (Hgc H). rewrite !zlen_app. unfold zlen at 2. cbn [length].
    pose proof (firstn_skipn 4 gc) as E. apply (f_equal (@length _)) in E. rewrite app_length in E.
    unfold zlen in *. lia.
  - apply zlen_fit. lia.
  - apply zlen_fit. lia.
Qed.

(* ---------- the region table ---------- *)
Lemma read_regions_length hdr : forall n off, length (read_regions hdr off n) = n.
Proof. induction n as [|n IH]; intros off; cbn [read_regions length]; auto. Qed.

Lemma gaps_length : forall rs, (length (gaps rs) <= length rs)%nat.
Proof.
  induction rs as [|[a e0] r IH]; [cbn; lia|].
  destruct r as [|[s1 e1] r']; [cbn; lia|].
  change (gaps ((a, e0) :: (s1, e1) :: r')) with ((e0, s1) :: gaps ((s1, e1) :: r')).
  cbn [length] in *. lia.
Qed.

(* an accepted region table has at most 255 entries and lies inside the first sector: what the constructor
   allocates and what the header-clearing loop touches is bounded, whatever count the file declares *)
Theorem new_encrypted_bounded content clear v : new_encrypted content clear = Ok v ->
  (length (ev_regions v) <= 255)%nat /\ 24 <= ev_hdr v <= sector_size /\ ev_hdr v <= zlen content.
Proof.
  unfold new_encrypted. intros H.
  destruct (zlen content <? 8); [discriminate|].
  set (count := be32_at content 0) in *.
  destruct ((count <? 2) || (sector_size <? 8 + count * 8)) eqn:E1; [discriminate|].
  destruct (zlen content <? 8 + count * 8) eqn:E2; [discriminate|].
  destruct (read_regions content 8 (Z.to_nat count)) as [|[s0 e0] r] eqn:Er; [discriminate|].
  destruct (negb (s0 =? 0)); [discriminate|].
  destruct (regions_sane ((s0, e0) :: r) 0); [|discriminate].
  assert (Hv : v = {| ev_regions := gaps ((s0, e0) :: r); ev_hdr := 8 + count * 8; ev_clear := clear |}) by congruence.
  rewrite Hv. cbn [ev_regions ev_hdr]. clear H Hv.
  pose proof (gaps_length ((s0, e0) :: r)) as Hg.
  assert (Hn : length ((s0, e0) :: r) = Z.to_nat count) by (rewrite <- Er; apply read_regions_length).
  rewrite Hn in Hg.
  unfold sector_size in *. split; [lia|]. split; lia.
Qed.
