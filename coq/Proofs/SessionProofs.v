(* Proofs/SessionProofs.v — framing (C03), write gating (C05), the handle ledger (C13). *)
From Coq Require Import ZifyBool ZifyNat.
From Verif Require Import Lib.Bytes Model.Path Model.Fs Model.Session Gen.Consts Spec.ProtoSpec Proofs.ProtoProofs.

Ltac Zify.zify_post_hook ::= Z.div_mod_to_equations.

Ltac break_match :=
  match goal with
  | |- context [match ?x with _ => _ end] => destruct x eqn:?
  end.

(* ------------------------------------------------------------------ stream refinement *)

Theorem serve_stream c : forall rqs junks fuel w k tail,
  Forall wf_request rqs -> Forall wf_junk junks -> length junks = length rqs ->
  (length rqs < fuel)%nat -> parse_request tail = PShort ->
  serve fuel c w k (wires rqs junks ++ tail) = run c w k rqs.
Proof.
  induction rqs as [|rq r IH]; intros junks fuel w k tail Hwf Hj Hl Hf Ht.
  - destruct fuel; [cbn in Hf; lia|]. cbn [wires app run serve]. destruct junks; rewrite Ht; reflexivity.
  - destruct junks as [|j js]; [discriminate|]. destruct fuel; [cbn in Hf; lia|].
    inversion Hwf; inversion Hj; subst. cbn [wires serve run].
    rewrite <- app_assoc. rewrite parse_wire by auto.
    destruct (o_close (step c w k rq)); [reflexivity|].
    rewrite IH; auto. cbn [length] in *. lia.
Qed.

(* a request never starts in fewer than 16 bytes; an unfinished path is never acted upon *)
Lemma parse_short_16 tail : zlen tail < 16 -> parse_request tail = PShort.
Proof. intros H. unfold parse_request. replace (zlen tail <? 16) with true by lia. reflexivity. Qed.

Lemma wire_length rq junk : wf_request rq -> wf_junk junk -> zlen (wire rq junk) = wire_len rq.
Proof.
  intros Hwf [Hjl _].
  assert (forall k, (k <= 14)%nat -> zlen (firstn k junk) = Z.of_nat k) as F
    by (intros k Hk; unfold zlen; rewrite firstn_length; lia).
  assert (forall k m, (k + m <= 14)%nat -> zlen (firstn k (skipn m junk)) = Z.of_nat k) as G
    by (intros k m Hk; unfold zlen; rewrite firstn_length, skipn_length; lia).
  destruct rq; cbn [wire wire_len]; unfold path_cmd, bare_cmd, be16, be32, be64;
    rewrite ?zlen_app; rewrite ?F, ?G by lia; unfold zlen; rewrite ?be_enc_length;
    cbn [wf_request] in Hwf; unfold zlen in *; lia.
Qed.

(* ------------------------------------------------------------------ response shapes *)

Lemma zlen_be n v : zlen (be_enc n v) = Z.of_nat n.
Proof. unfold zlen. rewrite be_enc_length. reflexivity. Qed.

Lemma slice_length {A} (l : list A) off n : zlen (slice l off n) <= Z.max 0 n.
Proof.
  unfold slice. destruct ((off <? 0) || (zlen l <=? off)) eqn:E.
  - unfold zlen; cbn. lia.
  - unfold zlen. rewrite firstn_length, skipn_length. unfold zlen in *. lia.
Qed.

Lemma slice_length_eq {A} (l : list A) off n : 0 <= off ->
  zlen (slice l off n) = Z.max 0 (Z.min n (zlen l - off)).
Proof.
  intros H0. unfold slice. destruct ((off <? 0) || (zlen l <=? off)) eqn:E.
  - unfold zlen in *; cbn. lia.
  - unfold zlen in *. rewrite firstn_length, skipn_length. lia.
Qed.

Lemma view_read_length w v off n d : view_read w v off n = Ok d -> zlen d <= Z.max 0 n.
Proof.
  destruct v as [h]. unfold view_read, h_read_at.
  destruct ((off <? 0) || (fs_max_offset <? off)); [discriminate|]. destruct (n <=? 0) eqn:En.
  - intro H; inversion H; subst. unfold zlen; cbn. lia.
  - destruct (hobj_ h); [|discriminate]. unfold fs_read.
    destruct (get_inode (inodes w) ino); [|discriminate].
    intro H; inversion H; subst. apply slice_length.
Qed.

Lemma cd_read_shape w v sec : forall cnt off d,
  cd_read w v sec off cnt = (d, true) -> zlen d = Z.of_nat cnt * cd_read_size.
Proof.
  induction cnt as [|k IH]; intros off d H; cbn [cd_read] in H.
  - inversion H; subst. reflexivity.
  - destruct (view_read w v off cd_read_size) as [x|] eqn:Er; [|inversion H].
    destruct (zlen x =? cd_read_size) eqn:Ex; [|inversion H].
    destruct (cd_read w v sec (off + sec) k) as [rest ok] eqn:Ec. inversion H; subst.
    rewrite zlen_app, (IH _ _ Ec). lia.
Qed.

Ltac enc_len :=
  unfold enc_open_file, enc_stat, enc_result32, enc_dirent, enc_dirent_v2, be16, be32, be64, bool_byte;
  rewrite ?zlen_app, ?zlen_be; try reflexivity.

Theorem step_shape c w k rq :
  (match rq with RReadCD _ _ => False | _ => True end) ->
  resp_ok rq (o_out (step c w k rq)) (o_close (step c w k rq)).
Proof.
  intros Hcd. destruct rq; cbn [resp_ok step]; try contradiction.
  - (* OPEN_FILE *)
    repeat break_match; cbn [o_out o_close done]; split; try reflexivity; enc_len.
  - (* READ_FILE_CRITICAL *)
    destruct (ro k) as [v|]; cbn [o_out o_close hangup done].
    + destruct (view_read w v _ n) as [d|] eqn:Er.
      * pose proof (view_read_length _ _ _ _ _ Er) as Hl.
        destruct (zlen d =? n) eqn:En; cbn [o_out o_close hangup done]; split; try lia; intro; try discriminate; lia.
      * cbn [o_out o_close hangup]. unfold zlen at 1; cbn. split; [lia|]. intro; discriminate.
    + unfold zlen at 1; cbn. split; [lia|]. intro; discriminate.
  - (* READ_FILE *)
    destruct (ro k) as [v|]; cbn [o_out o_close hangup done]; [|left; auto].
    destruct (view_read w v _ n) as [d|] eqn:Er; cbn [o_out o_close hangup done]; [|left; auto].
    right. split; [reflexivity|]. exists d. split; [reflexivity|]. eapply view_read_length; eauto.
  - (* CREATE_FILE *)
    unfold code32, enc_result32. repeat break_match; cbn [o_out o_close done]; split; auto.
  - (* WRITE_FILE *)
    repeat break_match; cbn [o_out o_close done]; split; auto.
    left. replace (zlen payload) with 0 by lia. reflexivity.
  - (* OPEN_DIR *)
    unfold code32, enc_result32. repeat break_match; cbn [o_out o_close done]; split; auto.
  - (* READ_DIR_ENTRY *)
    cbv zeta.
    destruct (cwd k) as [[h]|]; [|split; [reflexivity| exists (-1), [], false; reflexivity]].
    destruct (h_load_dents w h) as [names|]; [|split; [reflexivity| exists (-1), [], false; reflexivity]].
    destruct (next_entry c w (hrel h) names) as [[[nm fi]|] rest]; cbn [o_out o_close done]; split; try reflexivity.
    + exists (eff_size fi), nm, (fi_dir fi). reflexivity.
    + exists (-1), [], false; reflexivity.
  - (* DELETE *)
    unfold code32, enc_result32. repeat break_match; cbn [o_out o_close done]; split; auto.
  - (* MKDIR *)
    unfold code32, enc_result32. repeat break_match; cbn [o_out o_close done]; split; auto.
  - (* RMDIR *)
    unfold code32, enc_result32. repeat break_match; cbn [o_out o_close done]; split; auto.
  - (* READ_DIR_ENTRY_V2 *)
    cbv zeta.
    destruct (cwd k) as [[h]|]; [|split; [reflexivity| exists (-1), 0, 0, 0, [], false; reflexivity]].
    destruct (h_load_dents w h) as [names|]; [|split; [reflexivity| exists (-1), 0, 0, 0, [], false; reflexivity]].
    destruct (next_entry c w (hrel h) names) as [[[nm fi]|] rest]; cbn [o_out o_close done]; split; try reflexivity.
    + exists (eff_size fi), (fi_mtime fi), masked_ctime, masked_atime, nm, (fi_dir fi). reflexivity.
    + exists (-1), 0, 0, 0, [], false; reflexivity.
  - (* STAT *)
    repeat break_match; cbn [o_out o_close done]; split; try reflexivity; enc_len.
  - (* GET_DIR_SIZE *)
    cbn [o_out o_close done]. split; [reflexivity|]. enc_len.
  - (* READ_DIR *)
    repeat break_match; cbn [o_out o_close done]; split; try reflexivity.
    all: try (exists []; split; [reflexivity|constructor]).
    eexists (map _ _). split.
    + unfold zlen. rewrite map_length. reflexivity.
    + apply Forall_forall. intros e He. apply in_map_iff in He as (x & <- & _).
      unfold enc_dir_entry, pad_name, be64, bool_byte. rewrite !zlen_app, !zlen_be, repeatz_length.
      unfold zlen at 2. rewrite firstn_length. unfold zlen. cbn [length].
      change max_dir_entry_name with 512. lia.
Qed.

(* ------------------------------------------------------------------ write gating (C05) *)

Definition mutating (rq : request) : bool :=
  match rq with
  | RCreateFile _ | RWriteFile _ _ | RDeleteFile _ | RMkdir _ | RRmdir _ => true
  | _ => false
  end.

Lemma step_readonly c w k rq : allow_write c = false -> o_world (step c w k rq) = w.
Proof.
  intros Ha. destruct rq; cbn [step]; rewrite ?Ha; cbn [negb];
    repeat break_match; cbn [o_world done hangup]; reflexivity.
Qed.

Lemma step_refuses c w k rq : allow_write c = false -> mutating rq = true ->
  o_out (step c w k rq) = be32 (wrap32 (-1)) /\ o_close (step c w k rq) = false /\ o_conn (step c w k rq) = k.
Proof.
  intros Ha Hm. destruct rq; try discriminate; cbn [step]; rewrite Ha; cbn [negb]; auto;
    destruct (is_nil (rooted_elems p)); auto.
Qed.

Theorem serve_readonly c : allow_write c = false -> forall fuel w k input,
  snd (fst (serve fuel c w k input)) = w.
Proof.
  intros Ha. induction fuel as [|f IH]; intros w k input; cbn [serve]; [reflexivity|].
  destruct (parse_request input) as [rq rest| |]; try reflexivity.
  pose proof (step_readonly c w k rq Ha) as Hw.
  destruct (o_close (step c w k rq)); cbn [fst snd]; [exact Hw|].
  specialize (IH (o_world (step c w k rq)) (o_conn (step c w k rq)) rest).
  destruct (serve f c (o_world (step c w k rq)) (o_conn (step c w k rq)) rest) as [[[outs cl] w'] k'].
  cbn [fst snd] in *. congruence.
Qed.

(* requests that do not change the world even when writing is allowed *)
Lemma step_nonmutating c w k rq : mutating rq = false -> o_world (step c w k rq) = w.
Proof.
  intros Hm. destruct rq; try discriminate; cbn [step];
    repeat break_match; cbn [o_world done hangup]; reflexivity.
Qed.

(* ------------------------------------------------------------------ handle ledger (C13) *)

Definition balanced (k : conn) : Prop := opens k - closes k = held k.

Lemma fs_open_view_counts c w rel v o cl : fs_open_view c w rel = Ok (v, o, cl) -> o - cl = view_closes v.
Proof.
  unfold fs_open_view. destruct (os_open c w rel); cbn [bind]; [|discriminate].
  intro H; inversion H; subst. reflexivity.
Qed.

Lemma step_balanced c w k rq : balanced k -> balanced (o_conn (step c w k rq)).
Proof.
  unfold balanced, held. intros Hb.
  destruct k as [cwd0 ro0 cd wo0 op cl]. cbn [cwd ro wo opens closes cdsec] in Hb.
  destruct cwd0 as [cv|], ro0 as [rv|], wo0 as [wh|];
    cbn [opt_closes] in Hb;
    destruct rq; cbn [step cwd ro wo opens closes cdsec]; cbv zeta;
    repeat match goal with
           | |- context [fs_open_view ?c ?w ?r] =>
               let E := fresh "E" in destruct (fs_open_view c w r) as [[[? ?] ?]|] eqn:E;
               [apply fs_open_view_counts in E|]
           | |- context [match ?x with _ => _ end] => destruct x eqn:?
           end;
    cbn [o_conn done hangup set_ro set_cwd set_wo bump cwd ro wo opens closes cdsec opt_closes view_closes] in *;
    try discriminate; try lia.
Qed.

Lemma close_released k : balanced k -> opens (close_conn k) = closes (close_conn k).
Proof. unfold balanced, held, close_conn. cbn [opens closes]. lia. Qed.

Theorem serve_released c : forall fuel w k input, balanced k ->
  opens (snd (serve fuel c w k input)) = closes (snd (serve fuel c w k input)).
Proof.
  induction fuel as [|f IH]; intros w k input Hb; cbn [serve].
  - cbn [snd]. apply close_released; auto.
  - destruct (parse_request input) as [rq rest| |]; cbn [snd]; try (apply close_released; auto).
    pose proof (step_balanced c w k rq Hb) as Hb'.
    destruct (o_close (step c w k rq)); cbn [snd]; [apply close_released; auto|].
    specialize (IH (o_world (step c w k rq)) (o_conn (step c w k rq)) rest Hb').
    destruct (serve f c (o_world (step c w k rq)) (o_conn (step c w k rq)) rest) as [[[outs cl] w'] k'].
    cbn [snd] in *. exact IH.
Qed.

Lemma conn0_balanced : balanced conn0.
Proof. reflexivity. Qed.
