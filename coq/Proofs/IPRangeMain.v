(* Proofs/IPRangeMain.v — parse_range/contains against the documented grammar and sets. *)
From Coq Require Import ZifyBool ZifyNat.
From Verif Require Import Lib.Bytes Model.IPRange Spec.IPSpec Proofs.IPRangeProofs.

Ltac Zify.zify_post_hook ::= Z.div_mod_to_equations.

Lemma find_sep_char s : forall i j c, find_sep s i = Some (j, c) -> c = 47 \/ c = 45.
Proof.
  induction s as [|x s IH]; intros i j c H; cbn [find_sep] in H; [discriminate|].
  destruct ((x =? 47) || (x =? 45)) eqn:E.
  - inversion H; subst. lia.
  - eapply IH; eauto.
Qed.

Lemma zeros_cidr r : forall j, j <= 0 -> forallb (Z.eqb 0) r = true -> r = cidr_mask_bytes j (length r).
Proof.
  induction r as [|x r IH]; intros j Hj H; [reflexivity|].
  cbn [forallb] in H. apply andb_true_iff in H as [H1 H2].
  cbn [length cidr_mask_bytes]. f_equal.
  - unfold mask_byte. replace (j <=? 0) with true by lia. lia.
  - apply IH; [lia|auto].
Qed.

Lemma byte_ones_some v k : byte_ones v = Some k -> v = mask_byte k /\ 0 <= k <= 7.
Proof.
  unfold byte_ones.
  destruct (v =? 0) eqn:E0; [intro H; inversion H; subst; split; [change (mask_byte 0) with 0|]; lia|].
  destruct (v =? 128) eqn:E1; [intro H; inversion H; subst; split; [change (mask_byte 1) with 128|]; lia|].
  destruct (v =? 192) eqn:E2; [intro H; inversion H; subst; split; [change (mask_byte 2) with 192|]; lia|].
  destruct (v =? 224) eqn:E3; [intro H; inversion H; subst; split; [change (mask_byte 3) with 224|]; lia|].
  destruct (v =? 240) eqn:E4; [intro H; inversion H; subst; split; [change (mask_byte 4) with 240|]; lia|].
  destruct (v =? 248) eqn:E5; [intro H; inversion H; subst; split; [change (mask_byte 5) with 248|]; lia|].
  destruct (v =? 252) eqn:E6; [intro H; inversion H; subst; split; [change (mask_byte 6) with 252|]; lia|].
  destruct (v =? 254) eqn:E7; [intro H; inversion H; subst; split; [change (mask_byte 7) with 254|]; lia|].
  discriminate.
Qed.

Lemma mask_ones_cidr m : forall pl, mask_ones m = Some pl ->
  m = cidr_mask_bytes pl (length m) /\ 0 <= pl <= 8 * Z.of_nat (length m).
Proof.
  induction m as [|v r IH]; intros pl H; cbn [mask_ones] in H.
  - inversion H; subst. cbn. split; [reflexivity|lia].
  - destruct (v =? 255) eqn:E.
    + destruct (mask_ones r) as [pl'|] eqn:Er; [|discriminate].
      assert (pl = 8 + pl') as -> by (cbn [option_map] in H; congruence).
      destruct (IH pl' eq_refl) as [IH1 IH2].
      cbn [length cidr_mask_bytes]. split; [|lia].
      replace (8 + pl' - 8) with pl' by lia. rewrite <- IH1. f_equal.
      unfold mask_byte. replace (8 + pl' <=? 0) with false by lia. replace (8 <=? 8 + pl') with true by lia. lia.
    + destruct (byte_ones v) as [k|] eqn:Ek; [|discriminate].
      destruct (forallb (Z.eqb 0) r) eqn:Ez; [|discriminate]. inversion H; subst.
      apply byte_ones_some in Ek as [-> Hk].
      cbn [length cidr_mask_bytes]. split; [|lia].
      f_equal. apply zeros_cidr; [lia|auto].
Qed.

Lemma cidr_mask_some pl n m : cidr_mask pl n = Some m ->
  m = cidr_mask_bytes pl n /\ 0 <= pl <= 8 * Z.of_nat n.
Proof.
  unfold cidr_mask. destruct ((pl <? 0) || (8 * Z.of_nat n <? pl)) eqn:E; [discriminate|].
  intro H; inversion H; subst. split; [reflexivity|lia].
Qed.

(* the address the mask is applied to is the "effective" one *)
Lemma ip_mask_eff addr a' n mask :
  length addr = 16%nat -> eff addr = (a', n) -> length mask = n ->
  ip_mask addr mask = Some (land2 a' mask) /\ length a' = n /\ (n = 4%nat \/ n = 16%nat).
Proof.
  intros Hl He Hm. unfold eff in He. unfold ip_mask.
  destruct (to4 addr) as [a4|] eqn:E4; injection He as E1 E2; rewrite <- E2 in *; rewrite <- E1 in *; clear E1 E2.
  - destruct (to4_some addr a4 Hl E4) as [Ea Hl4].
    rewrite Hm, Hl. cbn [Nat.eqb andb]. rewrite Hm. cbn [Nat.eqb andb].
    assert (list_eqb (firstn 12 addr) v4prefix = true) as ->.
    { apply list_eqb_eq. rewrite Ea. reflexivity. }
    assert (skipn 12 addr = a4) as -> by (rewrite Ea; reflexivity).
    rewrite Hl4. cbn [Nat.eqb]. auto.
  - do 3 (rewrite ?Hm, ?Hl; cbn [Nat.eqb andb]). auto.
Qed.

Lemma addr_len_eff a a' n : length a = 16%nat -> eff a = (a', n) ->
  (match to4 a with Some _ => 4%nat | None => length a end) = n.
Proof.
  intros Hl H. unfold eff in H. destruct (to4 a); injection H as _ E; congruence.
Qed.

Lemma eff_ok addr a' n : bytes_ok addr -> length addr = 16%nat -> eff addr = (a', n) -> bytes_ok a'.
Proof.
  intros Hok Hl He. unfold eff in He. destruct (to4 addr) as [a4|] eqn:E4; inversion He; subst; auto.
  destruct (to4_some addr a' Hl E4) as [Ea _]. rewrite Ea in Hok. apply Forall_app in Hok. tauto.
Qed.

Lemma v4prefix_ok : bytes_ok v4prefix.
Proof. repeat constructor; unfold is_byte; lia. Qed.

(* to16 of an n-byte string embeds its value *)
Lemma to16_embed n x y : (n = 4%nat \/ n = 16%nat) -> bytes_ok x -> length x = n -> to16 x = Some y ->
  bytes_ok y /\ length y = 16%nat /\ val y = embed n (val x).
Proof.
  intros Hn Hx Hxl Hy. destruct Hn; subst n.
  - rewrite to16_4 in Hy by auto. assert (y = v4prefix ++ x) as -> by congruence. repeat split.
    + apply Forall_app; split; [apply v4prefix_ok|auto].
    + rewrite app_length, Hxl. reflexivity.
    + rewrite v4prefix_val by auto. reflexivity.
  - rewrite to16_16 in Hy by auto. assert (y = x) as -> by congruence. repeat split; auto.
Qed.

(* the two bounds produced for a block, numerically *)
Lemma block_bounds a' n len l r :
  bytes_ok a' -> length a' = n -> (n = 4%nat \/ n = 16%nat) -> 0 <= len <= 8 * Z.of_nat n ->
  let mask := cidr_mask_bytes len n in
  let l0 := land2 a' mask in
  let r0 := last_by_mask l0 mask in
  let excl := ((n =? 4)%nat && (len <? 31)) || ((n =? 16)%nat && (len <? 127)) in
  to16 (if excl then set_last_bit l0 else l0) = Some l ->
  to16 (if excl then clear_last_bit r0 else r0) = Some r ->
  bytes_ok l /\ bytes_ok r /\ length l = 16%nat /\ length r = 16%nat /\
  let sz := 2 ^ (8 * Z.of_nat n - len) in
  let lo := embed n ((val a' / sz) * sz) in
  let hi := lo + sz - 1 in
  forall v, (val l <= v <= val r) <->
            (if 8 * Z.of_nat n - 1 <=? len then lo <= v <= hi else lo < v < hi).
Proof.
  intros Hok Hlen Hn Hl. subst n. intros mask l0 r0 excl Htl Htr.
  set (n := length a') in *.
  assert (val l0 = (val a' / 2 ^ (8 * Z.of_nat n - len)) * 2 ^ (8 * Z.of_nat n - len)) as V0.
  { unfold l0, mask, n. rewrite val_land_mask by (auto; unfold zlen; lia). reflexivity. }
  assert (val r0 = val l0 + 2 ^ (8 * Z.of_nat n - len) - 1) as V1.
  { unfold r0, l0, mask, n. rewrite val_last_by_mask by (auto; unfold zlen; lia). reflexivity. }
  assert (bytes_ok l0) as Ok0 by (apply land2_ok; [auto|apply cidr_mask_bytes_ok]).
  assert (bytes_ok r0) as Ok1 by (unfold r0, l0, mask, n; apply last_by_mask_ok; auto).
  assert (length l0 = n) as Ln0
    by (unfold l0, mask; rewrite land2_length; rewrite ?cidr_mask_bytes_length; auto).
  assert (length r0 = n) as Ln1
    by (unfold r0; rewrite last_by_mask_length; unfold mask; rewrite ?cidr_mask_bytes_length; auto).
  set (sz := 2 ^ (8 * Z.of_nat n - len)) in *.
  assert (0 < sz) as Hsz by (apply Z.pow_pos_nonneg; lia).
  assert (forall x y, bytes_ok x -> length x = n -> to16 x = Some y ->
                      bytes_ok y /\ length y = 16%nat /\ val y = embed n (val x)) as T16
    by (intros x y; apply to16_embed; exact Hn).
  assert (forall u w, embed n u <= embed n w <-> u <= w) as Emb
    by (intros; unfold embed; destruct (n =? 4)%nat; lia).
  destruct excl eqn:Ex.
  - (* network and broadcast excluded *)
    assert (len <= 8 * Z.of_nat n - 2) as Hle by (subst excl; destruct Hn; subst n; lia).
    assert (sz mod 2 = 0) as Hev.
    { subst sz. replace (8 * Z.of_nat n - len) with (1 + (8 * Z.of_nat n - len - 1)) by lia.
      rewrite Z.pow_add_r by lia. change (2 ^ 1) with 2.
      rewrite Z.mul_comm. apply Z.mod_mul. lia. }
    assert (l0 <> []) as Ne0 by (intro E; rewrite E in Ln0; cbn in Ln0; lia).
    assert (r0 <> []) as Ne1 by (intro E; rewrite E in Ln1; cbn in Ln1; lia).
    assert (val l0 mod 2 = 0) as Ev0.
    { rewrite V0. rewrite <- Z.mul_mod_idemp_r by lia. rewrite Hev. rewrite Z.mul_0_r. reflexivity. }
    assert (val r0 mod 2 = 1) as Od1.
    { rewrite V1. replace (val l0 + sz - 1) with (val l0 + sz - 2 + 1) by lia.
      rewrite <- Z.add_mod_idemp_l by lia.
      replace ((val l0 + sz - 2) mod 2) with 0; [reflexivity|].
      symmetry. rewrite <- Z.add_opp_r. rewrite <- Z.add_mod_idemp_l by lia.
      rewrite <- (Z.add_mod_idemp_l (val l0)) by lia. rewrite Ev0. cbn [Z.add].
      rewrite Hev. reflexivity. }
    destruct (set_last_bit_val l0 Ne0 Ok0 Ev0) as (S1 & S2 & S3).
    destruct (clear_last_bit_val r0 Ne1 Ok1 Od1) as (C1 & C2 & C3).
    destruct (T16 _ _ S2 ltac:(congruence) Htl) as (A1 & A2 & A3).
    destruct (T16 _ _ C2 ltac:(congruence) Htr) as (B1 & B2 & B3).
    split; [auto|]. split; [auto|]. split; [auto|]. split; [auto|].
    cbv zeta. intros vv. rewrite A3, B3, S1, C1, V1, V0.
    replace (8 * Z.of_nat n - 1 <=? len) with false by lia.
    unfold embed. destruct (n =? 4)%nat; lia.
  - assert (8 * Z.of_nat n - 1 <= len) as Hle by (subst excl; destruct Hn; subst n; lia).
    destruct (T16 _ _ Ok0 Ln0 Htl) as (A1 & A2 & A3).
    destruct (T16 _ _ Ok1 Ln1 Htr) as (B1 & B2 & B3).
    split; [auto|]. split; [auto|]. split; [auto|]. split; [auto|].
    cbv zeta. intros vv. rewrite A3, B3, V1, V0.
    replace (8 * Z.of_nat n - 1 <=? len) with true by lia.
    unfold embed. destruct (n =? 4)%nat; lia.
Qed.

Definition mask_roundtrip_check : bool :=
  forallb (fun len => match mask_ones (cidr_mask_bytes len 4) with Some k => k =? len | None => false end)
          (map Z.of_nat (seq 0 33)).

Lemma mask_ones_of_cidr len : 0 <= len <= 32 -> mask_ones (cidr_mask_bytes len 4) = Some len.
Proof.
  intros H.
  assert (mask_roundtrip_check = true) as C by (vm_compute; reflexivity).
  unfold mask_roundtrip_check in C. rewrite forallb_forall in C.
  specialize (C len). cbv beta in C.
  assert (In len (map Z.of_nat (seq 0 33))) as Hin.
  { apply in_map_iff. exists (Z.to_nat len). split; [lia|]. apply in_seq. lia. }
  specialize (C Hin). destruct (mask_ones (cidr_mask_bytes len 4)); [f_equal; lia|discriminate].
Qed.

Section Main.
  Variable parse_ip : bytes -> option bytes.
  Variable atoi : bytes -> option Z.
  (* what is assumed of net.ParseIP (validated on every differential case by the harness) *)
  Hypothesis parse_ip_ok : forall s a, parse_ip s = Some a -> length a = 16%nat /\ bytes_ok a.
  Hypothesis parse_ip_nosep : forall s a, parse_ip s = Some a -> find_sep s 0 = None.

  Notation parse_range := (parse_range parse_ip atoi).
  Notation reads_as := (reads_as parse_ip atoi).

  Definition probe_ok (ip : bytes) : Prop := bytes_ok ip /\ (length ip = 4%nat \/ length ip = 16%nat).

  Lemma cidr_or_mask_sound s i r :
    find_sep s 0 = Some (i, 47) -> parse_cidr_or_mask parse_ip atoi s i = Some r ->
    exists sp, reads_as s sp /\ forall ip, probe_ok ip -> (contains r ip = true <-> denote sp (val16 ip)).
  Proof.
    intros Hsep H. unfold parse_cidr_or_mask in H.
    destruct (S i =? length s)%nat eqn:Elen; [discriminate|].
    destruct (parse_ip (firstn i s)) as [addr|] eqn:Eaddr; [|discriminate].
    destruct (parse_ip_ok _ _ Eaddr) as [Hal Haok].
    destruct (eff addr) as [a' n] eqn:Eeff.
    pose proof (addr_len_eff addr a' n Hal Eeff) as En.
    rewrite En in H.
    (* normalise the mask/prefix choice *)
    match type of H with
    | match ?mp with _ => _ end = _ => destruct mp as [[mask pl]|] eqn:Emp; [|discriminate]
    end.
    assert (mask = cidr_mask_bytes pl n /\ 0 <= pl <= 8 * Z.of_nat n /\
            reads_as s (Block a' n pl)) as (Hmask & Hpl & Hreads).
    { destruct (parse_ip (skipn (S i) s)) as [mip|] eqn:Emip.
      - destruct (to4 mip) as [m4|] eqn:Em4; [|discriminate].
        destruct (n =? 4)%nat eqn:En4; [|discriminate].
        destruct (mask_ones m4) as [pl'|] eqn:Eones; [|discriminate].
        inversion Emp; subst mask pl'. assert (n = 4%nat) as Hn4 by lia. rewrite Hn4 in *.
        destruct (parse_ip_ok _ _ Emip) as [Hml Hmok].
        destruct (to4_some mip m4 Hml Em4) as [_ Hm4l].
        destruct (mask_ones_cidr m4 pl Eones) as [Hm Hr]. rewrite Hm4l in Hm, Hr.
        repeat split; auto; try lia.
        eapply RA_mask; eauto; lia.
      - destruct (atoi (skipn (S i) s)) as [pl'|] eqn:Eatoi; [|discriminate].
        destruct (cidr_mask pl' n) as [m|] eqn:Ecm; [|discriminate].
        inversion Emp; subst m pl'. destruct (cidr_mask_some _ _ _ Ecm) as [Hm Hr].
        repeat split; auto; try lia.
        eapply RA_cidr; eauto; lia. }
    assert (length mask = n) as Hml by (rewrite Hmask; apply cidr_mask_bytes_length).
    destruct (ip_mask_eff addr a' n mask Hal Eeff Hml) as (Eipm & Hal' & Hn).
    rewrite Eipm in H.
    pose proof (eff_ok addr a' n Haok Hal Eeff) as Ha'ok.
    destruct (to16 _) as [l|] eqn:Etl in H; [|discriminate].
    destruct (to16 _) as [rr|] eqn:Etr in H; [|discriminate].
    inversion H; subst r. clear H.
    rewrite Hmask in Etl, Etr.
    destruct (block_bounds a' n pl l rr Ha'ok Hal' Hn Hpl Etl Etr) as (B1 & B2 & B3 & B4 & B5).
    exists (Block a' n pl). split; [exact Hreads|].
    intros ip [Hipok Hipl]. rewrite contains_num by (cbn [left right]; auto).
    cbn [left right denote]. apply B5.
  Qed.

  Lemma two_sound s i r :
    find_sep s 0 = Some (i, 45) -> parse_two parse_ip s i = Some r ->
    exists sp, reads_as s sp /\ forall ip, probe_ok ip -> (contains r ip = true <-> denote sp (val16 ip)).
  Proof.
    intros Hsep H. unfold parse_two in H.
    destruct (S i =? length s)%nat eqn:Elen; [discriminate|].
    destruct (parse_ip (firstn i s)) as [a|] eqn:Ea; [|discriminate].
    destruct (parse_ip (skipn (S i) s)) as [b|] eqn:Eb; [|discriminate].
    destruct (parse_ip_ok _ _ Ea) as [Hal Haok]. destruct (parse_ip_ok _ _ Eb) as [Hbl Hbok].
    assert (same_family a b /\ lexcmp a b <> Gt /\ r = {| left := a; right := b |}) as (Hf & Hc & ->).
    { unfold same_family. destruct (to4 a), (to4 b); try discriminate;
        destruct (lexcmp a b) eqn:Ec; try discriminate; inversion H; subst;
        repeat split; try congruence; intros; congruence. }
    rewrite lexcmp_val in Hc by (auto; congruence).
    assert (val a <= val b) as Hle by (destruct (Z.compare_spec (val a) (val b)); try lia; congruence).
    exists (Range a b). split.
    - eapply RA_range; eauto. lia.
    - intros ip [Hipok Hipl]. rewrite contains_num by (cbn [left right]; auto). reflexivity.
  Qed.

  Theorem parse_range_sound_complete s r :
    parse_range s = Some r ->
    exists sp, reads_as s sp /\ forall ip, probe_ok ip -> (contains r ip = true <-> denote sp (val16 ip)).
  Proof.
    unfold IPRange.parse_range. intros H.
    destruct (find_sep s 0) as [[i c]|] eqn:Esep.
    - destruct (find_sep_char _ _ _ _ Esep) as [-> | ->]; cbn [Z.eqb] in H.
      + change (47 =? 47) with true in H. cbv iota in H.
        destruct (parse_cidr_or_mask parse_ip atoi s i) as [r'|] eqn:E.
        * inversion H; subst. eapply cidr_or_mask_sound; eauto.
        * destruct (parse_ip s) as [a|] eqn:Ea; [|discriminate].
          rewrite (parse_ip_nosep _ _ Ea) in Esep. discriminate.
      + change (45 =? 47) with false in H. cbv iota in H.
        destruct (parse_two parse_ip s i) as [r'|] eqn:E.
        * inversion H; subst. eapply two_sound; eauto.
        * destruct (parse_ip s) as [a|] eqn:Ea; [|discriminate].
          rewrite (parse_ip_nosep _ _ Ea) in Esep. discriminate.
    - destruct (parse_ip s) as [a|] eqn:Ea; [|discriminate]. inversion H; subst.
      destruct (parse_ip_ok _ _ Ea) as [Hal Haok].
      exists (Single a). split; [apply RA_single; auto|].
      intros ip [Hipok Hipl]. rewrite contains_num by (cbn [left right]; auto).
      cbn [left right denote]. lia.
  Qed.

  (* anything that is not a documented specification is rejected *)
  Corollary parse_range_rejects s :
    (forall sp, ~ reads_as s sp) -> parse_range s = None.
  Proof.
    intros H. destruct (parse_range s) as [r|] eqn:E; [|reflexivity].
    destruct (parse_range_sound_complete s r E) as (sp & Hsp & _). exfalso. eapply H; eauto.
  Qed.

  (* every documented specification is accepted *)
  Lemma block_accepts a a' n len mask i s :
    parse_ip (firstn i s) = Some a -> eff a = (a', n) -> 0 <= len <= 8 * Z.of_nat n ->
    mask = cidr_mask_bytes len n ->
    exists r,
      match ip_mask a mask with
      | Some l0 =>
          let r0 := last_by_mask l0 mask in
          let excl := ((n =? 4)%nat && (len <? 31)) || ((n =? 16)%nat && (len <? 127)) in
          match to16 (if excl then set_last_bit l0 else l0), to16 (if excl then clear_last_bit r0 else r0) with
          | Some l, Some r => Some {| left := l; right := r |}
          | _, _ => None
          end
      | None => None
      end = Some r.
  Proof.
    intros Ha He Hlen ->.
    destruct (parse_ip_ok _ _ Ha) as [Hal Haok].
    destruct (ip_mask_eff a a' n (cidr_mask_bytes len n) Hal He (cidr_mask_bytes_length _ _)) as (-> & Hl' & Hn).
    cbv zeta.
    set (l0 := land2 a' (cidr_mask_bytes len n)).
    set (r0 := last_by_mask l0 (cidr_mask_bytes len n)).
    assert (length l0 = n) as L0 by (unfold l0; rewrite land2_length; rewrite ?cidr_mask_bytes_length; auto).
    assert (length r0 = n) as L1 by (unfold r0; rewrite last_by_mask_length; rewrite ?cidr_mask_bytes_length; auto).
    assert (forall x, length x = n -> exists y, to16 x = Some y) as T.
    { intros x Hx. destruct Hn as [-> | ->]; [rewrite to16_4 by auto|rewrite to16_16 by auto]; eauto. }
    destruct (((n =? 4)%nat && (len <? 31)) || ((n =? 16)%nat && (len <? 127))).
    - destruct (T (set_last_bit l0)) as [y ->]; [rewrite set_last_bit_length; auto|].
      destruct (T (clear_last_bit r0)) as [z ->]; [rewrite clear_last_bit_length; auto|]. eauto.
    - destruct (T l0 L0) as [y ->]. destruct (T r0 L1) as [z ->]. eauto.
  Qed.

  Theorem parse_range_accepts s sp : reads_as s sp -> exists r, parse_range s = Some r.
  Proof.
    intros H. unfold IPRange.parse_range. destruct H.
    - rewrite H, H0. eauto.
    - rewrite H. change (45 =? 47) with false. cbv iota.
      unfold parse_two. replace (S i =? length s)%nat with false by lia.
      rewrite H1, H2.
      destruct (parse_ip_ok _ _ H1) as [Hal Haok]. destruct (parse_ip_ok _ _ H2) as [Hbl Hbok].
      assert (lexcmp a b <> Gt) as Hc.
      { rewrite lexcmp_val by (auto; congruence). intro Hg. apply Z.compare_gt_iff in Hg. lia. }
      unfold same_family in H3.
      destruct (to4 a) eqn:E1, (to4 b) eqn:E2.
      + destruct (lexcmp a b); try congruence; eauto.
      + exfalso. assert (Some b0 = None) by (apply H3; reflexivity). discriminate.
      + exfalso. assert (@None bytes = None) as X by reflexivity. apply H3 in X. discriminate.
      + destruct (lexcmp a b); try congruence; eauto.
    - rewrite H. change (47 =? 47) with true. cbv iota.
      unfold parse_cidr_or_mask. replace (S i =? length s)%nat with false by lia.
      rewrite H1, H2, H3.
      rewrite (addr_len_eff a a' n (proj1 (parse_ip_ok _ _ H1)) H4).
      unfold cidr_mask. replace ((len <? 0) || (8 * Z.of_nat n <? len)) with false by lia.
      destruct (block_accepts a a' n len _ i s H1 H4 H5 eq_refl) as [r Hr].
      cbv zeta in Hr. cbv zeta. rewrite Hr. eauto.
    - rewrite H. change (47 =? 47) with true. cbv iota.
      unfold parse_cidr_or_mask. replace (S i =? length s)%nat with false by lia.
      rewrite H1, H2, H3.
      rewrite (addr_len_eff a a' 4 (proj1 (parse_ip_ok _ _ H1)) H4).
      cbn [Nat.eqb]. subst m4. rewrite mask_ones_of_cidr by lia.
      destruct (block_accepts a a' 4 len _ i s H1 H4 ltac:(lia) eq_refl) as [r Hr].
      cbv zeta in Hr. cbn [Nat.eqb] in Hr. cbv zeta. rewrite Hr. eauto.
  Qed.
End Main.
