(* Proofs/DetectProofs.v — image-kind detection and key discovery (C11). *)
From Coq Require Import ZifyBool ZifyNat.
From Verif Require Import Lib.Bytes Model.Path Model.Fs Model.Session Gen.Consts Model.IsoRead Model.Crypt
  Model.Detect Spec.CryptSpec Proofs.SessionProofs Proofs.ReadProofs Proofs.IsoReadProofs Proofs.CryptProofs.

(* ---- when no key file applies ---- *)
Lemma try_key_not_iso c w rel :
  list_eqb (to_lower (ext (last_elem rel))) iso_ext = false -> try_key c w rel = Err ENOENT.
Proof. intros H. unfold try_key. rewrite H. reflexivity. Qed.

Lemma try_key_no_ps3iso c w rel :
  find_index (fun x => list_eqb (to_lower x) ps3iso_dir) rel 0 = None -> try_key c w rel = Err ENOENT.
Proof.
  intros H. unfold try_key. destruct (negb (list_eqb (to_lower (ext (last_elem rel))) iso_ext)); [reflexivity|].
  rewrite H. reflexivity.
Qed.

(* the two candidates, as the property describes them *)
Definition adjacent_key (rel : list bytes) : list bytes :=
  removelast rel ++ [trim_ext (last_elem rel) ++ dkey_ext].
Definition redkey_key (rel : list bytes) (idx : nat) : list bytes :=
  removelast (replace_nth rel idx redkey_dir) ++ [trim_ext (last_elem rel) ++ dkey_ext].

(* precedence: when the key file beside the image opens, its verdict is final; the REDKEY directory is not consulted *)
Lemma try_key_adjacent c w rel idx r :
  list_eqb (to_lower (ext (last_elem rel))) iso_ext = true ->
  find_index (fun x => list_eqb (to_lower x) ps3iso_dir) rel 0 = Some idx ->
  open_key c w (adjacent_key rel) = Ok r -> try_key c w rel = r.
Proof. intros H1 H2 H3. unfold try_key, adjacent_key in *. rewrite H1, H2. cbn [negb]. rewrite H3. reflexivity. Qed.

(* fallback: only when there is no key file beside the image, the key of the same name in REDKEY (replacing the
   first PS3ISO element) decides; when there is none there either no key applies, when it exists but cannot be opened
   its error decides *)
Lemma try_key_redkey c w rel idx e1 :
  list_eqb (to_lower (ext (last_elem rel))) iso_ext = true ->
  find_index (fun x => list_eqb (to_lower x) ps3iso_dir) rel 0 = Some idx ->
  open_key c w (adjacent_key rel) = Err e1 -> key_missing e1 = true ->
  try_key c w rel = match open_key c w (redkey_key rel idx) with
                    | Ok r => r
                    | Err e2 => if key_missing e2 then Err ENOENT else Err e2
                    end.
Proof.
  intros H1 H2 H3 H4. unfold try_key, adjacent_key, redkey_key in *. rewrite H1, H2. cbn [negb]. rewrite H3, H4.
  reflexivity.
Qed.

(* a key file beside the image that exists but cannot be opened is an error: the image is not served as if it had no key *)
Lemma try_key_adjacent_unreadable c w rel idx e :
  list_eqb (to_lower (ext (last_elem rel))) iso_ext = true ->
  find_index (fun x => list_eqb (to_lower x) ps3iso_dir) rel 0 = Some idx ->
  open_key c w (adjacent_key rel) = Err e -> key_missing e = false -> try_key c w rel = Err e.
Proof.
  intros H1 H2 H3 H4. unfold try_key, adjacent_key in *. rewrite H1, H2. cbn [negb]. rewrite H3, H4. reflexivity.
Qed.

(* ---- key files: 32 hex digits (either case), anything after them is ignored ---- *)
Definition hex_digit (v : Z) : Z := if v <? 10 then 48 + v else 87 + v.
Fixpoint hex_encode (l : bytes) : bytes :=
  match l with [] => [] | b :: r => hex_digit (b / 16) :: hex_digit (b mod 16) :: hex_encode r end.

Lemma hex_digit_ok v : 0 <= v < 16 -> is_hex (hex_digit v) = true /\ hex_val (hex_digit v) = v.
Proof.
  intros H. assert (v = 0 \/ v = 1 \/ v = 2 \/ v = 3 \/ v = 4 \/ v = 5 \/ v = 6 \/ v = 7 \/ v = 8 \/ v = 9 \/
                    v = 10 \/ v = 11 \/ v = 12 \/ v = 13 \/ v = 14 \/ v = 15) as C by lia.
  repeat destruct C as [->|C]; try subst v; split; reflexivity.
Qed.

Lemma hex_encode_props l : bytes_ok l ->
  forallb is_hex (hex_encode l) = true /\ hex_pairs (hex_encode l) = l /\ length (hex_encode l) = (2 * length l)%nat.
Proof.
  induction 1 as [|b r Hb Hr IH]; [repeat split; reflexivity|].
  destruct IH as (I1 & I2 & I3). unfold is_byte in Hb.
  destruct (hex_digit_ok (b / 16)) as [A1 A2]; [lia|]. destruct (hex_digit_ok (b mod 16)) as [B1 B2]; [lia|].
  cbn [hex_encode forallb hex_pairs length]. rewrite A1, B1, I1, I2, I3, A2, B2. repeat split; try lia.
  f_equal. lia.
Qed.

Theorem read_key_roundtrip key trailing : bytes_ok key -> length key = 16%nat ->
  read_key (hex_encode key ++ trailing) = Ok key.
Proof.
  intros Hk Hl. destruct (hex_encode_props key Hk) as (H1 & H2 & H3). unfold read_key.
  assert (firstn 32 (hex_encode key ++ trailing) = hex_encode key) as ->.
  { rewrite firstn_app. replace (32 - length (hex_encode key))%nat with 0%nat by lia. rewrite firstn_O.
    rewrite app_nil_r. apply firstn_all2. lia. }
  rewrite H3, Hl, H1, H2. reflexivity.
Qed.

(* ---- the mask ---- *)
Lemma mask_from_length d : forall off, length (mask_from off d) = length d.
Proof. induction d; intros; cbn [mask_from length]; auto. Qed.

Lemma mask_from_nth d : forall off j, (j < length d)%nat ->
  nth j (mask_from off d) 0 =
  if (wm_begin <=? off + Z.of_nat j) && (off + Z.of_nat j <? wm_end) then 0 else nth j d 0.
Proof.
  induction d as [|b r IH]; intros off j Hj; cbn [length] in Hj; [lia|].
  destruct j; cbn [mask_from nth].
  - replace (off + Z.of_nat 0) with off by lia. reflexivity.
  - rewrite IH by lia. replace (off + 1 + Z.of_nat j) with (off + Z.of_nat (S j)) by lia. reflexivity.
Qed.

(* ---- what is read through each kind ---- *)
Section Cipher.
  Variable dec : Z -> bytes -> bytes.
  Hypothesis dec_length : forall s x, length (dec s x) = length x.

  (* plain files are passed through byte-identically *)
  Lemma plain_passthrough content off n : kind_read dec KPlain content off n = slice content off n.
  Proof. reflexivity. Qed.

  (* a redump image with a key: the reference plaintext *)
  Lemma enc_reads_plaintext key v content off n : view_wf v -> 0 <= off < zlen content -> 0 < n ->
    kind_read dec (KEnc key v) content off n = slice (plain_image dec v content) off n.
  Proof.
    intros W Ho Hn. cbn [kind_read]. rewrite (crypt_read_ok dec dec_length v content off n W) by lia.
    unfold ref_crypt_read_at. replace (zlen content <=? off) with false by lia. reflexivity.
  Qed.

  (* an encrypted 3k3y image: decrypt first, then mask the watermark area *)
  Lemma enc3k3y_reads_masked_plaintext key v content off n : view_wf v -> 0 <= off < zlen content -> 0 < n ->
    kind_read dec (KEnc3k3y key v) content off n = mask_from off (slice (plain_image dec v content) off n).
  Proof.
    intros W Ho Hn. cbn [kind_read]. rewrite (crypt_read_ok dec dec_length v content off n W) by lia.
    unfold ref_crypt_read_at. replace (zlen content <=? off) with false by lia. reflexivity.
  Qed.
End Cipher.

(* ---- the decision for a regular file, spelled as the property does ---- *)
Theorem open_file_decision c w rel i x :
  virtual_kind rel = None -> resolve (plen c) w (abs_path c rel) = Ok (File i) -> get_inode (inodes w) i = Some x ->
  open_file c w rel =
  match try_key c w rel with
  | Ok key => match new_encrypted (idata x) false with Ok v => KEnc key v | Err e => KErr e end
  | Err ENOENT =>
      match test_3k3y (idata x) with
      | Some (Some key) => match new_encrypted (idata x) false with Ok v => KEnc3k3y key v | Err e => KErr e end
      | Some None => KMask
      | None => KPlain
      end
  | Err e => KErr e
  end.
Proof. intros H1 H2 H3. unfold open_file. rewrite H1, H2, H3. reflexivity. Qed.

(* no .iso extension or no PS3ISO element, and no watermark: the file is served as it is *)
Corollary plain_when_nothing_applies c w rel i x :
  virtual_kind rel = None -> resolve (plen c) w (abs_path c rel) = Ok (File i) -> get_inode (inodes w) i = Some x ->
  (list_eqb (to_lower (ext (last_elem rel))) iso_ext = false \/
   find_index (fun y => list_eqb (to_lower y) ps3iso_dir) rel 0 = None) ->
  test_3k3y (idata x) = None -> open_file c w rel = KPlain.
Proof.
  intros H1 H2 H3 H4 H5. rewrite (open_file_decision c w rel i x H1 H2 H3).
  assert (try_key c w rel = Err ENOENT) as -> by (destruct H4; [apply try_key_not_iso|apply try_key_no_ps3iso]; auto).
  rewrite H5. reflexivity.
Qed.

(* a file too short to hold the watermark area is never a 3k3y image *)
Lemma test_3k3y_short content : zlen content < wm_end -> test_3k3y content = None.
Proof. intros H. unfold test_3k3y. replace (zlen content <? wm_end) with true by lia. reflexivity. Qed.
