(* Proofs/IsoChildProofs.v — every directory other than the root is reachable from its parent: the parent's extent
   holds a record with the directory's identifier, the directory flag and exactly the location and length that the
   directory's own "." carries (C07/C08: a walk from the root record reaches every directory). *)
From Coq Require Import ZifyBool ZifyNat.
From Verif Require Import Lib.Bytes Model.Path Model.Fs Gen.Consts Model.IsoRead Model.IsoBuild Spec.IsoReadSpec
  Proofs.ProtoProofs Proofs.SessionProofs Proofs.IsoReadProofs Proofs.IsoBuildProofs Proofs.IsoLinksProofs.

Ltac Zify.zify_post_hook ::= Z.div_mod_to_equations.

(* a sub-directory record that has not been given its location yet *)
Definition unlinked (id : bytes) (e : dentry) : bool :=
  list_eqb (de_id e) id && negb (Z.land (de_flags e) dir_flag =? 0) && (de_len e =? 0).

Definition count_unlinked (es : list dentry) (id : bytes) : nat := length (filter (unlinked id) es).

Definition linked_to (id : bytes) (loc len : Z) (e : dentry) : Prop :=
  de_id e = id /\ de_loc e = loc /\ de_len e = len /\ Z.land (de_flags e) dir_flag <> 0.

(* link_child patches the first unlinked record with that identifier, and nothing else *)
Lemma link_child_patches es : forall id loc len, (1 <= count_unlinked es id)%nat -> len <> 0 ->
  (exists e, In e (link_child es id loc len) /\ linked_to id loc len e) /\
  count_unlinked (link_child es id loc len) id = (count_unlinked es id - 1)%nat /\
  (forall id', id' <> id -> count_unlinked (link_child es id loc len) id' = count_unlinked es id').
Proof.
  induction es as [|e r IH]; intros id loc len Hc Hlen; [cbn in Hc; lia|].
  unfold count_unlinked in *. cbn [link_child filter] in *. fold (unlinked id e).
  destruct (unlinked id e) eqn:E.
  - split; [|split].
    + eexists. split; [left; reflexivity|]. unfold unlinked in E. unfold linked_to. cbn [de_id de_loc de_len de_flags].
      apply andb_prop in E as [E E3]. apply andb_prop in E as [E1 E2]. apply list_eqb_eq in E1.
      repeat split; auto. lia.
    + cbn [filter]. unfold unlinked at 1. cbn [de_id de_len de_flags].
      replace (len =? 0) with false by lia. rewrite Bool.andb_false_r. cbn [length]. lia.
    + intros id' Hid'.
      unfold unlinked in E. apply andb_prop in E as [E E3]. apply andb_prop in E as [E1 E2]. apply list_eqb_eq in E1.
      assert (Hne : list_eqb (de_id e) id' = false).
      { destruct (list_eqb (de_id e) id') eqn:E'; [|reflexivity]. apply list_eqb_eq in E'. congruence. }
      assert (U1 : unlinked id' e = false) by (unfold unlinked; rewrite Hne; reflexivity).
      assert (U2 : unlinked id' {| de_loc := loc; de_len := len; de_time := de_time e; de_flags := de_flags e; de_id := de_id e |} = false)
        by (unfold unlinked; cbn [de_id]; rewrite Hne; reflexivity).
      cbn [filter]. rewrite U1, U2. reflexivity.
  - cbn [length] in Hc. destruct (IH id loc len Hc Hlen) as ((e' & Hin & Hl) & Hcnt & Hoth).
    split; [|split].
    + exists e'. split; [right; exact Hin|exact Hl].
    + cbn [filter]. rewrite E. exact Hcnt.
    + intros id' Hid'. cbn [filter]. destruct (unlinked id' e); cbn [length]; rewrite (Hoth id' Hid'); reflexivity.
Qed.

(* a record that already has a length is never touched again *)
Lemma link_child_keeps es : forall id loc len e, In e es -> de_len e <> 0 -> In e (link_child es id loc len).
Proof.
  induction es as [|x r IH]; intros id loc len e Hin Hl; [destruct Hin|].
  cbn [link_child]. destruct Hin as [<-|Hin].
  - replace (de_len x =? 0) with false by lia. rewrite Bool.andb_false_r. left. reflexivity.
  - destruct (list_eqb (de_id x) id && negb (Z.land (de_flags x) dir_flag =? 0) && (de_len x =? 0)); [right; exact Hin|].
    right. apply IH; assumption.
Qed.

Lemma count_unlinked_app a b id : count_unlinked (a ++ b) id = (count_unlinked a id + count_unlinked b id)%nat.
Proof. unfold count_unlinked. rewrite filter_app, app_length. reflexivity. Qed.

(* ---------- children still to be built ---------- *)
Definition wants (ds : list ditem) (j : bool) (pi : nat) (id : bytes) (c : ditem) : bool :=
  match parent_index ds c with Some p => (p =? pi)%nat | None => false end && list_eqb (make_identifier (di_name c) j) id.

Definition pending (ds : list ditem) (j : bool) (todo : list ditem) (pi : nat) (id : bytes) : nat :=
  length (filter (wants ds j pi id) todo).

Lemma path_eqb_sym a b : path_eqb a b = path_eqb b a.
Proof.
  unfold path_eqb. rewrite (Nat.eqb_sym (length a) (length b)). destruct (length b =? length a)%nat eqn:E; [|reflexivity].
  cbn [andb]. revert b E. induction a as [|x r IH]; intros [|y s] E; cbn [combine forallb fst snd length] in *; try reflexivity; try discriminate.
  rewrite IH by (cbn in E; exact E). f_equal.
  destruct (list_eqb x y) eqn:E1; destruct (list_eqb y x) eqn:E2; try reflexivity.
  - apply list_eqb_eq in E1. subst. rewrite list_eqb_refl in E2. discriminate.
  - apply list_eqb_eq in E2. subst. rewrite list_eqb_refl in E1. discriminate.
Qed.

Lemma index_of_path_hit ds p : forall i0 r, index_of_path ds p i0 = Some r ->
  exists x, nth_error ds (r - i0) = Some x /\ path_eqb (di_path x) p = true /\ (i0 <= r)%nat.
Proof.
  induction ds as [|y s IH]; intros i0 r H; cbn [index_of_path] in H; [discriminate|].
  destruct (path_eqb (di_path y) p) eqn:E.
  - injection H as <-. exists y. rewrite Nat.sub_diag. auto.
  - destruct (IH _ _ H) as (x & Hx & Hp & Hle). exists x. split; [|split; [exact Hp|lia]].
    replace (r - i0)%nat with (S (r - S i0)) by lia. exact Hx.
Qed.

(* a directory that names pi as its parent passes the filter with which the pi-th directory chose its child records *)
Lemma wants_passes ds j pi id c p : nth_error ds pi = Some p -> wants ds j pi id c = true ->
  (match di_path c with [] => false | _ => path_eqb (removelast (di_path c)) (di_path p) end) = true
  /\ make_identifier (di_name c) j = id.
Proof.
  intros Hp Hw. unfold wants in Hw. apply andb_prop in Hw as [H1 H2]. apply list_eqb_eq in H2. split; [|exact H2].
  unfold parent_index in H1. destruct (di_path c) as [|x r] eqn:Ec; [discriminate|].
  destruct (index_of_path ds (removelast (x :: r)) 0) as [q|] eqn:Ei; [|discriminate].
  assert (q = pi) by lia. subst q.
  destruct (index_of_path_hit _ _ _ _ Ei) as (y & Hy & Hpe & _). rewrite Nat.sub_0_r, Hp in Hy. injection Hy as <-.
  rewrite path_eqb_sym. exact Hpe.
Qed.

(* ---------- the invariant ---------- *)
Definition pend_inv (ds : list ditem) (j : bool) (b : built) (todo : list ditem) : Prop :=
  forall pi es, nth_error b pi = Some es -> forall id, (pending ds j todo pi id <= count_unlinked es id)%nat.

(* every built directory with a parent that is built as well is linked from it *)
Definition reach_inv (ds : list ditem) (j : bool) (b : built) : Prop :=
  forall k d pi, nth_error ds k = Some d -> (k < length b)%nat -> parent_index ds d = Some pi -> (pi < k)%nat ->
    exists es e dotk restk, nth_error b pi = Some es /\ In e es /\ nth_error b k = Some (dotk :: restk) /\
      linked_to (make_identifier (di_name d) j) (de_loc dotk) (de_len dotk) e /\ 0 < de_len dotk.

Lemma filter_suffix_le {A} (f : A -> bool) (pre l : list A) : (length (filter f l) <= length (filter f (pre ++ l)))%nat.
Proof. rewrite filter_app, app_length. lia. Qed.

Lemma filter_impl_le {A} (f g : A -> bool) (l : list A) : (forall x, In x l -> f x = true -> g x = true) ->
  (length (filter f l) <= length (filter g l))%nat.
Proof.
  induction l as [|x r IH]; intros H; cbn [filter]; [lia|].
  assert (IH' := IH (fun y Hy => H y (or_intror Hy))).
  destruct (f x) eqn:Ef.
  - rewrite (H x (or_introl eq_refl) Ef). cbn [length]. lia.
  - destruct (g x); cbn [length]; lia.
Qed.

Lemma make_dir_entries_children ds j done b d r b' :
  ds = done ++ d :: r -> length b = length done -> heads_inv ds b ->
  pend_inv ds j b (d :: r) -> reach_inv ds j b ->
  make_dir_entries ds j b d = Ok b' ->
  pend_inv ds j b' r /\ reach_inv ds j b'.
Proof.
  intros Hds Hlen Hheads Hpend Hreach H.
  assert (Hd : nth_error ds (length b) = Some d) by (rewrite Hds, nth_error_app2 by lia; rewrite Hlen, Nat.sub_diag; reflexivity).
  assert (Hle : (length b <= length ds)%nat) by (rewrite Hds, app_length; lia).
  destruct (make_dir_entries_heads _ _ _ _ _ Hheads Hle Hd H) as [Hheads' Hlen'].
  unfold make_dir_entries in H. fold (files_of j d) in H.
  set (child_es := map _ (filter _ (tl ds))) in H.
  set (tail := files_of j d ++ child_es) in *.
  destruct (too_long tail); [discriminate|].
  set (dot_loc := built_size b / sector_size) in *.
  set (dotdot := match parent_index ds d with Some pi => match nth_error ds pi with Some _ => _ | None => _ end | None => _ end) in H.
  set (dot0 := {| de_loc := dot_loc; de_len := 0; de_time := di_time d; de_flags := dir_flag; de_id := [0] |}) in H.
  set (total := sectors (entries_size (dot0 :: dotdot :: tail) 0) * sector_size) in H.
  set (dot := {| de_loc := dot_loc; de_len := total; de_time := di_time d; de_flags := dir_flag; de_id := [0] |}) in H.
  assert (Htot : 0 < total).
  { subst total. pose proof (entries_size_first dot0 (dotdot :: tail)).
    pose proof (sectors_bounds (entries_size (dot0 :: dotdot :: tail) 0) ltac:(lia)). unfold sector_size in *. lia. }
  set (idd := make_identifier (di_name d) j) in *.
  (* the new directory's child records cover everything still to be built that names it as its parent *)
  assert (Hnew : forall x y id, (pending ds j r (length b) id <= count_unlinked (x :: y :: tail) id)%nat).
  { intros x y id. change (x :: y :: tail) with ([x; y] ++ tail). rewrite count_unlinked_app. subst tail. rewrite count_unlinked_app.
    assert (pending ds j r (length b) id <= count_unlinked child_es id)%nat; [|lia].
    unfold pending, count_unlinked. subst child_es. 
    assert (Hsuf : exists pre, tl ds = pre ++ r).
    { rewrite Hds. destruct done as [|d0 done']; cbn [app tl]; [exists []; reflexivity|exists (done' ++ [d]); rewrite <- app_assoc; reflexivity]. }
    destruct Hsuf as [pre Hsuf]. rewrite Hsuf.
    etransitivity; [apply (filter_suffix_le _ pre)|].
    rewrite <- Hsuf.
    set (passes := fun c : ditem => match di_path c with [] => false | _ :: _ => path_eqb (removelast (di_path c)) (di_path d) end).
    (* count over the filtered list of the records with that identifier *)
    assert (Hcnt : forall l, length (filter (unlinked id) (map (fun c => {| de_loc := 0; de_len := 0; de_time := di_time c; de_flags := dir_flag; de_id := make_identifier (di_name c) j |}) (filter passes l)))
                     = length (filter (fun c => passes c && list_eqb (make_identifier (di_name c) j) id) l)).
    { induction l as [|c l' IHl]; [reflexivity|].
      cbn [filter]. destruct (passes c) eqn:Ep; cbn [andb].
      - cbn [map filter].
        assert (Hu : unlinked id {| de_loc := 0; de_len := 0; de_time := di_time c; de_flags := dir_flag; de_id := make_identifier (di_name c) j |}
                     = list_eqb (make_identifier (di_name c) j) id).
        { unfold unlinked. cbn [de_id de_flags de_len].
          replace (negb (Z.land dir_flag dir_flag =? 0)) with true by reflexivity. replace (0 =? 0) with true by reflexivity.
          rewrite !Bool.andb_true_r. reflexivity. }
        rewrite Hu.
        destruct (list_eqb (make_identifier (di_name c) j) id); cbn [length]; [f_equal|]; exact IHl.
      - exact IHl. }
    rewrite Hcnt. apply filter_impl_le. intros c _ Hw.
    destruct (wants_passes ds j (length b) id c d Hd Hw) as [Hp Hi]. subst passes. cbv beta. rewrite Hp, Hi, list_eqb_refl. reflexivity. }
  destruct (parent_index ds d) as [pi|] eqn:Epi; injection H as <-.
  - (* a parent: its record for this directory gets the location *)
    split.
    + intros qi es Hes id. destruct (Nat.lt_ge_cases qi (length b)) as [Hlt|Hge].
      * rewrite nth_error_app1 in Hes by (rewrite update_nth_length; exact Hlt).
        rewrite nth_error_update_nth in Hes. destruct (nth_error b qi) as [es0|] eqn:E0; [|destruct (qi =? pi)%nat; discriminate].
        specialize (Hpend qi es0 E0 id). unfold pending in Hpend. cbn [filter] in Hpend.
        destruct (qi =? pi)%nat eqn:Eq.
        -- cbn [option_map] in Hes. injection Hes as <-. assert (qi = pi) by lia. subst qi.
           destruct (list_eqb idd id) eqn:Eid.
           ++ apply list_eqb_eq in Eid. subst id.
              assert (Hw : wants ds j pi idd d = true) by (unfold wants; rewrite Epi, Nat.eqb_refl; subst idd; rewrite list_eqb_refl; reflexivity).
              rewrite Hw in Hpend. cbn [length] in Hpend.
              destruct (link_child_patches es0 idd dot_loc total ltac:(lia) ltac:(lia)) as (_ & Hc & _).
              rewrite Hc. unfold pending. lia.
           ++ assert (Hw : wants ds j pi id d = false) by (unfold wants; subst idd; rewrite Eid; apply Bool.andb_false_r).
              rewrite Hw in Hpend.
              assert (Hneq : id <> idd) by (intros ->; rewrite list_eqb_refl in Eid; discriminate).
              destruct (Nat.eq_dec (count_unlinked es0 idd) 0) as [Hz|Hnz].
              ** (* nothing to patch: link_child leaves the list as it is *)
                 assert (Hsame : link_child es0 idd dot_loc total = es0).
                 { clear -Hz. unfold count_unlinked in Hz. induction es0 as [|e r0 IH]; cbn [link_child]; [reflexivity|].
                   cbn [filter] in Hz. fold (unlinked idd e). destruct (unlinked idd e); [cbn in Hz; lia|]. f_equal. apply IH. exact Hz. }
                 rewrite Hsame. exact Hpend.
              ** destruct (link_child_patches es0 idd dot_loc total ltac:(lia) ltac:(lia)) as (_ & _ & Ho).
                 rewrite (Ho id Hneq). exact Hpend.
        -- injection Hes as <-. destruct (wants ds j qi id d) eqn:Hw.
           ++ exfalso. unfold wants in Hw. rewrite Epi in Hw. apply andb_prop in Hw as [Hw _]. lia.
           ++ exact Hpend.
      * rewrite nth_error_app2 in Hes by (rewrite update_nth_length; exact Hge). rewrite update_nth_length in Hes.
        destruct (qi - length b)%nat as [|m] eqn:Em; cbn [nth_error] in Hes; [|destruct m; discriminate].
        injection Hes as <-. assert (qi = length b) by lia. subst qi. apply Hnew.
    + intros k dk pk Hk Hkl Hpk Hlt. rewrite Hlen' in Hkl.
      destruct (Nat.eq_dec k (length b)) as [->|Hne].
      * (* the directory just built *)
        rewrite Hd in Hk. injection Hk as <-. rewrite Epi in Hpk. injection Hpk as <-.
        destruct (nth_error b pi) as [pes|] eqn:Ep; [|apply nth_error_None in Ep; lia].
        assert (Hw : wants ds j pi idd d = true) by (unfold wants; rewrite Epi, Nat.eqb_refl; subst idd; rewrite list_eqb_refl; reflexivity).
        pose proof (Hpend pi pes Ep idd) as Hp1. unfold pending in Hp1. cbn [filter] in Hp1. rewrite Hw in Hp1. cbn [length] in Hp1.
        destruct (link_child_patches pes idd dot_loc total ltac:(lia) ltac:(lia)) as ((e & Hin & Hl) & _ & _).
        exists (link_child pes idd dot_loc total), e, dot, (dotdot :: tail).
        split; [rewrite nth_error_app1 by (rewrite update_nth_length; lia); rewrite nth_error_update_nth, Nat.eqb_refl, Ep; reflexivity|].
        split; [exact Hin|]. split; [rewrite nth_error_app2 by (rewrite update_nth_length; lia); rewrite update_nth_length, Nat.sub_diag; reflexivity|].
        split; [exact Hl|exact Htot].
      * destruct (Hreach k dk pk Hk ltac:(lia) Hpk Hlt) as (es & e & dotk & restk & H1 & H2 & H3 & H4 & H5).
        destruct (nth_error ds k) as [dk'|] eqn:Edk; [|discriminate]. injection Hk as <-.
        destruct (Hheads _ _ _ H3 Edk) as (dt & dd0 & rest0 & Heq & _ & _ & L3 & _ & L5 & _ & _).
        injection Heq as <- ->.
        exists (if (pk =? pi)%nat then link_child es idd dot_loc total else es), e, dotk,
               (if (k =? pi)%nat then dd0 :: link_child rest0 idd dot_loc total else dd0 :: rest0).
        split; [rewrite nth_error_app1 by (rewrite update_nth_length; lia); rewrite nth_error_update_nth, H1; destruct (pk =? pi)%nat; reflexivity|].
        split; [destruct (pk =? pi)%nat; [apply link_child_keeps; [exact H2|destruct H4 as (_ & _ & H4 & _); lia]|exact H2]|].
        split; [|split; [exact H4|exact H5]].
        rewrite nth_error_app1 by (rewrite update_nth_length; lia). rewrite nth_error_update_nth, H3.
        destruct (k =? pi)%nat; [|reflexivity]. cbn [option_map]. f_equal.
        apply link_child_head; auto. apply make_identifier_not_special.
  - (* the root: nothing is patched *)
    split.
    + intros qi es Hes id. destruct (Nat.lt_ge_cases qi (length b)) as [Hlt|Hge].
      * rewrite nth_error_app1 in Hes by exact Hlt. specialize (Hpend qi es Hes id). unfold pending in *. cbn [filter] in Hpend.
        destruct (wants ds j qi id d) eqn:Hw; [unfold wants in Hw; rewrite Epi in Hw; discriminate|exact Hpend].
      * rewrite nth_error_app2 in Hes by exact Hge.
        destruct (qi - length b)%nat as [|m] eqn:Em; cbn [nth_error] in Hes; [|destruct m; discriminate].
        injection Hes as <-. assert (qi = length b) by lia. subst qi. apply Hnew.
    + intros k dk pk Hk Hkl Hpk Hlt. rewrite Hlen' in Hkl.
      destruct (Nat.eq_dec k (length b)) as [->|Hne]; [rewrite Hd in Hk; injection Hk as <-; congruence|].
      destruct (Hreach k dk pk Hk ltac:(lia) Hpk Hlt) as (es & e & dotk & restk & H1 & H2 & H3 & H4 & H5).
      exists es, e, dotk, restk. repeat split; auto; try (apply H4).
      * rewrite nth_error_app1 by lia. exact H1.
      * rewrite nth_error_app1 by lia. exact H3.
Qed.

Lemma build_dirs_children ds j : forall todo done b b', ds = done ++ todo -> length b = length done ->
  heads_inv ds b -> pend_inv ds j b todo -> reach_inv ds j b ->
  build_dirs ds j todo b = Ok b' -> reach_inv ds j b' /\ heads_inv ds b'.
Proof.
  induction todo as [|d r IH]; intros done b b' Hds Hl Hh Hp Hr H; cbn [build_dirs] in H.
  - injection H as <-. auto.
  - unfold bind in H. destruct (make_dir_entries ds j b d) as [b1|] eqn:E1; [|discriminate].
    destruct (make_dir_entries_children _ _ _ _ _ _ _ Hds Hl Hh Hp Hr E1) as [Hp1 Hr1].
    assert (Hd : nth_error ds (length b) = Some d) by (rewrite Hds, nth_error_app2 by lia; rewrite Hl, Nat.sub_diag; reflexivity).
    assert (Hle : (length b <= length ds)%nat) by (rewrite Hds, app_length; lia).
    destruct (make_dir_entries_heads _ _ _ _ _ Hh Hle Hd E1) as [Hh1 Hl1].
    apply (IH (done ++ [d]) b1 b'); auto.
    + rewrite <- app_assoc. exact Hds.
    + rewrite app_length. cbn [length]. lia.
Qed.

(* the image: in both hierarchies every directory other than the root has, in the extent of the directory the scan
   found it in (listed earlier), a record with its identifier, the directory flag, and the location and length of
   its own "." - so a reader that starts at the root record and follows directory records reaches every directory *)
Definition hier_reach (ds : list ditem) (j : bool) (f : built) : Prop :=
  forall k d pi, nth_error ds k = Some d -> parent_index ds d = Some pi ->
    (pi < k)%nat /\
    exists es e dotk restk, nth_error f pi = Some es /\ In e es /\ nth_error f k = Some (dotk :: restk) /\
      de_id e = make_identifier (di_name d) j /\ de_loc e = de_loc dotk /\ de_len e = de_len dotk /\
      Z.land (de_flags e) dir_flag <> 0 /\ 0 < de_len e.

Theorem every_directory_reachable root v ps3 gc now rnd bi : build_image root v ps3 gc now rnd = Ok bi ->
  exists ds f_iso f_jol pre,
    bi_fsbuf bi = pre ++ dirs_bytes f_iso ++ dirs_bytes f_jol /\
    length f_iso = length ds /\ length f_jol = length ds /\
    hier_reach ds false f_iso /\ hier_reach ds true f_jol.
Proof.
  intros H. apply build_image_inv in H as (ds & fsec & b_iso & b_jol & Hscan & Hi & Hj & Hgc & ->).
  pose proof (build_dirs_ok _ _ _ Hi) as [Hli _]. pose proof (build_dirs_ok _ _ _ Hj) as [Hlj _].
  assert (P0 : forall j, pend_inv ds j [] ds) by (intros j pi es He; destruct pi; discriminate).
  assert (R0 : forall j, reach_inv ds j []) by (intros j k d pi _ Hk; cbn in Hk; lia).
  destruct (build_dirs_children ds false ds [] [] b_iso eq_refl eq_refl (heads_inv_nil ds) (P0 false) (R0 false) Hi) as [Ri Hhi].
  destruct (build_dirs_children ds true ds [] [] b_jol eq_refl eq_refl (heads_inv_nil ds) (P0 true) (R0 true) Hj) as [Rj Hhj].
  unfold assemble. cbn [bi_fsbuf]. unfold fsbuf_of.
  set (pt := make_path_table ds false ds b_iso 0). set (ptj := make_path_table ds true ds b_jol 0).
  set (iso_lba := sectors system_area_size + volume_descriptors_count + 1 + sectors (pt_total pt) * 2 + sectors (pt_total ptj) * 2).
  set (jol_lba := iso_lba + sectors (built_size b_iso)).
  set (files_lba := jol_lba + sectors (built_size b_jol)).
  exists ds, (map (map (fix_entry iso_lba files_lba)) b_iso), (map (map (fix_entry jol_lba files_lba)) b_jol). eexists.
  split; [repeat rewrite app_assoc; reflexivity|].
  split; [rewrite map_length; exact Hli|]. split; [rewrite map_length; exact Hlj|].
  assert (Hgen : forall j b base, reach_inv ds j b -> heads_inv ds b -> length b = length ds ->
            hier_reach ds j (map (map (fix_entry base files_lba)) b)).
  { intros j b base Hr Hh Hlb k d pi Hk Hp.
    pose proof (parent_before _ _ _ Hscan k d pi Hk Hp) as Hlt. split; [exact Hlt|].
    assert (Hkb : (k < length b)%nat) by (rewrite Hlb; apply nth_error_Some; congruence).
    destruct (Hr k d pi Hk Hkb Hp Hlt) as (es & e & dotk & restk & H1 & H2 & H3 & (L1 & L2 & L3 & L4) & H5).
    destruct (Hh _ _ _ H3 Hk) as (dt & dd0 & rest0 & Heq & _ & _ & _ & _ & _ & [F1 _] & _). injection Heq as <- _.
    exists (map (fix_entry base files_lba) es), (fix_entry base files_lba e), (fix_entry base files_lba dotk), (map (fix_entry base files_lba) restk).
    split; [rewrite nth_error_map, H1; reflexivity|]. split; [apply in_map; exact H2|].
    split; [rewrite nth_error_map, H3; reflexivity|].
    destruct (fix_dir base files_lba dotk F1) as [D1 D2].
    assert (E1 : de_loc (fix_entry base files_lba e) = de_loc e + base /\ de_len (fix_entry base files_lba e) = de_len e /\ de_flags (fix_entry base files_lba e) = de_flags e).
    { unfold fix_entry. destruct (Z.land (de_flags e) dir_flag =? 0) eqn:E; [lia|]. cbn. auto. }
    destruct E1 as (E1 & E2 & E3).
    rewrite fix_entry_id, E1, E2, E3, D1, D2. repeat split; auto; lia. }
  split; [apply Hgen; auto|apply Hgen; auto].
Qed.
