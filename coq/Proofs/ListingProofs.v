(* Proofs/ListingProofs.v — directory listing, stat and dir-size report the true tree (C06). *)
From Coq Require Import ZifyBool ZifyNat Permutation.
From Verif Require Import Lib.Bytes Model.Path Model.Fs Model.Session Gen.Consts Spec.ProtoSpec Proofs.SessionProofs.

(* ---- sorted enumeration is a permutation of the directory's names ---- *)
Lemma insert_sorted_perm x l : Permutation (insert_sorted x l) (x :: l).
Proof.
  induction l as [|y r IH]; cbn [insert_sorted]; [reflexivity|].
  destruct (lexcmp x y); try reflexivity.
  rewrite IH. apply perm_swap.
Qed.

Lemma sort_names_perm l : Permutation (sort_names l) l.
Proof.
  induction l as [|x r IH]; cbn [sort_names fold_right]; [reflexivity|].
  fold (sort_names r). rewrite insert_sorted_perm. constructor. exact IH.
Qed.

(* ---- what an open handle's Stat reports is the stat of the path it was opened at ---- *)
Lemma os_open_stat c w rel h : os_open c w rel = Ok h ->
  h_stat c w h = fs_stat (plen c) w (abs_path c rel) /\ hrel h = rel /\ hdents h = None.
Proof.
  unfold os_open, fs_stat, resolve. destruct (path_precheck (plen c) (abs_path c rel)); cbn [bind]; [|discriminate].
  destruct (walk (tree w) (abs_path c rel)) as [n|] eqn:Ew; cbn [bind]; [|discriminate].
  destruct n; intro H; inversion H; subst; cbn [h_stat hobj_ hrel hdents]; auto.
  rewrite Ew. cbn [bind]. auto.
Qed.

(* OPEN_DIR answers 0 exactly for paths that are directories *)
Theorem open_dir_iff c w k p :
  o_out (step c w k (ROpenDir p)) = be32 0 <->
  exists fi, fs_stat (plen c) w (abs_path c (rooted_elems p)) = Ok fi /\ fi_dir fi = true.
Proof.
  cbn [step]. unfold fs_open_view.
  destruct (os_open c w (rooted_elems p)) as [h|e] eqn:Eo; cbn [bind].
  - destruct (os_open_stat _ _ _ _ Eo) as (Hs & _ & _). unfold view_stat. rewrite Hs.
    destruct (fs_stat (plen c) w (abs_path c (rooted_elems p))) as [fi|]; cbn [o_out done].
    + unfold enc_result32. destruct (fi_dir fi) eqn:Ed; split.
      * intros _. eauto.
      * reflexivity.
      * intro H. vm_compute in H. discriminate.
      * intros (fi' & H & Hd). inversion H; subst. congruence.
    + split; [intro H; vm_compute in H; discriminate|]. intros (fi & H & _). discriminate.
  - cbn [o_out done]. split; [intro H; vm_compute in H; discriminate|].
    intros (fi & H & _). unfold os_open, fs_stat in *.
    destruct (resolve (plen c) w (abs_path c (rooted_elems p))) as [n|]; cbn [bind] in *; [|discriminate].
    destruct n; discriminate.
Qed.

(* ---- the entries an enumeration reports: names that are not "." / ".." and can be statted ---- *)
Fixpoint entries (c : cfg) (w : world) (rel : list bytes) (names : list bytes) : list (bytes * finfo) :=
  match names with
  | [] => []
  | n :: r =>
      if list_eqb n [dot] || list_eqb n [dot; dot] then entries c w rel r
      else match fs_stat (plen c) w (abs_path c (rel ++ [n])) with
           | Ok fi => (n, fi) :: entries c w rel r
           | Err _ => entries c w rel r
           end
  end.

Lemma next_entry_spec c w rel names :
  match entries c w rel names with
  | [] => fst (next_entry c w rel names) = None
  | e :: es => exists rest, next_entry c w rel names = (Some e, rest) /\ entries c w rel rest = es
  end.
Proof.
  induction names as [|n r IH]; cbn [entries next_entry]; [reflexivity|].
  destruct (list_eqb n [dot] || list_eqb n [dot; dot]); [exact IH|].
  destruct (fs_stat (plen c) w (abs_path c (rel ++ [n]))) as [fi|]; [|exact IH].
  exists r. split; reflexivity.
Qed.

Definition enc_entry (v2 : bool) (e : bytes * finfo) : bytes :=
  let (nm, fi) := e in
  (if v2 then enc_dirent_v2 (eff_size fi) (fi_mtime fi) masked_ctime masked_atime (zlen nm) (fi_dir fi)
   else enc_dirent (eff_size fi) (zlen nm) (fi_dir fi))
  ++ (if zlen nm mod 2 ^ 16 =? 0 then [] else nm).

Definition end_marker (v2 : bool) : bytes :=
  if v2 then enc_dirent_v2 (-1) 0 0 0 0 false else enc_dirent (-1) 0 false.

Definition entry_req (v2 : bool) : request := if v2 then RReadDirEntryV2 else RReadDirEntry.

(* n consecutive entry requests (either flavour each time) *)
Fixpoint dir_iter (c : cfg) (w : world) (k : conn) (flav : list bool) : list bytes * conn :=
  match flav with
  | [] => ([], k)
  | v2 :: r => let o := step c w k (entry_req v2) in
               let (outs, k') := dir_iter c w (o_conn o) r in (o_out o :: outs, k')
  end.

Lemma entry_step c w k v2 h names :
  cwd k = Some (VPlain h) -> h_load_dents w h = Ok names ->
  step c w k (entry_req v2) =
  match entries c w (hrel h) names with
  | [] => done w (set_cwd k None 0 1) (end_marker v2)
  | e :: _ => done w (set_cwd k (Some (VPlain (with_dents h (snd (next_entry c w (hrel h) names))))) 0 0) (enc_entry v2 e)
  end.
Proof.
  intros Hc Hl. pose proof (next_entry_spec c w (hrel h) names) as S.
  destruct v2; cbn [entry_req step]; cbv zeta; rewrite Hc, Hl;
    destruct (entries c w (hrel h) names) as [|[nm fi] es].
  - destruct (next_entry c w (hrel h) names) as [[x|] rest]; cbn [fst] in S; [discriminate|reflexivity].
  - destruct S as (rest & -> & _). reflexivity.
  - destruct (next_entry c w (hrel h) names) as [[x|] rest]; cbn [fst] in S; [discriminate|reflexivity].
  - destruct S as (rest & -> & _). reflexivity.
Qed.

(* entry-by-entry enumeration: every entry exactly once, in order, then the end marker; the directory
   handle is closed at the end; any mix of the two entry commands *)
Theorem dir_iter_all c w : forall es k h names flav,
  cwd k = Some (VPlain h) -> h_load_dents w h = Ok names -> entries c w (hrel h) names = es ->
  length flav = S (length es) ->
  exists k', dir_iter c w k flav = (map (fun p => enc_entry (fst p) (snd p)) (combine flav es) ++ [end_marker (last flav false)], k')
             /\ cwd k' = None /\ closes k' = closes k + 1 /\ opens k' = opens k /\ ro k' = ro k /\ wo k' = wo k.
Proof.
  induction es as [|e es IH]; intros k h names flav Hc Hl He Hf.
  - destruct flav as [|v2 [|? ?]]; try discriminate. cbn [dir_iter combine map app last].
    rewrite (entry_step c w k v2 h names Hc Hl), He. cbn [o_conn o_out done].
    eexists. split; [reflexivity|]. cbn [set_cwd cwd closes opens ro wo]. repeat split; lia.
  - destruct flav as [|v2 flav]; [discriminate|]. cbn [length] in Hf.
    cbn [dir_iter]. rewrite (entry_step c w k v2 h names Hc Hl), He. cbn [o_conn o_out done].
    pose proof (next_entry_spec c w (hrel h) names) as S. rewrite He in S. destruct S as (rest & Hn & Hr).
    rewrite Hn. cbn [snd].
    set (k1 := set_cwd k (Some (VPlain (with_dents h rest))) 0 0).
    destruct (IH k1 (with_dents h rest) rest flav) as (k' & Hd & H1 & H2 & H3 & H4 & H5); auto; try lia.
    rewrite Hd. exists k'. split.
    + cbn [combine map app fst snd]. f_equal. f_equal.
      destruct flav; [discriminate|reflexivity].
    + subst k1. cbn [set_cwd closes opens ro wo] in *. repeat split; auto; lia.
Qed.

(* ---- bulk listing ---- *)
Lemma readdir_infos_spec c w rel names :
  readdir_infos c w rel names =
  (fix go l := match l with
               | [] => []
               | n :: r => match fs_stat (plen c) w (abs_path c (rel ++ [n])) with
                           | Ok fi => (n, fi) :: go r | Err _ => go r end
               end) names.
Proof. induction names as [|n r IH]; cbn [readdir_infos]; [reflexivity|]. rewrite IH. reflexivity. Qed.

Definition statable (c : cfg) (w : world) (rel : list bytes) (n : bytes) : bool :=
  match fs_stat (plen c) w (abs_path c (rel ++ [n])) with Ok _ => true | Err _ => false end.

Lemma readdir_infos_names c w rel names :
  map fst (readdir_infos c w rel names) = filter (statable c w rel) names.
Proof.
  induction names as [|n r IH]; cbn [readdir_infos filter map]; [reflexivity|].
  unfold statable at 1. destruct (fs_stat (plen c) w (abs_path c (rel ++ [n]))); cbn [map fst]; rewrite IH; reflexivity.
Qed.

Lemma readdir_infos_true c w rel names n fi :
  In (n, fi) (readdir_infos c w rel names) -> fs_stat (plen c) w (abs_path c (rel ++ [n])) = Ok fi.
Proof.
  induction names as [|m r IH]; cbn [readdir_infos]; [contradiction|].
  destruct (fs_stat (plen c) w (abs_path c (rel ++ [m]))) eqn:E; cbn [In]; [|exact IH].
  intros [H|H]; [inversion H; subst; exact E|apply IH; exact H].
Qed.

(* READ_DIR right after a successful OPEN_DIR of a directory with children cs: the count, then one
   fixed-size record per child that can be statted, each child once (a permutation of the children),
   each with its true kind, size (0 for directories), mtime and name *)
Theorem read_dir_lists c w k h m cs :
  cwd k = Some (VPlain h) -> hdents h = None -> hobj_ h = HDir (abs_path c (hrel h)) ->
  walk (tree w) (abs_path c (hrel h)) = Ok (Dir m cs) ->
  exists infos,
    o_out (step c w k RReadDir) =
      be64 (zlen infos) ++ concat (map (fun e => enc_dir_entry (eff_size (snd e)) (fi_mtime (snd e)) (fi_dir (snd e)) (fst e)) infos) /\
    Permutation (map fst infos) (filter (statable c w (hrel h)) (map fst cs)) /\
    (forall n fi, In (n, fi) infos -> fs_stat (plen c) w (abs_path c (hrel h ++ [n])) = Ok fi) /\
    o_world (step c w k RReadDir) = w /\ o_close (step c w k RReadDir) = false.
Proof.
  intros Hc Hd Ho Hw. cbn [step]. rewrite Hc. unfold h_load_dents. rewrite Hd, Ho, Hw. cbn [bind dir_names].
  exists (readdir_infos c w (hrel h) (sort_names (map fst cs))). cbn [o_out o_world o_close done].
  split; [reflexivity|]. split; [|split; [|split; reflexivity]].
  - rewrite readdir_infos_names.
    (* filter respects permutations *)
    assert (forall (f : bytes -> bool) l1 l2, Permutation l1 l2 -> Permutation (filter f l1) (filter f l2)) as PF.
    { intros f l1 l2 P. induction P; cbn [filter].
      - reflexivity.
      - destruct (f x); [constructor|]; auto.
      - destruct (f x), (f y); try reflexivity. apply perm_swap.
      - etransitivity; eauto. }
    apply PF. apply sort_names_perm.
  - intros n fi Hin. eapply readdir_infos_true; eauto.
Qed.

(* ---- stat and dir-size ---- *)
Theorem stat_true c w k p :
  step c w k (RStatFile p) =
  match fs_stat (plen c) w (abs_path c (rooted_elems p)) with
  | Ok fi => done w k (enc_stat (eff_size fi) (fi_mtime fi) masked_ctime masked_atime (fi_dir fi))
  | Err _ => done w k (enc_stat (-1) 0 0 0 false)
  end.
Proof. cbn [step]. destruct (fs_stat (plen c) w (abs_path c (rooted_elems p))); reflexivity. Qed.

(* the total the walk computes: sum of the sizes of the regular files beneath a node *)
Fixpoint files_below (n : node) : list nat :=
  match n with
  | File i => [i]
  | Dir _ cs => (fix go (l : list (bytes * node)) : list nat :=
                   match l with [] => [] | (_, c) :: r => files_below c ++ go r end) cs
  end.

Definition ino_size (w : world) (i : nat) : Z :=
  match get_inode (inodes w) i with Some x => zlen (idata x) | None => 0 end.

Fixpoint zsum (l : list Z) : Z := match l with [] => 0 | x :: r => x + zsum r end.

Lemma zsum_app a b : zsum (a ++ b) = zsum a + zsum b.
Proof. induction a; cbn [zsum app]; lia. Qed.

Lemma tree_size_sum w : forall n, tree_size w n = zsum (map (ino_size w) (files_below n)).
Proof.
  fix IH 1. intros [i|m cs]; cbn [tree_size files_below].
  - unfold ino_size. cbn [map zsum]. lia.
  - induction cs as [|[nm ch] r IHr]; [reflexivity|].
    rewrite map_app, zsum_app. rewrite <- IH, <- IHr. reflexivity.
Qed.

Theorem dir_size_true c w k p :
  step c w k (RGetDirSize p) =
  done w k (be64 (wrap64 (match resolve (plen c) w (abs_path c (rooted_elems p)) with
                          | Ok n => zsum (map (ino_size w) (files_below n))
                          | Err _ => 0 end))).
Proof.
  cbn [step]. unfold dir_size. destruct (resolve (plen c) w (abs_path c (rooted_elems p))); [|reflexivity].
  rewrite tree_size_sum. reflexivity.
Qed.
