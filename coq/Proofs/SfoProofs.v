(* Proofs/SfoProofs.v — sfoField returns the value of a key of every well-formed PARAM.SFO, whatever the number
   and order of its entries (C08: "all well-formed PARAM.SFO files"). *)
From Coq Require Import ZifyBool ZifyNat.
From Verif Require Import Lib.Bytes Model.Fs Gen.Consts Model.IsoRead Model.IsoBuild Model.Sfo
  Proofs.ProtoProofs Proofs.SessionProofs Proofs.IsoBuildProofs Proofs.IsoDecodeProofs.

Ltac Zify.zify_post_hook ::= Z.div_mod_to_equations.

Lemma zlen_le_bytes n v : zlen (le_bytes n v) = Z.of_nat n.
Proof. unfold le_bytes, zlen. rewrite rev_length, be_enc_length. reflexivity. Qed.

Lemma le_at_mid (a r : bytes) w v : 0 <= v < 256 ^ Z.of_nat w ->
  le_at (a ++ le_bytes w v ++ r) (zlen a) (Z.of_nat w) = v.
Proof.
  intros Hv. unfold le_at. rewrite slice_mid by (auto; apply zlen_le_bytes).
  unfold le_bytes. rewrite rev_involutive, val_be_enc. apply Z.mod_small. exact Hv.
Qed.

Lemma zlen_index_entry a b c : zlen (sfo_index_entry a b c) = 16.
Proof. unfold sfo_index_entry. rewrite !zlen_app, !zlen_le_bytes. reflexivity. Qed.

Definition entry_of (t : Z * Z * Z) : sfo_entry := {| se_key_off := fst (fst t); se_len := snd (fst t); se_data_off := snd t |}.
Definition enc_t (t : Z * Z * Z) : bytes := sfo_index_entry (fst (fst t)) (snd (fst t)) (snd t).
Lemma zlen_enc_t t : zlen (enc_t t) = 16.
Proof. apply zlen_index_entry. Qed.

Definition small (t : Z * Z * Z) : Prop := 0 <= fst (fst t) < 65536 /\ 0 <= snd (fst t) < 2 ^ 32 /\ 0 <= snd t < 2 ^ 32.

(* reading index entry i + j of a file whose index table holds the encoded triples ts from entry i on *)
Lemma read_entry_at ts : forall j t pre post i, nth_error ts j = Some t -> Forall small ts -> 0 <= i ->
  zlen pre = 20 + 16 * i ->
  read_entry (pre ++ concat (map enc_t ts) ++ post) (i + Z.of_nat j) = Some (entry_of t).
Proof.
  induction ts as [|t0 r IH]; intros j t pre post i Hn Hs Hi Hpre; [destruct j; discriminate|].
  inversion Hs as [|? ? Hs0 Hsr]; subst.
  destruct j as [|j]; cbn [nth_error map concat] in *.
  - injection Hn as <-. replace (i + Z.of_nat 0) with i by lia.
    unfold read_entry. destruct Hs0 as (H1 & H2 & H3).
    pose proof (zlen_nonneg post). pose proof (zlen_nonneg (concat (map enc_t r))).
    replace (zlen (pre ++ (enc_t t0 ++ concat (map enc_t r)) ++ post) <? 20 + 16 * i + 16) with false
      by (rewrite !zlen_app, zlen_enc_t; lia).
    set (tl := concat (map enc_t r)). unfold entry_of, enc_t, sfo_index_entry. f_equal. f_equal.
    + rewrite <- Hpre. repeat rewrite <- app_assoc. apply (le_at_mid pre _ 2). cbn. lia.
    + replace (20 + 16 * i + 4) with (zlen (pre ++ le_bytes 2 (fst (fst t0)) ++ le_bytes 2 516))
        by (rewrite !zlen_app, !zlen_le_bytes; lia).
      replace (pre ++ ((le_bytes 2 (fst (fst t0)) ++ le_bytes 2 516 ++ le_bytes 4 (snd (fst t0)) ++ le_bytes 4 (snd (fst t0)) ++ le_bytes 4 (snd t0)) ++ tl) ++ post)
        with ((pre ++ le_bytes 2 (fst (fst t0)) ++ le_bytes 2 516) ++ le_bytes 4 (snd (fst t0)) ++ (le_bytes 4 (snd (fst t0)) ++ le_bytes 4 (snd t0) ++ tl ++ post))
        by (repeat rewrite <- app_assoc; reflexivity).
      apply (le_at_mid _ _ 4). change (256 ^ Z.of_nat 4) with (2 ^ 32). lia.
    + replace (20 + 16 * i + 12) with (zlen (pre ++ le_bytes 2 (fst (fst t0)) ++ le_bytes 2 516 ++ le_bytes 4 (snd (fst t0)) ++ le_bytes 4 (snd (fst t0))))
        by (rewrite !zlen_app, !zlen_le_bytes; lia).
      replace (pre ++ ((le_bytes 2 (fst (fst t0)) ++ le_bytes 2 516 ++ le_bytes 4 (snd (fst t0)) ++ le_bytes 4 (snd (fst t0)) ++ le_bytes 4 (snd t0)) ++ tl) ++ post)
        with ((pre ++ le_bytes 2 (fst (fst t0)) ++ le_bytes 2 516 ++ le_bytes 4 (snd (fst t0)) ++ le_bytes 4 (snd (fst t0))) ++ le_bytes 4 (snd t0) ++ (tl ++ post))
        by (repeat rewrite <- app_assoc; reflexivity).
      apply (le_at_mid _ _ 4). change (256 ^ Z.of_nat 4) with (2 ^ 32). lia.
  - replace (i + Z.of_nat (S j)) with ((i + 1) + Z.of_nat j) by lia.
    replace (pre ++ (enc_t t0 ++ concat (map enc_t r)) ++ post) with ((pre ++ enc_t t0) ++ concat (map enc_t r) ++ post)
      by (repeat rewrite <- app_assoc; reflexivity).
    apply IH; auto; try lia. rewrite zlen_app, zlen_enc_t. lia.
Qed.

Definition nul_free (k : bytes) : Prop := Forall (fun b => b <> 0) k.

Lemma until_nul_key k rest : nul_free k -> until_nul (k ++ 0 :: rest) = Some k.
Proof.
  induction 1 as [|b r Hb _ IH]; cbn [app until_nul]; [reflexivity|].
  replace (b =? 0) with false by lia. rewrite IH. reflexivity.
Qed.

(* where the j-th key and value sit *)
Lemma layout_positions es : forall j k v t koff doff,
  nth_error es j = Some (k, v) -> nth_error (sfo_layout es koff doff) j = Some t ->
  snd (fst t) = zlen v + 1 /\
  (exists ka kb, sfo_key_table es = ka ++ k ++ 0 :: kb /\ zlen ka = fst (fst t) - koff) /\
  (exists da db, sfo_data_table es = da ++ v ++ 0 :: db /\ zlen da = snd t - doff).
Proof.
  induction es as [|[k0 v0] r IH]; intros j k v t koff doff He Ht; [destruct j; discriminate|].
  destruct j as [|j]; cbn [nth_error sfo_layout] in *.
  - injection He as <- <-. injection Ht as <-. cbn [fst snd]. split; [reflexivity|].
    unfold sfo_key_table, sfo_data_table. cbn [map concat fst snd]. split.
    + exists [], (concat (map (fun e => fst e ++ [0]) r)). split; [rewrite <- app_assoc; reflexivity|cbn; lia].
    + exists [], (concat (map (fun e => snd e ++ [0]) r)). split; [rewrite <- app_assoc; reflexivity|cbn; lia].
  - destruct (IH _ _ _ _ _ _ He Ht) as (H1 & (ka & kb & Hk & Hka) & (da & db & Hd & Hda)).
    split; [exact H1|]. unfold sfo_key_table, sfo_data_table in *. cbn [map concat fst snd]. split.
    + exists ((k0 ++ [0]) ++ ka), kb. split; [rewrite Hk; repeat rewrite <- app_assoc; reflexivity|].
      rewrite !zlen_app. unfold zlen at 2. cbn [length]. lia.
    + exists ((v0 ++ [0]) ++ da), db. split; [rewrite Hd; repeat rewrite <- app_assoc; reflexivity|].
      rewrite !zlen_app. unfold zlen at 2. cbn [length]. lia.
Qed.

Lemma layout_length es : forall koff doff, length (sfo_layout es koff doff) = length es.
Proof. induction es as [|[k v] r IH]; intros; cbn [sfo_layout length]; auto. Qed.

Lemma layout_small es : forall koff doff, 0 <= koff -> 0 <= doff ->
  koff + zlen (sfo_key_table es) < 65536 -> doff + zlen (sfo_data_table es) < 65536 ->
  Forall small (sfo_layout es koff doff).
Proof.
  induction es as [|[k v] r IH]; intros koff doff H1 H2 H3 H4; cbn [sfo_layout]; constructor.
  - unfold small, sfo_key_table, sfo_data_table in *. cbn [map concat fst snd] in *. rewrite !zlen_app in *.
    unfold zlen at 2 in H3. unfold zlen at 2 in H4. cbn [length] in *.
    pose proof (zlen_nonneg k). pose proof (zlen_nonneg v).
    pose proof (zlen_nonneg (concat (map (fun e => fst e ++ [0]) r))). pose proof (zlen_nonneg (concat (map (fun e => snd e ++ [0]) r))). lia.
  - unfold sfo_key_table, sfo_data_table in *. cbn [map concat fst snd] in *. rewrite !zlen_app in *.
    unfold zlen at 2 in H3. unfold zlen at 2 in H4. cbn [length] in *.
    pose proof (zlen_nonneg k). pose proof (zlen_nonneg v). apply IH; lia.
Qed.

Fixpoint first_value (es : list (bytes * bytes)) (field : bytes) : option bytes :=
  match es with
  | [] => None
  | (k, v) :: r => if list_eqb k field then Some v else first_value r field
  end.

Definition sfo_wf (es : list (bytes * bytes)) : Prop :=
  Forall (fun e => nul_free (fst e)) es /\
  20 + 16 * Z.of_nat (length es) + zlen (sfo_key_table es) + zlen (sfo_data_table es) < 65536.

Section RoundTrip.
  Variable es : list (bytes * bytes).
  Variable field : bytes.
  Hypothesis Hwf : sfo_wf es.

  Let n := Z.of_nat (length es).
  Let K := sfo_key_table es.
  Let D := sfo_data_table es.
  Let ks := 20 + 16 * n.
  Let ds := 20 + 16 * n + zlen K.
  Let H := sfo_magic ++ [1; 1; 0; 0] ++ le_bytes 4 ks ++ le_bytes 4 ds ++ le_bytes 4 n.
  Let IDX := concat (map enc_t (sfo_layout es 0 0)).
  Let content := H ++ IDX ++ K ++ D.

  Lemma content_eq : encode_sfo es = content.
  Proof. unfold encode_sfo, content, H, IDX, ks, ds, n, K, D, enc_t. repeat rewrite <- app_assoc. reflexivity. Qed.

  Lemma zlen_H : zlen H = 20.
  Proof. unfold H. rewrite !zlen_app, !zlen_le_bytes. reflexivity. Qed.

  Lemma zlen_IDX : zlen IDX = 16 * n.
  Proof.
    unfold IDX, n. rewrite <- (layout_length es 0 0).
    induction (sfo_layout es 0 0) as [|t r IH]; cbn [map concat length]; [reflexivity|].
    rewrite zlen_app, zlen_enc_t, IH. lia.
  Qed.

  Lemma bounds : 0 <= n /\ 0 <= zlen K /\ 0 <= zlen D /\ ds + zlen D < 65536.
  Proof. destruct Hwf as [_ Hb]. unfold ds, n, K, D. pose proof (zlen_nonneg (sfo_key_table es)). pose proof (zlen_nonneg (sfo_data_table es)). lia. Qed.

  Lemma zlen_content : zlen content = ds + zlen D.
  Proof. unfold content. rewrite !zlen_app, zlen_H, zlen_IDX. unfold ds. lia. Qed.

  Lemma header_fields : slice content 0 4 = sfo_magic /\ le_at content 8 4 = ks /\ le_at content 12 4 = ds /\ le_at content 16 4 = n.
  Proof.
    destruct bounds as (B1 & B2 & B3 & B4).
    unfold content, H. repeat rewrite <- app_assoc. split; [|split; [|split]].
    - apply (slice_mid [] sfo_magic); reflexivity.
    - apply (le_at_mid (sfo_magic ++ [1; 1; 0; 0]) _ 4). change (256 ^ Z.of_nat 4) with (2 ^ 32). unfold ks, ds in *. lia.
    - replace (sfo_magic ++ [1; 1; 0; 0] ++ le_bytes 4 ks ++ le_bytes 4 ds ++ le_bytes 4 n ++ IDX ++ K ++ D)
        with ((sfo_magic ++ [1; 1; 0; 0] ++ le_bytes 4 ks) ++ le_bytes 4 ds ++ (le_bytes 4 n ++ IDX ++ K ++ D))
        by (repeat rewrite <- app_assoc; reflexivity).
      replace 12 with (zlen (sfo_magic ++ [1; 1; 0; 0] ++ le_bytes 4 ks)) by (rewrite !zlen_app, zlen_le_bytes; reflexivity).
      apply (le_at_mid _ _ 4). change (256 ^ Z.of_nat 4) with (2 ^ 32). unfold ds in *. lia.
    - replace (sfo_magic ++ [1; 1; 0; 0] ++ le_bytes 4 ks ++ le_bytes 4 ds ++ le_bytes 4 n ++ IDX ++ K ++ D)
        with ((sfo_magic ++ [1; 1; 0; 0] ++ le_bytes 4 ks ++ le_bytes 4 ds) ++ le_bytes 4 n ++ (IDX ++ K ++ D))
        by (repeat rewrite <- app_assoc; reflexivity).
      replace 16 with (zlen (sfo_magic ++ [1; 1; 0; 0] ++ le_bytes 4 ks ++ le_bytes 4 ds)) by (rewrite !zlen_app, !zlen_le_bytes; reflexivity).
      apply (le_at_mid _ _ 4). change (256 ^ Z.of_nat 4) with (2 ^ 32). unfold ds in *. lia.
  Qed.

  Lemma layout_is_small : Forall small (sfo_layout es 0 0).
  Proof. destruct bounds as (B1 & B2 & B3 & B4). apply layout_small; unfold ds, K, D in *; lia. Qed.

  (* the index loop finds the first entry whose key is the field *)
  Lemma find_loop : forall todo done v fuel, es = done ++ todo ->
    first_value todo field = Some v -> (length todo < fuel)%nat ->
    exists j k t, nth_error es j = Some (k, v) /\ nth_error (sfo_layout es 0 0) j = Some t /\
      find_entry fuel content field ks n (Z.of_nat (length done)) = Ok (entry_of t).
  Proof.
    destruct bounds as (B1 & B2 & B3 & B4). destruct Hwf as [Hnf _].
    induction todo as [|[k v0] r IH]; intros done v fuel Hes Hfv Hfuel; [discriminate|].
    destruct fuel as [|fuel]; [cbn in Hfuel; lia|]. cbn [find_entry first_value] in *.
    set (j := length done).
    assert (Hj : nth_error es j = Some (k, v0)) by (rewrite Hes, nth_error_app2 by lia; subst j; rewrite Nat.sub_diag; reflexivity).
    assert (Hjn : (j < length es)%nat) by (rewrite Hes, app_length; cbn [length]; lia).
    destruct (nth_error (sfo_layout es 0 0) j) as [t|] eqn:Ht.
    2:{ apply nth_error_None in Ht. rewrite layout_length in Ht. lia. }
    replace (n <=? Z.of_nat j) with false by (unfold n; lia).
    pose proof (read_entry_at _ _ _ H (K ++ D) 0 Ht layout_is_small ltac:(lia) ltac:(rewrite zlen_H; lia)) as Hre.
    replace (0 + Z.of_nat j) with (Z.of_nat j) in Hre by lia. fold IDX in Hre. fold content in Hre. rewrite Hre.
    destruct (layout_positions _ _ _ _ _ _ _ Hj Ht) as (Hlen & (ka & kb & HK & Hka) & _).
    pose proof layout_is_small as Hsm. rewrite Forall_forall in Hsm. specialize (Hsm t (nth_error_In _ _ Ht)). destruct Hsm as (S1 & S2 & S3).
    cbn [entry_of se_key_off]. fold K in HK.
    assert (HkK : fst (fst t) + zlen k + 1 <= zlen K).
    { rewrite HK, !zlen_app, zlen_cons. pose proof (zlen_nonneg kb). lia. }
    pose proof (zlen_nonneg k) as Hk0.
    rewrite Z.mod_small by (unfold ks in *; lia).
    rewrite Z.min_l by (rewrite zlen_content; unfold ds, ks in *; lia).
    assert (Hsk : skipn (Z.to_nat (ks + fst (fst t))) content = k ++ 0 :: (kb ++ D)).
    { unfold content. rewrite HK.
      replace (H ++ IDX ++ (ka ++ k ++ 0 :: kb) ++ D) with ((H ++ IDX ++ ka) ++ k ++ 0 :: (kb ++ D))
        by (repeat rewrite <- app_assoc; reflexivity).
      apply skipn_app_exact. pose proof (zlen_H) as Z1. pose proof zlen_IDX as Z2.
      unfold zlen in *. rewrite !app_length. unfold ks. lia. }
    rewrite Hsk, until_nul_key.
    2:{ rewrite Forall_forall in Hnf. apply (Hnf (k, v0)). eapply nth_error_In; eauto. }
    destruct (list_eqb k field) eqn:Ek.
    - injection Hfv as <-. exists j, k, t. auto.
    - replace (Z.of_nat j + 1) with (Z.of_nat (length (done ++ [(k, v0)]))) by (rewrite app_length; cbn [length]; subst j; lia).
      apply IH; [rewrite <- app_assoc; exact Hes|exact Hfv|cbn [length] in Hfuel; lia].
  Qed.

  Theorem roundtrip v : first_value es field = Some v -> sfo_field content field = Ok v.
  Proof.
    intros Hfv. destruct bounds as (B1 & B2 & B3 & B4). destruct header_fields as (M & F1 & F2 & F3).
    unfold sfo_field. rewrite zlen_content. replace (ds + zlen D <? 20) with false by (unfold ds; lia).
    rewrite M, list_eqb_refl. cbn [negb]. rewrite F1, F2, F3.
    destruct (find_loop es [] v (S (Z.to_nat ((ds + zlen D) / 16))) eq_refl Hfv) as (j & k & t & Hj & Ht & Hfe).
    { assert (16 * n <= ds + zlen D) by (unfold ds; lia). unfold n in *. lia. }
    cbn [length] in Hfe. change (Z.of_nat 0) with 0 in Hfe. rewrite Hfe. unfold bind.
    destruct (layout_positions _ _ _ _ _ _ _ Hj Ht) as (Hlen & _ & (da & db & HD & Hda)).
    cbn [entry_of se_len se_data_off]. rewrite Hlen. replace (zlen v + 1 - 1) with (zlen v) by lia.
    destruct (zlen v <=? 0) eqn:Ev.
    - pose proof (zlen_nonneg v). destruct v; [reflexivity|rewrite zlen_cons in *; pose proof (zlen_nonneg v); lia].
    - fold D in HD. assert (HvD : snd t + zlen v + 1 <= zlen D).
      { rewrite HD, !zlen_app, zlen_cons. pose proof (zlen_nonneg db). lia. }
      replace (ds + zlen D <? ds + snd t + zlen v) with false by lia.
      f_equal. unfold content. rewrite HD.
      replace (H ++ IDX ++ K ++ da ++ v ++ 0 :: db) with ((H ++ IDX ++ K ++ da) ++ v ++ 0 :: db)
        by (repeat rewrite <- app_assoc; reflexivity).
      apply slice_mid; [|reflexivity].
      rewrite !zlen_app, zlen_H, zlen_IDX. unfold ds. lia.
  Qed.
End RoundTrip.

(* every well-formed file: any number of entries in any order, NUL-free keys, any values *)
Theorem sfo_roundtrip es field v : sfo_wf es -> first_value es field = Some v ->
  sfo_field (encode_sfo es) field = Ok v.
Proof. intros Hwf Hfv. rewrite content_eq. apply roundtrip; assumption. Qed.

(* and the image builder then accepts exactly the TITLE_IDs of 4..31 bytes (C04/C08: error otherwise, never a panic) *)
