(* Proofs/TimeoutProofs.v — idle connections are cut, active ones never (C16). *)
From Coq Require Import ZifyBool ZifyNat.
From Verif Require Import Lib.Bytes Model.Path Model.Fs Model.Session Gen.Consts Spec.ProtoSpec
  Proofs.ProtoProofs Proofs.SessionProofs Model.Timeout.

(* a request whose last byte arrives (or is already buffered) no later than T after the iteration
   started is handled, at the moment it is complete; the next iteration starts (re-arms) there *)
Lemma wf_complete rq : wf_request rq -> incomplete rq = false.
Proof. destruct rq; cbn [wf_request incomplete]; auto. intros (H1 & H2 & _). lia. Qed.

Lemma titer_done T t rq junk rest times :
  wf_request rq -> wf_junk junk ->
  Z.max t (arrival times (wire_len rq)) <= t + T \/ T <= 0 ->
  titer T t (wire rq junk ++ rest) times =
  (TDone (Z.max t (arrival times (wire_len rq))), rest, skipn (Z.to_nat (wire_len rq)) times).
Proof.
  intros Hw Hj Hc. unfold titer. rewrite (parse_wire junk Hj rq rest Hw), (wf_complete rq Hw).
  rewrite zlen_app. rewrite (wire_length rq junk Hw Hj).
  replace (wire_len rq + zlen rest - zlen rest) with (wire_len rq) by lia.
  destruct ((0 <? T) && (t + T <? Z.max t (arrival times (wire_len rq)))) eqn:E; [lia|reflexivity].
Qed.

(* ... and one that completes later is not: the connection is closed exactly at the deadline *)
Lemma titer_late T t rq junk rest times :
  wf_request rq -> wf_junk junk -> 0 < T -> t + T < Z.max t (arrival times (wire_len rq)) ->
  titer T t (wire rq junk ++ rest) times = (TCut (t + T), [], []).
Proof.
  intros Hw Hj HT Hc. unfold titer. rewrite (parse_wire junk Hj rq rest Hw), (wf_complete rq Hw).
  rewrite zlen_app. rewrite (wire_length rq junk Hw Hj).
  replace (wire_len rq + zlen rest - zlen rest) with (wire_len rq) by lia.
  replace ((0 <? T) && (t + T <? Z.max t (arrival times (wire_len rq)))) with true by lia. reflexivity.
Qed.

(* silence (nothing, or a request stalled in the middle of its command, path or payload): cut at the deadline *)
Lemma titer_stalled T t data times : 0 < T -> parse_request data = PShort ->
  titer T t data times = (TCut (t + T), [], []).
Proof. intros HT Hp. unfold titer. rewrite Hp. replace (0 <? T) with true by lia. reflexivity. Qed.

(* the same for an upload whose payload stops arriving *)
Lemma titer_stalled_payload T t data times rq rest : 0 < T -> parse_request data = PReq rq rest -> incomplete rq = true ->
  titer T t data times = (TCut (t + T), [], []).
Proof. intros HT Hp Hi. unfold titer. rewrite Hp, Hi. replace (0 <? T) with true by lia. reflexivity. Qed.

Lemma last_cons_default {A} (l : list A) : forall x d1 d2, last (x :: l) d1 = last (x :: l) d2.
Proof. induction l as [|y r IH]; intros x d1 d2; [reflexivity|]. change (last (y :: r) d1 = last (y :: r) d2). apply IH. Qed.

(* the sequence of requests with the arrival times of their bytes *)
Fixpoint gaps_ok (T : Z) (t : Z) (rqs : list request) (times : list Z) : Prop :=
  match rqs with
  | [] => True
  | rq :: r => let c := Z.max t (arrival times (wire_len rq)) in
               c <= t + T /\ gaps_ok T c r (skipn (Z.to_nat (wire_len rq)) times)
  end.

Fixpoint completions (t : Z) (rqs : list request) (times : list Z) : list Z :=
  match rqs with
  | [] => []
  | rq :: r => let c := Z.max t (arrival times (wire_len rq)) in
               c :: completions c r (skipn (Z.to_nat (wire_len rq)) times)
  end.

(* C16_alive and C16_cut in one statement: as long as every request is complete within T of the
   moment the previous one was handled, all of them are handled - however many, however long the
   connection lives - and when the client then goes silent (or stalls inside a request) the connection
   is cut exactly T after the last handled request *)
Theorem tserve_active_then_silent T : 0 < T -> forall rqs junks t times tail fuel,
  Forall wf_request rqs -> Forall wf_junk junks -> length junks = length rqs ->
  (length rqs < fuel)%nat -> parse_request tail = PShort ->
  gaps_ok T t rqs times ->
  tserve fuel T t (wires rqs junks ++ tail) times =
  (completions t rqs times, TCut (last (completions t rqs times) t + T)).
Proof.
  intros HT. induction rqs as [|rq r IH]; intros junks t times tail fuel Hw Hj Hl Hf Ht Hg.
  - destruct fuel; [cbn in Hf; lia|]. destruct junks; cbn [wires app tserve completions last];
      rewrite (titer_stalled T t tail times HT Ht); reflexivity.
  - destruct junks as [|j js]; [discriminate|]. destruct fuel; [cbn in Hf; lia|].
    inversion Hw; inversion Hj; subst. cbn [gaps_ok] in Hg. destruct Hg as [Hc Hg].
    cbn [wires tserve completions]. rewrite <- app_assoc.
    rewrite titer_done by (auto; lia).
    rewrite (IH js _ _ tail fuel) by (auto; cbn [length] in *; lia).
    f_equal. f_equal.
    destruct (completions (Z.max t (arrival times (wire_len rq))) r (skipn (Z.to_nat (wire_len rq)) times)) eqn:E; [reflexivity|].
    change (last (Z.max t (arrival times (wire_len rq)) :: z :: l) t) with (last (z :: l) t). f_equal. apply last_cons_default.
Qed.

(* T <= 0 switches the deadline off: nothing is ever cut *)
Theorem tserve_no_timeout T : T <= 0 -> forall fuel t data times,
  match snd (tserve fuel T t data times) with TCut _ => False | _ => True end.
Proof.
  intros HT. induction fuel as [|k IH]; intros t data times; cbn [tserve]; [exact I|].
  unfold titer. destruct (parse_request data) as [rq rest| |].
  - destruct (incomplete rq); [replace (0 <? T) with false by lia; exact I|].
    replace ((0 <? T) && _) with false by lia.
    specialize (IH (Z.max t (arrival times (zlen data - zlen rest))) rest (skipn (Z.to_nat (zlen data - zlen rest)) times)).
    destruct (tserve k T _ rest _) as [cs e]. exact IH.
  - replace (0 <? T) with false by lia. exact I.
  - replace ((0 <? T) && _) with false by lia. exact I.
Qed.
