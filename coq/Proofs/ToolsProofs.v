(* Proofs/ToolsProofs.v — make-iso and decrypt write exactly the view they copy (C20); the output is served
   back untouched; nothing that exists is overwritten. *)
From Coq Require Import ZifyBool ZifyNat.
From Verif Require Import Lib.Bytes Model.Path Model.Fs Model.Session Gen.Consts Model.IsoRead Model.Crypt Model.Detect Model.Tools
  Spec.IsoReadSpec Spec.CryptSpec Proofs.ProtoProofs Proofs.SessionProofs Proofs.ReadProofs Proofs.IsoReadProofs Proofs.CryptProofs
  Proofs.DetectProofs.

Ltac Zify.zify_post_hook ::= Z.div_mod_to_equations.

(* ---------- io.Copy over a flat byte string ---------- *)
Lemma slice_then_rest {A} (P : list A) cur chunk : 0 <= cur < zlen P -> 0 < chunk ->
  slice P cur chunk ++ skipn (Z.to_nat (cur + zlen (slice P cur chunk))) P = skipn (Z.to_nat cur) P.
Proof.
  intros Hc Hk. rewrite slice_length_eq by lia.
  unfold slice. replace ((cur <? 0) || (zlen P <=? cur)) with false by lia.
  replace (Z.to_nat (cur + Z.max 0 (Z.min chunk (zlen P - cur)))) with (Z.to_nat cur + Z.to_nat (Z.min chunk (zlen P - cur)))%nat by lia.
  rewrite skipn_add. apply firstn_skipn.
Qed.

Lemma copy_loop_flat (P : bytes) (rd : Z -> Z -> res bytes) chunk : 0 < chunk ->
  (forall cur, 0 <= cur -> rd cur chunk = if zlen P <=? cur then Err EOFk else Ok (slice P cur chunk)) ->
  forall fuel cur, 0 <= cur <= zlen P -> (zlen P - cur + chunk - 1) / chunk + 1 <= Z.of_nat fuel ->
  copy_loop fuel rd chunk cur = Ok (skipn (Z.to_nat cur) P).
Proof.
  intros Hk Hrd. induction fuel as [|k IH]; intros cur Hc Hf.
  - exfalso. assert (0 <= (zlen P - cur + chunk - 1) / chunk) by (apply Z.div_pos; lia). lia.
  - cbn [copy_loop]. rewrite Hrd by lia. destruct (zlen P <=? cur) eqn:E.
    + f_equal. symmetry. apply skipn_all2. unfold zlen in *. lia.
    + assert (Hl : zlen (slice P cur chunk) = Z.min chunk (zlen P - cur)) by (rewrite slice_length_eq by lia; lia).
      rewrite IH.
      * unfold bind. f_equal. apply slice_then_rest; lia.
      * lia.
      * rewrite Hl. destruct (Z.le_gt_cases chunk (zlen P - cur)) as [Hfull|Hshort].
        -- rewrite Z.min_l by lia.
           replace (zlen P - (cur + chunk) + chunk - 1) with ((zlen P - cur + chunk - 1) + (-1) * chunk) by lia.
           rewrite Z.div_add by lia. lia.
        -- rewrite Z.min_r by lia. replace (zlen P - (cur + (zlen P - cur)) + chunk - 1) with (chunk - 1) by lia.
           rewrite Z.div_small by lia.
           assert (1 <= (zlen P - cur + chunk - 1) / chunk) by (apply Z.div_le_lower_bound; lia). lia.
Qed.

Lemma copy_fuel_enough size : 0 <= size -> (size - 0 + copy_chunk - 1) / copy_chunk + 1 <= Z.of_nat (copy_fuel size).
Proof. intros H. unfold copy_fuel, copy_chunk. lia. Qed.

(* ---------- make-iso ---------- *)
Definition iso_flat (img : image) : bytes := map (flat_at img) (zrange 0 (total img)).

Lemma skipn_zrange_nat k : forall s n, skipn k (zrange_nat s n) = zrange_nat (s + Z.of_nat k) (n - k).
Proof.
  induction k as [|k IH]; intros s n.
  - cbn [skipn]. replace (s + Z.of_nat 0) with s by lia. replace (n - 0)%nat with n by lia. reflexivity.
  - destruct n as [|n]; [reflexivity|]. cbn [zrange_nat skipn]. rewrite IH.
    replace (s + 1 + Z.of_nat k) with (s + Z.of_nat (S k)) by lia. reflexivity.
Qed.

Lemma firstn_zrange_nat m : forall s n, firstn m (zrange_nat s n) = zrange_nat s (Nat.min m n).
Proof.
  induction m as [|m IH]; intros s n; [reflexivity|].
  destruct n as [|n]; [reflexivity|]. cbn [zrange_nat firstn Nat.min]. rewrite IH. reflexivity.
Qed.

Lemma slice_zrange (f : Z -> Z) T off len : 0 <= off < T -> 0 < len ->
  slice (map f (zrange 0 T)) off len = map f (zrange off (Z.min len (T - off))).
Proof.
  intros Ho Hl. unfold slice.
  assert (HT : zlen (map f (zrange 0 T)) = T) by (unfold zlen; rewrite map_length; fold (zlen (zrange 0 T)); rewrite zrange_length; lia).
  rewrite HT. replace ((off <? 0) || (T <=? off)) with false by lia.
  rewrite skipn_map, firstn_map. f_equal. unfold zrange.
  rewrite skipn_zrange_nat, firstn_zrange_nat. f_equal; lia.
Qed.

Lemma layout_total_nonneg img : layout_wf img -> 0 <= total img.
Proof.
  intros [Hc Hps Hpz Ht]. pose proof (files_end_ge _ _ Hc). pose proof (zlen_nonneg (fsbuf img)). lia.
Qed.

Theorem make_iso_writes_image img : layout_wf img -> make_iso_output img = Ok (iso_flat img).
Proof.
  intros Hwf. pose proof (layout_total_nonneg img Hwf) as HT.
  assert (HL : zlen (iso_flat img) = total img).
  { unfold iso_flat, zlen. rewrite map_length. fold (zlen (zrange 0 (total img))). rewrite zrange_length. lia. }
  unfold make_iso_output.
  rewrite (copy_loop_flat (iso_flat img)).
  - reflexivity.
  - unfold copy_chunk. lia.
  - intros cur Hc. rewrite iso_read_ok by (auto; unfold copy_chunk; lia).
    unfold ref_read. rewrite HL. replace (copy_chunk =? 0) with false by reflexivity. rewrite Bool.orb_false_r.
    destruct (total img <=? cur) eqn:E; [reflexivity|].
    f_equal. unfold iso_flat. symmetry. apply slice_zrange; [lia|unfold copy_chunk; lia].
  - rewrite HL. lia.
  - rewrite HL. apply copy_fuel_enough. exact HT.
Qed.

(* ---------- decrypt ---------- *)
Lemma mask_from_skipn k : forall off d, skipn k (mask_from off d) = mask_from (off + Z.of_nat k) (skipn k d).
Proof.
  induction k as [|k IH]; intros off d.
  - cbn [skipn]. replace (off + Z.of_nat 0) with off by lia. reflexivity.
  - destruct d as [|b r]; [reflexivity|]. cbn [mask_from skipn]. rewrite IH.
    replace (off + 1 + Z.of_nat k) with (off + Z.of_nat (S k)) by lia. reflexivity.
Qed.

Lemma mask_from_firstn m : forall off d, firstn m (mask_from off d) = mask_from off (firstn m d).
Proof.
  induction m as [|m IH]; intros off d; [reflexivity|].
  destruct d as [|b r]; [reflexivity|]. cbn [mask_from firstn]. rewrite IH. reflexivity.
Qed.

Lemma mask_from_slice P cur n : 0 <= cur -> mask_from cur (slice P cur n) = slice (mask_from 0 P) cur n.
Proof.
  intros Hc. unfold slice.
  assert (HL : zlen (mask_from 0 P) = zlen P) by (unfold zlen; rewrite mask_from_length; reflexivity).
  rewrite HL. destruct ((cur <? 0) || (zlen P <=? cur)); [reflexivity|].
  rewrite mask_from_skipn, mask_from_firstn. f_equal. lia.
Qed.

Section Cipher.
  Variable dec : Z -> bytes -> bytes.
  Hypothesis dec_length : forall s x, length (dec s x) = length x.

  Lemma plain_image_length v content : 0 <= ev_hdr v -> zlen (plain_image dec v content) = zlen content.
  Proof.
    intros Hh. unfold plain_image. change sector_size with 2048.
    set (c0 := clear_header v 0 content).
    assert (Lc0 : zlen c0 = zlen content) by (apply (clear_header_length dec dec_length); lia).
    pose proof (chunk_decomp (S (Z.to_nat (zlen c0 / 2048))) c0 ltac:(lia)) as CD.
    destruct (chunk_sectors (S (Z.to_nat (zlen c0 / 2048))) c0) as [W T].
    destruct CD as (D1 & D2 & D3 & D4).
    assert (HW' : Forall sec_ok (map_sectors (xform dec (ev_regions v)) 0 W))
      by (apply map_sectors_ok; [intros; apply xform_length; auto|exact D2]).
    rewrite <- Lc0. rewrite D1. rewrite !zlen_app. unfold zlen.
    rewrite !concat_sec_length by auto. rewrite map_sectors_length. reflexivity.
  Qed.

  (* the bytes either decrypt command writes: the reference plaintext with the region map cleared; for a 3k3y
     image additionally with the 256 bytes of the 3k3y area zeroed *)
  Theorem decrypt_writes_plaintext content mask v : new_encrypted content true = Ok v ->
    decrypt_output dec content mask
    = Ok (if mask then mask_from 0 (plain_image dec v content) else plain_image dec v content).
  Proof.
    intros Hv. unfold decrypt_output. rewrite Hv. unfold bind.
    pose proof (new_encrypted_wf _ _ _ Hv) as Hwf. destruct Hwf as [Hord Hhdr].
    set (P := if mask then mask_from 0 (plain_image dec v content) else plain_image dec v content).
    assert (HL : zlen P = zlen content).
    { subst P. destruct mask; [unfold zlen; rewrite mask_from_length; fold (zlen (plain_image dec v content))|];
        apply plain_image_length; lia. }
    rewrite (copy_loop_flat P).
    - reflexivity.
    - unfold copy_chunk. lia.
    - intros cur Hc. unfold enc_reader.
      rewrite crypt_read_ok by (auto; try (constructor; auto); unfold copy_chunk; lia).
      unfold ref_crypt_read_at. rewrite HL. destruct (zlen content <=? cur); [reflexivity|].
      f_equal. subst P. destruct mask; [apply mask_from_slice; exact Hc|reflexivity].
    - rewrite HL. pose proof (zlen_nonneg content). lia.
    - rewrite HL. apply copy_fuel_enough. apply zlen_nonneg.
  Qed.
End Cipher.

(* ---------- served back ---------- *)
Lemma mask_from_inside d : forall off, wm_begin <= off -> off + zlen d <= wm_end -> mask_from off d = repeat 0 (length d).
Proof.
  induction d as [|b r IH]; intros off H1 H2; cbn [mask_from repeat length]; [reflexivity|].
  rewrite zlen_cons in H2. pose proof (zlen_nonneg r).
  replace ((wm_begin <=? off) && (off <? wm_end)) with true by lia. f_equal. apply IH; lia.
Qed.

(* the output of decrypt 3k3y no longer looks like a 3k3y image *)
Lemma masked_not_3k3y P : test_3k3y (mask_from 0 P) = None.
Proof.
  unfold test_3k3y.
  assert (HL : zlen (mask_from 0 P) = zlen P) by (unfold zlen; rewrite mask_from_length; reflexivity).
  rewrite HL. destruct (zlen P <? wm_end) eqn:E; [reflexivity|].
  rewrite <- mask_from_slice by (vm_compute; discriminate).
  assert (Hs : zlen (slice P (wm_begin + watermark_placement) watermark_size) = 16).
  { rewrite slice_length_eq by (vm_compute; discriminate). unfold wm_end, wm_begin, masked_data_begin, masked_data_size, watermark_placement, watermark_size in *. lia. }
  rewrite mask_from_inside.
  - assert (Hn : length (slice P (wm_begin + watermark_placement) watermark_size) = 16%nat) by (unfold zlen in Hs; lia).
    rewrite Hn. vm_compute. reflexivity.
  - vm_compute. discriminate.
  - rewrite Hs. vm_compute. discriminate.
Qed.

(* a tool's output, put anywhere below a served root where no key file applies to it, is served as it is *)
Theorem output_served_back c w rel i x dec :
  virtual_kind rel = None -> resolve (plen c) w (abs_path c rel) = Ok (File i) -> get_inode (inodes w) i = Some x ->
  try_key c w rel = Err ENOENT -> test_3k3y (idata x) = None ->
  open_file c w rel = KPlain /\ forall off n, kind_read dec KPlain (idata x) off n = slice (idata x) off n.
Proof.
  intros H1 H2 H3 H4 H5. split; [|intros; reflexivity].
  rewrite (open_file_decision c w rel i x H1 H2 H3), H4, H5. reflexivity.
Qed.

(* ---------- never clobber ---------- *)
Theorem tool_keeps_existing_files existing name is_dash out :
  (forall n d, In (n, d) existing -> In (n, d) (after_tool existing name is_dash out)) /\
  (forall n d, In (n, d) (after_tool existing name is_dash out) -> In (n, d) existing \/
               (n = name /\ d = out /\ is_dash = false /\ forall d', ~ In (name, d') existing)).
Proof.
  unfold after_tool, output_target. destruct is_dash; [split; auto|].
  destruct (existsb (fun e => list_eqb (fst e) name) existing) eqn:E; [split; auto|].
  split.
  - intros n d H. apply in_or_app. left. exact H.
  - intros n d H. apply in_app_or in H as [H|[H|[]]]; [left; exact H|right].
    injection H as <- <-. repeat split; auto.
    intros d' Hin. assert (existsb (fun e => list_eqb (fst e) name) existing = true); [|congruence].
    apply existsb_exists. exists (name, d'). split; [exact Hin|apply list_eqb_refl].
Qed.
