(* Proofs/ListenerProofs.v — admission control invariants (C15). *)
From Coq Require Import ZifyBool ZifyNat.
From Verif Require Import Lib.Bytes Gen.Consts Model.Listener.

Definition hold_z (s : lstate) : Z := if holding s then 1 else 0.

(* slot accounting: every held slot belongs to a served connection or to the waiting accept loop *)
Definition linv (limit : Z) (s : lstate) : Prop :=
  sem s = zlen (served s) + hold_z s /\ (0 < limit -> sem s <= limit).

Lemma linit_inv limit : 0 <= limit -> linv limit linit.
Proof. intros H. unfold linv, hold_z; cbn. split; [reflexivity|lia]. Qed.

Lemma loop_step_inv limit s s' : linv limit s -> loop_step limit s = Some s' -> linv limit s'.
Proof.
  unfold linv, hold_z, loop_step. intros [H1 H2].
  destruct (holding s) eqn:Eh; cbn [negb].
  - destruct (backlog s) as [|[c ok] r]; [discriminate|].
    destruct ok; intro E; inversion E; subst; cbn [sem served holding]; rewrite ?zlen_app; unfold zlen in *; cbn [length]; split; lia.
  - destruct ((limit =? 0) || (sem s <? limit)) eqn:E; [|discriminate].
    intro E2; inversion E2; subst; cbn [sem served holding]. split; lia.
Qed.

Lemma settle_inv limit : forall fuel s, linv limit s -> linv limit (settle fuel limit s).
Proof.
  induction fuel as [|k IH]; intros s H; cbn [settle]; [exact H|].
  destruct (loop_step limit s) eqn:E; [|exact H]. apply IH. eapply loop_step_inv; eauto.
Qed.

Lemma remove_nat_length c l : existsb (Nat.eqb c) l = true -> zlen (remove_nat c l) = zlen l - 1.
Proof.
  induction l as [|x r IH]; cbn [existsb remove_nat]; [discriminate|].
  rewrite (Nat.eqb_sym c x). destruct (x =? c)%nat eqn:E; cbn [orb].
  - intros _. rewrite zlen_cons. lia.
  - intros H. rewrite !zlen_cons, IH by exact H. lia.
Qed.

Lemma apply_event_inv limit s e : linv limit s -> linv limit (apply_event s e).
Proof.
  unfold linv, hold_z. intros [H1 H2]. destruct e as [c ok|c]; cbn [apply_event].
  - cbn [sem served holding]. auto.
  - destruct (existsb (Nat.eqb c) (served s)) eqn:E; [|auto].
    cbn [sem served holding]. rewrite (remove_nat_length _ _ E). split; lia.
Qed.

Lemma lstep_inv limit s e : linv limit s -> linv limit (lstep limit s e).
Proof. intros H. unfold lstep. apply settle_inv, apply_event_inv, H. Qed.

Theorem lrun_inv limit es : 0 <= limit -> linv limit (lrun limit es).
Proof.
  intros Hl. unfold lrun.
  assert (forall s, linv limit s -> linv limit (fold_left (lstep limit) es s)) as G.
  { induction es as [|e r IH]; intros s H; cbn [fold_left]; [exact H|]. apply IH, lstep_inv, H. }
  apply G, settle_inv, linit_inv, Hl.
Qed.

(* at most N connections are served at any moment *)
Theorem served_bound limit es : 0 < limit -> zlen (served (lrun limit es)) <= limit.
Proof.
  intros Hl. destruct (lrun_inv limit es ltac:(lia)) as [H1 H2]. specialize (H2 Hl).
  unfold hold_z in H1. destruct (holding (lrun limit es)); lia.
Qed.

(* capacity is never lost: the slots held are exactly the served connections plus the one of the waiting loop *)
Theorem slots_conserved limit es : 0 <= limit ->
  sem (lrun limit es) = zlen (served (lrun limit es)) + hold_z (lrun limit es).
Proof. intros Hl. apply (lrun_inv limit es Hl). Qed.

(* ---- the filter: who gets served ---- *)
Fixpoint arrivals (es : list levent) : list (nat * bool) :=
  match es with
  | [] => []
  | Arrive c ok :: r => (c, ok) :: arrivals r
  | CloseConn _ :: r => arrivals r
  end.

Definition finv (arr : list (nat * bool)) (s : lstate) : Prop :=
  (forall c, In c (served s) -> In (c, true) arr) /\
  (forall c, In c (rejected s) -> In (c, false) arr) /\
  (forall c ok, In (c, ok) (backlog s) -> In (c, ok) arr).

Lemma loop_step_finv arr limit s s' : finv arr s -> loop_step limit s = Some s' -> finv arr s'.
Proof.
  unfold finv, loop_step. intros (H1 & H2 & H3).
  destruct (holding s); cbn [negb].
  - destruct (backlog s) as [|[c ok] r] eqn:Eb; [discriminate|].
    destruct ok; intro E; inversion E; subst; cbn [served rejected backlog]; repeat split; intros.
    + apply in_app_or in H as [H|[H|[]]]; [auto|subst; apply H3; left; reflexivity].
    + auto.
    + apply H3. right; auto.
    + auto.
    + apply in_app_or in H as [H|[H|[]]]; [auto|subst; apply H3; left; reflexivity].
    + apply H3. right; auto.
  - destruct ((limit =? 0) || (sem s <? limit)); [|discriminate].
    intro E; inversion E; subst; cbn [served rejected backlog]. auto.
Qed.

Lemma settle_finv arr limit : forall fuel s, finv arr s -> finv arr (settle fuel limit s).
Proof.
  induction fuel as [|k IH]; intros s H; cbn [settle]; [exact H|].
  destruct (loop_step limit s) eqn:E; [|exact H]. apply IH. eapply loop_step_finv; eauto.
Qed.

Lemma remove_nat_in c x l : In x (remove_nat c l) -> In x l.
Proof.
  induction l as [|y r IH]; cbn [remove_nat]; [auto|].
  destruct (y =? c)%nat; cbn [In]; [auto|]. intros [H|H]; auto.
Qed.

Lemma finv_mono arr arr' s : (forall x, In x arr -> In x arr') -> finv arr s -> finv arr' s.
Proof. intros M (H1 & H2 & H3). repeat split; intros; apply M; auto. Qed.

Theorem lrun_finv limit es : finv (arrivals es) (lrun limit es).
Proof.
  unfold lrun.
  assert (forall es0 s arr, finv arr s -> finv (arr ++ arrivals es0) (fold_left (lstep limit) es0 s)) as G.
  { induction es0 as [|e r IH]; intros s arr H; cbn [fold_left arrivals].
    - rewrite app_nil_r. exact H.
    - destruct e as [c ok|c]; cbn [arrivals].
      + replace (arr ++ (c, ok) :: arrivals r) with ((arr ++ [(c, ok)]) ++ arrivals r) by (rewrite <- app_assoc; reflexivity).
        apply IH. unfold lstep. apply settle_finv. destruct H as (H1 & H2 & H3). cbn [apply_event].
        repeat split; cbn [served rejected backlog]; intros.
        * apply in_or_app. left; auto.
        * apply in_or_app. left; auto.
        * apply in_app_or in H as [H|[H|[]]]; apply in_or_app; [left; auto|right; left; exact H].
      + apply IH. unfold lstep. apply settle_finv. destruct H as (H1 & H2 & H3). cbn [apply_event].
        destruct (existsb (Nat.eqb c) (served s)); [|repeat split; auto].
        repeat split; cbn [served rejected backlog]; intros; auto. apply H1. eapply remove_nat_in; eauto. }
  apply (G es (settle 2 limit linit) []). apply settle_finv. repeat split; cbn; intros; contradiction.
Qed.

(* ---- no lost capacity: when the loop cannot move, it waits for an arrival or the limit is reached ---- *)
Lemma settle_quiescent limit : forall fuel s, (2 * length (backlog s) + (if holding s then 1 else 2) <= fuel)%nat ->
  loop_step limit (settle fuel limit s) = None.
Proof.
  induction fuel as [|k IH]; intros s Hf.
  - destruct (holding s); lia.
  - cbn [settle]. destruct (loop_step limit s) as [s'|] eqn:E; [|exact E].
    apply IH. unfold loop_step in E. destruct (holding s) eqn:Eh; cbn [negb] in E.
    + destruct (backlog s) as [|[c ok] r] eqn:Eb; [discriminate|].
      destruct ok; inversion E; subst; cbn [backlog holding length] in *; lia.
    + destruct ((limit =? 0) || (sem s <? limit)); [|discriminate]. inversion E; subst; cbn [backlog holding]. lia.
Qed.

Theorem no_lost_capacity limit es : 0 < limit ->
  let s := lrun limit es in
  backlog s = [] \/ zlen (served s) = limit.
Proof.
  intros Hl s.
  assert (loop_step limit s = None) as Q.
  { subst s. unfold lrun. destruct es as [|e r] using rev_ind.
    - cbn [fold_left]. apply settle_quiescent. cbn. lia.
    - rewrite fold_left_app. cbn [fold_left]. unfold lstep at 1. apply settle_quiescent.
      destruct (holding _); lia. }
  destruct (lrun_inv limit es ltac:(lia)) as [H1 H2]. fold s in H1, H2. specialize (H2 Hl).
  unfold loop_step in Q. unfold hold_z in H1. destruct (holding s) eqn:Eh; cbn [negb] in Q.
  - destruct (backlog s) as [|[c ok] r]; [left; reflexivity|]. destruct ok; discriminate.
  - destruct ((limit =? 0) || (sem s <? limit)) eqn:E; [discriminate|]. right. lia.
Qed.
