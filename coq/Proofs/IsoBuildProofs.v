(* Proofs/IsoBuildProofs.v — the image builder (Model/IsoBuild): record and table sizes, sector
   alignment, the no-straddle rule, the layout of the metadata area and of the file area (C07, C08),
   and the only places the descriptor timestamp and the PS3 filler can reach (C18). *)
From Coq Require Import ZifyBool ZifyNat.
From Verif Require Import Lib.Bytes Model.Path Model.Fs Gen.Consts Model.IsoRead Model.IsoBuild Spec.IsoReadSpec
  Proofs.ProtoProofs Proofs.SessionProofs Proofs.IsoReadProofs.

Ltac Zify.zify_post_hook ::= Z.div_mod_to_equations.

(* ---------- lengths of the fixed-width encoders ---------- *)
Lemma fitn_length n l : length (fitn n l) = n.
Proof. unfold fitn. rewrite firstn_length, app_length, repeat_length. lia. Qed.

Lemma zlen_fitn n l : zlen (fitn n l) = Z.of_nat n.
Proof. unfold zlen. rewrite fitn_length. reflexivity. Qed.

Lemma zlen_le n v : zlen (le_enc n v) = Z.of_nat n.
Proof. unfold le_enc, zlen. rewrite rev_length, be_enc_length. reflexivity. Qed.

Lemma zlen_lsbmsb32 v : zlen (lsbmsb32 v) = 8.
Proof. unfold lsbmsb32. rewrite zlen_app, zlen_le, zlen_be. reflexivity. Qed.

Lemma zlen_lsbmsb16 v : zlen (lsbmsb16 v) = 4.
Proof. unfold lsbmsb16. rewrite zlen_app, zlen_le, zlen_be. reflexivity. Qed.

Lemma zlen_zeros n : zlen (zeros n) = Z.max 0 n.
Proof. unfold zeros. apply repeatz_length. Qed.

Lemma zlen_pad_to s n p : zlen s <= n -> zlen (pad_to s n p) = n.
Proof. intros H. unfold pad_to. rewrite zlen_app, repeatz_length. lia. Qed.

Lemma zlen_fit s n : 0 <= n -> zlen (fit s n) <= n.
Proof. intros H. unfold fit, zlen. rewrite firstn_length. lia. Qed.

(* ---------- sectors ---------- *)
Lemma sectors_bounds b : 0 <= b -> b <= sectors b * sector_size < b + sector_size.
Proof. intros H. unfold sectors, sector_size. lia. Qed.

Lemma sectors_aligned k : sectors (k * sector_size) = k.
Proof. unfold sectors, sector_size. lia. Qed.

Lemma sectors_add_aligned a x : a mod sector_size = 0 -> sectors (a + x) * sector_size = a + sectors x * sector_size.
Proof. unfold sectors, sector_size. intros H. lia. Qed.

Lemma zlen_pad_sector l : zlen (pad_sector l) = sectors (zlen l) * sector_size.
Proof.
  unfold pad_sector. rewrite zlen_app, zlen_zeros.
  pose proof (sectors_bounds (zlen l) (zlen_nonneg l)). lia.
Qed.

Lemma pad_sector_aligned l : zlen (pad_sector l) mod sector_size = 0.
Proof. rewrite zlen_pad_sector. unfold sector_size. lia. Qed.

(* ---------- directory records ---------- *)
Definition id_size (id : bytes) : Z := 33 + zlen id + (zlen id + 1) mod 2.

Lemma de_size_id e : de_size e = id_size (de_id e).
Proof. reflexivity. Qed.

Lemma id_size_range id : 34 <= id_size id /\ id_size id mod 2 = 0.
Proof. unfold id_size. pose proof (zlen_nonneg id). lia. Qed.

Lemma de_encode_length e : zlen (de_encode e) = de_size e.
Proof.
  unfold de_encode, de_size.
  repeat rewrite zlen_app. rewrite !zlen_lsbmsb32, zlen_lsbmsb16, zlen_fitn.
  repeat rewrite zlen_cons. rewrite !zlen_nil.
  destruct ((zlen (de_id e) + 1) mod 2 =? 1) eqn:E; unfold zlen in *; cbn [length]; lia.
Qed.

Definition fits_byte (e : dentry) : Prop := de_size e <= 255.

(* the length byte of a record that passed the 255 check is its real length *)
Lemma de_encode_head e : fits_byte e -> exists r, de_encode e = de_size e :: r /\ 34 <= de_size e <= 255.
Proof.
  intros H. unfold fits_byte in H. pose proof (id_size_range (de_id e)) as [Hr _]. rewrite <- de_size_id in Hr.
  unfold de_encode. cbn [app]. eexists. split; [|lia].
  f_equal. apply Z.mod_small. lia.
Qed.

(* ---------- a directory: size, encoding, placement ---------- *)
Lemma entries_encode_length es : forall pos, 0 <= pos -> Forall (fun e => de_size e <= sector_size) es ->
  pos + zlen (entries_encode es pos) = entries_size es pos.
Proof.
  induction es as [|e r IH]; intros pos Hpos Hall; cbn [entries_encode entries_size].
  - rewrite zlen_nil. lia.
  - inversion Hall as [|? ? He Hr]; subst.
    pose proof (id_size_range (de_id e)) as [Hlo _]. rewrite <- de_size_id in Hlo.
    pose proof (sectors_bounds pos Hpos) as Hs.
    rewrite !zlen_app, zlen_zeros, de_encode_length.
    destruct (sector_size <? pos mod sector_size + de_size e) eqn:E.
    + replace (pos + (sectors pos * sector_size - pos) + de_size e) with (sectors pos * sector_size + de_size e) by lia.
      rewrite <- IH by (auto; lia). lia.
    + replace (pos + 0 + de_size e) with (pos + de_size e) by lia.
      rewrite <- IH by (auto; lia). lia.
Qed.

(* where each record of a directory starts (offset inside the directory's extent) *)
Fixpoint place (es : list dentry) (pos : Z) : list (Z * dentry) :=
  match es with
  | [] => []
  | e :: r => let start := if sector_size <? pos mod sector_size + de_size e then sectors pos * sector_size else pos in
              (start, e) :: place r (start + de_size e)
  end.

Lemma place_ok es : forall pos, 0 <= pos -> Forall (fun e => de_size e <= sector_size) es ->
  Forall (fun oe => pos <= fst oe /\
                    fst oe mod sector_size + de_size (snd oe) <= sector_size /\
                    exists a b, entries_encode es pos = a ++ de_encode (snd oe) ++ b /\ zlen a = fst oe - pos)
         (place es pos).
Proof.
  induction es as [|e r IH]; intros pos Hpos Hall; cbn [place entries_encode]; [constructor|].
  inversion Hall as [|? ? He Hr]; subst.
  pose proof (id_size_range (de_id e)) as [Hlo _]. rewrite <- de_size_id in Hlo.
  pose proof (sectors_bounds pos Hpos) as Hs.
  set (start := if sector_size <? pos mod sector_size + de_size e then sectors pos * sector_size else pos).
  set (padn := if sector_size <? pos mod sector_size + de_size e then sectors pos * sector_size - pos else 0).
  assert (Hst : start = pos + padn /\ 0 <= padn /\ start mod sector_size + de_size e <= sector_size).
  { subst start padn. destruct (sector_size <? pos mod sector_size + de_size e) eqn:E.
    - split; [lia|]. split; [lia|]. unfold sectors, sector_size in *. lia.
    - split; [lia|]. split; [lia|]. lia. }
  destruct Hst as (Hst & Hp0 & Hfit).
  constructor.
  - cbn [fst snd]. split; [lia|]. split; [exact Hfit|].
    exists (zeros padn), (entries_encode r (pos + padn + de_size e)). split; [reflexivity|].
    rewrite zlen_zeros. lia.
  - replace (pos + padn + de_size e) with (start + de_size e) by lia.
    specialize (IH (start + de_size e) ltac:(lia) Hr).
    eapply Forall_impl; [|exact IH].
    intros [off x] (H1 & H2 & a & b & Heq & Hla). cbn [fst snd] in *.
    split; [lia|]. split; [exact H2|].
    exists (zeros padn ++ de_encode e ++ a), b. split.
    + rewrite Heq. rewrite <- !app_assoc. reflexivity.
    + rewrite !zlen_app, zlen_zeros, de_encode_length. lia.
Qed.

Lemma place_snd es : forall pos, map snd (place es pos) = es.
Proof. induction es as [|e r IH]; intros pos; cbn [place map snd]; [reflexivity|]. f_equal. apply IH. Qed.

(* ---------- what building the directories preserves: identifiers (hence every size) ---------- *)
Definition shape (b : built) : list (list bytes) := map (map de_id) b.

Lemma link_child_ids es id loc len : map de_id (link_child es id loc len) = map de_id es.
Proof.
  induction es as [|e r IH]; cbn [link_child map]; [reflexivity|].
  destruct (list_eqb (de_id e) id && negb (Z.land (de_flags e) dir_flag =? 0) && (de_len e =? 0)); cbn [map de_id].
  - reflexivity.
  - f_equal. exact IH.
Qed.

Lemma update_nth_shape (f : list dentry -> list dentry) :
  (forall es, map de_id (f es) = map de_id es) -> forall b i, shape (update_nth b i f) = shape b.
Proof.
  intros Hf. induction b as [|es r IH]; intros i; destruct i; cbn [update_nth shape map]; try reflexivity.
  - rewrite Hf. reflexivity.
  - f_equal. apply IH.
Qed.

Lemma too_long_false es : too_long es = false -> Forall (fun e => id_size (de_id e) <= 255) es.
Proof.
  unfold too_long. induction es as [|e r IH]; cbn [existsb]; intros H; constructor.
  - rewrite <- de_size_id. destruct (255 <? de_size e) eqn:E; [discriminate|lia].
  - apply IH. destruct (255 <? de_size e); [discriminate|exact H].
Qed.

Lemma make_dir_entries_shape ds j b d b' : make_dir_entries ds j b d = Ok b' ->
  exists ids, shape b' = shape b ++ [[0] :: [1] :: ids] /\ Forall (fun id => id_size id <= 255) ids.
Proof.
  unfold make_dir_entries. intros H.
  set (files := concat (map (file_entries j) (di_files d))) in H.
  set (child_es := map _ (filter _ (tl ds))) in H.
  destruct (too_long (files ++ child_es)) eqn:T; [discriminate|].
  exists (map de_id (files ++ child_es)). split.
  - destruct (parent_index ds d) as [pi|]; injection H as <-; unfold shape; rewrite map_app; cbn [map de_id].
    + destruct (nth_error ds pi); [destruct (nth_error b pi) as [[|? ?]|]|]; cbn [de_id];
        (f_equal; apply (update_nth_shape _ (fun es => link_child_ids es _ _ _))).
    + reflexivity.
  - apply too_long_false in T. rewrite Forall_map. exact T.
Qed.

Lemma build_dirs_shape ds j : forall todo b b', build_dirs ds j todo b = Ok b' ->
  exists tails, shape b' = shape b ++ map (fun ids => [0] :: [1] :: ids) tails /\
                Forall (Forall (fun id => id_size id <= 255)) tails /\ length tails = length todo.
Proof.
  induction todo as [|d r IH]; intros b b' H; cbn [build_dirs] in H.
  - injection H as <-. exists []. cbn [map]. rewrite app_nil_r. auto.
  - unfold bind in H. destruct (make_dir_entries ds j b d) as [b1|] eqn:E1; [|discriminate].
    apply make_dir_entries_shape in E1 as (ids & Hs1 & Hids).
    apply IH in H as (tails & Hs & Ht & Hl).
    exists (ids :: tails). split; [|split].
    + rewrite Hs, Hs1. rewrite <- app_assoc. reflexivity.
    + constructor; assumption.
    + cbn [length]. lia.
Qed.

Definition dir_ok (es : list dentry) : Prop :=
  Forall fits_byte es /\ exists r, map de_id es = [0] :: [1] :: r.

Lemma build_dirs_ok ds j b : build_dirs ds j ds [] = Ok b -> length b = length ds /\ Forall dir_ok b.
Proof.
  intros H. apply build_dirs_shape in H as (tails & Hs & Ht & Hl). cbn [shape map app] in Hs.
  split.
  - rewrite <- Hl. unfold shape in Hs. apply (f_equal (@length _)) in Hs. rewrite !map_length in Hs. exact Hs.
  - unfold shape in Hs.
    assert (Hall : Forall (fun ids => Forall (fun id => id_size id <= 255) ids /\ exists r, ids = [0] :: [1] :: r)
                          (map (map de_id) b)).
    { rewrite Hs. rewrite Forall_map. eapply Forall_impl; [|exact Ht].
      intros ids Hi. split; [|eexists; reflexivity].
      constructor; [vm_compute; discriminate|]. constructor; [vm_compute; discriminate|]. exact Hi. }
    rewrite Forall_map in Hall. eapply Forall_impl; [|exact Hall].
    intros es [H1 H2]. split; [|exact H2].
    rewrite Forall_map in H1. exact H1.
Qed.

(* ---------- relocation keeps identifiers; the directory area has the size the layout reserved ---------- *)
Lemma fix_entry_id a c e : de_id (fix_entry a c e) = de_id e.
Proof. reflexivity. Qed.

Lemma fix_entry_size a c e : de_size (fix_entry a c e) = de_size e.
Proof. reflexivity. Qed.

Lemma entries_size_fix a c es : forall acc, entries_size (map (fix_entry a c) es) acc = entries_size es acc.
Proof. induction es as [|e r IH]; intros acc; cbn [map entries_size]; [reflexivity|]. rewrite fix_entry_size. apply IH. Qed.

Lemma fits_sector es : Forall fits_byte es -> Forall (fun e => de_size e <= sector_size) es.
Proof. intros H. eapply Forall_impl; [|exact H]. unfold fits_byte, sector_size. intros; lia. Qed.

Lemma fits_fix a c es : Forall fits_byte es -> Forall fits_byte (map (fix_entry a c) es).
Proof. intros H. rewrite Forall_map. eapply Forall_impl; [|exact H]. intros e He. exact He. Qed.

Lemma dir_extent_length a c es : Forall fits_byte es ->
  zlen (pad_sector (entries_encode (map (fix_entry a c) es) 0)) = sectors (entries_size es 0) * sector_size.
Proof.
  intros H. rewrite zlen_pad_sector.
  pose proof (entries_encode_length (map (fix_entry a c) es) 0 ltac:(lia) (fits_sector _ (fits_fix a c es H))) as E.
  rewrite entries_size_fix in E. replace (zlen (entries_encode (map (fix_entry a c) es) 0)) with (entries_size es 0) by lia.
  reflexivity.
Qed.

Lemma entries_size_nonneg es : forall acc, 0 <= acc -> acc <= entries_size es acc.
Proof.
  induction es as [|e r IH]; intros acc H; cbn [entries_size]; [lia|].
  pose proof (id_size_range (de_id e)) as [Hlo _]. rewrite <- de_size_id in Hlo.
  pose proof (sectors_bounds acc H).
  destruct (sector_size <? acc mod sector_size + de_size e);
    (etransitivity; [|apply IH; lia]); lia.
Qed.

Lemma built_size_from b : forall acc, acc mod sector_size = 0 ->
  fold_left (fun acc es => sectors (acc + entries_size es 0) * sector_size) b acc
  = acc + fold_right (fun es s => sectors (entries_size es 0) * sector_size + s) 0 b.
Proof.
  induction b as [|es r IH]; intros acc H; cbn [fold_left fold_right]; [lia|].
  rewrite IH.
  - rewrite (sectors_add_aligned acc _ H). lia.
  - unfold sector_size. lia.
Qed.

Lemma dirs_area_length a c b : Forall dir_ok b ->
  zlen (concat (map (fun es => pad_sector (entries_encode es 0)) (map (map (fix_entry a c)) b))) = built_size b.
Proof.
  intros H. unfold built_size. rewrite built_size_from by reflexivity.
  induction H as [|es r [Hes _] _ IH]; cbn [map concat fold_right]; [reflexivity|].
  rewrite zlen_app, IH, dir_extent_length by exact Hes. lia.
Qed.

Lemma built_size_aligned b : built_size b mod sector_size = 0 /\ 0 <= built_size b.
Proof.
  unfold built_size. rewrite built_size_from by reflexivity.
  induction b as [|es r [IH1 IH2]]; cbn [fold_right]; [split; [reflexivity|lia]|].
  pose proof (entries_size_nonneg es 0 ltac:(lia)).
  pose proof (sectors_bounds (entries_size es 0) ltac:(lia)).
  unfold sector_size in *. split; lia.
Qed.

(* ---------- the scan: every directory but the root has its parent in the list ---------- *)
Lemma scan_items_subdirs items path : forall lba fs subdirs lba',
  scan_items items path lba = (fs, subdirs, lba') ->
  forall q, In q subdirs -> exists n, fst q = path ++ [n].
Proof.
  induction items as [|it r IH]; intros lba fs subdirs lba' H q Hq; cbn [scan_items] in H.
  - injection H as <- <- <-. destruct Hq.
  - destruct it as [n sz t|n t its].
    + destruct (scan_items r path (lba + sectors (Z.max 0 sz))) as [[fs1 ds1] l1] eqn:E.
      injection H as <- <- <-. eapply IH; eauto.
    + destruct (scan_items r path lba) as [[fs1 ds1] l1] eqn:E.
      injection H as <- <- <-. destruct Hq as [<-|Hq]; [eexists; reflexivity|]. eapply IH; eauto.
Qed.

Lemma scan_loop_parents : forall fuel queue lba d,
  In d (fst (scan_loop fuel queue lba)) ->
  (exists q, In q queue /\ fst q = di_path d) \/
  (di_path d <> [] /\ exists p, In p (fst (scan_loop fuel queue lba)) /\ di_path p = removelast (di_path d)).
Proof.
  induction fuel as [|k IH]; intros queue lba d Hd; cbn [scan_loop] in *; [destruct Hd|].
  destruct (rev queue) as [|[path node] rest_rev] eqn:Eq; [destruct Hd|].
  assert (Hin : forall q, In q (rev rest_rev) -> In q queue).
  { intros q Hq. apply in_rev in Hq. apply in_rev. rewrite Eq. right. exact Hq. }
  assert (Hhead : In (path, node) queue) by (apply in_rev; rewrite Eq; left; reflexivity).
  destruct node as [n sz t|n t items]; [destruct Hd|].
  destruct (scan_items items path lba) as [[fs subdirs] lba'] eqn:Es.
  destruct (scan_loop k (rev rest_rev ++ subdirs) lba') as [ds lba''] eqn:El.
  cbn [fst] in *.
  destruct Hd as [<-|Hd].
  - left. exists (path, SDir n t items). split; [exact Hhead|reflexivity].
  - specialize (IH (rev rest_rev ++ subdirs) lba' d). rewrite El in IH. cbn [fst] in IH.
    destruct (IH Hd) as [(q & Hq & Hp)|(Hne & p & Hp & Hpp)].
    + apply in_app_or in Hq as [Hq|Hq].
      * left. exists q. split; [apply Hin; exact Hq|exact Hp].
      * right. destruct (scan_items_subdirs _ _ _ _ _ _ Es q Hq) as [n' Hn'].
        rewrite <- Hp, Hn'. split; [destruct path; discriminate|].
        eexists. split; [left; reflexivity|]. cbn [di_path]. rewrite removelast_last. reflexivity.
    + right. split; [exact Hne|]. exists p. split; [right; exact Hp|exact Hpp].
Qed.

Lemma scan_loop_nonroot : forall fuel queue lba,
  (forall q, In q queue -> fst q <> []) ->
  forall d, In d (fst (scan_loop fuel queue lba)) -> di_path d <> [].
Proof.
  induction fuel as [|k IH]; intros queue lba Hq d Hd; cbn [scan_loop] in *; [destruct Hd|].
  destruct (rev queue) as [|[path node] rest_rev] eqn:Eq; [destruct Hd|].
  assert (Hin : forall q, In q (rev rest_rev) -> In q queue).
  { intros q Hq'. apply in_rev in Hq'. apply in_rev. rewrite Eq. right. exact Hq'. }
  assert (Hhead : In (path, node) queue) by (apply in_rev; rewrite Eq; left; reflexivity).
  destruct node as [n sz t|n t items]; [destruct Hd|].
  destruct (scan_items items path lba) as [[fs subdirs] lba'] eqn:Es.
  destruct (scan_loop k (rev rest_rev ++ subdirs) lba') as [ds lba''] eqn:El.
  cbn [fst] in *.
  destruct Hd as [<-|Hd].
  - cbn [di_path]. exact (Hq _ Hhead).
  - specialize (IH (rev rest_rev ++ subdirs) lba'). rewrite El in IH. cbn [fst] in IH.
    apply IH; [|exact Hd]. intros q Hq'. apply in_app_or in Hq' as [Hq'|Hq'].
    + apply Hq, Hin, Hq'.
    + destruct (scan_items_subdirs _ _ _ _ _ _ Es q Hq') as [n' ->]. destruct path; discriminate.
Qed.

Lemma scan_root_parents root ds n : scan_loop (snode_count root) [([], root)] 0 = (ds, n) ->
  forall d, In d (tl ds) -> di_path d <> [] /\ exists p, In p ds /\ di_path p = removelast (di_path d).
Proof.
  intros H d Hd.
  destruct root as [nm sz t|nm t items]; cbn [snode_count scan_loop rev app] in H; [injection H as <- _; destruct Hd|].
  destruct (scan_items items [] 0) as [[fs subdirs] lba'] eqn:Es.
  match type of H with context [scan_loop ?k ?q ?l] => destruct (scan_loop k q l) as [ds' l''] eqn:El end.
  injection H as <- _. cbn [tl] in Hd.
  assert (Hsub : forall q, In q subdirs -> exists n', fst q = [n']).
  { intros q Hq. exact (scan_items_subdirs _ _ _ _ _ _ Es q Hq). }
  match type of El with scan_loop ?k _ _ = _ =>
    pose proof (scan_loop_nonroot k subdirs lba') as Hn; pose proof (scan_loop_parents k subdirs lba' d) as Hp end.
  rewrite El in Hn, Hp. cbn [fst] in Hn, Hp.
  split.
  - apply Hn; [|exact Hd]. intros q Hq. destruct (Hsub q Hq) as [n' ->]. discriminate.
  - destruct (Hp Hd) as [(q & Hq & Hqp)|(_ & p & Hp1 & Hp2)].
    + destruct (Hsub q Hq) as [n' Hn']. eexists. split; [left; reflexivity|]. cbn [di_path].
      rewrite <- Hqp, Hn'. reflexivity.
    + exists p. split; [right; exact Hp1|exact Hp2].
Qed.

(* ---------- path tables ---------- *)
Lemma path_eqb_refl p : path_eqb p p = true.
Proof.
  unfold path_eqb. rewrite Nat.eqb_refl. cbn [andb].
  induction p as [|x r IH]; cbn [combine forallb fst snd]; [reflexivity|].
  rewrite list_eqb_refl. exact IH.
Qed.

(* the records of a directory after "." and "..": they depend on the scan only *)
Definition dir_tail (ds : list ditem) (j : bool) (d : ditem) : list dentry :=
  concat (map (file_entries j) (di_files d))
  ++ map (fun c => {| de_loc := 0; de_len := 0; de_time := di_time c; de_flags := dir_flag;
                      de_id := make_identifier (di_name c) j |})
         (filter (fun c => match di_path c with [] => false | _ => path_eqb (removelast (di_path c)) (di_path d) end) (tl ds)).

Lemma make_dir_entries_checked ds j b d b' : make_dir_entries ds j b d = Ok b' -> too_long (dir_tail ds j d) = false.
Proof.
  unfold make_dir_entries. fold (dir_tail ds j d). intros H.
  destruct (too_long (dir_tail ds j d)); [discriminate|reflexivity].
Qed.

Lemma build_dirs_checked ds j : forall todo b b', build_dirs ds j todo b = Ok b' ->
  Forall (fun d => too_long (dir_tail ds j d) = false) todo.
Proof.
  induction todo as [|d r IH]; intros b b' H; cbn [build_dirs] in H; [constructor|].
  unfold bind in H. destruct (make_dir_entries ds j b d) as [b1|] eqn:E1; [|discriminate].
  constructor; [eapply make_dir_entries_checked; eauto|eapply IH; eauto].
Qed.

Lemma dir_ids_short root ds n j b : scan_loop (snode_count root) [([], root)] 0 = (ds, n) ->
  build_dirs ds j ds [] = Ok b ->
  forall d, In d (tl ds) -> id_size (make_identifier (di_name d) j) <= 255.
Proof.
  intros Hscan Hb d Hd.
  destruct (scan_root_parents _ _ _ Hscan d Hd) as (Hne & p & Hp & Hpp).
  pose proof (build_dirs_checked _ _ _ _ _ Hb) as Hc. rewrite Forall_forall in Hc. specialize (Hc p Hp).
  apply too_long_false in Hc. rewrite Forall_forall in Hc.
  specialize (Hc {| de_loc := 0; de_len := 0; de_time := di_time d; de_flags := dir_flag; de_id := make_identifier (di_name d) j |}).
  cbn [de_id] in Hc. apply Hc. unfold dir_tail. apply in_or_app. right.
  apply in_map_iff. exists d. split; [reflexivity|].
  apply filter_In. split; [exact Hd|].
  destruct (di_path d) as [|x r] eqn:E; [congruence|]. rewrite Hpp. apply path_eqb_refl.
Qed.

Definition pt_short (e : ptentry) : Prop := zlen (pt_id e) < 256.

Lemma pt_encode_length l e : pt_short e -> zlen (pt_encode l e) = pt_size e.
Proof.
  unfold pt_short, pt_encode, pt_size. intros H. pose proof (zlen_nonneg (pt_id e)).
  rewrite (Z.mod_small (zlen (pt_id e)) 256) by lia.
  repeat rewrite zlen_app.
  assert (H4 : zlen (if l then le_enc 4 (pt_loc e mod 2 ^ 32) else be_enc 4 (pt_loc e mod 2 ^ 32)) = 4)
    by (destruct l; [rewrite zlen_le|rewrite zlen_be]; reflexivity).
  assert (H2 : zlen (if l then le_enc 2 (pt_parent e mod 2 ^ 16) else be_enc 2 (pt_parent e mod 2 ^ 16)) = 2)
    by (destruct l; [rewrite zlen_le|rewrite zlen_be]; reflexivity).
  rewrite H4, H2.
  destruct (zlen (pt_id e) mod 2 =? 1) eqn:E; unfold zlen in *; cbn [length]; lia.
Qed.

Lemma pt_total_from t : forall acc, fold_left (fun a e => a + pt_size e) t acc = acc + fold_right (fun e s => pt_size e + s) 0 t.
Proof. induction t as [|e r IH]; intros acc; cbn [fold_left fold_right]; [lia|]. rewrite IH. lia. Qed.

Lemma pt_table_length l (f : ptentry -> ptentry) t :
  (forall e, pt_id (f e) = pt_id e) -> Forall pt_short t ->
  zlen (concat (map (pt_encode l) (map f t))) = pt_total t.
Proof.
  intros Hf H. unfold pt_total. rewrite pt_total_from.
  induction H as [|e r He _ IH]; cbn [map concat fold_right]; [reflexivity|].
  rewrite zlen_app, IH, pt_encode_length.
  - unfold pt_size. rewrite Hf. lia.
  - unfold pt_short. rewrite Hf. exact He.
Qed.

Lemma id_short_of_size id : id_size id <= 255 -> zlen id < 256.
Proof. unfold id_size. pose proof (zlen_nonneg id). lia. Qed.

Lemma make_path_table_short ds_all j : forall ds b i,
  (forall d, In d (match i with O => tl ds | _ => ds end) -> id_size (make_identifier (di_name d) j) <= 255) ->
  Forall pt_short (make_path_table ds_all j ds b i).
Proof.
  induction ds as [|d r IH]; intros b i H; cbn [make_path_table]; [constructor|].
  destruct b as [|[|dot es] br]; try constructor.
  destruct (Z.to_nat path_table_items_limit <=? i)%nat; [constructor|].
  constructor.
  - unfold pt_short. cbn [pt_id]. destruct i; [reflexivity|].
    apply id_short_of_size, H. left. reflexivity.
  - apply IH. intros d' Hd'. apply H. destruct i; cbn [tl]; [exact Hd'|right; exact Hd'].
Qed.

(* ---------- the metadata area ---------- *)
Lemma zlen_ps3_sectors space gc rnd : zlen gc <= 31 -> zlen (ps3_sectors space gc rnd) = 2 * sector_size.
Proof.
  intros H. unfold ps3_sectors. rewrite zlen_app.
  rewrite zlen_pad_to.
  2:{ rewrite !zlen_app, !zlen_be, zlen_zeros. unfold sector_size. lia. }
  rewrite zlen_pad_to; [lia|].
  rewrite !zlen_app, zlen_zeros, zlen_fitn.
  rewrite (zlen_pad_to console_id) by (vm_compute; discriminate).
  rewrite zlen_pad_to.
  - unfold sector_size. lia.
  - rewrite !zlen_app. unfold zlen at 2. cbn [length].
    pose proof (firstn_skipn 4 gc) as E. apply (f_equal (@length _)) in E. rewrite app_length in E.
    unfold zlen in *. lia.
Qed.

Lemma zlen_sys_area ps3 space gc rnd : (ps3 = true -> zlen gc <= 31) -> zlen (sys_area ps3 space gc rnd) = system_area_size.
Proof.
  intros H. unfold sys_area. destruct ps3.
  - rewrite zlen_app, zlen_ps3_sectors, zlen_zeros by (apply H; reflexivity). vm_compute. reflexivity.
  - rewrite zlen_zeros. reflexivity.
Qed.

Lemma zlen_zero_ts : zlen zero_ts = 17.
Proof. reflexivity. Qed.

Lemma zlen_vd_body j volname space ptsize ptl ptm root_rec now : zlen root_rec <= 34 ->
  zlen (vd_body j volname space ptsize ptl ptm root_rec now) = 1388.
Proof.
  intros H. unfold vd_body.
  repeat rewrite zlen_app.
  rewrite !zlen_lsbmsb32, !zlen_lsbmsb16, !zlen_le, !zlen_be, !zlen_fitn, !zlen_zero_ts, !zlen_zeros.
  rewrite (zlen_pad_to root_rec) by exact H.
  rewrite (zlen_pad_to (mangle_set a_characters _ j)) by (destruct j; vm_compute; discriminate).
  rewrite !(zlen_pad_to (fit _ _)) by (apply zlen_fit; lia).
  rewrite (zlen_pad_to (if j then _ else _)) by (destruct j; vm_compute; discriminate).
  rewrite !(zlen_pad_to []) by (vm_compute; discriminate).
  rewrite (zlen_pad_to (_ :: _)) by (vm_compute; discriminate).
  unfold zlen. cbn [length]. lia.
Qed.

Lemma zlen_vd_sector typ ver body : zlen body <= 2041 -> zlen (vd_sector typ ver body) = sector_size.
Proof.
  intros H. unfold vd_sector. apply zlen_pad_to. unfold vd_header. rewrite !zlen_app.
  unfold zlen, standard_identifier, sector_size in *. cbn [length]. lia.
Qed.

Lemma root_record_short b : Forall dir_ok b -> zlen (root_record b) <= 34.
Proof.
  intros H. unfold root_record. destruct b as [|[|dot es] br]; try (vm_compute; discriminate).
  inversion H as [|? ? [_ [r Hr]] _]; subst. cbn [map] in Hr. injection Hr as Hid _.
  rewrite de_encode_length, de_size_id, Hid. vm_compute. discriminate.
Qed.

Lemma dir_ok_fix a c b : Forall dir_ok b -> Forall dir_ok (map (map (fix_entry a c)) b).
Proof.
  intros H. rewrite Forall_map. eapply Forall_impl; [|exact H].
  intros es [H1 [r H2]]. split; [apply fits_fix; exact H1|].
  exists r. rewrite map_map. rewrite <- H2. apply map_ext. intros e. reflexivity.
Qed.

Lemma pt_short_reloc base pt : Forall pt_short pt -> zlen (concat (map (pt_encode true) (reloc_pt base pt))) = pt_total pt
                                                     /\ zlen (concat (map (pt_encode false) (reloc_pt base pt))) = pt_total pt.
Proof. intros H. unfold reloc_pt. split; apply pt_table_length; auto. Qed.

Lemma pt_total_reloc base pt : pt_total (reloc_pt base pt) = pt_total pt.
Proof.
  unfold pt_total, reloc_pt. rewrite !pt_total_from. f_equal.
  induction pt as [|e r IH]; cbn [map fold_right]; [reflexivity|]. rewrite IH. reflexivity.
Qed.

Lemma fsbuf_of_length ps3 volname gc now rnd space pt ptj b_iso b_jol a1 a2 c ptl ptm ptjl ptjm :
  (ps3 = true -> zlen gc <= 31) -> Forall pt_short pt -> Forall pt_short ptj -> Forall dir_ok b_iso -> Forall dir_ok b_jol ->
  zlen (fsbuf_of ps3 volname gc now rnd space (reloc_pt a1 pt) (reloc_pt a2 ptj)
                 (map (map (fix_entry a1 c)) b_iso) (map (map (fix_entry a2 c)) b_jol) ptl ptm ptjl ptjm)
  = (sectors system_area_size + volume_descriptors_count + 1 + sectors (pt_total pt) * 2 + sectors (pt_total ptj) * 2) * sector_size
    + built_size b_iso + built_size b_jol.
Proof.
  intros Hgc Hpt Hptj Hi Hj. unfold fsbuf_of, dirs_bytes.
  repeat rewrite zlen_app.
  rewrite zlen_sys_area by exact Hgc.
  rewrite !zlen_vd_sector.
  2:{ vm_compute. discriminate. }
  2:{ rewrite zlen_vd_body; [lia|]. apply root_record_short, dir_ok_fix, Hj. }
  2:{ rewrite zlen_vd_body; [lia|]. apply root_record_short, dir_ok_fix, Hi. }
  rewrite zlen_zeros, !zlen_pad_sector.
  destruct (pt_short_reloc a1 pt Hpt) as [-> ->]. destruct (pt_short_reloc a2 ptj Hptj) as [-> ->].
  rewrite !dirs_area_length by assumption.
  replace (sectors system_area_size) with 16 by (vm_compute; reflexivity).
  generalize (sectors (pt_total pt)) (sectors (pt_total ptj)) (built_size b_iso) (built_size b_jol). intros x y u v.
  unfold system_area_size, volume_descriptors_count, sector_size. lia.
Qed.

(* ---------- the file area ---------- *)
Fixpoint chain (fs : list dfile) (lba : Z) : Prop :=
  match fs with
  | [] => True
  | f :: r => df_lba f = lba /\ 0 <= df_size f /\ chain r (lba + sectors (df_size f))
  end.

Fixpoint chain_end (fs : list dfile) (lba : Z) : Z :=
  match fs with [] => lba | f :: r => chain_end r (lba + sectors (df_size f)) end.

Lemma chain_app a : forall b lba, chain (a ++ b) lba <-> chain a lba /\ chain b (chain_end a lba).
Proof.
  induction a as [|f r IH]; intros b lba; cbn [app chain chain_end]; [tauto|].
  rewrite IH. tauto.
Qed.

Lemma chain_end_app a : forall b lba, chain_end (a ++ b) lba = chain_end b (chain_end a lba).
Proof. induction a as [|f r IH]; intros b lba; cbn [app chain_end]; [reflexivity|apply IH]. Qed.

Lemma scan_items_chain items path : forall lba fs sub lba',
  scan_items items path lba = (fs, sub, lba') -> chain fs lba /\ chain_end fs lba = lba'.
Proof.
  induction items as [|it r IH]; intros lba fs sub lba' H; cbn [scan_items] in H.
  - injection H as <- <- <-. cbn. auto.
  - destruct it as [n sz t|n t its].
    + destruct (scan_items r path (lba + sectors (Z.max 0 sz))) as [[fs1 ds1] l1] eqn:E.
      injection H as <- <- <-. apply IH in E as [E1 E2]. cbn [chain chain_end df_lba df_size].
      split; [split; [reflexivity|split; [lia|exact E1]]|exact E2].
    + destruct (scan_items r path lba) as [[fs1 ds1] l1] eqn:E.
      injection H as <- <- <-. eapply IH; eauto.
Qed.

Lemma scan_loop_chain : forall fuel queue lba ds e, scan_loop fuel queue lba = (ds, e) ->
  chain (concat (map di_files ds)) lba /\ chain_end (concat (map di_files ds)) lba = e.
Proof.
  induction fuel as [|k IH]; intros queue lba ds e H; cbn [scan_loop] in H.
  - injection H as <- <-. cbn. auto.
  - destruct (rev queue) as [|[path node] rest_rev]; [injection H as <- <-; cbn; auto|].
    destruct node as [n sz t|n t items]; [injection H as <- <-; cbn; auto|].
    destruct (scan_items items path lba) as [[fs subdirs] lba'] eqn:Es.
    destruct (scan_loop k (rev rest_rev ++ subdirs) lba') as [ds' lba''] eqn:El.
    injection H as <- <-. cbn [map concat di_files].
    apply scan_items_chain in Es as [E1 E2]. apply IH in El as [E3 E4].
    rewrite chain_app, chain_end_app, E2. auto.
Qed.

Definition flat_files (ds : list ditem) : list (list bytes * dfile) :=
  concat (map (fun d => map (fun f => (di_path d, f)) (di_files d)) ds).

Lemma flat_files_snd ds : map snd (flat_files ds) = concat (map di_files ds).
Proof.
  unfold flat_files. induction ds as [|d r IH]; cbn [map concat]; [reflexivity|].
  rewrite map_app, IH, map_map. cbn [snd]. rewrite map_id. reflexivity.
Qed.

Definition file_triple (files_lba : Z) (pf : list bytes * dfile) : list bytes * Z * Z :=
  (fst pf ++ [df_name (snd pf)], df_size (snd pf), df_lba (snd pf) + files_lba).

Lemma bi_files_flat files_lba ds :
  concat (map (fun d => map (fun f => (di_path d ++ [df_name f], df_size f, df_lba f + files_lba)) (di_files d)) ds)
  = map (file_triple files_lba) (flat_files ds).
Proof.
  unfold flat_files. induction ds as [|d r IH]; cbn [map concat]; [reflexivity|].
  rewrite map_app, IH, map_map. reflexivity.
Qed.

Definition vfile_of (data : list bytes -> Z -> Z) (x : list bytes * Z * Z) : vfile :=
  {| vsize := snd (fst x); vlba := snd x; vdata := data (fst (fst x)) |}.

Lemma contiguous_chain data files_lba l : forall lba, chain (map snd l) lba ->
  contiguous (map (vfile_of data) (map (file_triple files_lba) l)) ((lba + files_lba) * sector_size)
  /\ files_end (map (vfile_of data) (map (file_triple files_lba) l)) ((lba + files_lba) * sector_size)
     = (chain_end (map snd l) lba + files_lba) * sector_size.
Proof.
  induction l as [|[p f] r IH]; intros lba H; cbn [map snd chain chain_end contiguous files_end] in *; [auto|].
  destruct H as (H1 & H2 & H3). specialize (IH _ H3) as [I1 I2].
  unfold vpadded, vstart. cbn [vfile_of file_triple fst snd vsize vlba].
  replace ((lba + files_lba) * sector_size + sectors (df_size f) * sector_size)
    with ((lba + sectors (df_size f) + files_lba) * sector_size) by lia.
  split; [split; [exact H2|split; [rewrite H1; reflexivity|exact I1]]|exact I2].
Qed.

(* ---------- the whole image ---------- *)
Lemma build_image_inv root v ps3 gc now rnd bi : build_image root v ps3 gc now rnd = Ok bi ->
  exists ds fsec b_iso b_jol,
    scan_loop (snode_count root) [([], root)] 0 = (ds, fsec) /\
    build_dirs ds false ds [] = Ok b_iso /\ build_dirs ds true ds [] = Ok b_jol /\
    (ps3 = true -> 4 <= zlen gc <= 31) /\
    bi = assemble ds fsec b_iso b_jol v ps3 gc now rnd.
Proof.
  unfold build_image. intros H. destruct root as [n sz t|n t items]; [discriminate|].
  destruct (ps3 && ((zlen gc <? 4) || (31 <? zlen gc))) eqn:G; [discriminate|].
  destruct (scan_loop (snode_count (SDir n t items)) [([], SDir n t items)] 0) as [ds fsec] eqn:Es.
  unfold bind in H.
  destruct (build_dirs ds false ds []) as [b_iso|] eqn:Ei; [|discriminate].
  destruct (build_dirs ds true ds []) as [b_jol|] eqn:Ej; [|discriminate].
  injection H as <-. exists ds, fsec, b_iso, b_jol. repeat split; auto; destruct ps3; try discriminate; cbn [andb] in G; lia.
Qed.

Definition image_of (bi : built_image) (data : list bytes -> Z -> Z) : image :=
  {| fsbuf := bi_fsbuf bi; vfiles := map (vfile_of data) (bi_files bi);
     pad_start := bi_pad_start bi; pad_size := bi_pad_size bi; total := bi_total bi |}.

Lemma pad_sectors_for_ok volume : 0 <= volume ->
  base_pad_sectors <= pad_sectors_for volume /\ (volume + pad_sectors_for volume) mod base_pad_sectors = 0.
Proof.
  intros H. unfold pad_sectors_for, base_pad_sectors.
  destruct (0 <? volume mod 32) eqn:E; lia.
Qed.

Lemma chain_end_ge fs : forall lba, chain fs lba -> lba <= chain_end fs lba.
Proof.
  induction fs as [|f r IH]; intros lba H; cbn [chain chain_end] in *; [lia|].
  destruct H as (_ & H2 & H3). apply IH in H3. pose proof (sectors_bounds (df_size f) H2). unfold sector_size in *. lia.
Qed.

Theorem build_layout root v ps3 gc now rnd bi data : build_image root v ps3 gc now rnd = Ok bi ->
  layout_wf (image_of bi data)
  /\ zlen (bi_fsbuf bi) mod sector_size = 0
  /\ bi_pad_start bi mod sector_size = 0
  /\ bi_total bi mod (base_pad_sectors * sector_size) = 0
  /\ base_pad_sectors * sector_size <= bi_pad_size bi.
Proof.
  intros H. apply build_image_inv in H as (ds & fsec & b_iso & b_jol & Hscan & Hi & Hj & Hgc & ->).
  pose proof (build_dirs_ok _ _ _ Hi) as [_ Hoki]. pose proof (build_dirs_ok _ _ _ Hj) as [_ Hokj].
  pose proof (dir_ids_short _ _ _ _ _ Hscan Hi) as Hsi. pose proof (dir_ids_short _ _ _ _ _ Hscan Hj) as Hsj.
  pose proof (make_path_table_short ds false ds b_iso 0 Hsi) as Hpi.
  pose proof (make_path_table_short ds true ds b_jol 0 Hsj) as Hpj.
  pose proof (scan_loop_chain _ _ _ _ _ Hscan) as [Hc He].
  pose proof (built_size_aligned b_iso) as [Ai Ni]. pose proof (built_size_aligned b_jol) as [Aj Nj].
  unfold assemble.
  set (pt := make_path_table ds false ds b_iso 0) in *. set (ptj := make_path_table ds true ds b_jol 0) in *.
  set (iso_lba := sectors system_area_size + volume_descriptors_count + 1 + sectors (pt_total pt) * 2 + sectors (pt_total ptj) * 2).
  set (jol_lba := iso_lba + sectors (built_size b_iso)).
  set (files_lba := jol_lba + sectors (built_size b_jol)).
  assert (Hlen : zlen (fsbuf_of ps3 v gc now rnd (files_lba + fsec + pad_sectors_for (files_lba + fsec))
                         (reloc_pt iso_lba pt) (reloc_pt jol_lba ptj)
                         (map (map (fix_entry iso_lba files_lba)) b_iso) (map (map (fix_entry jol_lba files_lba)) b_jol)
                         (sectors system_area_size + volume_descriptors_count + 1)
                         (sectors system_area_size + volume_descriptors_count + 1 + sectors (pt_total pt))
                         (sectors system_area_size + volume_descriptors_count + 1 + sectors (pt_total pt) + sectors (pt_total pt))
                         (sectors system_area_size + volume_descriptors_count + 1 + sectors (pt_total pt) + sectors (pt_total pt) + sectors (pt_total ptj)))
                 = files_lba * sector_size).
  { rewrite fsbuf_of_length; auto; [|intros Hp; specialize (Hgc Hp); lia].
    subst files_lba jol_lba. fold iso_lba.
    assert (S1 : sectors (built_size b_iso) * sector_size = built_size b_iso) by (unfold sectors, sector_size in *; lia).
    assert (S2 : sectors (built_size b_jol) * sector_size = built_size b_jol) by (unfold sectors, sector_size in *; lia).
    lia. }
  rewrite <- flat_files_snd in Hc, He.
  destruct (contiguous_chain data files_lba (flat_files ds) 0 Hc) as [C1 C2].
  pose proof (chain_end_ge _ _ Hc) as Hge. rewrite He in *.
  assert (Hfl : 0 <= files_lba).
  { pose proof (zlen_nonneg (fsbuf_of ps3 v gc now rnd (files_lba + fsec + pad_sectors_for (files_lba + fsec))
                         (reloc_pt iso_lba pt) (reloc_pt jol_lba ptj)
                         (map (map (fix_entry iso_lba files_lba)) b_iso) (map (map (fix_entry jol_lba files_lba)) b_jol)
                         (sectors system_area_size + volume_descriptors_count + 1)
                         (sectors system_area_size + volume_descriptors_count + 1 + sectors (pt_total pt))
                         (sectors system_area_size + volume_descriptors_count + 1 + sectors (pt_total pt) + sectors (pt_total pt))
                         (sectors system_area_size + volume_descriptors_count + 1 + sectors (pt_total pt) + sectors (pt_total pt) + sectors (pt_total ptj)))).
    unfold sector_size in *. lia. }
  destruct (pad_sectors_for_ok (files_lba + fsec) ltac:(lia)) as [P1 P2].
  split; [|split; [|split; [|split]]].
  - constructor; cbn [image_of fsbuf vfiles pad_start pad_size total bi_fsbuf bi_files bi_pad_start bi_pad_size bi_total].
    + rewrite Hlen, bi_files_flat. replace (files_lba * sector_size) with ((0 + files_lba) * sector_size) by lia. exact C1.
    + rewrite Hlen, bi_files_flat. replace (files_lba * sector_size) with ((0 + files_lba) * sector_size) by lia.
      rewrite C2. lia.
    + unfold base_pad_sectors, sector_size in *. lia.
    + lia.
  - cbn [bi_fsbuf]. rewrite Hlen. unfold sector_size. lia.
  - cbn [bi_pad_start]. unfold sector_size. lia.
  - cbn [bi_total]. unfold base_pad_sectors, sector_size in *. lia.
  - cbn [bi_pad_size]. unfold base_pad_sectors, sector_size in *. lia.
Qed.

(* ---------- C18: the only bytes that depend on the clock and on crypto/rand ---------- *)
Definition vd_pre (typ : Z) (j : bool) (volname : bytes) (space ptsize ptl ptm : Z) (root_rec : bytes) : bytes :=
  vd_header typ 1 ++ [0]
  ++ pad_to (mangle_set a_characters [108;105;110;117;120] j) 32 32
  ++ pad_to (fit (mangle_set d_characters volname j) 32) 32 32
  ++ zeros 8
  ++ lsbmsb32 (space mod 2 ^ 32)
  ++ pad_to (if j then [37;47;64] else []) 32 0
  ++ lsbmsb16 1 ++ lsbmsb16 1 ++ lsbmsb16 (sector_size mod 2 ^ 16)
  ++ lsbmsb32 (ptsize mod 2 ^ 32)
  ++ le_enc 4 (ptl mod 2 ^ 32) ++ le_enc 4 0 ++ be_enc 4 (ptm mod 2 ^ 32) ++ be_enc 4 0
  ++ pad_to root_rec 34 0
  ++ pad_to (fit (mangle_set d_characters volname j) 128) 128 32
  ++ pad_to [] 128 32 ++ pad_to [] 128 32
  ++ pad_to [112;115;51;110;101;116;115;114;118] 128 32
  ++ pad_to [] 37 32 ++ pad_to [] 37 32 ++ pad_to [] 37 32.

Definition vd_post : bytes := zero_ts ++ zero_ts ++ [1; 0] ++ zeros 512 ++ repeatz 0 (sector_size - 1395).

Lemma vd_sector_split typ j volname space ptsize ptl ptm rr now : zlen rr <= 34 ->
  vd_sector typ 1 (vd_body j volname space ptsize ptl ptm rr now)
  = vd_pre typ j volname space ptsize ptl ptm rr ++ fitn 17 now ++ fitn 17 now ++ vd_post.
Proof.
  intros H. unfold vd_sector, pad_to at 1.
  rewrite zlen_app, (zlen_vd_body j volname space ptsize ptl ptm rr now H).
  replace (sector_size - (zlen (vd_header typ 1) + 1388)) with (sector_size - 1395) by reflexivity.
  unfold vd_body, vd_pre, vd_post. repeat rewrite <- app_assoc. reflexivity.
Qed.

Lemma zlen_vd_pre typ j volname space ptsize ptl ptm rr : zlen rr <= 34 ->
  zlen (vd_pre typ j volname space ptsize ptl ptm rr) = 813.
Proof.
  intros H.
  pose proof (zlen_vd_sector typ 1 (vd_body j volname space ptsize ptl ptm rr []) ltac:(rewrite zlen_vd_body by exact H; lia)) as E.
  rewrite vd_sector_split in E by exact H. rewrite !zlen_app, !zlen_fitn in E.
  assert (Hp : zlen vd_post = 1201) by (vm_compute; reflexivity).
  rewrite Hp in E. unfold sector_size in E. lia.
Qed.

Definition sys_pre (space : Z) (gc : bytes) : bytes :=
  pad_to (be_enc 4 1 ++ zeros 4 ++ be_enc 4 0 ++ be_enc 4 ((space - 1) mod 2 ^ 32)) sector_size 0
  ++ pad_to console_id 16 32 ++ pad_to (firstn 4 gc ++ [45] ++ skipn 4 gc) 32 32 ++ zeros 16.

Definition sys_post : bytes := repeatz 0 (sector_size - 512) ++ zeros ((sectors system_area_size - 2) * sector_size).

Lemma zlen_sys_pre space gc : zlen gc <= 31 -> zlen (sys_pre space gc) = sector_size + 64.
Proof.
  intros H. unfold sys_pre. rewrite !zlen_app, zlen_zeros.
  rewrite zlen_pad_to by (rewrite !zlen_app, !zlen_be, zlen_zeros; unfold sector_size; lia).
  rewrite (zlen_pad_to console_id) by (vm_compute; discriminate).
  rewrite zlen_pad_to; [lia|].
  rewrite !zlen_app. unfold zlen at 2. cbn [length].
  pose proof (firstn_skipn 4 gc) as E. apply (f_equal (@length _)) in E. rewrite app_length in E.
  unfold zlen in *. lia.
Qed.

Lemma sys_area_split space gc rnd : zlen gc <= 31 ->
  sys_area true space gc rnd = sys_pre space gc ++ fitn 448 rnd ++ sys_post.
Proof.
  intros H. unfold sys_area, ps3_sectors, sys_pre, sys_post.
  unfold pad_to at 2.
  assert (E : zlen ((pad_to console_id 16 32 ++ pad_to (firstn 4 gc ++ [45] ++ skipn 4 gc) 32 32 ++ zeros 16 ++ fitn 448 rnd)) = 512).
  { pose proof (zlen_sys_pre space gc H) as P. unfold sys_pre in P. rewrite !zlen_app in P.
    rewrite zlen_pad_to in P by (rewrite !zlen_app, !zlen_be, zlen_zeros; unfold sector_size; lia).
    rewrite !zlen_app, zlen_fitn. unfold sector_size in P. lia. }
  rewrite E. repeat rewrite <- app_assoc. reflexivity.
Qed.

Theorem build_varies_only_in_fields root v ps3 gc :
  (exists e, forall now rnd, build_image root v ps3 gc now rnd = Err e) \/
  exists A B C D files pstart psize tot,
    zlen A = (if ps3 then sector_size + 64 else 0) /\
    zlen A + (if ps3 then 448 else 0) + zlen B = 16 * sector_size + 813 /\
    zlen C = sector_size - 34 /\
    forall now rnd, build_image root v ps3 gc now rnd =
      Ok {| bi_fsbuf := A ++ (if ps3 then fitn 448 rnd else []) ++ B ++ (fitn 17 now ++ fitn 17 now) ++ C
                          ++ (fitn 17 now ++ fitn 17 now) ++ D;
            bi_files := files; bi_pad_start := pstart; bi_pad_size := psize; bi_total := tot |}.
Proof.
  unfold build_image. destruct root as [n sz t|n t items]; [left; eexists; reflexivity|].
  destruct (ps3 && ((zlen gc <? 4) || (31 <? zlen gc))) eqn:G; [left; eexists; reflexivity|].
  destruct (scan_loop (snode_count (SDir n t items)) [([], SDir n t items)] 0) as [ds fsec] eqn:Es.
  unfold bind.
  destruct (build_dirs ds false ds []) as [b_iso|] eqn:Ei; [|left; eexists; reflexivity].
  destruct (build_dirs ds true ds []) as [b_jol|] eqn:Ej; [|left; eexists; reflexivity].
  right.
  pose proof (build_dirs_ok _ _ _ Ei) as [_ Hoki]. pose proof (build_dirs_ok _ _ _ Ej) as [_ Hokj].
  unfold assemble.
  set (pt := make_path_table ds false ds b_iso 0). set (ptj := make_path_table ds true ds b_jol 0).
  set (iso_lba := sectors system_area_size + volume_descriptors_count + 1 + sectors (pt_total pt) * 2 + sectors (pt_total ptj) * 2).
  set (jol_lba := iso_lba + sectors (built_size b_iso)).
  set (files_lba := jol_lba + sectors (built_size b_jol)).
  set (space := files_lba + fsec + pad_sectors_for (files_lba + fsec)).
  set (f_iso := map (map (fix_entry iso_lba files_lba)) b_iso). set (f_jol := map (map (fix_entry jol_lba files_lba)) b_jol).
  assert (Ri : zlen (root_record f_iso) <= 34) by (apply root_record_short, dir_ok_fix, Hoki).
  assert (Rj : zlen (root_record f_jol) <= 34) by (apply root_record_short, dir_ok_fix, Hokj).
  unfold fsbuf_of.
  set (rest := vd_sector volume_type_terminator 0 [] ++ _).
  set (ptl := sectors system_area_size + volume_descriptors_count + 1).
  set (ptm := ptl + sectors (pt_total pt)). set (ptjl := ptm + sectors (pt_total pt)). set (ptjm := ptjl + sectors (pt_total ptj)).
  set (V1 := vd_pre volume_type_primary false v space (pt_total (reloc_pt iso_lba pt)) ptl ptm (root_record f_iso)).
  set (V2 := vd_pre volume_type_supplementary true v space (pt_total (reloc_pt jol_lba ptj)) ptjl ptjm (root_record f_jol)).
  assert (L1 : zlen V1 = 813) by (apply zlen_vd_pre; exact Ri).
  assert (L2 : zlen V2 = 813) by (apply zlen_vd_pre; exact Rj).
  assert (Lp : zlen vd_post = 1201) by (vm_compute; reflexivity).
  destruct ps3.
  - assert (Hgc : zlen gc <= 31) by (cbn [andb] in G; lia).
    exists (sys_pre space gc), (sys_post ++ V1), (vd_post ++ V2), (vd_post ++ rest). do 4 eexists.
    split; [apply zlen_sys_pre; exact Hgc|]. split; [|split].
    + rewrite zlen_sys_pre by exact Hgc. rewrite zlen_app, L1.
      assert (Hs : zlen sys_post = 1536 + 14 * 2048) by (vm_compute; reflexivity). rewrite Hs. unfold sector_size. lia.
    + rewrite zlen_app, L2, Lp. unfold sector_size. lia.
    + intros now rnd. f_equal. f_equal.
      rewrite sys_area_split by exact Hgc.
      rewrite !vd_sector_split by assumption.
      fold V1 V2. repeat rewrite <- app_assoc. reflexivity.
  - exists [], (zeros system_area_size ++ V1), (vd_post ++ V2), (vd_post ++ rest). do 4 eexists.
    split; [reflexivity|]. split; [|split].
    + rewrite zlen_app, L1, zlen_zeros. unfold zlen, system_area_size, sector_size. cbn [length]. lia.
    + rewrite zlen_app, L2, Lp. unfold sector_size. lia.
    + intros now rnd. f_equal. f_equal. unfold sys_area.
      rewrite !vd_sector_split by assumption.
      fold V1 V2. cbn [app]. repeat rewrite <- app_assoc. reflexivity.
Qed.

(* ---------- C08: what the descriptors and the PS3 sectors declare ---------- *)
Lemma assemble_fsbuf ds fsec b_iso b_jol v ps3 gc now rnd :
  exists space pt ptj fi fj a b c d,
    bi_total (assemble ds fsec b_iso b_jol v ps3 gc now rnd) = space * sector_size /\
    bi_fsbuf (assemble ds fsec b_iso b_jol v ps3 gc now rnd) = fsbuf_of ps3 v gc now rnd space pt ptj fi fj a b c d.
Proof. unfold assemble. cbn [bi_total bi_fsbuf]. repeat eexists. Qed.

Theorem primary_descriptor_space root v ps3 gc now rnd bi : build_image root v ps3 gc now rnd = Ok bi ->
  exists P Q, bi_fsbuf bi = P ++ lsbmsb32 ((bi_total bi / sector_size) mod 2 ^ 32) ++ Q /\ zlen P = 16 * sector_size + 80.
Proof.
  intros H. apply build_image_inv in H as (ds & fsec & b_iso & b_jol & Hscan & Hi & Hj & Hgc & ->).
  destruct (assemble_fsbuf ds fsec b_iso b_jol v ps3 gc now rnd) as (sp & pt & ptj & fi & fj & a & b & c & d & Hsp & ->).
  rewrite Hsp. replace (sp * sector_size / sector_size) with sp by (unfold sector_size; lia).
  unfold fsbuf_of, vd_sector at 1, pad_to at 1, vd_body at 1.
  eexists (sys_area ps3 sp gc rnd ++ vd_header volume_type_primary 1 ++ [0] ++ pad_to _ 32 32 ++ pad_to (fit _ 32) 32 32 ++ zeros 8), _.
  split.
  - repeat rewrite <- app_assoc. reflexivity.
  - rewrite !zlen_app, zlen_sys_area by (intros Hp; specialize (Hgc Hp); lia).
    rewrite (zlen_pad_to (mangle_set a_characters _ false)) by (vm_compute; discriminate).
    rewrite (zlen_pad_to (fit _ _)) by (apply zlen_fit; lia).
    rewrite zlen_zeros. unfold zlen, vd_header, standard_identifier, system_area_size, sector_size. cbn [length app]. lia.
Qed.

Theorem ps3_sectors_declared root v gc now rnd bi : build_image root v true gc now rnd = Ok bi ->
  exists tail, bi_fsbuf bi =
    pad_to (be_enc 4 1 ++ zeros 4 ++ be_enc 4 0 ++ be_enc 4 ((bi_total bi / sector_size - 1) mod 2 ^ 32)) sector_size 0
    ++ pad_to console_id 16 32 ++ pad_to (firstn 4 gc ++ [45] ++ skipn 4 gc) 32 32 ++ tail.
Proof.
  intros H. apply build_image_inv in H as (ds & fsec & b_iso & b_jol & Hscan & Hi & Hj & Hgc & ->).
  destruct (assemble_fsbuf ds fsec b_iso b_jol v true gc now rnd) as (sp & pt & ptj & fi & fj & a & b & c & d & Hsp & ->).
  rewrite Hsp. replace (sp * sector_size / sector_size) with sp by (unfold sector_size; lia).
  unfold fsbuf_of. rewrite sys_area_split by (specialize (Hgc eq_refl); lia).
  unfold sys_pre. eexists. repeat rewrite <- app_assoc. reflexivity.
Qed.

(* every directory extent of both hierarchies: records fit their length byte and never straddle a sector *)
Definition records_placed (es : list dentry) : Prop :=
  Forall (fun oe => fst oe mod sector_size + de_size (snd oe) <= sector_size /\
                    34 <= de_size (snd oe) <= 255 /\
                    exists a b, entries_encode es 0 = a ++ de_encode (snd oe) ++ b /\ zlen a = fst oe /\
                                exists r, de_encode (snd oe) = de_size (snd oe) :: r)
         (place es 0).

Lemma dir_ok_placed es : dir_ok es -> records_placed es.
Proof.
  intros [Hf _]. unfold records_placed.
  pose proof (place_ok es 0 ltac:(lia) (fits_sector _ Hf)) as Hp.
  assert (Hs : Forall (fun oe => fits_byte (snd oe)) (place es 0)).
  { rewrite <- (place_snd es 0) in Hf. rewrite Forall_map in Hf. exact Hf. }
  rewrite Forall_forall in *. intros oe Hin. specialize (Hp oe Hin) as (_ & H2 & a & b & H3 & H4). specialize (Hs oe Hin).
  destruct (de_encode_head _ Hs) as (r & Hr & Hrange).
  split; [exact H2|]. split; [exact Hrange|]. exists a, b. split; [exact H3|]. split; [lia|]. exists r. exact Hr.
Qed.

Theorem directories_wf root v ps3 gc now rnd bi : build_image root v ps3 gc now rnd = Ok bi ->
  exists pre f_iso f_jol,
    bi_fsbuf bi = pre ++ dirs_bytes f_iso ++ dirs_bytes f_jol /\
    Forall (fun es => dir_ok es /\ records_placed es) (f_iso ++ f_jol).
Proof.
  intros H. apply build_image_inv in H as (ds & fsec & b_iso & b_jol & Hscan & Hi & Hj & Hgc & ->).
  pose proof (build_dirs_ok _ _ _ Hi) as [_ Hoki]. pose proof (build_dirs_ok _ _ _ Hj) as [_ Hokj].
  unfold assemble. cbn [bi_fsbuf]. unfold fsbuf_of.
  eexists _, (map (map (fix_entry _ _)) b_iso), (map (map (fix_entry _ _)) b_jol). split.
  - repeat rewrite app_assoc. reflexivity.
  - apply Forall_app. split; (eapply Forall_impl; [|apply dir_ok_fix; eassumption]); intros es He; (split; [exact He|apply dir_ok_placed, He]).
Qed.

(* ---------- C07: every file's bytes sit at the location the image records for it ---------- *)
Lemma contiguous_start fs : forall s f, contiguous fs s -> In f fs -> s <= vstart f /\ vstart f + vpadded f <= files_end fs s.
Proof.
  induction fs as [|g r IH]; intros s f H Hin; [destruct Hin|].
  cbn [contiguous files_end] in *. destruct H as (H1 & H2 & H3).
  assert (Hp : 0 <= vpadded g) by (unfold vpadded; pose proof (sectors_bounds (vsize g) H1); unfold sector_size in *; lia).
  destruct Hin as [<-|Hin].
  - split; [lia|]. rewrite H2. apply files_end_ge. exact H3.
  - destruct (IH _ _ H3 Hin). lia.
Qed.

Lemma files_at_in fs : forall s f i, contiguous fs s -> In f fs -> 0 <= i < vsize f ->
  files_at fs (vstart f + i) = vdata f i.
Proof.
  induction fs as [|g r IH]; intros s f i H Hin Hi; [destruct Hin|].
  cbn [contiguous files_at] in *. destruct H as (H1 & H2 & H3).
  destruct Hin as [<-|Hin].
  - pose proof (vpadded_bounds g H1) as [Hb _].
    replace ((vstart g <=? vstart g + i) && (vstart g + i <? vstart g + vpadded g)) with true by lia.
    replace (vstart g + i - vstart g) with i by lia.
    replace (i <? vsize g) with true by lia. reflexivity.
  - destruct (contiguous_start _ _ _ H3 Hin) as [Hs _].
    replace ((vstart g <=? vstart f + i) && (vstart f + i <? vstart g + vpadded g)) with false by lia.
    eapply IH; eauto.
Qed.

Theorem file_bytes_at_location root v ps3 gc now rnd bi data : build_image root v ps3 gc now rnd = Ok bi ->
  forall path size lba, In (path, size, lba) (bi_files bi) ->
  forall i, 0 <= i < size -> flat_at (image_of bi data) (lba * sector_size + i) = data path i.
Proof.
  intros H path size lba Hin i Hi.
  destruct (build_layout _ _ _ _ _ _ _ data H) as [[Hc Hps _ _] _].
  cbn [image_of fsbuf vfiles pad_start] in Hc, Hps.
  assert (Hf : In (vfile_of data (path, size, lba)) (map (vfile_of data) (bi_files bi))) by (apply in_map; exact Hin).
  destruct (contiguous_start _ _ _ Hc Hf) as [Hs He].
  pose proof (files_at_in _ _ _ i Hc Hf) as Hat. cbn [vfile_of vsize vdata fst snd] in Hat.
  unfold vstart, vpadded in *. cbn [vfile_of vlba vsize fst snd] in *.
  pose proof (sectors_bounds size ltac:(lia)).
  unfold flat_at. cbn [image_of fsbuf vfiles pad_start].
  replace (lba * sector_size + i <? zlen (bi_fsbuf bi)) with false by lia.
  replace (lba * sector_size + i <? bi_pad_start bi) with true by lia.
  apply Hat. lia.
Qed.

(* ---------- the records of a directory: ".", "..", its files (kept verbatim), its sub-directories ---------- *)
Definition files_of (j : bool) (d : ditem) : list dentry := concat (map (file_entries j) (di_files d)).

Definition not_dir (e : dentry) : Prop := Z.land (de_flags e) dir_flag = 0.

Lemma file_parts_not_dir id t size : forall parts lba i, Forall not_dir (file_parts id t size lba i parts).
Proof.
  induction parts as [|k IH]; intros lba i; cbn [file_parts]; [constructor|].
  destruct k; constructor; try (vm_compute; reflexivity); [constructor|apply IH].
Qed.

Lemma files_of_not_dir j d : Forall not_dir (files_of j d).
Proof.
  unfold files_of. induction (di_files d) as [|f r IH]; cbn [map concat]; [constructor|].
  apply Forall_app. split; [|exact IH].
  unfold file_entries. destruct (max_part_size <? df_size f); [apply file_parts_not_dir|].
  constructor; [vm_compute; reflexivity|constructor].
Qed.

Lemma link_child_files fs : Forall not_dir fs -> forall c id loc len,
  link_child (fs ++ c) id loc len = fs ++ link_child c id loc len.
Proof.
  induction 1 as [|e r He _ IH]; intros c id loc len; cbn [app link_child]; [reflexivity|].
  unfold not_dir in He. rewrite He. cbn [Z.eqb negb andb]. rewrite Bool.andb_false_r. cbn [andb]. f_equal. apply IH.
Qed.

Definition dir_form (j : bool) (d : ditem) (es : list dentry) : Prop :=
  exists x y c, es = x :: y :: files_of j d ++ c.

Lemma link_child_form j d es id loc len : dir_form j d es -> dir_form j d (link_child es id loc len).
Proof.
  intros (x & y & c & ->). cbn [link_child].
  destruct (list_eqb (de_id x) id && negb (Z.land (de_flags x) dir_flag =? 0) && (de_len x =? 0)); [do 3 eexists; reflexivity|].
  destruct (list_eqb (de_id y) id && negb (Z.land (de_flags y) dir_flag =? 0) && (de_len y =? 0)); [do 3 eexists; reflexivity|].
  rewrite link_child_files by apply files_of_not_dir. do 3 eexists; reflexivity.
Qed.

Lemma nth_error_update_nth {A} (f : A -> A) : forall (l : list A) k i,
  nth_error (update_nth l k f) i = if (i =? k)%nat then option_map f (nth_error l i) else nth_error l i.
Proof.
  induction l as [|x r IH]; intros k i; destruct k, i; cbn [update_nth nth_error Nat.eqb option_map]; try reflexivity.
  - destruct (i =? k)%nat; reflexivity.
  - apply IH.
Qed.

Lemma update_nth_length {A} (f : A -> A) : forall (l : list A) k, length (update_nth l k f) = length l.
Proof. induction l as [|x r IH]; intros k; destruct k; cbn [update_nth length]; auto. Qed.

Definition dirs_form (j : bool) (done : list ditem) (b : built) : Prop :=
  length b = length done /\ forall i d, nth_error done i = Some d -> exists es, nth_error b i = Some es /\ dir_form j d es.

Lemma make_dir_entries_form ds j done b d b' : dirs_form j done b -> make_dir_entries ds j b d = Ok b' ->
  dirs_form j (done ++ [d]) b'.
Proof.
  intros [Hl Hf] H. unfold make_dir_entries in H. fold (files_of j d) in H.
  set (child_es := map _ (filter _ (tl ds))) in H.
  destruct (too_long (files_of j d ++ child_es)); [discriminate|].
  assert (Hnew : forall x y b0, length b0 = length done ->
            (forall i d0, nth_error done i = Some d0 -> exists es, nth_error b0 i = Some es /\ dir_form j d0 es) ->
            dirs_form j (done ++ [d]) (b0 ++ [x :: y :: files_of j d ++ child_es])).
  { intros x y b0 Hl0 Hf0. split; [rewrite !app_length, Hl0; reflexivity|].
    intros i d0 Hi. destruct (Nat.lt_ge_cases i (length done)) as [Hlt|Hge].
    - rewrite nth_error_app1 in Hi by exact Hlt. rewrite nth_error_app1 by lia. apply Hf0, Hi.
    - rewrite nth_error_app2 in Hi by exact Hge. rewrite nth_error_app2 by lia. rewrite Hl0.
      destruct (i - length done)%nat as [|m]; cbn [nth_error] in *; [|destruct m; discriminate].
      injection Hi as <-. eexists. split; [reflexivity|]. do 3 eexists. reflexivity. }
  destruct (parent_index ds d) as [pi|]; injection H as <-.
  - apply Hnew.
    + rewrite update_nth_length. exact Hl.
    + intros i d0 Hi. destruct (Hf i d0 Hi) as (es & Hes & Hform).
      rewrite nth_error_update_nth. destruct (i =? pi)%nat.
      * rewrite Hes. cbn [option_map]. eexists. split; [reflexivity|]. apply link_child_form, Hform.
      * exists es. split; assumption.
  - apply Hnew; assumption.
Qed.

Lemma build_dirs_form ds j : forall todo done b b', dirs_form j done b -> build_dirs ds j todo b = Ok b' ->
  dirs_form j (done ++ todo) b'.
Proof.
  induction todo as [|d r IH]; intros done b b' Hf H; cbn [build_dirs] in H.
  - injection H as <-. rewrite app_nil_r. exact Hf.
  - unfold bind in H. destruct (make_dir_entries ds j b d) as [b1|] eqn:E1; [|discriminate].
    pose proof (make_dir_entries_form _ _ _ _ _ _ Hf E1) as Hf1.
    specialize (IH _ _ _ Hf1 H). rewrite <- app_assoc in IH. exact IH.
Qed.

Lemma build_dirs_files ds j b : build_dirs ds j ds [] = Ok b ->
  forall i d, nth_error ds i = Some d -> exists es, nth_error b i = Some es /\ dir_form j d es.
Proof.
  intros H. apply (build_dirs_form ds j ds [] [] b) in H; [apply H|].
  split; [reflexivity|]. intros i d Hi. destruct i; discriminate.
Qed.

(* ---------- extents of a file: one record, or several records of 0xFFFFF800 bytes plus the rest ---------- *)
Definition extents (es : list dentry) : list (Z * Z) := map (fun e => (de_loc e, de_len e)) es.

(* the extents, read in order, are exactly the bytes [pos, pos+size) *)
Fixpoint extents_tile (xs : list (Z * Z)) (pos size : Z) : Prop :=
  match xs with
  | [] => False
  | (loc, len) :: r =>
      match r with
      | [] => loc * sector_size = pos /\ len = size
      | _ :: _ => loc * sector_size = pos /\ 0 < len < size /\ extents_tile r (pos + len) (size - len)
      end
  end.

Lemma file_parts_tile id t size : forall parts i lba,
  0 < size - Z.of_nat i * multi_extent_part_size ->
  Z.of_nat parts = (size - Z.of_nat i * multi_extent_part_size) / multi_extent_part_size
                   + (if 0 <? (size - Z.of_nat i * multi_extent_part_size) mod multi_extent_part_size then 1 else 0) ->
  extents_tile (extents (file_parts id t size lba i parts)) (lba * sector_size) (size - Z.of_nat i * multi_extent_part_size).
Proof.
  induction parts as [|k IH]; intros i lba Hpos Hparts.
  - exfalso. unfold multi_extent_part_size in *.
    destruct (0 <? (size - Z.of_nat i * 4294965248) mod 4294965248) eqn:E; lia.
  - cbn [file_parts]. destruct k as [|k'].
    + cbn [extents map extents_tile de_loc de_len]. split; reflexivity.
    + cbn [extents map de_loc de_len]. fold (extents (file_parts id t size (lba + sectors multi_extent_part_size) (S i) (S k'))).
      remember (file_parts id t size (lba + sectors multi_extent_part_size) (S i) (S k')) as rest eqn:Er.
      assert (Hne : extents rest <> []).
      { rewrite Er. cbn [file_parts]. destruct k'; cbn [extents map]; discriminate. }
      cbn [extents_tile]. destruct (extents rest) as [|x xs] eqn:Ex; [congruence|]. rewrite <- Ex.
      assert (Hbig : multi_extent_part_size < size - Z.of_nat i * multi_extent_part_size).
      { unfold multi_extent_part_size in *. destruct (0 <? (size - Z.of_nat i * 4294965248) mod 4294965248) eqn:E; lia. }
      split; [reflexivity|]. split; [unfold multi_extent_part_size in *; lia|].
      replace (lba * sector_size + multi_extent_part_size) with ((lba + sectors multi_extent_part_size) * sector_size)
        by (unfold sectors, sector_size, multi_extent_part_size; lia).
      replace (size - Z.of_nat i * multi_extent_part_size - multi_extent_part_size)
        with (size - Z.of_nat (S i) * multi_extent_part_size) by lia.
      rewrite Er. apply IH.
      * lia.
      * unfold multi_extent_part_size in *.
        destruct (0 <? (size - Z.of_nat i * 4294965248) mod 4294965248) eqn:E1;
        destruct (0 <? (size - Z.of_nat (S i) * 4294965248) mod 4294965248) eqn:E2; lia.
Qed.

Lemma file_entries_tile j f : 0 <= df_size f ->
  extents_tile (extents (file_entries j f)) (df_lba f * sector_size) (df_size f)
  /\ Forall (fun e => de_id e = make_identifier (df_name f) j /\ not_dir e) (file_entries j f).
Proof.
  intros H. unfold file_entries. destruct (max_part_size <? df_size f) eqn:E.
  - split.
    + pose proof (file_parts_tile (make_identifier (df_name f) j) (df_time f) (df_size f)
                    (Z.to_nat (df_size f / multi_extent_part_size + (if 0 <? df_size f mod multi_extent_part_size then 1 else 0)))
                    0 (df_lba f)) as T.
      cbn [Z.of_nat] in T. rewrite Z.mul_0_l, Z.sub_0_r in T. apply T.
      * unfold max_part_size in E. lia.
      * unfold multi_extent_part_size, max_part_size in *. destruct (0 <? df_size f mod 4294965248); lia.
    + generalize (Z.to_nat (df_size f / multi_extent_part_size + (if 0 <? df_size f mod multi_extent_part_size then 1 else 0))).
      generalize (df_lba f) 0%nat. intros lba i n. revert lba i.
      induction n as [|k IH]; intros lba i; cbn [file_parts]; [constructor|].
      destruct k; constructor; try (split; [reflexivity|vm_compute; reflexivity]); [constructor|apply IH].
  - cbn [extents map extents_tile de_loc de_len]. split; [split; reflexivity|].
    constructor; [split; [reflexivity|vm_compute; reflexivity]|constructor].
Qed.

(* relocation moves file records by the start of the file area and leaves everything else alone *)
Lemma fix_entry_not_dir a c e : not_dir e ->
  fix_entry a c e = {| de_loc := de_loc e + c; de_len := de_len e; de_time := de_time e; de_flags := de_flags e; de_id := de_id e |}.
Proof. unfold not_dir, fix_entry. intros ->. reflexivity. Qed.

Lemma extents_tile_shift xs : forall pos size c,
  extents_tile xs pos size -> extents_tile (map (fun x => (fst x + c, snd x)) xs) (pos + c * sector_size) size.
Proof.
  induction xs as [|[loc len] r IH]; intros pos size c H; [destruct H|].
  cbn [map extents_tile fst snd] in *. destruct r as [|y ys].
  - cbn [map]. destruct H as [H1 H2]. split; lia.
  - destruct H as (H1 & H2 & H3). cbn [map]. cbn [map] in IH.
    split; [lia|]. split; [exact H2|].
    replace (pos + c * sector_size + len) with (pos + len + c * sector_size) by lia. apply IH. exact H3.
Qed.

(* ---------- names ---------- *)
Definition portable (c : Z) : bool :=
  ((65 <=? c) && (c <=? 90)) || ((97 <=? c) && (c <=? 122)) || ((48 <=? c) && (c <=? 57)) || (c =? 46) || (c =? 95) || (c =? 45).

Lemma portable_d1 c : portable c = true -> c < 128 /\ in_set d1_characters c = true /\ in_set d1_characters (upper_byte c) = true.
Proof.
  intros H. assert (Hr : 45 <= c <= 122) by (unfold portable in H; lia).
  assert (Hall : forallb (fun c => negb (portable c) || ((c <? 128) && in_set d1_characters c && in_set d1_characters (upper_byte c)))
                         (map Z.of_nat (seq 45 78)) = true) by (vm_compute; reflexivity).
  rewrite forallb_forall in Hall. specialize (Hall c).
  assert (Hin : In c (map Z.of_nat (seq 45 78))).
  { apply in_map_iff. exists (Z.to_nat c). split; [lia|]. apply in_seq. lia. }
  specialize (Hall Hin). rewrite H in Hall. cbn [negb orb] in Hall.
  apply andb_prop in Hall as [Hall H3]. apply andb_prop in Hall as [H1 H2]. split; [lia|split; assumption].
Qed.

Lemma upper_special_ascii s : Forall (fun c => c < 128) s -> upper_special s = s.
Proof.
  induction 1 as [|b r Hb _ IH]; cbn [upper_special]; [reflexivity|].
  destruct r as [|c r']; [reflexivity|].
  replace (b =? 197) with false by lia. replace (b =? 196) with false by lia. cbn [andb]. f_equal. exact IH.
Qed.

Lemma map_runes_ascii f s : Forall (fun c => 0 <= c < 128) s -> forall fuel, (length s <= fuel)%nat -> map_runes fuel f s = map f s.
Proof.
  induction 1 as [|b r Hb _ IH]; intros fuel Hf; destruct fuel; cbn [map_runes map length] in *; try reflexivity; try lia.
  replace (b <? 128) with true by lia. unfold utf8_len. replace (b <? 128) with true by lia. cbn [skipn].
  f_equal. apply IH. lia.
Qed.

Theorem portable_names_preserved name : forallb portable name = true ->
  make_identifier name false = map upper_byte name /\ make_identifier name true = utf16be name.
Proof.
  intros H. rewrite forallb_forall in H.
  assert (Ha : Forall (fun c => 0 <= c < 128) name).
  { rewrite Forall_forall. intros c Hc. specialize (H c Hc). unfold portable in H. lia. }
  assert (Ha' : Forall (fun c => c < 128) name) by (eapply Forall_impl; [|exact Ha]; intros; cbn in *; lia).
  unfold make_identifier. rewrite upper_special_ascii by exact Ha'.
  rewrite !map_runes_ascii by (auto; lia). split.
  - apply map_ext_in. intros c Hc. destruct (portable_d1 c (H c Hc)) as (_ & _ & ->). reflexivity.
  - f_equal. rewrite <- (map_id name) at 2. apply map_ext_in. intros c Hc.
    destruct (portable_d1 c (H c Hc)) as (_ & -> & _). reflexivity.
Qed.

(* ---------- C07: the file records of every directory, in both hierarchies ---------- *)
Definition reloc_file (files_lba : Z) (e : dentry) : dentry :=
  {| de_loc := de_loc e + files_lba; de_len := de_len e; de_time := de_time e; de_flags := de_flags e; de_id := de_id e |}.

Definition file_recs (files_lba : Z) (j : bool) (f : dfile) : list dentry := map (reloc_file files_lba) (file_entries j f).

Lemma map_fix_files a c j d : map (fix_entry a c) (files_of j d) = concat (map (file_recs c j) (di_files d)).
Proof.
  unfold files_of. induction (di_files d) as [|f r IH]; cbn [map concat]; [reflexivity|].
  rewrite map_app, IH. f_equal. unfold file_recs.
  apply map_ext_in. intros e He. apply fix_entry_not_dir.
  pose proof (file_entries_tile j f) as T. unfold file_entries in *.
  destruct (max_part_size <? df_size f).
  - pose proof (file_parts_not_dir (make_identifier (df_name f) j) (df_time f) (df_size f)
      (Z.to_nat (df_size f / multi_extent_part_size + (if 0 <? df_size f mod multi_extent_part_size then 1 else 0))) (df_lba f) 0) as F.
    rewrite Forall_forall in F. apply F, He.
  - destruct He as [<-|[]]. vm_compute. reflexivity.
Qed.

Lemma chain_sizes fs : forall lba, chain fs lba -> Forall (fun f => 0 <= df_size f) fs.
Proof. induction fs as [|f r IH]; intros lba H; cbn [chain] in H; constructor; [tauto|]. eapply IH. apply H. Qed.

Lemma extents_reloc c es : extents (map (reloc_file c) es) = map (fun x => (fst x + c, snd x)) (extents es).
Proof. unfold extents. rewrite !map_map. reflexivity. Qed.

Theorem file_records root v ps3 gc now rnd bi : build_image root v ps3 gc now rnd = Ok bi ->
  exists ds f_iso f_jol pre files_lba,
    bi_fsbuf bi = pre ++ dirs_bytes f_iso ++ dirs_bytes f_jol /\
    forall i d, nth_error ds i = Some d -> forall j : bool,
      (exists x y c, nth_error (if j then f_jol else f_iso) i = Some (x :: y :: concat (map (file_recs files_lba j) (di_files d)) ++ c)) /\
      forall f, In f (di_files d) ->
        In (di_path d ++ [df_name f], df_size f, df_lba f + files_lba) (bi_files bi) /\
        extents_tile (extents (file_recs files_lba j f)) ((df_lba f + files_lba) * sector_size) (df_size f) /\
        Forall (fun e => de_id e = make_identifier (df_name f) j) (file_recs files_lba j f).
Proof.
  intros H. apply build_image_inv in H as (ds & fsec & b_iso & b_jol & Hscan & Hi & Hj & Hgc & ->).
  pose proof (scan_loop_chain _ _ _ _ _ Hscan) as [Hc _]. apply chain_sizes in Hc. rewrite Forall_forall in Hc.
  unfold assemble. cbn [bi_fsbuf bi_files]. unfold fsbuf_of.
  set (pt := make_path_table ds false ds b_iso 0). set (ptj := make_path_table ds true ds b_jol 0).
  set (iso_lba := sectors system_area_size + volume_descriptors_count + 1 + sectors (pt_total pt) * 2 + sectors (pt_total ptj) * 2).
  set (jol_lba := iso_lba + sectors (built_size b_iso)).
  set (files_lba := jol_lba + sectors (built_size b_jol)).
  exists ds, (map (map (fix_entry iso_lba files_lba)) b_iso), (map (map (fix_entry jol_lba files_lba)) b_jol). eexists. exists files_lba.
  split; [repeat rewrite app_assoc; reflexivity|].
  intros i d Hd j. split.
  - destruct j.
    + destruct (build_dirs_files _ _ _ Hj i d Hd) as (es & Hes & x & y & c & ->).
      rewrite nth_error_map, Hes. cbn [option_map map]. rewrite map_app, map_fix_files. do 3 eexists. reflexivity.
    + destruct (build_dirs_files _ _ _ Hi i d Hd) as (es & Hes & x & y & c & ->).
      rewrite nth_error_map, Hes. cbn [option_map map]. rewrite map_app, map_fix_files. do 3 eexists. reflexivity.
  - intros f Hf. split; [|split].
    + apply in_concat. eexists. split; [apply in_map_iff; exists d; split; [reflexivity|eapply nth_error_In; eauto]|].
      apply in_map_iff. exists f. split; [reflexivity|exact Hf].
    + assert (Hsz : 0 <= df_size f).
      { apply Hc. apply in_concat. exists (di_files d). split; [apply in_map, (nth_error_In _ _ Hd)|exact Hf]. }
      destruct (file_entries_tile j f Hsz) as [T _].
      unfold file_recs. rewrite extents_reloc.
      replace ((df_lba f + files_lba) * sector_size) with (df_lba f * sector_size + files_lba * sector_size) by lia.
      apply extents_tile_shift. exact T.
    + assert (Hsz : 0 <= df_size f).
      { apply Hc. apply in_concat. exists (di_files d). split; [apply in_map, (nth_error_In _ _ Hd)|exact Hf]. }
      destruct (file_entries_tile j f Hsz) as [_ T]. unfold file_recs. rewrite Forall_map.
      eapply Forall_impl; [|exact T]. intros e [He _]. exact He.
Qed.

(* ---------- corollaries used by the property statements ---------- *)
Corollary built_layout_wf root v ps3 gc now rnd bi data : build_image root v ps3 gc now rnd = Ok bi ->
  layout_wf (image_of bi data).
Proof. intros H. apply (build_layout _ _ _ _ _ _ _ data H). Qed.

Corollary built_image_reads root v ps3 gc now rnd bi data : build_image root v ps3 gc now rnd = Ok bi ->
  forall off len, 0 <= off -> 0 <= len -> iso_read (image_of bi data) off len = ref_read (image_of bi data) off len.
Proof. intros H off len Ho Hl. apply iso_read_ok; auto. eapply built_layout_wf; eauto. Qed.

Lemma record_length e : zlen (de_encode e) = de_size e /\ 34 <= de_size e /\ de_size e mod 2 = 0.
Proof. split; [apply de_encode_length|]. rewrite de_size_id. apply id_size_range. Qed.

Theorem path_tables_paired root v ps3 gc now rnd bi : build_image root v ps3 gc now rnd = Ok bi ->
  exists pt ptj pre post,
    bi_fsbuf bi = pre ++ pad_sector (concat (map (pt_encode true) pt)) ++ pad_sector (concat (map (pt_encode false) pt))
                      ++ pad_sector (concat (map (pt_encode true) ptj)) ++ pad_sector (concat (map (pt_encode false) ptj)) ++ post
    /\ zlen pre = 20 * sector_size
    /\ Forall pt_short pt /\ Forall pt_short ptj.
Proof.
  intros H. apply build_image_inv in H as (ds & fsec & b_iso & b_jol & Hscan & Hi & Hj & Hgc & ->).
  pose proof (build_dirs_ok _ _ _ Hi) as [_ Hoki]. pose proof (build_dirs_ok _ _ _ Hj) as [_ Hokj].
  pose proof (dir_ids_short _ _ _ _ _ Hscan Hi) as Hsi. pose proof (dir_ids_short _ _ _ _ _ Hscan Hj) as Hsj.
  pose proof (make_path_table_short ds false ds b_iso 0 Hsi) as Hpi.
  pose proof (make_path_table_short ds true ds b_jol 0 Hsj) as Hpj.
  unfold assemble. cbn [bi_fsbuf]. unfold fsbuf_of.
  do 2 eexists. eexists (sys_area _ _ _ _ ++ vd_sector _ _ _ ++ vd_sector _ _ _ ++ vd_sector _ _ _ ++ zeros sector_size), _.
  split; [repeat rewrite <- app_assoc; reflexivity|]. split; [|split].
  - rewrite !zlen_app, zlen_sys_area by (intros Hp; specialize (Hgc Hp); lia).
    rewrite !zlen_vd_sector.
    + rewrite zlen_zeros. unfold system_area_size, sector_size. lia.
    + vm_compute. discriminate.
    + rewrite zlen_vd_body; [lia|]. apply root_record_short, dir_ok_fix, Hokj.
    + rewrite zlen_vd_body; [lia|]. apply root_record_short, dir_ok_fix, Hoki.
  - unfold reloc_pt. rewrite Forall_map. eapply Forall_impl; [|exact Hpi]. intros e He. exact He.
  - unfold reloc_pt. rewrite Forall_map. eapply Forall_impl; [|exact Hpj]. intros e He. exact He.
Qed.
