(* Proofs/EffectProofs.v — what a successful mkdir / delete / rmdir changes (C05: "exactly their named effect"):
   the named entry appears as an empty directory (or disappears), the parent directory gets the new
   modification time and the one more (one less) name, and every lookup that leaves the path to the entry
   at any element finds the very same node as before; ancestors keep their time and their names; no file
   content, no inode number changes.  Together with the failure half (a failure answer means that nothing
   changed: UploadProofs.structure_ops_frame) this is the whole effect of the three structure requests. *)
From Coq Require Import ZifyBool ZifyNat.
From Verif Require Import Lib.Bytes Model.Path Model.Fs Model.Session Gen.Consts Spec.ProtoSpec
  Proofs.ConfineProofs.

(* ------------------------------------------------------------------ children lists *)

Lemma find_set_child_new cs e c' : find_child cs e = None -> find_child (set_child cs e c') e = Some c'.
Proof.
  induction cs as [|[n x] r IH]; cbn [find_child set_child].
  - intros _. rewrite list_eqb_refl. reflexivity.
  - destruct (list_eqb n e) eqn:E; [discriminate|]. intro H. cbn [find_child]. rewrite E. auto.
Qed.

Lemma set_child_names_same cs e c c' : find_child cs e = Some c -> map fst (set_child cs e c') = map fst cs.
Proof.
  induction cs as [|[n x] r IH]; cbn [find_child set_child map fst]; [discriminate|].
  destruct (list_eqb n e) eqn:E; intro H; cbn [map fst]; [reflexivity|]. rewrite IH by exact H. reflexivity.
Qed.

Lemma set_child_names_new cs e c' : find_child cs e = None -> map fst (set_child cs e c') = map fst cs ++ [e].
Proof.
  induction cs as [|[n x] r IH]; cbn [find_child set_child map fst app]; [reflexivity|].
  destruct (list_eqb n e) eqn:E; [discriminate|]. intro H. cbn [map fst]. rewrite IH by exact H. reflexivity.
Qed.

Lemma find_del_child_other cs b a : list_eqb b a = false -> find_child (del_child cs b) a = find_child cs a.
Proof.
  intros Hab. induction cs as [|[n x] r IH]; cbn [del_child find_child]; [reflexivity|].
  destruct (list_eqb n b) eqn:E; cbn [find_child].
  - apply list_eqb_eq in E. subst n. rewrite Hab. reflexivity.
  - rewrite IH. reflexivity.
Qed.

Lemma find_none_not_in cs e : find_child cs e = None -> ~ In e (map fst cs).
Proof.
  induction cs as [|[n x] r IH]; cbn [find_child map fst In]; [tauto|].
  destruct (list_eqb n e) eqn:E; [discriminate|]. intros H [Hn|Hi]; [|exact (IH H Hi)].
  subst n. rewrite list_eqb_refl in E. discriminate.
Qed.

Lemma not_in_find_none cs e : ~ In e (map fst cs) -> find_child cs e = None.
Proof.
  induction cs as [|[n x] r IH]; cbn [find_child map fst In]; [reflexivity|].
  intros H. destruct (list_eqb n e) eqn:E; [apply list_eqb_eq in E; tauto|]. apply IH. tauto.
Qed.

(* with distinct names (every real directory) the removed name is gone *)
Lemma find_del_child_same cs e : NoDup (map fst cs) -> find_child (del_child cs e) e = None.
Proof.
  induction cs as [|[n x] r IH]; cbn [del_child find_child map fst]; [reflexivity|].
  intros Hnd. inversion Hnd as [|? ? Hni Hnd']; subst.
  destruct (list_eqb n e) eqn:E.
  - apply list_eqb_eq in E. subst n. apply not_in_find_none. exact Hni.
  - cbn [find_child]. rewrite E. apply IH. exact Hnd'.
Qed.

Fixpoint remove_first (e : bytes) (l : list bytes) : list bytes :=
  match l with
  | [] => []
  | n :: r => if list_eqb n e then r else n :: remove_first e r
  end.

Lemma del_child_names cs e : map fst (del_child cs e) = remove_first e (map fst cs).
Proof.
  induction cs as [|[n x] r IH]; cbn [del_child map fst remove_first]; [reflexivity|].
  destruct (list_eqb n e); cbn [map fst]; [reflexivity|]. rewrite IH. reflexivity.
Qed.

(* ------------------------------------------------------------------ paths *)

Lemma split_last_app1 (p par : list bytes) e : split_last p = Some (par, e) -> p = par ++ [e].
Proof.
  unfold split_last. destruct (rev p) as [|x r] eqn:E; [discriminate|]. intro H. inversion H; subst.
  rewrite <- (rev_involutive p), E. reflexivity.
Qed.

(* q leaves the path p at some element: a common part l, then different elements *)
Definition beside (p q : list bytes) : Prop :=
  exists l a b p' q', list_eqb b a = false /\ p = l ++ b :: p' /\ q = l ++ a :: q'.

(* where a path par ++ [e] can be left *)
Lemma leave_cases (par : list bytes) e l b p' : par ++ [e] = l ++ b :: p' ->
  (l = par /\ b = e /\ p' = []) \/ (exists p'', par = l ++ b :: p'' /\ p' = p'' ++ [e]).
Proof.
  destruct p' as [|z p'] using rev_ind.
  - intro H. left. change (l ++ [b]) with (l ++ [b]) in H. apply app_inj_tail in H. destruct H; subst; auto.
  - intro H. right. exists p'. rewrite app_comm_cons, app_assoc in H. apply app_inj_tail in H.
    destruct H as [H1 H2]; subst. auto.
Qed.

(* the nodes on the way down to a replaced subtree keep their time and their names *)
Lemma update_ancestor : forall l x r t f t' m cs, update t (l ++ x :: r) f = Ok t' -> walk t l = Ok (Dir m cs) ->
  exists cs', walk t' l = Ok (Dir m cs') /\ map fst cs' = map fst cs.
Proof.
  induction l as [|y l IH]; intros x r t f t' m cs Hu Hw; cbn [app update walk] in *.
  - inversion Hw; subst t. destruct (name_max <? zlen x); [discriminate|].
    destruct (find_child cs x) as [c|] eqn:Ef; [|discriminate].
    destruct (update c r f) as [c'|]; cbn [bind] in Hu; [|discriminate]. inversion Hu; subst.
    eexists; split; [reflexivity|]. eapply set_child_names_same; eauto.
  - destruct t as [i|mt cs0]; [discriminate|].
    destruct (name_max <? zlen y) eqn:El; [discriminate|].
    destruct (find_child cs0 y) as [c|] eqn:Ef; [|discriminate].
    destruct (update c (l ++ x :: r) f) as [c'|] eqn:Eu; cbn [bind] in Hu; [|discriminate]. inversion Hu; subst.
    rewrite (find_set_child_same _ _ _ _ Ef). eapply IH; eauto.
Qed.

(* ------------------------------------------------------------------ one child of the node at par is set or deleted *)

Section ChildEdit.
  Variables (tm : Z) (par : list bytes) (e : bytes).
  Variable edit : list (bytes * node) -> list (bytes * node).          (* set_child . e new  /  del_child . e *)
  Hypothesis edit_other : forall cs a, list_eqb e a = false -> find_child (edit cs) a = find_child cs a.

  Let f := fun n => match n with Dir _ cs' => Ok (Dir tm (edit cs')) | File _ => Err ENOTDIR end.

  Lemma child_edit t t' m cs : (name_max <? zlen e) = false ->
    walk t par = Ok (Dir m cs) -> update t par f = Ok t' ->
    walk t' par = Ok (Dir tm (edit cs)) /\
    (forall q, beside (par ++ [e]) q -> walk t' q = walk t q) /\
    (forall l x r m0 cs0, par = l ++ x :: r -> walk t l = Ok (Dir m0 cs0) ->
       exists cs', walk t' l = Ok (Dir m0 cs') /\ map fst cs' = map fst cs0).
  Proof.
    intros Hn Hw Hu. destruct (walk_update _ _ _ _ Hu) as (n0 & n1 & H1 & H2 & H3).
    rewrite Hw in H1. inversion H1; subst n0. cbn in H2. inversion H2; subst n1.
    split; [exact H3|]. split.
    - intros q (l & a & b & p' & q' & Hab & Hp & Hq). subst q.
      destruct (leave_cases _ _ _ _ _ Hp) as [(-> & -> & ->)|(p'' & -> & ->)].
      + rewrite !walk_app, H3, Hw. cbn [bind walk].
        destruct (name_max <? zlen a); [reflexivity|]. rewrite edit_other by exact Hab. reflexivity.
      + eapply only_below_lookup; [exact Hab|]. exists f. exact Hu.
    - intros l x r m0 cs0 -> Hl. eapply update_ancestor; eauto.
  Qed.
End ChildEdit.

(* ------------------------------------------------------------------ mkdir *)

Theorem mkdir_effect tm pl w p w' : fs_mkdir tm pl w p = Ok w' ->
  exists par e m cs,
    p = par ++ [e] /\
    (* before: the parent is a directory without that name *)
    walk (tree w) par = Ok (Dir m cs) /\ find_child cs e = None /\ walk (tree w) p = Err ENOENT /\
    (* after: the entry is an empty directory; the parent has the new time and the one more name *)
    walk (tree w') p = Ok (Dir tm []) /\
    walk (tree w') par = Ok (Dir tm (set_child cs e (Dir tm []))) /\
    map fst (set_child cs e (Dir tm [])) = map fst cs ++ [e] /\
    (* everything beside the path is the same node; the ancestors keep time and names *)
    (forall q, beside p q -> walk (tree w') q = walk (tree w) q) /\
    (forall l x r m0 cs0, par = l ++ x :: r -> walk (tree w) l = Ok (Dir m0 cs0) ->
       exists cs', walk (tree w') l = Ok (Dir m0 cs') /\ map fst cs' = map fst cs0) /\
    inodes w' = inodes w /\ next_ino w' = next_ino w.
Proof.
  unfold fs_mkdir, bind. intro H.
  destruct (path_precheck pl p); [|discriminate].
  destruct (split_last p) as [[par e]|] eqn:Es; [|discriminate].
  destruct (walk (tree w) par) as [[ino|m cs]|] eqn:Ew; try discriminate.
  destruct (name_max <? zlen e) eqn:En; [discriminate|].
  destruct (find_child cs e) eqn:Ef; [discriminate|].
  destruct (update (tree w) par _) as [t'|] eqn:Eu; [|discriminate].
  inversion H; subst w'; cbn [tree inodes next_ino].
  pose proof (split_last_app1 _ _ _ Es) as ->.
  destruct (child_edit tm par e (fun cs' => set_child cs' e (Dir tm []))
              (fun cs0 a Hab => find_set_child_other cs0 e (Dir tm []) a Hab) (tree w) t' m cs En Ew Eu) as (A & B & C).
  exists par, e, m, cs. split; [reflexivity|]. split; [exact Ew|]. split; [exact Ef|].
  split. { rewrite walk_app, Ew. cbn [bind walk]. rewrite En, Ef. reflexivity. }
  split. { rewrite walk_app, A. cbn [bind walk]. rewrite En, (find_set_child_new _ _ _ Ef). reflexivity. }
  split; [exact A|]. split; [apply set_child_names_new; exact Ef|].
  split; [exact B|]. split; [exact C|]. split; reflexivity.
Qed.

(* ------------------------------------------------------------------ delete / rmdir *)

Theorem remove_effect tm pl w p w' : fs_remove tm pl w p = Ok w' ->
  exists par e m cs n,
    p = par ++ [e] /\
    (* before: the entry exists and is a file or an empty directory *)
    walk (tree w) par = Ok (Dir m cs) /\ find_child cs e = Some n /\ walk (tree w) p = Ok n /\
    (match n with Dir _ (_ :: _) => False | _ => True end) /\
    (* after: the parent has the new time and that name removed (once); the name is gone when names are distinct *)
    walk (tree w') par = Ok (Dir tm (del_child cs e)) /\
    map fst (del_child cs e) = remove_first e (map fst cs) /\
    (NoDup (map fst cs) -> walk (tree w') p = Err ENOENT) /\
    (forall q, beside p q -> walk (tree w') q = walk (tree w) q) /\
    (forall l x r m0 cs0, par = l ++ x :: r -> walk (tree w) l = Ok (Dir m0 cs0) ->
       exists cs', walk (tree w') l = Ok (Dir m0 cs') /\ map fst cs' = map fst cs0) /\
    inodes w' = inodes w /\ next_ino w' = next_ino w.
Proof.
  unfold fs_remove, bind. intro H.
  destruct (path_precheck pl p); [|discriminate].
  destruct (split_last p) as [[par e]|] eqn:Es; [|discriminate].
  destruct (walk (tree w) par) as [[ino|m cs]|] eqn:Ew; try discriminate.
  destruct (name_max <? zlen e) eqn:En; [discriminate|].
  destruct (find_child cs e) as [n|] eqn:Ef; [|discriminate].
  assert (Hn : match n with Dir _ (_ :: _) => False | _ => True end)
    by (destruct n as [i|mm [|c1 cr]]; [exact I|exact I|discriminate]).
  assert (Hu : exists t', update (tree w) par (fun n0 => match n0 with
             | Dir _ cs' => Ok (Dir tm (del_child cs' e)) | File _ => Err ENOTDIR end) = Ok t'
             /\ w' = {| tree := t'; inodes := inodes w; next_ino := next_ino w |}).
  { destruct n as [i|mm [|c1 cr]]; try discriminate;
      (destruct (update (tree w) par _) as [t'|] eqn:Eu; [|discriminate]; inversion H; subst; eauto). }
  destruct Hu as (t' & Eu & ->). cbn [tree inodes next_ino].
  pose proof (split_last_app1 _ _ _ Es) as ->.
  destruct (child_edit tm par e (fun cs' => del_child cs' e)
              (fun cs0 a Hab => find_del_child_other cs0 e a Hab) (tree w) t' m cs En Ew Eu) as (A & B & C).
  exists par, e, m, cs, n. split; [reflexivity|]. split; [exact Ew|]. split; [exact Ef|].
  split. { rewrite walk_app, Ew. cbn [bind walk]. rewrite En, Ef. reflexivity. }
  split; [exact Hn|]. split; [exact A|]. split; [apply del_child_names|].
  split. { intro Hnd. rewrite walk_app, A. cbn [bind walk]. rewrite En, (find_del_child_same _ _ Hnd). reflexivity. }
  split; [exact B|]. split; [exact C|]. split; reflexivity.
Qed.

(* ------------------------------------------------------------------ the requests *)

(* MKDIR answers truthfully: success exactly when the directory was made - with the effect above -, the failure code
   exactly when it was not, and then nothing changed *)
Theorem mkdir_request c w k p : allow_write c = true ->
  let o := step c w k (RMkdir p) in
  o_conn o = k /\ o_close o = false /\
  match fs_mkdir (tmut c) (plen c) w (abs_path c (rooted_elems p)) with
  | Ok w' => o_out o = enc_result32 true /\ o_world o = w'
  | Err _ => o_out o = enc_result32 false /\ o_world o = w
  end.
Proof.
  intros Ha. cbn [step]. rewrite Ha. cbn [negb].
  destruct (fs_mkdir (tmut c) (plen c) w (abs_path c (rooted_elems p))); cbn; auto.
Qed.

(* DELETE_FILE / RMDIR: the served root itself is refused; otherwise as for MKDIR *)
Theorem remove_request c w k p rq : allow_write c = true -> rq = RDeleteFile p \/ rq = RRmdir p ->
  let o := step c w k rq in
  o_conn o = k /\ o_close o = false /\
  if is_nil (rooted_elems p) then o_out o = enc_result32 false /\ o_world o = w else
  match fs_remove (tmut c) (plen c) w (abs_path c (rooted_elems p)) with
  | Ok w' => o_out o = enc_result32 true /\ o_world o = w'
  | Err _ => o_out o = enc_result32 false /\ o_world o = w
  end.
Proof.
  intros Ha [-> | ->]; cbn [step]; (destruct (is_nil (rooted_elems p)); [cbn; auto|]); rewrite Ha; cbn [negb];
    (destruct (fs_remove (tmut c) (plen c) w (abs_path c (rooted_elems p))); cbn; auto).
Qed.

Lemma result32_differ : enc_result32 true <> enc_result32 false.
Proof. vm_compute. discriminate. Qed.
