(* Proofs/IsoLinksProofs.v — "." and ".." of every directory of a built image point where the directory and its
   parent really are (C08). *)
From Coq Require Import ZifyBool ZifyNat.
From Verif Require Import Lib.Bytes Model.Path Model.Fs Gen.Consts Model.IsoRead Model.IsoBuild Spec.IsoReadSpec
  Proofs.ProtoProofs Proofs.SessionProofs Proofs.IsoReadProofs Proofs.IsoBuildProofs.

Ltac Zify.zify_post_hook ::= Z.div_mod_to_equations.

(* ---------- sizes depend on the identifiers only ---------- *)
Lemma entries_size_ids a : forall b acc, map de_id a = map de_id b -> entries_size a acc = entries_size b acc.
Proof.
  induction a as [|x r IH]; intros [|y s] acc H; cbn [map] in H; try discriminate; [reflexivity|].
  injection H as Hxy Hrs. cbn [entries_size]. rewrite !de_size_id, Hxy. apply IH. exact Hrs.
Qed.

Lemma built_size_shape a : forall b, shape a = shape b -> built_size a = built_size b.
Proof.
  unfold built_size. intros b H. rewrite !built_size_from by reflexivity. f_equal.
  revert b H. induction a as [|x r IH]; intros [|y s] H; cbn [shape map] in H; try discriminate; [reflexivity|].
  injection H as Hxy Hrs. cbn [fold_right]. rewrite (entries_size_ids x y 0 Hxy). f_equal. apply IH. exact Hrs.
Qed.

Lemma shape_firstn i b : shape (firstn i b) = firstn i (shape b).
Proof. unfold shape. symmetry. apply firstn_map. Qed.

(* ---------- identifiers of entries are never the special identifiers 0x00 and 0x01 ---------- *)
Lemma map_runes_printable f : (forall c, 32 < f c) -> forall fuel s, Forall (fun b => 32 < b) (map_runes fuel f s).
Proof.
  intros Hf. induction fuel as [|k IH]; intros s; cbn [map_runes]; [constructor|].
  destruct s as [|b r]; [constructor|]. constructor; [destruct (b <? 128); [apply Hf|lia]|apply IH].
Qed.

Lemma d1_printable c : in_set d1_characters c = true -> 32 < c.
Proof.
  unfold in_set. rewrite existsb_exists. intros (x & Hin & Hx).
  assert (Hall : forallb (fun y => 32 <? y) d1_characters = true) by (vm_compute; reflexivity).
  rewrite forallb_forall in Hall. specialize (Hall x Hin). lia.
Qed.

Lemma make_identifier_not_special name j : make_identifier name j <> [0] /\ make_identifier name j <> [1].
Proof.
  unfold make_identifier.
  set (f := fun c : Z => let c' := (if j then fun c0 : Z => c0 else upper_byte) c in if in_set d1_characters c' then c' else 95).
  assert (Hf : forall c, 32 < f c).
  { intros c. unfold f. cbv zeta. destruct (in_set d1_characters _) eqn:E; [apply d1_printable; exact E|lia]. }
  set (nm := if j then name else upper_special name).
  pose proof (map_runes_printable f Hf (length nm) nm) as Hp.
  destruct j.
  - destruct (map_runes (length nm) f nm) as [|c r]; cbn; [split; discriminate|]. split; discriminate.
  - destruct (map_runes (length nm) f nm) as [|c r]; [split; discriminate|].
    inversion Hp as [|? ? Hc _]; subst. split; intros E; injection E as E1 _; lia.
Qed.

(* ---------- the invariant of build_dirs about "." and ".." ---------- *)
Definition head_ok (ds : list ditem) (b : built) (i : nat) (d : ditem) (es : list dentry) : Prop :=
  exists dot dd rest, es = dot :: dd :: rest /\
    de_loc dot = built_size (firstn i b) / sector_size /\
    de_len dot = sectors (entries_size es 0) * sector_size /\ 0 < de_len dot /\
    de_id dot = [0] /\ de_id dd = [1] /\ (de_flags dot = dir_flag /\ de_flags dd = dir_flag) /\
    match parent_index ds d with
    | None => de_loc dd = de_loc dot /\ de_len dd = de_len dot
    | Some pi => (pi < i)%nat -> exists pdot prest, nth_error b pi = Some (pdot :: prest) /\ de_loc dd = de_loc pdot
    end.

Definition heads_inv (ds : list ditem) (b : built) : Prop :=
  forall i es d, nth_error b i = Some es -> nth_error ds i = Some d -> head_ok ds b i d es.

Lemma link_child_head dot dd rest id loc len : 0 < de_len dot -> de_id dd = [1] -> id <> [1] ->
  link_child (dot :: dd :: rest) id loc len = dot :: dd :: link_child rest id loc len.
Proof.
  intros Hl Hd Hid. cbn [link_child].
  replace (de_len dot =? 0) with false by lia. rewrite Bool.andb_false_r.
  assert (E : list_eqb (de_id dd) id = false).
  { destruct (list_eqb (de_id dd) id) eqn:E; [|reflexivity]. apply list_eqb_eq in E. congruence. }
  rewrite E. reflexivity.
Qed.

Lemma entries_size_first e r : 34 <= entries_size (e :: r) 0.
Proof.
  cbn [entries_size]. pose proof (id_size_range (de_id e)) as [Hlo _]. rewrite <- de_size_id in Hlo.
  replace (sector_size <? 0 mod sector_size + de_size e) with (sector_size <? de_size e) by (f_equal).
  destruct (sector_size <? de_size e).
  - etransitivity; [|apply entries_size_nonneg]; unfold sectors, sector_size; lia.
  - etransitivity; [|apply entries_size_nonneg]; lia.
Qed.

Lemma firstn_app_le {A} (a b : list A) i : (i <= length a)%nat -> firstn i (a ++ b) = firstn i a.
Proof. intros H. rewrite firstn_app. replace (i - length a)%nat with O by lia. cbn [firstn]. apply app_nil_r. Qed.

Lemma make_dir_entries_heads ds j b d b' : heads_inv ds b -> (length b <= length ds)%nat ->
  nth_error ds (length b) = Some d -> make_dir_entries ds j b d = Ok b' -> heads_inv ds b' /\ length b' = S (length b).
Proof.
  intros Hinv Hlen Hd H. unfold make_dir_entries in H. fold (files_of j d) in H.
  set (child_es := map _ (filter _ (tl ds))) in H.
  set (tail := files_of j d ++ child_es) in *.
  destruct (too_long tail); [discriminate|].
  set (dot_loc := built_size b / sector_size) in *.
  set (dotdot := match parent_index ds d with Some pi => match nth_error ds pi with Some _ => _ | None => _ end | None => _ end) in H.
  set (dot0 := {| de_loc := dot_loc; de_len := 0; de_time := di_time d; de_flags := dir_flag; de_id := [0] |}) in H.
  set (total := sectors (entries_size (dot0 :: dotdot :: tail) 0) * sector_size) in H.
  set (dot := {| de_loc := dot_loc; de_len := total; de_time := di_time d; de_flags := dir_flag; de_id := [0] |}) in H.
  assert (Hdd : de_id dotdot = [1]).
  { subst dotdot. destruct (parent_index ds d) as [pi|]; [destruct (nth_error ds pi); [destruct (nth_error b pi) as [[|? ?]|]|]|]; reflexivity. }
  assert (Hfl : de_flags dotdot = dir_flag).
  { subst dotdot. destruct (parent_index ds d) as [pi|]; [destruct (nth_error ds pi); [destruct (nth_error b pi) as [[|? ?]|]|]|]; reflexivity. }
  assert (Htot : 0 < total).
  { subst total. pose proof (entries_size_first dot0 (dotdot :: tail)).
    pose proof (sectors_bounds (entries_size (dot0 :: dotdot :: tail) 0) ltac:(lia)). unfold sector_size in *. lia. }
  (* the directories built before keep their heads, identifiers and therefore sizes *)
  assert (Hold : forall b0, length b0 = length b -> shape b0 = shape b ->
            (forall i es, nth_error b i = Some es -> exists es', nth_error b0 i = Some es' /\
               map de_id es' = map de_id es /\ firstn 2 es' = firstn 2 es) ->
            forall newes, (exists dd', newes = dot :: dd' :: tail /\ de_id dd' = [1] /\ de_flags dd' = dir_flag /\
               match parent_index ds d with
               | None => de_loc dd' = de_loc dot /\ de_len dd' = de_len dot
               | Some pi => (pi < length b)%nat -> exists pdot prest, nth_error b0 pi = Some (pdot :: prest) /\ de_loc dd' = de_loc pdot
               end) ->
            heads_inv ds (b0 ++ [newes])).
  { intros b0 Hl0 Hsh Hkeep newes (dd' & -> & Hdd' & Hfl' & Hpar) i es d0 Hes Hd0.
    destruct (Nat.lt_ge_cases i (length b0)) as [Hlt|Hge].
    - rewrite nth_error_app1 in Hes by exact Hlt.
      destruct (nth_error b i) as [es0|] eqn:E0; [|apply nth_error_None in E0; lia].
      destruct (Hkeep _ _ E0) as (es' & He' & Hids & H2). rewrite Hes in He'. injection He' as <-.
      destruct (Hinv _ _ _ E0 Hd0) as (dt & dd0 & rest & -> & L1 & L2 & L3 & L4 & L5 & LF & L6).
      destruct es as [|x [|y rest']]; cbn [firstn] in H2; try discriminate.
      injection H2 as -> ->. exists dt, dd0, rest'. split; [reflexivity|].
      split; [|split; [|split; [exact L3|split; [exact L4|split; [exact L5|split; [exact LF|]]]]]].
      + rewrite L1. f_equal. apply built_size_shape.
        rewrite firstn_app_le by lia. rewrite !shape_firstn, Hsh. reflexivity.
      + rewrite L2. f_equal. f_equal. symmetry. apply entries_size_ids. exact Hids.
      + destruct (parent_index ds d0) as [pi|]; [|exact L6].
        intros Hpi. destruct (L6 Hpi) as (pdot & prest & Hp & Hpl).
        destruct (Hkeep _ _ Hp) as (pes' & Hp' & _ & Hp2).
        destruct pes' as [|px pr]; cbn [firstn] in Hp2; [discriminate|].
        assert (px = pdot) by (destruct pr; cbn [firstn] in Hp2; congruence). subst px.
        exists pdot, pr. split; [rewrite nth_error_app1 by (rewrite Hl0; lia); exact Hp'|exact Hpl].
    - rewrite nth_error_app2 in Hes by exact Hge.
      destruct (i - length b0)%nat as [|m] eqn:Em; cbn [nth_error] in Hes; [|destruct m; discriminate].
      injection Hes as <-. assert (i = length b) by lia. subst i. rewrite Hd in Hd0. injection Hd0 as <-.
      exists dot, dd', tail. split; [reflexivity|].
      split; [|split; [|split; [exact Htot|split; [reflexivity|split; [exact Hdd'|split; [split; [reflexivity|exact Hfl']|]]]]]].
      + cbn [de_loc dot]. subst dot_loc. f_equal. apply built_size_shape.
        rewrite firstn_app_le by lia. rewrite <- Hl0, firstn_all. symmetry. exact Hsh.
      + cbn [de_len dot]. subst total. f_equal. f_equal. apply entries_size_ids. cbn [map de_id]. rewrite Hdd, Hdd'. reflexivity.
      + destruct (parent_index ds d) as [pi|]; [|exact Hpar].
        intros Hpi. destruct (Hpar Hpi) as (pdot & prest & Hp & Hpl).
        exists pdot, prest. split; [rewrite nth_error_app1 by (rewrite Hl0; lia); exact Hp|exact Hpl]. }
  destruct (parent_index ds d) as [pi|] eqn:Epi; injection H as <-.
  - split; [|rewrite app_length, update_nth_length; cbn [length]; lia].
    apply Hold.
    + apply update_nth_length.
    + apply (update_nth_shape _ (fun es => link_child_ids es _ _ _)).
    + intros i es Hes. rewrite nth_error_update_nth. destruct (i =? pi)%nat eqn:Ei.
      * rewrite Hes. cbn [option_map]. eexists. split; [reflexivity|]. split; [apply link_child_ids|].
        destruct (nth_error ds i) as [d0|] eqn:Ed0; [|apply nth_error_None in Ed0; assert (i < length b)%nat by (apply nth_error_Some; congruence); lia].
        destruct (Hinv _ _ _ Hes Ed0) as (dt & dd0 & rest & -> & _ & _ & L3 & _ & L5 & _ & _).
        rewrite link_child_head; auto. apply make_identifier_not_special.
      * exists es. auto.
    + exists dotdot. split; [reflexivity|]. split; [exact Hdd|]. split; [exact Hfl|].
      intros Hpi. subst dotdot.
      destruct (nth_error b pi) as [pes|] eqn:Ep; [|apply nth_error_None in Ep; lia].
      destruct (nth_error ds pi) as [pd|] eqn:Epd; [|apply nth_error_None in Epd; lia].
      destruct (Hinv _ _ _ Ep Epd) as (pdot & pdd & prest & -> & _ & _ & L3 & _ & L5 & _ & _).
      exists pdot, (pdd :: link_child prest (make_identifier (di_name d) j) dot_loc total). split; [|reflexivity].
      rewrite nth_error_update_nth, Nat.eqb_refl, Ep. cbn [option_map].
      rewrite link_child_head; auto. apply make_identifier_not_special.
  - split; [|rewrite app_length; cbn [length]; lia].
    apply Hold; auto.
    + intros i es Hes. exists es. auto.
    + eexists. split; [reflexivity|]. split; [reflexivity|]. split; [reflexivity|]. split; reflexivity.
Qed.

Lemma build_dirs_heads ds j : forall todo done b b', ds = done ++ todo -> length b = length done ->
  heads_inv ds b -> build_dirs ds j todo b = Ok b' -> heads_inv ds b' /\ length b' = length ds.
Proof.
  induction todo as [|d r IH]; intros done b b' Hds Hl Hinv H; cbn [build_dirs] in H.
  - injection H as <-. split; [exact Hinv|]. rewrite Hds, app_nil_r. exact Hl.
  - unfold bind in H. destruct (make_dir_entries ds j b d) as [b1|] eqn:E1; [|discriminate].
    assert (Hd : nth_error ds (length b) = Some d) by (rewrite Hds, nth_error_app2 by lia; rewrite Hl, Nat.sub_diag; reflexivity).
    assert (Hle : (length b <= length ds)%nat) by (rewrite Hds, app_length; lia).
    destruct (make_dir_entries_heads _ _ _ _ _ Hinv Hle Hd E1) as [Hinv1 Hl1].
    apply (IH (done ++ [d]) b1 b'); auto.
    + rewrite <- app_assoc. exact Hds.
    + rewrite app_length. cbn [length]. lia.
Qed.

Lemma firstn_In_local {A} (l : list A) : forall i x, In x (firstn i l) -> In x l.
Proof.
  induction l as [|y r IH]; intros [|i] x H; cbn [firstn] in H; try contradiction.
  destruct H as [H|H]; [left; exact H|right; eapply IH; eauto].
Qed.

Lemma heads_inv_nil ds : heads_inv ds [].
Proof. intros i es d H. destruct i; discriminate. Qed.

(* after relocation: "." of the i-th directory of a hierarchy gives the byte position and the length of that
   directory's extent; ".." gives the position of the parent's (for the root: its own) *)
Definition hier_links (ds : list ditem) (f : built) (base : Z) : Prop :=
  forall i es d, nth_error f i = Some es -> nth_error ds i = Some d ->
    exists dot dd rest, es = dot :: dd :: rest /\
      de_loc dot * sector_size = base * sector_size + zlen (dirs_bytes (firstn i f)) /\
      de_len dot = zlen (pad_sector (entries_encode es 0)) /\
      match parent_index ds d with
      | None => de_loc dd = de_loc dot /\ de_len dd = de_len dot
      | Some pi => (pi < i)%nat -> exists pdot prest, nth_error f pi = Some (pdot :: prest) /\ de_loc dd = de_loc pdot
      end.

Lemma fix_dir a c e : de_flags e = dir_flag -> de_loc (fix_entry a c e) = de_loc e + a /\ de_len (fix_entry a c e) = de_len e.
Proof. intros H. unfold fix_entry. rewrite H. cbn. split; reflexivity. Qed.

Lemma hier_links_of ds b a c : heads_inv ds b -> Forall dir_ok b -> hier_links ds (map (map (fix_entry a c)) b) a.
Proof.
  intros Hinv Hok i es d Hes Hd.
  rewrite nth_error_map in Hes. destruct (nth_error b i) as [es0|] eqn:E0; [|discriminate]. injection Hes as <-.
  destruct (Hinv _ _ _ E0 Hd) as (dot & dd & rest & -> & L1 & L2 & L3 & L4 & L5 & [F1 F2] & L6).
  exists (fix_entry a c dot), (fix_entry a c dd), (map (fix_entry a c) rest). split; [reflexivity|].
  destruct (fix_dir a c dot F1) as [D1 D2]. destruct (fix_dir a c dd F2) as [E1 E2].
  assert (Hoki : Forall dir_ok (firstn i b)).
  { rewrite Forall_forall in *. intros x Hx. apply Hok. eapply firstn_In_local. exact Hx. }
  assert (Hthis : dir_ok (dot :: dd :: rest)) by (rewrite Forall_forall in Hok; apply Hok; eapply nth_error_In; eauto).
  split; [|split].
  - rewrite D1, L1. rewrite firstn_map. unfold dirs_bytes. rewrite (dirs_area_length a c (firstn i b) Hoki).
    pose proof (built_size_aligned (firstn i b)) as [Hal Hnn]. unfold sector_size in *. lia.
  - rewrite D2, L2. symmetry. apply (dir_extent_length a c (dot :: dd :: rest)). apply Hthis.
  - destruct (parent_index ds d) as [pi|].
    + intros Hpi. destruct (L6 Hpi) as (pdot & prest & Hp & Hpl).
      exists (fix_entry a c pdot), (map (fix_entry a c) prest). split; [rewrite nth_error_map, Hp; reflexivity|].
      destruct (nth_error ds pi) as [pd|] eqn:Epd.
      * destruct (Hinv _ _ _ Hp Epd) as (pdot' & pdd & pr & Hpe & _ & _ & _ & _ & _ & [PF _] & _).
        injection Hpe as <- _. destruct (fix_dir a c pdot PF) as [P1 _]. rewrite E1, P1, Hpl. reflexivity.
      * apply nth_error_None in Epd. assert (i < length ds)%nat by (apply nth_error_Some; congruence). lia.
    + destruct L6 as [M1 M2]. rewrite E1, E2, D1, D2, M1, M2. split; reflexivity.
Qed.

Theorem dot_links root v ps3 gc now rnd bi : build_image root v ps3 gc now rnd = Ok bi ->
  exists ds f_iso f_jol pre iso_lba jol_lba,
    (exists fsec, scan_loop (snode_count root) [([], root)] 0 = (ds, fsec)) /\
    bi_fsbuf bi = pre ++ dirs_bytes f_iso ++ dirs_bytes f_jol /\
    zlen pre = iso_lba * sector_size /\ zlen (pre ++ dirs_bytes f_iso) = jol_lba * sector_size /\
    length f_iso = length ds /\ length f_jol = length ds /\
    hier_links ds f_iso iso_lba /\ hier_links ds f_jol jol_lba.
Proof.
  intros H. apply build_image_inv in H as (ds & fsec & b_iso & b_jol & Hscan & Hi & Hj & Hgc & ->).
  pose proof (build_dirs_ok _ _ _ Hi) as [Hli Hoki]. pose proof (build_dirs_ok _ _ _ Hj) as [Hlj Hokj].
  pose proof (dir_ids_short _ _ _ _ _ Hscan Hi) as Hsi. pose proof (dir_ids_short _ _ _ _ _ Hscan Hj) as Hsj.
  pose proof (make_path_table_short ds false ds b_iso 0 Hsi) as Hpi.
  pose proof (make_path_table_short ds true ds b_jol 0 Hsj) as Hpj.
  destruct (build_dirs_heads ds false ds [] [] b_iso eq_refl eq_refl (heads_inv_nil ds) Hi) as [Hhi _].
  destruct (build_dirs_heads ds true ds [] [] b_jol eq_refl eq_refl (heads_inv_nil ds) Hj) as [Hhj _].
  pose proof (built_size_aligned b_iso) as [Ai Ni]. pose proof (built_size_aligned b_jol) as [Aj Nj].
  unfold assemble. cbn [bi_fsbuf].
  set (pt := make_path_table ds false ds b_iso 0) in *. set (ptj := make_path_table ds true ds b_jol 0) in *.
  set (iso_lba := sectors system_area_size + volume_descriptors_count + 1 + sectors (pt_total pt) * 2 + sectors (pt_total ptj) * 2).
  set (jol_lba := iso_lba + sectors (built_size b_iso)).
  set (files_lba := jol_lba + sectors (built_size b_jol)).
  match goal with |- context [fsbuf_of ?a ?b ?c ?d ?e ?f ?g ?h ?i ?k ?l ?m ?n ?o] =>
    pose proof (fsbuf_of_length a b c d e f pt ptj b_iso b_jol iso_lba jol_lba files_lba l m n o
                  ltac:(intros Hp; specialize (Hgc Hp); lia) Hpi Hpj Hoki Hokj) as Hlen end.
  fold iso_lba in Hlen.
  unfold fsbuf_of in *. 
  exists ds, (map (map (fix_entry iso_lba files_lba)) b_iso), (map (map (fix_entry jol_lba files_lba)) b_jol).
  eexists. exists iso_lba, jol_lba.
  split; [exists fsec; exact Hscan|].
  split; [repeat rewrite app_assoc; reflexivity|].
  repeat rewrite app_assoc in Hlen. rewrite zlen_app in Hlen. rewrite (zlen_app _ (dirs_bytes (map (map (fix_entry iso_lba files_lba)) b_iso))) in Hlen.
  unfold dirs_bytes in Hlen at 1 2. rewrite !dirs_area_length in Hlen by assumption.
  assert (S1 : sectors (built_size b_iso) * sector_size = built_size b_iso) by (unfold sectors, sector_size in *; lia).
  split; [lia|]. split.
  - rewrite zlen_app. unfold dirs_bytes. rewrite dirs_area_length by assumption. subst jol_lba. lia.
  - split; [rewrite !map_length; exact Hli|]. split; [rewrite !map_length; exact Hlj|].
    split; apply hier_links_of; assumption.
Qed.

(* ---------- the scan lists every directory after its parent ---------- *)
Lemma scan_loop_order : forall fuel queue lba i d,
  nth_error (fst (scan_loop fuel queue lba)) i = Some d ->
  (exists q, In q queue /\ fst q = di_path d) \/
  (di_path d <> [] /\ exists i' p, (i' < i)%nat /\ nth_error (fst (scan_loop fuel queue lba)) i' = Some p /\
                                   di_path p = removelast (di_path d)).
Proof.
  induction fuel as [|k IH]; intros queue lba i d Hd; cbn [scan_loop] in *; [destruct i; discriminate|].
  destruct (rev queue) as [|[path node] rest_rev] eqn:Eq; [destruct i; discriminate|].
  assert (Hin : forall q, In q (rev rest_rev) -> In q queue).
  { intros q Hq. apply in_rev in Hq. apply in_rev. rewrite Eq. right. exact Hq. }
  assert (Hhead : In (path, node) queue) by (apply in_rev; rewrite Eq; left; reflexivity).
  destruct node as [n sz t|n t items]; [destruct i; discriminate|].
  destruct (scan_items items path lba) as [[fs subdirs] lba'] eqn:Es.
  destruct (scan_loop k (rev rest_rev ++ subdirs) lba') as [ds lba''] eqn:El.
  cbn [fst] in *.
  destruct i as [|i]; cbn [nth_error] in Hd.
  - injection Hd as <-. left. exists (path, SDir n t items). split; [exact Hhead|reflexivity].
  - specialize (IH (rev rest_rev ++ subdirs) lba' i d). rewrite El in IH. cbn [fst] in IH.
    destruct (IH Hd) as [(q & Hq & Hp)|(Hne & i' & p & Hlt & Hp & Hpp)].
    + apply in_app_or in Hq as [Hq|Hq].
      * left. exists q. split; [apply Hin; exact Hq|exact Hp].
      * right. destruct (scan_items_subdirs _ _ _ _ _ _ Es q Hq) as [n' Hn'].
        rewrite <- Hp, Hn'. split; [destruct path; discriminate|].
        exists O. eexists. split; [lia|]. split; [reflexivity|]. cbn [di_path]. rewrite removelast_last. reflexivity.
    + right. split; [exact Hne|]. exists (S i'), p. split; [lia|]. split; [exact Hp|exact Hpp].
Qed.

Lemma index_of_path_first ds p : forall i0 i' x, nth_error ds i' = Some x -> path_eqb (di_path x) p = true ->
  exists r, index_of_path ds p i0 = Some r /\ (r <= i0 + i')%nat.
Proof.
  induction ds as [|y s IH]; intros i0 i' x Hn He; [destruct i'; discriminate|].
  cbn [index_of_path]. destruct (path_eqb (di_path y) p) eqn:E; [exists i0; split; [reflexivity|lia]|].
  destruct i' as [|i']; cbn [nth_error] in Hn; [injection Hn as ->; congruence|].
  destruct (IH (S i0) i' x Hn He) as (r & Hr & Hle). exists r. split; [exact Hr|lia].
Qed.

Theorem parent_before root ds n : scan_loop (snode_count root) [([], root)] 0 = (ds, n) ->
  forall i d pi, nth_error ds i = Some d -> parent_index ds d = Some pi -> (pi < i)%nat.
Proof.
  intros Hscan i d pi Hd Hp.
  pose proof (scan_loop_order (snode_count root) [([], root)] 0 i d) as Ho. rewrite Hscan in Ho. cbn [fst] in Ho.
  unfold parent_index in Hp. destruct (di_path d) as [|x r] eqn:Epath; [discriminate|].
  destruct (Ho Hd) as [(q & [<-|[]] & Hq)|(_ & i' & p & Hlt & Hp' & Hpp)]; [cbn [fst] in Hq; congruence|].
  destruct (index_of_path_first ds (removelast (x :: r)) 0 i' p Hp') as (r0 & Hr0 & Hle).
  - rewrite Hpp. apply path_eqb_refl.
  - rewrite Hr0 in Hp. injection Hp as <-. lia.
Qed.

(* the same with the ordering discharged: ".." of every directory other than the root is the "." location of the
   directory the scan found it in (listed earlier), "." and ".." of the root are the root *)
Definition hier_links_strong (ds : list ditem) (f : built) (base : Z) : Prop :=
  forall i es d, nth_error f i = Some es -> nth_error ds i = Some d ->
    exists dot dd rest, es = dot :: dd :: rest /\
      de_loc dot * sector_size = base * sector_size + zlen (dirs_bytes (firstn i f)) /\
      de_len dot = zlen (pad_sector (entries_encode es 0)) /\
      match parent_index ds d with
      | None => de_loc dd = de_loc dot /\ de_len dd = de_len dot
      | Some pi => (pi < i)%nat /\ exists pdot prest, nth_error f pi = Some (pdot :: prest) /\ de_loc dd = de_loc pdot
      end.

Theorem built_links root v ps3 gc now rnd bi : build_image root v ps3 gc now rnd = Ok bi ->
  exists ds f_iso f_jol pre iso_lba jol_lba,
    bi_fsbuf bi = pre ++ dirs_bytes f_iso ++ dirs_bytes f_jol /\
    zlen pre = iso_lba * sector_size /\ zlen (pre ++ dirs_bytes f_iso) = jol_lba * sector_size /\
    length f_iso = length ds /\ length f_jol = length ds /\
    hier_links_strong ds f_iso iso_lba /\ hier_links_strong ds f_jol jol_lba.
Proof.
  intros H.
  destruct (dot_links _ _ _ _ _ _ _ H) as (ds & f_iso & f_jol & pre & il & jl & (fsec & Hscan) & Hb & Hp1 & Hp2 & L1 & L2 & HL1 & HL2).
  exists ds, f_iso, f_jol, pre, il, jl. repeat split; auto.
  - intros i es d Hes Hd. destruct (HL1 i es d Hes Hd) as (dot & dd & rest & E & A1 & A2 & A3).
    exists dot, dd, rest. repeat split; auto.
    destruct (parent_index ds d) as [pi|] eqn:Ep; [|exact A3].
    pose proof (parent_before _ _ _ Hscan i d pi Hd Ep) as Hlt. split; [exact Hlt|apply A3; exact Hlt].
  - intros i es d Hes Hd. destruct (HL2 i es d Hes Hd) as (dot & dd & rest & E & A1 & A2 & A3).
    exists dot, dd, rest. repeat split; auto.
    destruct (parent_index ds d) as [pi|] eqn:Ep; [|exact A3].
    pose proof (parent_before _ _ _ Hscan i d pi Hd Ep) as Hlt. split; [exact Hlt|apply A3; exact Hlt].
Qed.
