(* Proofs/IsoDecodeProofs.v — reading a directory extent written by the builder returns its records (C07/C08). *)
From Coq Require Import ZifyBool ZifyNat.
From Verif Require Import Lib.Bytes Model.Path Model.Fs Gen.Consts Model.IsoRead Model.IsoBuild Model.IsoDecode Spec.IsoReadSpec
  Proofs.ProtoProofs Proofs.SessionProofs Proofs.IsoReadProofs Proofs.IsoBuildProofs.

Ltac Zify.zify_post_hook ::= Z.div_mod_to_equations.

(* a field cut out of a concatenation *)
Lemma slice_mid {A} (a x r : list A) off n : zlen a = off -> zlen x = n -> slice (a ++ x ++ r) off n = x.
Proof.
  intros Ha Hx. unfold slice. pose proof (zlen_nonneg a). pose proof (zlen_nonneg x). pose proof (zlen_nonneg r).
  rewrite !zlen_app.
  destruct ((off <? 0) || (zlen a + (zlen x + zlen r) <=? off)) eqn:E.
  - assert (zlen x = 0) by lia. destruct x; [reflexivity|rewrite zlen_cons in *; pose proof (zlen_nonneg x); lia].
  - rewrite skipn_app_exact by (unfold zlen in *; lia).
    apply firstn_app_exact. unfold zlen in *. lia.
Qed.

Lemma nth_mid (a r : bytes) (x : Z) k : length a = k -> nth k (a ++ x :: r) 0 = x.
Proof. intros <-. rewrite app_nth2 by lia. rewrite Nat.sub_diag. reflexivity. Qed.

Lemma le_val_enc n v : le_val (le_enc n v) = v mod 256 ^ Z.of_nat n.
Proof. unfold le_val, le_enc. rewrite rev_involutive. apply val_be_enc. Qed.

(* what the reader sees of a record the builder wrote *)
Definition to_rrec (e : dentry) : rrec :=
  {| rr_loc := de_loc e mod 2 ^ 32; rr_len := de_len e mod 2 ^ 32; rr_time := fitn 7 (de_time e);
     rr_flags := de_flags e; rr_id := de_id e |}.

Lemma parse_record_encode e rest : fits_byte e ->
  parse_record (de_encode e ++ rest) = Some (to_rrec e, de_size e).
Proof.
  intros Hf. destruct (de_encode_head e Hf) as (r0 & Hr0 & Hrange).
  pose proof (de_encode_length e) as HL.
  assert (Hid : 0 <= zlen (de_id e) < 256) by (pose proof (zlen_nonneg (de_id e)); unfold fits_byte, de_size in *; lia).
  unfold parse_record. rewrite Hr0 at 1. cbn [app].
  replace ((de_size e <? 34) || (zlen (de_encode e ++ rest) <? de_size e)) with false
    by (rewrite zlen_app, HL; pose proof (zlen_nonneg rest); lia).
  (* the fields, by their offsets *)
  set (L := de_encode e ++ rest).
  assert (F : L = [de_size e mod 256; 0] ++ le_enc 4 (de_loc e mod 2 ^ 32) ++ (be_enc 4 (de_loc e mod 2 ^ 32)
                  ++ le_enc 4 (de_len e mod 2 ^ 32) ++ (be_enc 4 (de_len e mod 2 ^ 32) ++ fitn 7 (de_time e)
                  ++ ([de_flags e; 0; 0] ++ lsbmsb16 1 ++ [zlen (de_id e) mod 256] ++ de_id e
                  ++ ((if (zlen (de_id e) + 1) mod 2 =? 1 then [0] else []) ++ rest))))).
  { subst L. unfold de_encode, lsbmsb32. repeat rewrite <- app_assoc. reflexivity. }
  assert (Hidl : nth 32 L 0 = zlen (de_id e)).
  { rewrite F.
    replace ([de_size e mod 256; 0] ++ le_enc 4 (de_loc e mod 2 ^ 32) ++ (be_enc 4 (de_loc e mod 2 ^ 32)
                  ++ le_enc 4 (de_len e mod 2 ^ 32) ++ (be_enc 4 (de_len e mod 2 ^ 32) ++ fitn 7 (de_time e)
                  ++ ([de_flags e; 0; 0] ++ lsbmsb16 1 ++ [zlen (de_id e) mod 256] ++ de_id e
                  ++ ((if (zlen (de_id e) + 1) mod 2 =? 1 then [0] else []) ++ rest)))))
      with (([de_size e mod 256; 0] ++ le_enc 4 (de_loc e mod 2 ^ 32) ++ be_enc 4 (de_loc e mod 2 ^ 32)
                  ++ le_enc 4 (de_len e mod 2 ^ 32) ++ be_enc 4 (de_len e mod 2 ^ 32) ++ fitn 7 (de_time e)
                  ++ [de_flags e; 0; 0] ++ lsbmsb16 1) ++ (zlen (de_id e) mod 256) :: (de_id e
                  ++ ((if (zlen (de_id e) + 1) mod 2 =? 1 then [0] else []) ++ rest)))
      by (repeat rewrite <- app_assoc; reflexivity).
    rewrite nth_mid.
    - apply Z.mod_small. lia.
    - rewrite !app_length, !fitn_length. unfold le_enc, lsbmsb16. rewrite !app_length, !rev_length, !be_enc_length. reflexivity. }
  rewrite Hidl.
  replace (de_size e <? 33 + zlen (de_id e)) with false by (unfold de_size; lia).
  f_equal. f_equal. unfold to_rrec. f_equal.
  - rewrite F. rewrite (slice_mid [de_size e mod 256; 0] (le_enc 4 (de_loc e mod 2 ^ 32))) by (try reflexivity; apply zlen_le).
    rewrite le_val_enc. apply Z.mod_small. change (256 ^ Z.of_nat 4) with (2 ^ 32). apply Z.mod_pos_bound. lia.
  - rewrite F.
    replace ([de_size e mod 256; 0] ++ le_enc 4 (de_loc e mod 2 ^ 32) ++ (be_enc 4 (de_loc e mod 2 ^ 32)
                  ++ le_enc 4 (de_len e mod 2 ^ 32) ++ (be_enc 4 (de_len e mod 2 ^ 32) ++ fitn 7 (de_time e)
                  ++ ([de_flags e; 0; 0] ++ lsbmsb16 1 ++ [zlen (de_id e) mod 256] ++ de_id e
                  ++ ((if (zlen (de_id e) + 1) mod 2 =? 1 then [0] else []) ++ rest)))))
      with (([de_size e mod 256; 0] ++ le_enc 4 (de_loc e mod 2 ^ 32) ++ be_enc 4 (de_loc e mod 2 ^ 32))
             ++ le_enc 4 (de_len e mod 2 ^ 32) ++ (be_enc 4 (de_len e mod 2 ^ 32) ++ fitn 7 (de_time e)
                  ++ ([de_flags e; 0; 0] ++ lsbmsb16 1 ++ [zlen (de_id e) mod 256] ++ de_id e
                  ++ ((if (zlen (de_id e) + 1) mod 2 =? 1 then [0] else []) ++ rest))))
      by (repeat rewrite <- app_assoc; reflexivity).
    rewrite slice_mid.
    + rewrite le_val_enc. apply Z.mod_small. change (256 ^ Z.of_nat 4) with (2 ^ 32). apply Z.mod_pos_bound. lia.
    + rewrite !zlen_app, zlen_le, zlen_be. reflexivity.
    + apply zlen_le.
  - rewrite F.
    replace ([de_size e mod 256; 0] ++ le_enc 4 (de_loc e mod 2 ^ 32) ++ (be_enc 4 (de_loc e mod 2 ^ 32)
                  ++ le_enc 4 (de_len e mod 2 ^ 32) ++ (be_enc 4 (de_len e mod 2 ^ 32) ++ fitn 7 (de_time e)
                  ++ ([de_flags e; 0; 0] ++ lsbmsb16 1 ++ [zlen (de_id e) mod 256] ++ de_id e
                  ++ ((if (zlen (de_id e) + 1) mod 2 =? 1 then [0] else []) ++ rest)))))
      with (([de_size e mod 256; 0] ++ le_enc 4 (de_loc e mod 2 ^ 32) ++ be_enc 4 (de_loc e mod 2 ^ 32)
             ++ le_enc 4 (de_len e mod 2 ^ 32) ++ be_enc 4 (de_len e mod 2 ^ 32)) ++ fitn 7 (de_time e)
                  ++ ([de_flags e; 0; 0] ++ lsbmsb16 1 ++ [zlen (de_id e) mod 256] ++ de_id e
                  ++ ((if (zlen (de_id e) + 1) mod 2 =? 1 then [0] else []) ++ rest)))
      by (repeat rewrite <- app_assoc; reflexivity).
    apply slice_mid; [rewrite !zlen_app, !zlen_le, !zlen_be; reflexivity|apply zlen_fitn].
  - rewrite F.
    replace ([de_size e mod 256; 0] ++ le_enc 4 (de_loc e mod 2 ^ 32) ++ (be_enc 4 (de_loc e mod 2 ^ 32)
                  ++ le_enc 4 (de_len e mod 2 ^ 32) ++ (be_enc 4 (de_len e mod 2 ^ 32) ++ fitn 7 (de_time e)
                  ++ ([de_flags e; 0; 0] ++ lsbmsb16 1 ++ [zlen (de_id e) mod 256] ++ de_id e
                  ++ ((if (zlen (de_id e) + 1) mod 2 =? 1 then [0] else []) ++ rest)))))
      with (([de_size e mod 256; 0] ++ le_enc 4 (de_loc e mod 2 ^ 32) ++ be_enc 4 (de_loc e mod 2 ^ 32)
             ++ le_enc 4 (de_len e mod 2 ^ 32) ++ be_enc 4 (de_len e mod 2 ^ 32) ++ fitn 7 (de_time e))
             ++ de_flags e :: ([0; 0] ++ lsbmsb16 1 ++ [zlen (de_id e) mod 256] ++ de_id e
                  ++ ((if (zlen (de_id e) + 1) mod 2 =? 1 then [0] else []) ++ rest)))
      by (repeat rewrite <- app_assoc; reflexivity).
    apply nth_mid. rewrite !app_length, fitn_length. unfold le_enc. rewrite !rev_length, !be_enc_length. reflexivity.
  - rewrite F.
    replace ([de_size e mod 256; 0] ++ le_enc 4 (de_loc e mod 2 ^ 32) ++ (be_enc 4 (de_loc e mod 2 ^ 32)
                  ++ le_enc 4 (de_len e mod 2 ^ 32) ++ (be_enc 4 (de_len e mod 2 ^ 32) ++ fitn 7 (de_time e)
                  ++ ([de_flags e; 0; 0] ++ lsbmsb16 1 ++ [zlen (de_id e) mod 256] ++ de_id e
                  ++ ((if (zlen (de_id e) + 1) mod 2 =? 1 then [0] else []) ++ rest)))))
      with (([de_size e mod 256; 0] ++ le_enc 4 (de_loc e mod 2 ^ 32) ++ be_enc 4 (de_loc e mod 2 ^ 32)
             ++ le_enc 4 (de_len e mod 2 ^ 32) ++ be_enc 4 (de_len e mod 2 ^ 32) ++ fitn 7 (de_time e)
             ++ [de_flags e; 0; 0] ++ lsbmsb16 1 ++ [zlen (de_id e) mod 256]) ++ de_id e
                  ++ ((if (zlen (de_id e) + 1) mod 2 =? 1 then [0] else []) ++ rest))
      by (repeat rewrite <- app_assoc; reflexivity).
    apply slice_mid; [|reflexivity].
    rewrite !zlen_app, !zlen_le, !zlen_be, zlen_fitn, zlen_lsbmsb16. reflexivity.
Qed.

Lemma skipn_zeros_app k (r : bytes) : 0 <= k -> skipn (Z.to_nat k) (zeros k ++ r) = r.
Proof. intros H. apply skipn_app_exact. unfold zeros, repeatz. rewrite repeat_length. reflexivity. Qed.

(* the reader skips the unused tail of a sector in one step *)
Lemma decode_skip f k rest pos : 0 < k -> sector_size - pos mod sector_size = k ->
  decode_dir (S f) (zeros k ++ rest) pos = decode_dir f rest (pos + k).
Proof.
  intros Hk Hs. cbn [decode_dir].
  assert (Hz : zeros k = 0 :: zeros (k - 1)).
  { unfold zeros, repeatz. replace (Z.to_nat k) with (S (Z.to_nat (k - 1))) by lia. reflexivity. }
  rewrite Hz at 1. cbn [app Z.eqb].
  rewrite Hs, skipn_zeros_app by lia. reflexivity.
Qed.

(* walking what the builder wrote for a directory - records, the unused tail of sectors in between, the
   padding of the last sector - returns exactly the records, in order *)
Lemma decode_entries es : forall pos fuel tailpad,
  Forall fits_byte es -> 0 <= pos ->
  (2 * length es + 2 <= fuel)%nat ->
  0 <= tailpad < sector_size -> (entries_size es pos + tailpad) mod sector_size = 0 ->
  decode_dir fuel (entries_encode es pos ++ zeros tailpad) pos = map to_rrec es.
Proof.
  induction es as [|e r IH]; intros pos fuel tailpad Hf Hpos Hfuel Htp Hal.
  - cbn [entries_encode entries_size app map] in *.
    destruct fuel as [|k]; [cbn in Hfuel; lia|].
    destruct (Z.eq_dec tailpad 0) as [->|Hne]; [reflexivity|].
    rewrite <- (app_nil_r (zeros tailpad)), decode_skip by (unfold sector_size in *; lia).
    destruct k; reflexivity.
  - inversion Hf as [|? ? He Hr]; subst.
    destruct (de_encode_head e He) as (r0 & Hr0 & Hrange).
    pose proof (sectors_bounds pos Hpos) as Hsb.
    cbn [entries_encode entries_size map] in *.
    set (padn := if sector_size <? pos mod sector_size + de_size e then sectors pos * sector_size - pos else 0) in *.
    set (acc' := if sector_size <? pos mod sector_size + de_size e then sectors pos * sector_size else pos) in *.
    assert (Hacc : acc' = pos + padn /\ 0 <= padn) by (subst acc' padn; destruct (sector_size <? pos mod sector_size + de_size e); lia).
    destruct Hacc as [Hacc Hp0].
    (* an optional skip to the next sector, then the record *)
    assert (Hstep : forall k, (2 * length r + 2 <= k)%nat ->
              decode_dir (S k) (de_encode e ++ entries_encode r (pos + padn + de_size e) ++ zeros tailpad) (pos + padn)
              = to_rrec e :: map to_rrec r).
    { intros k Hk. cbn [decode_dir]. rewrite Hr0 at 1. cbn [app].
      replace (de_size e =? 0) with false by lia.
      rewrite parse_record_encode by exact He.
      rewrite skipn_app_exact by (pose proof (de_encode_length e); unfold zlen in *; lia).
      f_equal. apply IH; auto; try lia.
      replace (pos + padn + de_size e) with (acc' + de_size e) by lia. exact Hal. }
    destruct (sector_size <? pos mod sector_size + de_size e) eqn:E.
    + (* the record does not fit: zeros up to the sector boundary first *)
      assert (Hpn : 0 < padn) by (subst padn; unfold sectors, sector_size in *; lia).
      destruct fuel as [|k]; [cbn in Hfuel; lia|].
      rewrite <- !app_assoc, decode_skip by (auto; subst padn; unfold sectors, sector_size in *; lia).
      destruct k as [|k]; [cbn [length] in Hfuel; lia|]. apply Hstep. cbn [length] in Hfuel. lia.
    + assert (padn = 0) by (subst padn; reflexivity).
      replace (zeros padn) with (@nil Z) by (rewrite H; reflexivity). cbn [app].
      destruct fuel as [|k]; [cbn in Hfuel; lia|].
      replace pos with (pos + padn) at 2 by lia. rewrite <- app_assoc.
      apply Hstep. cbn [length] in Hfuel. lia.
Qed.

Theorem directory_decodes es : Forall fits_byte es ->
  decode_dir (2 * length es + 2) (pad_sector (entries_encode es 0)) 0 = map to_rrec es.
Proof.
  intros Hf. unfold pad_sector.
  pose proof (entries_encode_length es 0 ltac:(lia) (fits_sector _ Hf)) as HL.
  pose proof (zlen_nonneg (entries_encode es 0)) as Hn.
  pose proof (sectors_bounds (zlen (entries_encode es 0)) Hn) as Hs.
  apply decode_entries; auto; try lia.
  rewrite <- HL. replace (0 + zlen (entries_encode es 0) + (sectors (zlen (entries_encode es 0)) * sector_size - zlen (entries_encode es 0)))
    with (sectors (zlen (entries_encode es 0)) * sector_size) by lia.
  unfold sector_size. lia.
Qed.

(* every directory extent of a built image, read record by record, gives back the builder's records *)
Theorem built_directories_decode root v ps3 gc now rnd bi : build_image root v ps3 gc now rnd = Ok bi ->
  exists pre f_iso f_jol,
    bi_fsbuf bi = pre ++ dirs_bytes f_iso ++ dirs_bytes f_jol /\
    Forall (fun es => decode_dir (2 * length es + 2) (pad_sector (entries_encode es 0)) 0 = map to_rrec es
                      /\ exists r, map rr_id (map to_rrec es) = [0] :: [1] :: r) (f_iso ++ f_jol).
Proof.
  intros H. destruct (directories_wf _ _ _ _ _ _ _ H) as (pre & f_iso & f_jol & Hb & Hall).
  exists pre, f_iso, f_jol. split; [exact Hb|].
  eapply Forall_impl; [|exact Hall]. intros es [[Hf [r Hr]] _]. split.
  - apply directory_decodes. exact Hf.
  - exists r. rewrite map_map. exact Hr.
Qed.
