(* Proofs/ReadProofs.v — served bytes equal stored bytes (C02) and CD sector reads (C17). *)
From Coq Require Import ZifyBool ZifyNat.
From Verif Require Import Lib.Bytes Model.Path Model.Fs Model.Session Gen.Consts Spec.ProtoSpec Proofs.SessionProofs.

Ltac Zify.zify_post_hook ::= Z.div_mod_to_equations.

(* ---- slice is the sub-string [off, min(off+n, len)) ---- *)

Lemma nth_firstn_lt {A} (l : list A) d : forall n i, (i < n)%nat -> nth i (firstn n l) d = nth i l d.
Proof.
  induction l as [|x l IH]; intros n i H.
  - rewrite firstn_nil. reflexivity.
  - destruct n; [lia|]. destruct i; cbn [firstn nth]; [reflexivity|]. apply IH. lia.
Qed.

Lemma nth_skipn_add {A} (l : list A) d : forall n i, nth i (skipn n l) d = nth (n + i) l d.
Proof.
  induction l as [|x l IH]; intros n i.
  - rewrite skipn_nil. destruct i, n; reflexivity.
  - destruct n; cbn [skipn Nat.add nth]; [reflexivity|]. apply IH.
Qed.

Lemma slice_nth (l : bytes) off n j : 0 <= off -> 0 <= j < zlen (slice l off n) ->
  nth (Z.to_nat j) (slice l off n) 0 = nth (Z.to_nat (off + j)) l 0.
Proof.
  intros Ho Hj. pose proof (slice_length_eq l off n Ho) as L.
  unfold slice in *. destruct ((off <? 0) || (zlen l <=? off)) eqn:E.
  - unfold zlen in Hj; cbn in Hj. lia.
  - rewrite nth_firstn_lt by (unfold zlen in *; lia).
    rewrite nth_skipn_add. f_equal. lia.
Qed.

Lemma slice_slice (l : bytes) a L i m : 0 <= a -> 0 <= i -> 0 <= m -> i + m <= L ->
  slice (slice l a L) i m = slice l (a + i) m.
Proof.
  intros Ha Hi Hm Him.
  apply nth_ext with (d := 0) (d' := 0).
  - pose proof (slice_length_eq l a L Ha). pose proof (slice_length_eq (slice l a L) i m Hi).
    pose proof (slice_length_eq l (a + i) m ltac:(lia)). unfold zlen in *. lia.
  - intros j Hj.
    pose proof (slice_length_eq l a L Ha) as L1. pose proof (slice_length_eq (slice l a L) i m Hi) as L2.
    pose proof (slice_length_eq l (a + i) m ltac:(lia)) as L3.
    replace j with (Z.to_nat (Z.of_nat j)) by lia.
    rewrite slice_nth by (unfold zlen in *; lia).
    rewrite slice_nth by (unfold zlen in *; lia).
    rewrite slice_nth by (unfold zlen in *; lia).
    f_equal. lia.
Qed.

(* ---- the opened object is a plain file with content X ---- *)

Definition ro_is_file (w : world) (k : conn) (X : bytes) : Prop :=
  exists h i x, ro k = Some (VPlain h) /\ hobj_ h = HFile i /\ get_inode (inodes w) i = Some x /\ idata x = X.

Lemma view_read_file w h i x off n :
  hobj_ h = HFile i -> get_inode (inodes w) i = Some x -> 0 <= off <= fs_max_offset -> 0 <= n ->
  view_read w (VPlain h) off n = Ok (slice (idata x) off n).
Proof.
  intros Hh Hi Ho Hn. unfold view_read, h_read_at, fs_read. replace ((off <? 0) || (fs_max_offset <? off)) with false by lia.
  rewrite Hh, Hi. destruct (n <=? 0) eqn:E; [|reflexivity].
  assert (n = 0) by lia. subst. unfold slice.
  destruct ((off <? 0) || (zlen (idata x) <=? off)) eqn:E2; [reflexivity|].
  replace (Z.min 0 (zlen (idata x) - off)) with 0 by lia. reflexivity.
Qed.

(* READ_FILE: the exact count, then exactly the bytes [off, min(off+n, size)); nothing changes *)
Theorem read_file_exact c w k X n off :
  ro_is_file w k X -> 0 <= n -> 0 <= off <= fs_max_offset ->
  step c w k (RReadFile n off) = done w k (be32 (wrap32 (zlen (slice X off n))) ++ slice X off n).
Proof.
  intros (h & i & x & Hro & Hh & Hi & HX) Hn Ho. cbn [step]. rewrite Hro.
  replace (off <? 2 ^ 63) with true by (unfold fs_max_offset in *; lia).
  rewrite (view_read_file w h i x off n Hh Hi) by lia. rewrite HX. reflexivity.
Qed.

(* READ_FILE_CRITICAL: the raw bytes; the connection survives iff all n bytes were there *)
Theorem read_critical_exact c w k X n off :
  ro_is_file w k X -> 0 <= n -> 0 <= off <= fs_max_offset ->
  step c w k (RReadFileCritical n off) =
  if (n =? 0) || (off + n <=? zlen X) then done w k (slice X off n) else hangup w k (slice X off n).
Proof.
  intros (h & i & x & Hro & Hh & Hi & HX) Hn Ho. cbn [step]. rewrite Hro.
  replace (off <? 2 ^ 63) with true by (unfold fs_max_offset in *; lia).
  rewrite (view_read_file w h i x off n Hh Hi) by lia. rewrite HX.
  pose proof (slice_length_eq X off n ltac:(lia)) as L. pose proof (zlen_nonneg X).
  destruct ((n =? 0) || (off + n <=? zlen X)) eqn:E.
  - replace (zlen (slice X off n) =? n) with true by lia. reflexivity.
  - replace (zlen (slice X off n) =? n) with false by lia. reflexivity.
Qed.

(* an offset that lseek refuses - negative as a signed 64-bit number, or beyond what the filesystem can address -
   ends the connection without a byte, for both read commands *)
Theorem read_offset_refused c w k X n off :
  ro_is_file w k X -> 0 <= off < 2 ^ 64 -> 2 ^ 63 <= off \/ fs_max_offset < off ->
  step c w k (RReadFile n off) = hangup w k [] /\ step c w k (RReadFileCritical n off) = hangup w k [].
Proof.
  intros (h & i & x & Hro & Hh & Hi & HX) Hr Ho. cbn [step]. rewrite Hro. unfold view_read.
  destruct (off <? 2 ^ 63) eqn:E.
  - replace ((off <? 0) || (fs_max_offset <? off)) with true by lia. auto.
  - replace ((off - 2 ^ 64 <? 0) || (fs_max_offset <? off - 2 ^ 64)) with true by lia. auto.
Qed.

(* OPEN_FILE announces the size and mtime of the object it opened *)
Theorem open_file_announces c w k p h i x :
  list_eqb (last_elem (rooted_elems p)) closefile_name = false ->
  os_open c w (rooted_elems p) = Ok h -> hobj_ h = HFile i -> get_inode (inodes w) i = Some x ->
  o_out (step c w k (ROpenFile p)) = be64 (wrap64 (zlen (idata x))) ++ be64 (wrap64 (imtime x)) /\
  ro_is_file w (o_conn (step c w k (ROpenFile p))) (idata x) /\
  o_close (step c w k (ROpenFile p)) = false.
Proof.
  intros Hc Ho Hh Hi. cbn [step]. rewrite Hc. unfold fs_open_view. rewrite Ho. cbn [bind].
  unfold view_stat, h_stat. rewrite Hh. cbn [node_info]. rewrite Hi.
  cbn [fi_size fi_mtime]. cbv zeta.
  destruct (ro k); cbn [o_out o_conn o_close done set_ro ro]; (split; [reflexivity|split; [|reflexivity]]);
    exists h, i, x; auto.
Qed.

(* requests other than OPEN_FILE keep the opened object while the connection lives *)
Lemma step_keeps_ro c w k rq :
  (match rq with ROpenFile _ => False | _ => True end) ->
  ro (o_conn (step c w k rq)) = ro k /\ cdsec (o_conn (step c w k rq)) = cdsec k.
Proof.
  intros H. destruct rq; try contradiction; cbn [step]; cbv zeta;
    repeat break_match; cbn [o_conn done hangup set_cwd set_wo bump ro cdsec]; auto.
Qed.

(* ---- CD sector reads ---- *)

Fixpoint cd_sectors (X : bytes) (S off : Z) (cnt : nat) : bytes :=
  match cnt with
  | O => []
  | Datatypes.S k => slice X off cd_read_size ++ cd_sectors X S (off + S) k
  end.

Lemma cd_read_in_range w h i x S : forall cnt off,
  hobj_ h = HFile i -> get_inode (inodes w) i = Some x -> 0 <= off -> 0 < S -> zlen (idata x) <= fs_max_offset ->
  off + (Z.of_nat cnt - 1) * S + cd_read_size <= zlen (idata x) \/ cnt = O ->
  cd_read w (VPlain h) S off cnt = (cd_sectors (idata x) S off cnt, true).
Proof.
  induction cnt as [|k IH]; intros off Hh Hi Ho HS Hmax Hr; cbn [cd_read cd_sectors]; [reflexivity|].
  destruct Hr as [Hr|Hr]; [|discriminate].
  assert (0 < cd_read_size) as Hcd by (unfold cd_read_size; lia).
  assert (off <= fs_max_offset) by nia.
  rewrite (view_read_file w h i x off cd_read_size Hh Hi) by (auto; unfold cd_read_size; lia).
  pose proof (slice_length_eq (idata x) off cd_read_size Ho) as L.
  assert (0 < cd_read_size) by (unfold cd_read_size; lia).
  replace (zlen (slice (idata x) off cd_read_size) =? cd_read_size) with true by nia.
  rewrite IH; auto; try lia.
Qed.

(* READ_CD_2048(start, cnt) in range: exactly the user data [24 + (start+j)*S, +2048) of each sector *)
Theorem read_cd_exact c w k X start cnt :
  ro_is_file w k X -> 0 < cdsec k -> 0 <= start -> 0 <= cnt -> zlen X <= fs_max_offset ->
  psx_prefix + (start + cnt - 1) * cdsec k + cd_read_size <= zlen X \/ cnt = 0 ->
  step c w k (RReadCD start cnt) =
  done w k (cd_sectors X (cdsec k) (psx_prefix + start * cdsec k) (Z.to_nat cnt)).
Proof.
  intros (h & i & x & Hro & Hh & Hi & HX) HS Hs Hc Hmax Hr. cbn [step]. rewrite Hro.
  replace (cdsec k <=? 0) with false by lia.
  unfold view_stat, h_stat. rewrite Hh. cbn [node_info]. rewrite Hi. cbn [fi_size].
  assert (Z.min cnt (zlen (idata x) / cdsec k + 2) = cnt) as ->.
  { destruct Hr as [Hr| ->].
    - subst X. assert (0 < cd_read_size) by (unfold cd_read_size; lia). unfold psx_prefix in *.
      assert ((cnt - 1) * cdsec k <= zlen (idata x)) by nia.
      assert (cnt - 1 <= zlen (idata x) / cdsec k) by (apply Z.div_le_lower_bound; lia).
      lia.
    - pose proof (zlen_nonneg (idata x)). assert (0 <= zlen (idata x) / cdsec k) by (apply Z.div_pos; lia). lia. }
  rewrite (cd_read_in_range w h i x (cdsec k) (Z.to_nat cnt) _ Hh Hi) by (unfold psx_prefix in *; subst X; nia || lia).
  rewrite HX. reflexivity.
Qed.

(* ---- sector size detection ---- *)

(* the signature of an S-byte-sector image: ISO 9660 descriptor or PLAYSTATION system identifier in sector 16 *)
Definition sig_at (X : bytes) (S : Z) : bool :=
  list_eqb (slice X (system_area_sectors * S + psx_prefix) (zlen magic1)) magic1
  || list_eqb (slice X (system_area_sectors * S + psx_prefix + zlen magic1 + magic_extra) (zlen magic2)) magic2.

Definition probe_positions_ok : bool :=
  forallb (fun s => let idx := system_area_sectors * (s - hd 0 sector_sizes) in
                    (0 <=? idx) && (idx + zlen magic1 + magic_extra + zlen magic2 <=? detect_buf_len))
          sector_sizes.

Lemma probe_positions : probe_positions_ok = true.
Proof. vm_compute. reflexivity. Qed.

Lemma find_ext {A} (f g : A -> bool) l : (forall x, In x l -> f x = g x) -> find f l = find g l.
Proof.
  induction l as [|x l IH]; intros H; cbn [find]; [reflexivity|].
  rewrite (H x (or_introl eq_refl)). destruct (g x); [reflexivity|]. apply IH. intros y Hy. apply H. right; auto.
Qed.

Theorem detect_char w h i x :
  hobj_ h = HFile i -> get_inode (inodes w) i = Some x ->
  psx_prefix + system_area_sectors * hd 0 sector_sizes + detect_buf_len <= zlen (idata x) ->
  determine_sector_size w (VPlain h) =
  match find (sig_at (idata x)) sector_sizes with Some s => s | None => -1 end.
Proof.
  intros Hh Hi Hlen. unfold determine_sector_size.
  set (base := psx_prefix + system_area_sectors * hd 0 sector_sizes) in *.
  assert (0 <= base) by (vm_compute; discriminate).
  assert (0 <= detect_buf_len) by (vm_compute; discriminate).
  assert (base <= fs_max_offset) by (vm_compute; discriminate).
  rewrite (view_read_file w h i x base detect_buf_len Hh Hi) by lia.
  pose proof (slice_length_eq (idata x) base detect_buf_len ltac:(lia)) as L.
  replace (zlen (slice (idata x) base detect_buf_len) =? detect_buf_len) with true by lia.
  rewrite (find_ext (sector_probe (slice (idata x) base detect_buf_len)) (sig_at (idata x))); [reflexivity|].
  intros s Hs. pose proof probe_positions as P. unfold probe_positions_ok in P.
  rewrite forallb_forall in P. specialize (P s Hs). cbv zeta in P.
  unfold sector_probe, sig_at. cbv zeta.
  set (idx := system_area_sectors * (s - hd 0 sector_sizes)) in *.
  assert (0 <= zlen magic1) by apply zlen_nonneg. assert (0 <= zlen magic2) by apply zlen_nonneg.
  assert (0 <= magic_extra) by (vm_compute; discriminate).
  rewrite !slice_slice by lia.
  assert (base + idx = system_area_sectors * s + psx_prefix) as E.
  { subst base idx. ring. }
  rewrite <- E. f_equal; f_equal; f_equal; lia.
Qed.
