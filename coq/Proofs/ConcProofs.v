(* Proofs/ConcProofs.v — connections are isolated from each other (C12). *)
From Coq Require Import ZifyBool ZifyNat.
From Verif Require Import Lib.Bytes Model.Path Model.Fs Model.Session Gen.Consts Spec.ProtoSpec
  Proofs.ProtoProofs Proofs.SessionProofs Model.Conc.

(* schedules in which nothing changes the world: writing disabled, or only non-mutating requests *)
Definition quiet (c : cfg) (sched : list (nat * request)) : Prop :=
  allow_write c = false \/ Forall (fun ev => mutating (snd ev) = false) sched.

Lemma quiet_step c w k rq : allow_write c = false \/ mutating rq = false -> o_world (step c w k rq) = w.
Proof. intros [H|H]; [apply step_readonly|apply step_nonmutating]; exact H. Qed.

Lemma quiet_tail c ev r : quiet c (ev :: r) -> (allow_write c = false \/ mutating (snd ev) = false) /\ quiet c r.
Proof.
  intros [H|H]; [split; [left|left]; exact H|]. inversion H; subst. split; [right; assumption|right; assumption].
Qed.

(* for every interleaving, every connection receives exactly what it would receive alone *)
Theorem isolation c i : forall sched w ks, quiet c sched ->
  project i (grun c (w, ks) sched) = solo c w (ks i) (requests_of i sched).
Proof.
  induction sched as [|[j rq] r IH]; intros w ks Hq; [reflexivity|].
  destruct (quiet_tail c (j, rq) r Hq) as [Hs Hr]. cbn [snd] in Hs.
  cbn [grun gstep]. rewrite (quiet_step c w (ks j) rq Hs).
  unfold project, requests_of. cbn [filter fst snd].
  destruct (j =? i)%nat eqn:E.
  - apply Nat.eqb_eq in E. subst j. cbn [map fst snd solo]. rewrite (quiet_step c w (ks i) rq Hs).
    f_equal. fold (project i (grun c (w, set_conn ks i (o_conn (step c w (ks i) rq))) r)).
    fold (requests_of i r). rewrite IH by exact Hr. unfold set_conn. rewrite Nat.eqb_refl. reflexivity.
  - fold (project i (grun c (w, set_conn ks j (o_conn (step c w (ks j) rq))) r)). fold (requests_of i r).
    rewrite IH by exact Hr. unfold set_conn. rewrite Nat.eqb_sym, E. reflexivity.
Qed.

(* the state of one connection is never touched by another's step *)
Lemma other_conn_untouched c w ks j rq i : i <> j ->
  snd (fst (gstep c (w, ks) (j, rq))) i = ks i.
Proof.
  intros H. cbn [gstep fst snd]. unfold set_conn.
  destruct (i =? j)%nat eqn:E; [apply Nat.eqb_eq in E; contradiction|reflexivity].
Qed.

(* the pooled buffer: whatever a previous user left in it, exactly the source's bytes are written *)
Theorem copy_buffer_clean : forall chunks buf, Forall (fun ch => (length ch <= length buf)%nat) chunks ->
  fst (copy_buffer buf chunks) = concat chunks.
Proof.
  induction chunks as [|ch r IH]; intros buf H; [reflexivity|].
  inversion H; subst. cbn [copy_buffer concat].
  specialize (IH (ch ++ skipn (length ch) buf)).
  destruct (copy_buffer (ch ++ skipn (length ch) buf) r) as [out bufe]. cbn [fst] in *.
  rewrite firstn_app_exact by reflexivity. f_equal. apply IH.
  apply Forall_forall. intros x Hx. rewrite Forall_forall in H3. specialize (H3 x Hx).
  rewrite app_length, skipn_length. lia.
Qed.
