(* Proofs/Examples.v — a small concrete world and session shared by the non-vacuity examples. *)
From Verif Require Import Lib.Bytes Model.Path Model.Fs Model.Session Gen.Consts Spec.ProtoSpec.

Definition ex_name_a : bytes := [97].             (* "a" *)
Definition ex_name_d : bytes := [100].            (* "d" *)
Definition ex_name_R : bytes := [82].             (* "R" *)
Definition ex_hello : bytes := [104;101;108;108;111;32;119;111;114;108;100].   (* "hello world" *)

Definition ex_world : world :=
  {| tree := Dir 10 [(ex_name_R, Dir 20 [(ex_name_a, File 0); (ex_name_d, Dir 30 [(ex_name_a, File 1)])]);
                     ([82;45;111], Dir 40 [([115], File 2)])];       (* sibling "R-o" with an outside file "s" *)
     inodes := [(0%nat, {| idata := ex_hello; imtime := 100 |});
                (1%nat, {| idata := [1;2;3]; imtime := 200 |});
                (2%nat, {| idata := [9;9;9;9]; imtime := 300 |})];
     next_ino := 3 |}.

Definition ex_cfg (aw : bool) : cfg := {| root := [ex_name_R]; plen := 10; allow_write := aw; tmut := 999 |}.

Definition ex_junk : bytes := repeat 7 14.
Definition ex_path_a : bytes := [47;97].          (* "/a" *)
Definition ex_path_d : bytes := [47;100].         (* "/d" *)
